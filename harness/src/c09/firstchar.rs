//! C09, section H: literal spellings whose FIRST character selects the lexer
//! path.
//!
//! A hex letter can start an identifier or an IPv6 address, `A` can start an AS
//! number too, `f` an f-string, a digit can start an integer, a float, a hex
//! number, an IPv4 or an IPv6 address, `:` an IPv6 address. This table spells
//! one literal per (first character × kind × shape) from the documented
//! grammar — IPv6 addresses and prefixes beginning with every hex digit in
//! both cases, groups of 1–4 digits, `::` at every position; AS numbers;
//! identifiers beginning with `AS` / `as` / hex letters / `f`; numbers
//! beginning with `0x` / `0` / every digit — and checks, for each,
//!   T. the lexer yields ONE token of the documented kind spanning the text,
//!   P. the parse hook decodes the documented value,
//!   V. the compiled script evaluates to the documented value (oracle: Rust
//!      std — `Ipv6Addr::from_str`, `Ipv4Addr`, `u32`/`i64`/`f64::from_str`).
//! Seed-independent; runs first in the quick tier.

use super::{LitCase, compile, hexs, hook, run_literal};
use rotov_harness::Report;
use serde_json::json;
use std::net::{IpAddr, Ipv4Addr, Ipv6Addr};

struct Rep {
    kind: &'static str,
    lit: String,
    /// debug name of the one token expected (`IpV6`, `Asn`, `Ident`, …)
    token: &'static str,
    /// expected s-expression of the parse hook
    parse: Option<String>,
    /// program body, return type, canonical expected value
    body: String,
    ret: &'static str,
    expect: String,
    class: String,
}

const HEX_FIRST: &str = "0123456789abcdefABCDEF";

fn first_class(c: char) -> &'static str {
    match c {
        '0' => "zero",
        '1'..='9' => "digit",
        'A' => "upper-A",
        'a' => "lower-a",
        'f' => "lower-f",
        'F' => "upper-F",
        'b'..='e' => "lower-hex",
        'B'..='E' => "upper-hex",
        ':' => "colon",
        _ => "other",
    }
}

fn ipv6_reps(out: &mut Vec<Rep>) {
    let mut lits: Vec<(String, String)> = vec![]; // literal, shape
    let fillers = ["", "c", "0D", "a0F"];
    let groups = ["1", "b2", "0C3", "d4E5", "6", "f", "A7"];
    for first in HEX_FIRST.chars() {
        for (gl, fill) in fillers.iter().enumerate() {
            let g0 = format!("{first}{fill}");
            // `::` after k groups, with 0, 1 or the maximal number of groups after it
            for k in 1..=7usize {
                let before: Vec<&str> = std::iter::once(g0.as_str()).chain(groups.iter().copied().take(k - 1)).collect();
                let mut afters = vec![0usize, 1, 7 - k];
                afters.sort();
                afters.dedup();
                for after_n in afters {
                    if after_n > 7 - k {
                        continue;
                    }
                    let after: Vec<&str> = groups.iter().rev().copied().take(after_n).collect();
                    lits.push((format!("{}::{}", before.join(":"), after.join(":")), format!("g{}|compress-after-{k}|then-{after_n}", gl + 1)));
                }
            }
            // all eight groups
            let full: Vec<&str> = std::iter::once(g0.as_str()).chain(groups.iter().copied()).collect();
            lits.push((full.join(":"), format!("g{}|full", gl + 1)));
        }
    }
    // leading `::`
    for tail in ["", "1", "A", "a", "f", "F", "AS1", "a:b", "A:B:C:D:E:F:0", "0"] {
        if tail == "AS1" {
            continue;
        }
        lits.push((format!("::{tail}"), format!("leading-compress|{}", if tail.is_empty() { "all-zero".into() } else { format!("then-{}", tail.split(':').count()) })));
    }
    lits.sort();
    lits.dedup();
    for (lit, shape) in lits {
        let Ok(addr) = lit.parse::<Ipv6Addr>() else {
            continue; // the table only spells documented addresses
        };
        let first = lit.chars().next().unwrap();
        let shown = IpAddr::V6(addr);
        out.push(Rep {
            kind: "ipv6",
            token: "IpV6",
            parse: Some(format!("(ip {shown})")),
            body: lit.clone(),
            ret: "IpAddr",
            expect: format!("ip:{shown}"),
            class: format!("first|ipv6|{}|{shape}", first_class(first)),
            lit,
        });
    }
    // prefixes built from addresses with every first character
    for first in HEX_FIRST.chars().chain(std::iter::once(':')) {
        for (tail, len) in [("C10::", 16u32), ("::", 8), ("1:2::", 48), (":0:0:0:0:0:0:0", 128)] {
            let lit6 = if first == ':' { "::".to_string() } else { format!("{first}{tail}") };
            let Ok(addr) = lit6.parse::<Ipv6Addr>() else { continue };
            let a = u128::from(addr);
            let masked = if len == 0 { 0 } else { a & (u128::MAX << (128 - len)) };
            for sp in ["", " "] {
                let lit = format!("{lit6}{sp}/{sp}{len}");
                out.push(Rep {
                    kind: "prefix",
                    token: "",
                    parse: None,
                    body: format!("let p: Prefix = {lit}; p.to_string()"),
                    ret: "String",
                    expect: format!("str:{}", hexs(&format!("{}/{len}", Ipv6Addr::from(masked)))),
                    class: format!("first|prefix6|{}|/{len}|{}", first_class(first), if sp.is_empty() { "tight" } else { "spaced" }),
                    lit,
                });
            }
            if first == ':' {
                break;
            }
        }
    }
}

fn asn_reps(out: &mut Vec<Rep>) {
    for n in [0u32, 1, 9, 10, 64512, 65535, 65536, 4294967295] {
        for lit in [format!("AS{n}")] {
            out.push(Rep {
                kind: "asn",
                token: "Asn",
                parse: Some(format!("(asn {n})")),
                body: format!("{lit}.to_string()"),
                ret: "String",
                expect: format!("str:{}", hexs(&format!("AS{n}"))),
                class: format!("first|asn|{}", n.to_string().len()),
                lit,
            });
        }
    }
}

fn ident_reps(out: &mut Vec<Rep>) {
    let words = [
        // around `AS`
        "A", "AS", "ASN", "AS_1", "ASx", "ASa1", "As1", "aS1", "as1", "asn", "a", "A1", "A_", "AB", "Ab1",
        // hex letters, both cases (an IPv6 address needs two `:`)
        "b", "c", "d", "e", "f", "B", "C", "D", "E", "F", "abc", "ABC", "face", "FACE", "beef", "Beef", "dead_beef", "DEADBEEF",
        "c0de", "C0DE", "e1", "E1", "f00", "F00", "ac10", "AC10", "fe80", "FE80", "a0", "A0", "ff", "FF", "add", "Add", "bad", "cafe", "decade", "fed",
        // `f` (f-strings start with `f"`)
        "f1", "f_", "foo", "f32x", "ff0", "fa", "fA",
        // other first characters
        "g", "G", "x0", "_a", "_A", "_0", "z9",
    ];
    for w in words {
        let first = w.chars().next().unwrap();
        out.push(Rep {
            kind: "ident",
            token: "Ident",
            parse: Some(w.to_string()),
            body: format!("let {w} = 20; {w} + 1"),
            ret: "i32",
            expect: "21".into(),
            class: format!("first|ident|{}|{}", first_class(first), if w.len() == 1 { "single" } else if w.starts_with("AS") || w.starts_with("as") || w.starts_with("As") || w.starts_with("aS") { "as-like" } else if w.chars().all(|c| c.is_ascii_hexdigit()) { "all-hex" } else { "mixed" }),
            lit: w.to_string(),
        });
    }
}

fn number_reps(out: &mut Vec<Rep>) {
    let mut int = |lit: &str, v: i64, suffix: &str| {
        let ret: &'static str = match suffix {
            "u8" => "u8",
            "u32" => "u32",
            "i8" => "i8",
            "u64" => "u64",
            _ => "i64",
        };
        let first = lit.chars().next().unwrap();
        let hex = lit.starts_with("0x");
        out.push(Rep {
            kind: "int",
            token: if hex { "Hex" } else { "Integer" },
            parse: Some(format!("(int {v} {})", if suffix.is_empty() { "-" } else { suffix })),
            body: lit.to_string(),
            ret,
            expect: v.to_string(),
            class: format!("first|int|{}|{}|{}", first_class(first), if hex { "hex" } else { "dec" }, if suffix.is_empty() { "nosuffix" } else { "suffix" }),
            lit: lit.to_string(),
        });
    };
    int("0", 0, "");
    int("00", 0, "");
    int("007", 7, "");
    int("0_0", 0, "");
    int("0_9", 9, "");
    int("0u8", 0, "u8");
    int("0i64", 0, "i64");
    int("09u32", 9, "u32");
    int("0x0", 0, "");
    int("0x00ff", 255, "");
    int("0xFF", 255, "");
    int("0xaBc", 0xabc, "");
    int("0xA", 10, "");
    int("0xa", 10, "");
    int("0xf", 15, "");
    int("0xF0", 240, "");
    int("0x7fffffffffffffff", i64::MAX, "");
    for d in 1..=9i64 {
        int(&d.to_string(), d, "");
        int(&format!("{d}0"), d * 10, "");
        int(&format!("{d}u8"), d, "u8");
        int(&format!("{d}_{d}i64"), d * 11, "i64");
        int(&format!("0x{d}"), d, "");
        int(&format!("0x{d}A"), d * 16 + 10, "");
    }
    let mut float = |lit: String, suffix: &str| {
        let clean: String = lit.trim_end_matches(suffix).replace('_', "");
        let v: f64 = clean.parse().expect("valid float spelling");
        let first = lit.chars().next().unwrap();
        let ret: &'static str = if suffix == "f32" { "f32" } else { "f64" };
        out.push(Rep {
            kind: "float",
            token: if clean.contains(['.', 'e', 'E']) { "Float" } else { "Integer" },
            parse: Some(format!("(float {} {})", v.to_bits(), if suffix.is_empty() { "-" } else { suffix })),
            body: lit.clone(),
            ret,
            expect: if ret == "f32" { format!("f32:{}", (v as f32).to_bits()) } else { format!("f64:{}", v.to_bits()) },
            class: format!("first|float|{}|{}|{}", first_class(first), if clean.contains('.') { "point" } else if clean.contains(['e', 'E']) { "exp" } else { "int-token" }, if suffix.is_empty() { "nosuffix" } else { "suffix" }),
            lit,
        });
    };
    for d in 0..=9 {
        float(format!("{d}.5"), "");
        float(format!("{d}.0f64"), "f64");
        float(format!("{d}e2"), "");
        float(format!("{d}E-1"), "");
        float(format!("{d}.25e+1f32"), "f32");
        float(format!("{d}f64"), "f64");
        float(format!("0{d}.5"), "");
        float(format!("{d}_0.0_5"), "");
    }
    for a in 0..=9u8 {
        for (b, c, d) in [(0u8, 0u8, 0u8), (255, 255, 255), (1, 2, 3), (10, 0, 1)] {
            let a = if (b, c, d) == (255, 255, 255) { a.wrapping_mul(25) | 1 } else { a };
            let lit = format!("{a}.{b}.{c}.{d}");
            let shown = IpAddr::V4(Ipv4Addr::new(a, b, c, d));
            let first = lit.chars().next().unwrap();
            out.push(Rep {
                kind: "ipv4",
                token: "IpV4",
                parse: Some(format!("(ip {shown})")),
                body: lit.clone(),
                ret: "IpAddr",
                expect: format!("ip:{shown}"),
                class: format!("first|ipv4|{}", first_class(first)),
                lit,
            });
        }
    }
}

fn as_case(r: &Rep) -> LitCase {
    LitCase {
        kind: r.kind,
        lit: r.lit.clone(),
        src: format!("fn main() -> {} {{ {} }}", r.ret, r.body),
        ret: r.ret.to_string(),
        expect: r.expect.clone(),
        lean: None,
        parse: None,
        class: String::new(),
    }
}

fn key_of(r: &Rep) -> String {
    if r.kind == "ident" { "identifier".into() } else { format!("literal-{}", r.kind) }
}

fn replay_input(r: &Rep) -> serde_json::Value {
    if r.kind == "ident" {
        json!({"kind": "ident", "word": r.lit})
    } else {
        json!({"kind": "literal", "lit_kind": r.kind, "src": format!("fn main() -> {} {{ {} }}", r.ret, r.body), "ret": r.ret, "expect": r.expect})
    }
}

/// all functions in ONE script (a compile per literal is slow); `None` when the
/// script as a whole is rejected
fn batch_values(reps: &[&Rep]) -> Option<Vec<Result<String, String>>> {
    let mut src = String::new();
    for (i, r) in reps.iter().enumerate() {
        src.push_str(&format!("fn q{i}_() -> {} {{ {} }}\n", r.ret, r.body));
    }
    let mut pkg = compile(&src).ok()?;
    let mut out = vec![];
    for (i, r) in reps.iter().enumerate() {
        let name = format!("q{i}_");
        macro_rules! call {
            ($t:ty, $f:expr) => {
                pkg.get_function::<fn() -> $t>(&name).map(|f| $f(f.call())).map_err(|e| format!("{e}"))
            };
        }
        out.push(match r.ret {
            "IpAddr" => call!(IpAddr, |v: IpAddr| format!("ip:{v}")),
            "String" => call!(roto::RotoString, |v: roto::RotoString| format!("str:{}", hexs(&v))),
            "f64" => call!(f64, |v: f64| format!("f64:{}", v.to_bits())),
            "f32" => call!(f32, |v: f32| format!("f32:{}", v.to_bits())),
            "i64" => call!(i64, |v: i64| v.to_string()),
            "i32" => call!(i32, |v: i32| v.to_string()),
            "u8" => call!(u8, |v: u8| v.to_string()),
            "i8" => call!(i8, |v: i8| v.to_string()),
            "u32" => call!(u32, |v: u32| v.to_string()),
            "u64" => call!(u64, |v: u64| v.to_string()),
            other => Err(format!("return type {other}")),
        });
    }
    Some(out)
}

pub fn run(rep: &mut Report) {
    let mut reps = vec![];
    ipv6_reps(&mut reps);
    asn_reps(&mut reps);
    ident_reps(&mut reps);
    number_reps(&mut reps);

    // T, P: one token of the documented kind; the decoded value
    let mut good: Vec<&Rep> = vec![];
    for r in &reps {
        rep.evaluations += 1;
        rep.class(r.class.clone());
        rep.hist("first-character", format!("{}|{}", r.kind, first_class(r.lit.chars().next().unwrap())));
        let mut ok = true;
        if !r.token.is_empty() {
            let toks = hook::tokens(&r.lit, false);
            let one = matches!(&toks, Ok(t) if t.len() == 1 && t[0].1 == 0 && t[0].2 == r.lit.len() && t[0].0.starts_with(&format!("{}(", r.token)));
            if !one {
                ok = false;
                rep.violation(
                    "a literal / identifier spelled per the documented grammar is not lexed as one token of its kind (the token kind must not depend on which hex letter or digit comes first)",
                    &key_of(r),
                    json!({"case": replay_input(r), "literal": r.lit, "expected_token": r.token, "tokens": format!("{toks:?}").chars().take(300).collect::<String>()}),
                );
            }
        }
        if let (true, Some(want)) = (ok, &r.parse) {
            let got = hook::parse_expr(&format!("{} ", r.lit));
            if got.as_deref() != Ok(want.as_str()) {
                ok = false;
                rep.violation(
                    "a literal / identifier spelled per the documented grammar does not parse to the documented value",
                    &key_of(r),
                    json!({"case": replay_input(r), "literal": r.lit, "documented": want, "got": format!("{got:?}").chars().take(300).collect::<String>()}),
                );
            }
        }
        if ok {
            good.push(r);
        }
    }
    // V: values on the JIT, many functions per script
    for chunk in good.chunks(150) {
        let vals = batch_values(chunk);
        for (i, r) in chunk.iter().enumerate() {
            rep.evaluations += 1;
            let got = match &vals {
                Some(v) => v[i].clone(),
                None => run_literal(&as_case(r)),
            };
            if got.as_ref().ok() != Some(&r.expect) {
                rep.violation(
                    "a literal / identifier spelled per the documented grammar is rejected or evaluates to another value",
                    &key_of(r),
                    json!({"case": replay_input(r), "literal": r.lit, "got": format!("{got:?}").chars().take(300).collect::<String>()}),
                );
            }
        }
    }
}
