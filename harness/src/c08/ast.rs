//! The C08 core language on the Rust side: typed AST, printer to Roto source,
//! printer to the s-expression `lean/Driver/C08.lean` parses, static
//! statistics, and the one-step edits the shrinker tries.
//!
//! The Lean side (`RotoV/Model/TraceSpec.lean`) has the same constructors.

use std::collections::BTreeMap;

#[derive(Clone, Copy, Debug, PartialEq, Eq, Hash, PartialOrd, Ord)]
pub enum T {
    I,   // i32
    B,   // bool
    U,   // ()
    S,   // String
    O,   // i32?
    E,   // enum E { A(i32), B(i32, i32), C }
    R,   // record R { b: i32, c: i32, a: i32 }
    L,   // List[i32]
    V,   // Verdict[i32, i32]  (only as a function's return type)
    K,   // Tok: a registered host type (value type) whose methods and equality log
    P,   // record P { b: i32, c: i32 }            (two fields)
    G,   // record G[T] { b: T, c: T, a: T }      at T = i32 (generic, three fields)
    H,   // record H[T] { b: T, c: T }            at T = i32 (generic, two fields)
}

/// The record types: (type, name in a literal, number of fields). The fields of every one are a
/// prefix of `FIELDS` (so a field is named by its position alone).
pub const RECORDS: [(T, &str, usize); 4] = [(T::R, "R", 3), (T::P, "P", 2), (T::G, "G", 3), (T::H, "H", 2)];

/// How a record literal is written: the record type it has (by its own name or from the
/// context), and whether the name is left out (`{ c: …, b: … }`).
#[derive(Clone, Copy, Debug, PartialEq, Eq)]
pub struct Rk {
    pub ty: T,
    pub anon: bool,
}

pub const RK_R: Rk = Rk { ty: T::R, anon: false };
pub const RK_RA: Rk = Rk { ty: T::R, anon: true };

impl T {
    pub fn roto(self) -> &'static str {
        match self {
            T::I => "i32",
            T::B => "bool",
            T::U => "()",
            T::S => "String",
            T::O => "i32?",
            T::E => "E",
            T::R => "R",
            T::L => "List[i32]",
            T::V => "Verdict[i32, i32]",
            T::K => "Tok",
            T::P => "P",
            T::G => "G[i32]",
            T::H => "H[i32]",
        }
    }
    /// number of fields of a record type (0 for the others)
    pub fn nfields(self) -> usize {
        RECORDS.iter().find(|r| r.0 == self).map(|r| r.2).unwrap_or(0)
    }
    pub fn is_record(self) -> bool {
        self.nfields() > 0
    }
    /// the name a literal of this record type carries
    pub fn lit_name(self) -> &'static str {
        RECORDS.iter().find(|r| r.0 == self).map(|r| r.1).unwrap_or("?")
    }
    pub fn name(self) -> &'static str {
        match self {
            T::I => "i32",
            T::B => "bool",
            T::U => "unit",
            T::S => "string",
            T::O => "option",
            T::E => "enum",
            T::R => "record",
            T::L => "list",
            T::V => "verdict",
            T::K => "tok",
            T::P => "record2",
            T::G => "grecord",
            T::H => "grecord2",
        }
    }
    pub fn parse(s: &str) -> Option<T> {
        [T::I, T::B, T::U, T::S, T::O, T::E, T::R, T::L, T::V, T::K, T::P, T::G, T::H].into_iter().find(|t| t.name() == s)
    }
}

#[derive(Clone, Copy, Debug, PartialEq, Eq)]
pub enum Op {
    Add,
    Sub,
    Mul,
    Eq,
    Ne,
    Lt,
    Le,
    Gt,
    Ge,
}

impl Op {
    pub fn sym(self) -> &'static str {
        match self {
            Op::Add => "+",
            Op::Sub => "-",
            Op::Mul => "*",
            Op::Eq => "==",
            Op::Ne => "!=",
            Op::Lt => "<",
            Op::Le => "<=",
            Op::Gt => ">",
            Op::Ge => ">=",
        }
    }
    pub fn name(self) -> &'static str {
        match self {
            Op::Add => "add",
            Op::Sub => "sub",
            Op::Mul => "mul",
            Op::Eq => "eq",
            Op::Ne => "ne",
            Op::Lt => "lt",
            Op::Le => "le",
            Op::Gt => "gt",
            Op::Ge => "ge",
        }
    }
    pub fn is_arith(self) -> bool {
        matches!(self, Op::Add | Op::Sub | Op::Mul)
    }
}

/// host function ids (see host.rs)
pub const H_EMIT: usize = 0;
pub const H_EMIT_B: usize = 1;
pub const H_EMIT_U: usize = 2;
pub const H_EMIT_S: usize = 3;
pub const H_EMIT_O: usize = 4;
pub const H_MIX: usize = 5;
pub const H_EMIT3: usize = 6;
pub const H_EMIT_L: usize = 7;
/// `tok(k, v) -> Tok`
pub const H_TOK: usize = 8;
/// `Tok.to_string(self) -> String` as an explicit method call (the compiler calls the same
/// function implicitly for `{e}` in an f-string; that is not a `Host` node but part of `FStr`)
pub const H_TO_STRING: usize = 9;
/// `Tok.peek(self, k) -> i32`
pub const H_PEEK: usize = 10;

pub fn host_name(f: usize) -> &'static str {
    ["emit", "emit_b", "emit_u", "emit_s", "emit_o", "mix", "emit3", "emit_l", "tok", "to_string", "peek"][f]
}

pub fn host_ret(f: usize) -> T {
    [T::I, T::B, T::U, T::S, T::O, T::I, T::I, T::L, T::K, T::S, T::I][f]
}

/// a method: argument 0 is the receiver
pub fn is_method(f: usize) -> bool {
    matches!(f, H_MIX | H_TO_STRING | H_PEEK)
}

/// the position of the call-site key among the arguments (`to_string` has none)
pub fn key_pos(f: usize) -> Option<usize> {
    match f {
        H_TO_STRING => None,
        H_MIX | H_PEEK => Some(1),
        _ => Some(0),
    }
}

/// record R { b: i32, c: i32, a: i32 }: the fields by position in the declaration — deliberately
/// not alphabetical, so that "as written", "as declared" and "sorted by name" are three orders
pub const FIELDS: [&str; 3] = ["b", "c", "a"];

/// The six orders in which a literal can write the three fields (positions in the declaration).
pub const PERMS: [[usize; 3]; 6] = [[0, 1, 2], [0, 2, 1], [1, 0, 2], [1, 2, 0], [2, 0, 1], [2, 1, 0]];

/// … and the two orders of two fields.
pub const PERMS2: [[usize; 2]; 2] = [[0, 1], [1, 0]];

/// every order in which a literal can write `n` (2 or 3) fields
pub fn perms_of(n: usize) -> Vec<Vec<usize>> {
    if n == 2 { PERMS2.iter().map(|p| p.to_vec()).collect() } else { PERMS.iter().map(|p| p.to_vec()).collect() }
}

/// enum E { A(i32), B(i32, i32), C }
pub const VARIANTS: [(&str, usize); 3] = [("A", 1), ("B", 2), ("C", 0)];

#[derive(Clone, Debug, PartialEq)]
pub enum E {
    Int(i32),
    Bool(bool),
    Unit,
    Var(usize),
    Host(usize, Vec<E>),
    Call(usize, Vec<E>),
    Bin(Op, Box<E>, Box<E>),
    And(Box<E>, Box<E>),
    Or(Box<E>, Box<E>),
    Not(Box<E>),
    Neg(Box<E>),
    Ite(Box<E>, Blk, Blk),
    If1(Box<E>, Blk),
    /// examinee, is it an option (else enum E), arms
    Match(Box<E>, bool, Vec<Arm>),
    While(Box<E>, Blk),
    For(usize, Box<E>, Blk),
    Block(Blk),
    Assign(usize, Box<E>),
    CAssign(Op, usize, Box<E>),
    /// `x.f = e` / `x.f op= e`: field (position in the declaration) of a variable of type `R`
    AssignF(usize, usize, Box<E>),
    CAssignF(Op, usize, usize, Box<E>),
    Ret(Box<E>),
    Accept(Box<E>),
    Reject(Box<E>),
    Try(Box<E>),
    Some(Box<E>),
    None_,
    Ctor(usize, Vec<E>),
    /// A literal of a record type (`R`, `P`, `G[i32]`, `H[i32]`): the fields AS WRITTEN — (position
    /// of the field in the declaration of the type, expression). `anon`: anonymous
    /// (`{ c: …, b: …, a: … }`, typed by its context or by itself), else `R { … }` / `G { … }`.
    Record(Rk, Vec<(usize, E)>),
    Field(Box<E>, usize),
    List(Vec<E>),
    FStr(Vec<Part>),
    /// `l + r` on strings
    Concat(Box<E>, Box<E>),
    /// `l + r` on lists (`List.concat`, the same `desugared_binop`); the specification's `concat` too
    ConcatL(Box<E>, Box<E>),
}

#[derive(Clone, Debug, PartialEq)]
pub enum Part {
    Str(String),
    Expr(E),
}

#[derive(Clone, Debug, PartialEq)]
pub enum S {
    Let(usize, E),
    Do(E),
}

#[derive(Clone, Debug, PartialEq, Default)]
pub struct Blk {
    pub stmts: Vec<S>,
    pub last: Option<Box<E>>,
}

#[derive(Clone, Debug, PartialEq)]
pub enum Pat {
    Variant(usize, Vec<usize>),
    Wild,
}

#[derive(Clone, Debug, PartialEq)]
pub struct Arm {
    pub pat: Pat,
    pub guard: Option<E>,
    pub body: Blk,
}

#[derive(Clone, Debug, PartialEq)]
pub struct Fn_ {
    pub params: Vec<usize>,
    pub ret: T,
    pub body: Blk,
}

/// Functions in definition order; the last one is `main(x0: i32, x1: i32, x2: bool)`.
/// Variable ids are unique in the whole program; `var_tys[id]` is the type.
#[derive(Clone, Debug, PartialEq)]
pub struct Prog {
    pub fns: Vec<Fn_>,
    pub var_tys: Vec<T>,
}

// ------------------------------------------------------------- Roto source

fn ind(n: usize) -> String {
    "    ".repeat(n)
}

pub fn source(p: &Prog) -> String {
    let mut out = String::new();
    out.push_str(&format!(
        "enum E {{ A(i32), B(i32, i32), C }}\nrecord R {{ {} }}\n",
        FIELDS.iter().map(|f| format!("{f}: i32")).collect::<Vec<_>>().join(", ")
    ));
    // the other record types are declared only where they are used (a program without them
    // reads as before)
    let mut used: Vec<T> = vec![];
    for f in &p.fns {
        used.extend(f.params.iter().map(|x| p.var_tys[*x]));
        let body = E::Block(f.body.clone());
        used.extend(lit_types(&body));
        used.extend(let_types(p, &body));
    }
    for (t, name, n) in RECORDS.iter().skip(1) {
        if used.contains(t) {
            let generic = matches!(t, T::G | T::H);
            out.push_str(&format!(
                "record {name}{} {{ {} }}\n",
                if generic { "[T]" } else { "" },
                FIELDS[..*n].iter().map(|f| format!("{f}: {}", if generic { "T" } else { "i32" })).collect::<Vec<_>>().join(", ")
            ));
        }
    }
    let last = p.fns.len() - 1;
    for (i, f) in p.fns.iter().enumerate() {
        let name = if i == last { "main".to_string() } else { format!("f{i}") };
        let params: Vec<String> = f.params.iter().map(|x| format!("x{x}: {}", p.var_tys[*x].roto())).collect();
        let ret = if f.ret == T::U { String::new() } else { format!(" -> {}", f.ret.roto()) };
        out.push_str(&format!("fn {name}({}){ret} {}\n", params.join(", "), blk(p, &f.body, 0)));
    }
    out
}

fn blk(p: &Prog, b: &Blk, d: usize) -> String {
    if b.stmts.is_empty() {
        return match &b.last {
            None => "{ }".to_string(),
            Some(e) => format!("{{ {} }}", stmt_expr(p, e, d + 1)),
        };
    }
    let mut s = String::from("{\n");
    for st in &b.stmts {
        s.push_str(&ind(d + 1));
        match st {
            S::Let(x, e) => s.push_str(&format!("let x{x}: {} = {};\n", p.var_tys[*x].roto(), expr(p, e, d + 1))),
            S::Do(e) => s.push_str(&format!("{};\n", stmt_expr(p, e, d + 1))),
        }
    }
    if let Some(e) = &b.last {
        s.push_str(&ind(d + 1));
        s.push_str(&stmt_expr(p, e, d + 1));
        s.push('\n');
    }
    s.push_str(&ind(d));
    s.push('}');
    s
}

/// An f-string as the first token of a block (`{ { f"…" } }`) or after `return`
/// does not parse on this tree (a parser matter, not C08's): parenthesise it.
fn stmt_expr(p: &Prog, e: &E, d: usize) -> String {
    if matches!(e, E::FStr(_)) { format!("({})", expr(p, e, d)) } else { expr(p, e, d) }
}

fn atomic(e: &E) -> bool {
    match e {
        E::Int(_) | E::Bool(_) | E::Unit | E::Var(_) | E::Call(..) | E::List(_) | E::None_ | E::Some(_) | E::Ctor(..) => true,
        E::Host(f, _) => !is_method(*f),
        _ => false,
    }
}

/// the types of the variables an expression declares with `let`
fn let_types(p: &Prog, e: &E) -> Vec<T> {
    fn blk(p: &Prog, b: &Blk, out: &mut Vec<T>) {
        for s in &b.stmts {
            if let S::Let(x, _) = s {
                out.push(p.var_tys[*x]);
            }
        }
    }
    let mut out = vec![];
    match e {
        E::Block(b) | E::If1(_, b) | E::While(_, b) | E::For(_, _, b) => blk(p, b, &mut out),
        E::Ite(_, a, b) => {
            blk(p, a, &mut out);
            blk(p, b, &mut out);
        }
        E::Match(_, _, arms) => arms.iter().for_each(|a| blk(p, &a.body, &mut out)),
        _ => {}
    }
    for c in children(e) {
        out.extend(let_types(p, c));
    }
    out
}

/// the record types of the literals in an expression
fn lit_types(e: &E) -> Vec<T> {
    let mut out = vec![];
    if let E::Record(rk, _) = e {
        out.push(rk.ty);
    }
    for c in children(e) {
        out.extend(lit_types(c));
    }
    out
}

/// operand position: parenthesise anything that is not obviously atomic
fn operand(p: &Prog, e: &E, d: usize) -> String {
    if atomic(e) { expr(p, e, d) } else { format!("({})", expr(p, e, d)) }
}

fn args(p: &Prog, es: &[E], d: usize) -> String {
    es.iter().map(|e| expr(p, e, d)).collect::<Vec<_>>().join(", ")
}

fn pat(pt: &Pat, is_opt: bool) -> String {
    match pt {
        Pat::Wild => "_".to_string(),
        Pat::Variant(v, bs) => {
            let name = if is_opt { ["Some", "None"][*v] } else { VARIANTS[*v].0 };
            if bs.is_empty() {
                name.to_string()
            } else {
                format!("{name}({})", bs.iter().map(|x| format!("x{x}")).collect::<Vec<_>>().join(", "))
            }
        }
    }
}

pub fn expr(p: &Prog, e: &E, d: usize) -> String {
    match e {
        E::Int(n) => format!("{n}"),
        E::Bool(b) => format!("{b}"),
        E::Unit => "()".to_string(),
        E::Var(x) => format!("x{x}"),
        E::Host(f, a) if is_method(*f) => format!("{}.{}({})", operand(p, &a[0], d), host_name(*f), args(p, &a[1..], d)),
        E::Host(f, a) => format!("{}({})", host_name(*f), args(p, a, d)),
        E::Call(f, a) => format!("f{f}({})", args(p, a, d)),
        E::Bin(op, l, r) => format!("{} {} {}", operand(p, l, d), op.sym(), operand(p, r, d)),
        E::And(l, r) => format!("{} && {}", operand(p, l, d), operand(p, r, d)),
        E::Or(l, r) => format!("{} || {}", operand(p, l, d), operand(p, r, d)),
        E::Not(x) => format!("!{}", operand(p, x, d)),
        E::Neg(x) => format!("-{}", operand(p, x, d)),
        E::Ite(c, t, el) => format!("if {} {} else {}", expr(p, c, d), blk(p, t, d), blk(p, el, d)),
        E::If1(c, t) => format!("if {} {}", expr(p, c, d), blk(p, t, d)),
        E::Match(s, is_opt, arms) => {
            let mut o = format!("match {} {{\n", operand(p, s, d));
            for a in arms {
                o.push_str(&ind(d + 1));
                o.push_str(&pat(&a.pat, *is_opt));
                if let Some(g) = &a.guard {
                    o.push_str(&format!(" if {}", expr(p, g, d + 1)));
                }
                // an arm body is always printed as a non-empty block expression
                let b = if a.body.stmts.is_empty() && a.body.last.is_none() { "{ () }".to_string() } else { blk(p, &a.body, d + 1) };
                o.push_str(&format!(" => {b}\n"));
            }
            o.push_str(&ind(d));
            o.push('}');
            o
        }
        E::While(c, b) => format!("while {} {}", expr(p, c, d), blk(p, b, d)),
        E::For(x, l, b) => format!("for x{x} in {} {}", operand(p, l, d), blk(p, b, d)),
        // `{ }` in expression position is an empty record, not an empty block
        E::Block(b) if b.stmts.is_empty() && b.last.is_none() => "{ () }".to_string(),
        E::Block(b) => blk(p, b, d),
        E::Assign(x, v) => format!("x{x} = {}", expr(p, v, d)),
        E::CAssign(op, x, v) => format!("x{x} {}= {}", op.sym(), expr(p, v, d)),
        E::AssignF(x, i, v) => format!("x{x}.{} = {}", FIELDS[*i], expr(p, v, d)),
        E::CAssignF(op, x, i, v) => format!("x{x}.{} {}= {}", FIELDS[*i], op.sym(), expr(p, v, d)),
        E::Ret(v) => format!("return {}", operand(p, v, d)),
        E::Accept(v) => format!("accept {}", operand(p, v, d)),
        E::Reject(v) => format!("reject {}", operand(p, v, d)),
        E::Try(v) => format!("{}?", operand(p, v, d)),
        E::Some(v) => format!("Option.Some({})", expr(p, v, d)),
        E::None_ => "Option.None".to_string(),
        E::Ctor(v, a) => {
            if a.is_empty() { format!("E.{}", VARIANTS[*v].0) } else { format!("E.{}({})", VARIANTS[*v].0, args(p, a, d)) }
        }
        E::Record(rk, fs) => format!(
            "{}{}{{ {} }}",
            if rk.anon { "" } else { rk.ty.lit_name() },
            if rk.anon { "" } else { " " },
            fs.iter().map(|(i, e)| format!("{}: {}", FIELDS[*i], expr(p, e, d))).collect::<Vec<_>>().join(", ")
        ),
        E::Field(r, i) => format!("{}.{}", operand(p, r, d), FIELDS[*i]),
        E::List(es) => format!("[{}]", args(p, es, d)),
        E::Concat(l, r) | E::ConcatL(l, r) => format!("{} + {}", operand(p, l, d), operand(p, r, d)),
        E::FStr(parts) => {
            let mut o = String::from("f\"");
            for pt in parts {
                match pt {
                    Part::Str(s) => o.push_str(s),
                    Part::Expr(e) => o.push_str(&format!("{{{}}}", operand(p, e, d))),
                }
            }
            o.push('"');
            o
        }
    }
}

// ----------------------------------------------------------- s-expression

pub fn hex(s: &str) -> String {
    s.bytes().map(|b| format!("{b:02x}")).collect()
}

pub fn sexp(p: &Prog) -> String {
    let fns: Vec<String> = p
        .fns
        .iter()
        .map(|f| format!("(fn ({}) {})", f.params.iter().map(|x| x.to_string()).collect::<Vec<_>>().join(" "), sblk(p, &f.body)))
        .collect();
    format!("(prog {})", fns.join(" "))
}

fn sblk(p: &Prog, b: &Blk) -> String {
    let mut items: Vec<String> = b
        .stmts
        .iter()
        .map(|s| match s {
            S::Let(x, e) => format!("(let {x} {})", sx(p, e)),
            S::Do(e) => format!("(do {})", sx(p, e)),
        })
        .collect();
    if let Some(e) = &b.last {
        items.push(format!("(last {})", sx(p, e)));
    }
    format!("(blk {})", items.join(" "))
}

fn sxs(p: &Prog, es: &[E]) -> String {
    es.iter().map(|e| sx(p, e)).collect::<Vec<_>>().join(" ")
}

fn spat(p: &Pat) -> String {
    match p {
        Pat::Wild => "(wild)".to_string(),
        Pat::Variant(v, bs) => format!("(v {v} {})", bs.iter().map(|x| x.to_string()).collect::<Vec<_>>().join(" ")),
    }
}

pub fn sx(p: &Prog, e: &E) -> String {
    match e {
        E::Int(n) => format!("(int {n})"),
        E::Bool(b) => format!("(bool {})", *b as u8),
        E::Unit => "(unit)".to_string(),
        E::Var(x) => format!("(var {x})"),
        E::Host(f, a) => format!("(host {f} {})", sxs(p, a)),
        E::Call(f, a) => format!("(call {f} {})", sxs(p, a)),
        // `==` / `!=` on the host type is a construct of its own in the specification (an implicit host call)
        E::Bin(op @ (Op::Eq | Op::Ne), l, r) if type_of(p, l) == Some(T::K) || type_of(p, r) == Some(T::K) => {
            format!("(eqh {} {} {})", (*op == Op::Ne) as u8, sx(p, l), sx(p, r))
        }
        E::Bin(op, l, r) => format!("(bin {} {} {})", op.name(), sx(p, l), sx(p, r)),
        E::And(l, r) => format!("(and {} {})", sx(p, l), sx(p, r)),
        E::Or(l, r) => format!("(or {} {})", sx(p, l), sx(p, r)),
        E::Not(x) => format!("(not {})", sx(p, x)),
        E::Neg(x) => format!("(neg {})", sx(p, x)),
        E::Ite(c, t, el) => format!("(ite {} {} {})", sx(p, c), sblk(p, t), sblk(p, el)),
        E::If1(c, t) => format!("(if1 {} {})", sx(p, c), sblk(p, t)),
        E::Match(s, is_opt, arms) => {
            let a: Vec<String> = arms
                .iter()
                .map(|a| match &a.guard {
                    None => format!("(arm {} {})", spat(&a.pat), sblk(p, &a.body)),
                    Some(g) => format!("(armg {} {} {})", spat(&a.pat), sx(p, g), sblk(p, &a.body)),
                })
                .collect();
            format!("(match {} {} {})", if *is_opt { "opt" } else { "enm" }, sx(p, s), a.join(" "))
        }
        E::While(c, b) => format!("(while {} {})", sx(p, c), sblk(p, b)),
        E::For(x, l, b) => format!("(for {x} {} {})", sx(p, l), sblk(p, b)),
        E::Block(b) => format!("(block {})", sblk(p, b)),
        E::Assign(x, v) => format!("(set {x} {})", sx(p, v)),
        E::CAssign(op, x, v) => format!("(cset {} {x} {})", op.name(), sx(p, v)),
        E::AssignF(x, i, v) => format!("(setf {x} {i} {})", sx(p, v)),
        E::CAssignF(op, x, i, v) => format!("(csetf {} {x} {i} {})", op.name(), sx(p, v)),
        E::Ret(v) => format!("(ret {})", sx(p, v)),
        E::Accept(v) => format!("(accept {})", sx(p, v)),
        E::Reject(v) => format!("(reject {})", sx(p, v)),
        E::Try(v) => format!("(try {})", sx(p, v)),
        E::Some(v) => format!("(some {})", sx(p, v)),
        E::None_ => "(none)".to_string(),
        E::Ctor(v, a) => format!("(ctor {v} {})", sxs(p, a)),
        E::Record(_, fs) => format!(
            "(record ({}) {})",
            fs.iter().map(|(i, _)| i.to_string()).collect::<Vec<_>>().join(" "),
            fs.iter().map(|(_, e)| sx(p, e)).collect::<Vec<_>>().join(" ")
        ),
        E::Field(r, i) => format!("(field {} {i})", sx(p, r)),
        E::List(es) => format!("(list {})", sxs(p, es)),
        E::Concat(l, r) | E::ConcatL(l, r) => format!("(concat {} {})", sx(p, l), sx(p, r)),
        E::FStr(parts) => {
            let ps: Vec<String> = parts
                .iter()
                .map(|pt| match pt {
                    Part::Str(s) => format!("(s x{})", hex(s)),
                    Part::Expr(e) => format!("(e {})", sx(p, e)),
                })
                .collect();
            format!("(fstr {})", ps.join(" "))
        }
    }
}

// ------------------------------------------------------- static statistics

pub fn kind(e: &E) -> String {
    match e {
        E::Int(_) | E::Bool(_) | E::Unit => "lit".into(),
        E::Var(_) => "var".into(),
        E::Host(f, _) => format!("host:{}", host_name(*f)),
        E::Call(..) => "call".into(),
        E::Bin(op, ..) => format!("bin{}", op.sym()),
        E::And(..) => "&&".into(),
        E::Or(..) => "||".into(),
        E::Not(_) => "not".into(),
        E::Neg(_) => "neg".into(),
        E::Ite(..) => "if-else".into(),
        E::If1(..) => "if".into(),
        E::Match(_, true, _) => "match-option".into(),
        E::Match(_, false, _) => "match-enum".into(),
        E::While(..) => "while".into(),
        E::For(..) => "for".into(),
        E::Block(_) => "block".into(),
        E::Assign(..) => "assign".into(),
        E::CAssign(..) => "compound-assign".into(),
        E::AssignF(..) => "assign-field".into(),
        E::CAssignF(..) => "compound-assign-field".into(),
        E::Ret(_) => "return".into(),
        E::Accept(_) => "accept".into(),
        E::Reject(_) => "reject".into(),
        E::Try(_) => "?".into(),
        E::Some(_) => "Some".into(),
        E::None_ => "None".into(),
        E::Ctor(..) => "enum-ctor".into(),
        E::Record(..) => "record".into(),
        E::Field(..) => "field".into(),
        E::List(_) => "list".into(),
        E::FStr(_) => "f-string".into(),
        E::Concat(..) => "string+".into(),
        E::ConcatL(..) => "list+".into(),
    }
}

pub fn children(e: &E) -> Vec<&E> {
    let mut v: Vec<&E> = vec![];
    fn b<'a>(v: &mut Vec<&'a E>, bl: &'a Blk) {
        for s in &bl.stmts {
            match s {
                S::Let(_, e) | S::Do(e) => v.push(e),
            }
        }
        if let Some(e) = &bl.last {
            v.push(e);
        }
    }
    match e {
        E::Int(_) | E::Bool(_) | E::Unit | E::Var(_) | E::None_ => {}
        E::Host(_, a) | E::Call(_, a) | E::Ctor(_, a) | E::List(a) => v.extend(a.iter()),
        E::Record(_, fs) => v.extend(fs.iter().map(|(_, e)| e)),
        E::Bin(_, l, r) | E::And(l, r) | E::Or(l, r) | E::Concat(l, r) | E::ConcatL(l, r) => {
            v.push(l);
            v.push(r);
        }
        E::Not(x) | E::Neg(x) | E::Assign(_, x) | E::CAssign(_, _, x) | E::AssignF(_, _, x) | E::CAssignF(_, _, _, x) | E::Ret(x) | E::Accept(x) | E::Reject(x) | E::Try(x) | E::Some(x) | E::Field(x, _) => v.push(x),
        E::Ite(c, t, el) => {
            v.push(c);
            b(&mut v, t);
            b(&mut v, el);
        }
        E::If1(c, t) | E::While(c, t) | E::For(_, c, t) => {
            v.push(c);
            b(&mut v, t);
        }
        E::Match(s, _, arms) => {
            v.push(s);
            for a in arms {
                if let Some(g) = &a.guard {
                    v.push(g);
                }
                b(&mut v, &a.body);
            }
        }
        E::Block(bl) => b(&mut v, bl),
        E::FStr(ps) => {
            for p in ps {
                if let Part::Expr(e) = p {
                    v.push(e);
                }
            }
        }
    }
    v
}

/// does the expression contain a host call?
pub fn effectful(e: &E) -> bool {
    matches!(e, E::Host(..) | E::Call(..)) || children(e).into_iter().any(effectful)
}

/// construct histogram, plus "position" classes: (parent construct, child index, child is effectful)
pub fn constructs(p: &Prog) -> (BTreeMap<String, u64>, BTreeMap<String, u64>, usize) {
    fn walk(p: &Prog, e: &E, d: usize, cons: &mut BTreeMap<String, u64>, pos: &mut BTreeMap<String, u64>, depth: &mut usize) {
        *cons.entry(kind(e)).or_insert(0) += 1;
        *depth = (*depth).max(d);
        if let E::Match(_, _, arms) = e {
            if arms.iter().any(|a| a.guard.is_some()) {
                *cons.entry("match-guard".into()).or_insert(0) += 1;
            }
            if arms.iter().any(|a| a.pat == Pat::Wild) {
                *cons.entry("match-wildcard".into()).or_insert(0) += 1;
            }
        }
        if let E::Record(rk, fs) = e {
            if fs.windows(2).any(|w| w[0].0 > w[1].0) {
                *cons.entry("record-not-in-declared-order".into()).or_insert(0) += 1;
            }
            if rk.anon {
                *cons.entry("record-anonymous".into()).or_insert(0) += 1;
            }
            if matches!(rk.ty, T::G | T::H) {
                *cons.entry("record-generic".into()).or_insert(0) += 1;
            }
            if fs.len() == 2 {
                *cons.entry("record-2-fields".into()).or_insert(0) += 1;
            }
        }
        // host calls the compiler inserts implicitly
        if let E::FStr(ps) = e {
            if ps.iter().any(|pt| matches!(pt, Part::Expr(x) if type_of(p, x) == Some(T::K))) {
                *cons.entry("implicit-to_string".into()).or_insert(0) += 1;
            }
        }
        if let E::Bin(Op::Eq | Op::Ne, l, _) = e {
            if type_of(p, l) == Some(T::K) {
                *cons.entry("implicit-eq".into()).or_insert(0) += 1;
            }
        }
        for (i, c) in children(e).into_iter().enumerate() {
            if effectful(c) {
                *pos.entry(format!("{}[{}]<-{}", kind(e), i.min(3), kind(c))).or_insert(0) += 1;
            }
            walk(p, c, d + 1, cons, pos, depth);
        }
    }
    let (mut cons, mut pos, mut depth) = (BTreeMap::new(), BTreeMap::new(), 0);
    for f in &p.fns {
        let wrapper = E::Block(f.body.clone());
        for c in children(&wrapper) {
            walk(p, c, 1, &mut cons, &mut pos, &mut depth);
        }
    }
    (cons, pos, depth)
}

// ------------------------------------------------------------- the shrinker

/// A literal of the given type (used to replace a sub-expression).
pub fn default_of(t: T) -> Option<E> {
    Some(match t {
        T::I => E::Int(0),
        T::B => E::Bool(false),
        T::U => E::Unit,
        T::S => E::FStr(vec![]),
        T::O => E::None_,
        T::E => E::Ctor(2, vec![]),
        T::R | T::P | T::G | T::H => E::Record(Rk { ty: t, anon: false }, (0..t.nfields()).map(|i| (i, E::Int(0))).collect()),
        T::L => E::List(vec![]),
        T::K => E::Host(H_TOK, vec![E::Int(0), E::Int(0)]),
        T::V => return None,
    })
}

/// Static type of an expression (None: diverges or unknown).
pub fn type_of(p: &Prog, e: &E) -> Option<T> {
    fn blk_ty(p: &Prog, b: &Blk) -> Option<T> {
        match &b.last {
            None => Some(T::U),
            Some(e) => type_of(p, e),
        }
    }
    match e {
        E::Int(_) => Some(T::I),
        E::Bool(_) => Some(T::B),
        E::Unit => Some(T::U),
        E::Var(x) => p.var_tys.get(*x).copied(),
        E::Host(f, _) => Some(host_ret(*f)),
        E::Call(f, _) => p.fns.get(*f).map(|f| f.ret),
        E::Bin(op, ..) => Some(if op.is_arith() { T::I } else { T::B }),
        E::And(..) | E::Or(..) | E::Not(_) => Some(T::B),
        E::Neg(_) => Some(T::I),
        E::Ite(_, t, el) => blk_ty(p, t).or_else(|| blk_ty(p, el)),
        E::If1(..) | E::While(..) | E::For(..) | E::Assign(..) | E::CAssign(..) | E::AssignF(..) | E::CAssignF(..) => Some(T::U),
        E::Match(_, _, arms) => arms.iter().find_map(|a| blk_ty(p, &a.body)),
        E::Block(b) => blk_ty(p, b),
        E::Ret(_) | E::Accept(_) | E::Reject(_) => None,
        E::Try(_) => Some(T::I),
        E::Some(_) | E::None_ => Some(T::O),
        E::Ctor(..) => Some(T::E),
        E::Record(rk, _) => Some(rk.ty),
        E::Field(..) => Some(T::I),
        E::List(_) | E::ConcatL(..) => Some(T::L),
        E::FStr(_) | E::Concat(..) => Some(T::S),
    }
}

/// All one-step simplifications of an expression *at its root*.
fn root_edits(p: &Prog, e: &E) -> Vec<E> {
    let mut out = vec![];
    let ty = type_of(p, e);
    // a same-typed child replaces the node
    if let Some(t) = ty {
        for c in children(e) {
            if type_of(p, c) == Some(t) && !matches!(e, E::While(..) | E::For(..)) {
                out.push(c.clone());
            }
        }
        // branches of an if / arms of a match as block expressions
        match e {
            E::Ite(_, a, b) => {
                out.push(E::Block(a.clone()));
                out.push(E::Block(b.clone()));
            }
            E::Match(_, _, arms) => {
                for a in arms {
                    if !matches!(a.pat, Pat::Variant(_, ref bs) if !bs.is_empty()) {
                        out.push(E::Block(a.body.clone()));
                    }
                }
            }
            E::Block(b) if b.stmts.is_empty() => {
                if let Some(l) = &b.last {
                    out.push((**l).clone());
                }
            }
            _ => {}
        }
        if let Some(d) = default_of(t) {
            if &d != e && !matches!(e, E::Int(_) | E::Bool(_) | E::Unit | E::None_) {
                out.push(d);
            }
        }
        if let E::Int(n) = e {
            if *n != 0 && *n != 1 {
                out.push(E::Int(1));
            }
        }
    }
    // structure-preserving reductions
    match e {
        E::Match(s, o, arms) if arms.len() > 1 => {
            for i in 0..arms.len() {
                let mut a = arms.clone();
                a.remove(i);
                out.push(E::Match(s.clone(), *o, a));
            }
            for i in 0..arms.len() {
                if arms[i].guard.is_some() {
                    let mut a = arms.clone();
                    a[i].guard = None;
                    out.push(E::Match(s.clone(), *o, a));
                }
            }
        }
        E::List(es) if !es.is_empty() => {
            for i in 0..es.len() {
                let mut a = es.clone();
                a.remove(i);
                out.push(E::List(a));
            }
        }
        E::FStr(ps) if !ps.is_empty() => {
            for i in 0..ps.len() {
                let mut a = ps.clone();
                a.remove(i);
                out.push(E::FStr(a));
            }
        }
        E::Record(rk, fs) => {
            // the same literal with the fields written in the order of the declaration
            if fs.windows(2).any(|w| w[0].0 > w[1].0) {
                let mut a = fs.clone();
                a.sort_by_key(|(i, _)| *i);
                out.push(E::Record(*rk, a));
            }
            // the same literal with the type's name in front
            if rk.anon {
                out.push(E::Record(Rk { ty: rk.ty, anon: false }, fs.clone()));
            }
        }
        _ => {}
    }
    out
}

fn blk_edits(p: &Prog, b: &Blk, k: &mut usize, top_ret: bool) -> Option<Blk> {
    // drop a statement
    for i in 0..b.stmts.len() {
        if *k == 0 {
            let mut nb = b.clone();
            nb.stmts.remove(i);
            return Some(nb);
        }
        *k -= 1;
    }
    // drop the final expression of a unit block
    let _ = top_ret;
    for i in 0..b.stmts.len() {
        let e = match &b.stmts[i] {
            S::Let(_, e) | S::Do(e) => e,
        };
        if let Some(ne) = expr_edits(p, e, k) {
            let mut nb = b.clone();
            nb.stmts[i] = match &b.stmts[i] {
                S::Let(x, _) => S::Let(*x, ne),
                S::Do(_) => S::Do(ne),
            };
            return Some(nb);
        }
    }
    if let Some(l) = &b.last {
        if let Some(ne) = expr_edits(p, l, k) {
            let mut nb = b.clone();
            nb.last = Some(Box::new(ne));
            return Some(nb);
        }
    }
    None
}

/// The `k`-th edit inside `e` (root edits first, then children), decrementing `k`.
fn expr_edits(p: &Prog, e: &E, k: &mut usize) -> Option<E> {
    let roots = root_edits(p, e);
    if *k < roots.len() {
        return Some(roots[*k].clone());
    }
    *k -= roots.len();
    macro_rules! sub {
        ($x:expr, $mk:expr) => {
            if let Some(n) = expr_edits(p, $x, k) {
                return Some($mk(Box::new(n)));
            }
        };
    }
    macro_rules! subv {
        ($v:expr, $mk:expr) => {
            for i in 0..$v.len() {
                if let Some(n) = expr_edits(p, &$v[i], k) {
                    let mut nv = $v.clone();
                    nv[i] = n;
                    return Some($mk(nv));
                }
            }
        };
    }
    match e {
        E::Int(_) | E::Bool(_) | E::Unit | E::Var(_) | E::None_ => {}
        E::Host(f, a) => {
            // the call-site key (argument 0; argument 1 of a method) is never edited
            let key = key_pos(*f);
            for i in 0..a.len() {
                if Some(i) == key {
                    continue;
                }
                if let Some(n) = expr_edits(p, &a[i], k) {
                    let mut nv = a.clone();
                    nv[i] = n;
                    return Some(E::Host(*f, nv));
                }
            }
        }
        E::Call(f, a) => subv!(a, |nv| E::Call(*f, nv)),
        E::Ctor(v, a) => subv!(a, |nv| E::Ctor(*v, nv)),
        E::Record(rk, fs) => {
            for i in 0..fs.len() {
                if let Some(n) = expr_edits(p, &fs[i].1, k) {
                    let mut nf = fs.clone();
                    nf[i].1 = n;
                    return Some(E::Record(*rk, nf));
                }
            }
        }
        E::List(a) => subv!(a, E::List),
        E::Bin(op, l, r) => {
            sub!(l, |n| E::Bin(*op, n, r.clone()));
            sub!(r, |n| E::Bin(*op, l.clone(), n));
        }
        E::And(l, r) => {
            sub!(l, |n| E::And(n, r.clone()));
            sub!(r, |n| E::And(l.clone(), n));
        }
        E::Or(l, r) => {
            sub!(l, |n| E::Or(n, r.clone()));
            sub!(r, |n| E::Or(l.clone(), n));
        }
        E::Concat(l, r) => {
            sub!(l, |n| E::Concat(n, r.clone()));
            sub!(r, |n| E::Concat(l.clone(), n));
        }
        E::ConcatL(l, r) => {
            sub!(l, |n| E::ConcatL(n, r.clone()));
            sub!(r, |n| E::ConcatL(l.clone(), n));
        }
        E::Not(x) => sub!(x, E::Not),
        E::Neg(x) => sub!(x, E::Neg),
        E::Assign(v, x) => sub!(x, |n| E::Assign(*v, n)),
        E::CAssign(op, v, x) => sub!(x, |n| E::CAssign(*op, *v, n)),
        E::AssignF(v, i, x) => sub!(x, |n| E::AssignF(*v, *i, n)),
        E::CAssignF(op, v, i, x) => sub!(x, |n| E::CAssignF(*op, *v, *i, n)),
        E::Ret(x) => sub!(x, E::Ret),
        E::Accept(x) => sub!(x, E::Accept),
        E::Reject(x) => sub!(x, E::Reject),
        E::Try(x) => sub!(x, E::Try),
        E::Some(x) => sub!(x, E::Some),
        E::Field(x, i) => sub!(x, |n| E::Field(n, *i)),
        E::Ite(c, t, el) => {
            sub!(c, |n| E::Ite(n, t.clone(), el.clone()));
            if let Some(nb) = blk_edits(p, t, k, false) {
                return Some(E::Ite(c.clone(), nb, el.clone()));
            }
            if let Some(nb) = blk_edits(p, el, k, false) {
                return Some(E::Ite(c.clone(), t.clone(), nb));
            }
        }
        E::If1(c, t) => {
            sub!(c, |n| E::If1(n, t.clone()));
            if let Some(nb) = blk_edits(p, t, k, false) {
                return Some(E::If1(c.clone(), nb));
            }
        }
        E::While(c, t) => {
            sub!(c, |n| E::While(n, t.clone()));
            if let Some(nb) = blk_edits(p, t, k, false) {
                return Some(E::While(c.clone(), nb));
            }
        }
        E::For(x, c, t) => {
            sub!(c, |n| E::For(*x, n, t.clone()));
            if let Some(nb) = blk_edits(p, t, k, false) {
                return Some(E::For(*x, c.clone(), nb));
            }
        }
        E::Block(b) => {
            if let Some(nb) = blk_edits(p, b, k, false) {
                return Some(E::Block(nb));
            }
        }
        E::Match(s, o, arms) => {
            sub!(s, |n| E::Match(n, *o, arms.clone()));
            for i in 0..arms.len() {
                if let Some(g) = &arms[i].guard {
                    if let Some(ng) = expr_edits(p, g, k) {
                        let mut a = arms.clone();
                        a[i].guard = Some(ng);
                        return Some(E::Match(s.clone(), *o, a));
                    }
                }
                if let Some(nb) = blk_edits(p, &arms[i].body, k, false) {
                    let mut a = arms.clone();
                    a[i].body = nb;
                    return Some(E::Match(s.clone(), *o, a));
                }
            }
        }
        E::FStr(ps) => {
            for i in 0..ps.len() {
                if let Part::Expr(x) = &ps[i] {
                    if let Some(n) = expr_edits(p, x, k) {
                        let mut np = ps.clone();
                        np[i] = Part::Expr(n);
                        return Some(E::FStr(np));
                    }
                }
            }
        }
    }
    None
}

fn calls_in(e: &E, out: &mut Vec<usize>) {
    if let E::Call(f, _) = e {
        out.push(*f);
    }
    for c in children(e) {
        calls_in(c, out);
    }
}

fn renumber(e: &mut E, removed: usize) {
    fn blk(b: &mut Blk, removed: usize) {
        for s in &mut b.stmts {
            match s {
                S::Let(_, e) | S::Do(e) => renumber(e, removed),
            }
        }
        if let Some(e) = &mut b.last {
            renumber(e, removed);
        }
    }
    match e {
        E::Int(_) | E::Bool(_) | E::Unit | E::Var(_) | E::None_ => {}
        E::Call(f, a) => {
            if *f > removed {
                *f -= 1;
            }
            a.iter_mut().for_each(|x| renumber(x, removed));
        }
        E::Host(_, a) | E::Ctor(_, a) | E::List(a) => a.iter_mut().for_each(|x| renumber(x, removed)),
        E::Record(_, fs) => fs.iter_mut().for_each(|(_, x)| renumber(x, removed)),
        E::Bin(_, l, r) | E::And(l, r) | E::Or(l, r) | E::Concat(l, r) | E::ConcatL(l, r) => {
            renumber(l, removed);
            renumber(r, removed);
        }
        E::Not(x) | E::Neg(x) | E::Assign(_, x) | E::CAssign(_, _, x) | E::AssignF(_, _, x) | E::CAssignF(_, _, _, x) | E::Ret(x) | E::Accept(x) | E::Reject(x) | E::Try(x) | E::Some(x) | E::Field(x, _) => renumber(x, removed),
        E::Ite(c, t, el) => {
            renumber(c, removed);
            blk(t, removed);
            blk(el, removed);
        }
        E::If1(c, t) | E::While(c, t) | E::For(_, c, t) => {
            renumber(c, removed);
            blk(t, removed);
        }
        E::Match(s, _, arms) => {
            renumber(s, removed);
            for a in arms {
                if let Some(g) = &mut a.guard {
                    renumber(g, removed);
                }
                blk(&mut a.body, removed);
            }
        }
        E::Block(b) => blk(b, removed),
        E::FStr(ps) => {
            for p in ps {
                if let Part::Expr(e) = p {
                    renumber(e, removed);
                }
            }
        }
    }
}

/// The `k`-th one-step simplification of the program (None: no more).
pub fn edit(p: &Prog, k: usize) -> Option<Prog> {
    let mut k = k;
    // drop a helper function nobody calls (later functions are renumbered)
    let mut called = vec![];
    for f in &p.fns {
        calls_in(&E::Block(f.body.clone()), &mut called);
    }
    for i in 0..p.fns.len() - 1 {
        if !called.contains(&i) {
            if k == 0 {
                let mut np = p.clone();
                np.fns.remove(i);
                for f in &mut np.fns {
                    let mut b = E::Block(std::mem::take(&mut f.body));
                    renumber(&mut b, i);
                    if let E::Block(nb) = b {
                        f.body = nb;
                    }
                }
                return Some(np);
            }
            k -= 1;
        }
    }
    for i in (0..p.fns.len()).rev() {
        let mut kk = k;
        if let Some(nb) = blk_edits(p, &p.fns[i].body, &mut kk, true) {
            let mut np = p.clone();
            np.fns[i].body = nb;
            return Some(np);
        }
        k = kk;
    }
    None
}
