//! Type-directed generator of C08 programs: every position that the property
//! talks about (operands, call arguments incl. the receiver, record fields,
//! list elements, constructor arguments, f-string parts, `&&`/`||` operands,
//! conditions, guards, arms, loop conditions and bodies, right-hand sides of
//! (compound) assignments, operands of return/accept/reject/`?`) is filled
//! with expressions that call the logging host functions, each call site with
//! its own key. Variable reads are made observable by assignments inside
//! nested blocks (`x - { x = 100; 1 }`).
//!
//! Termination: `while` loops run on a dedicated counter the body cannot
//! assign (`i < N` is a conjunct of the condition, `i = i + 1` ends the body);
//! `for` runs over a list value; helper functions only call earlier ones.

use super::ast::*;
use rotov_harness::Prng;

pub struct Generated {
    pub prog: Prog,
}

struct Sig {
    params: Vec<T>,
    ret: T,
}

struct G<'a> {
    p: &'a mut Prng,
    var_tys: Vec<T>,
    /// variables whose type is written in the source (`let x: T`, parameters); pattern and
    /// `for` binders take theirs from inference and may still be `{integer}` where they are used
    annotated: Vec<bool>,
    /// visible variables: (id, assignable)
    scope: Vec<(usize, bool)>,
    ret: T,
    sigs: Vec<Sig>,
    key: i32,
    budget: i64,
    /// stay inside the fragment `lean/RotoV/Model/LowerS.lean` models (for the MIR comparison)
    frag: bool,
}

const LET_TYS: [T; 16] = [T::I, T::I, T::I, T::B, T::B, T::O, T::E, T::R, T::R, T::L, T::S, T::K, T::K, T::P, T::G, T::H];

impl G<'_> {
    fn fresh(&mut self, t: T, assignable: bool) -> usize {
        self.var_tys.push(t);
        self.annotated.push(true);
        let id = self.var_tys.len() - 1;
        self.scope.push((id, assignable));
        id
    }
    fn binder(&mut self) -> usize {
        let id = self.fresh(T::I, false);
        self.annotated[id] = false;
        id
    }
    fn k(&mut self) -> E {
        self.key += 1;
        E::Int(self.key)
    }
    fn vars(&self, t: T) -> Vec<usize> {
        self.scope.iter().filter(|(x, _)| self.var_tys[*x] == t).map(|(x, _)| *x).collect()
    }
    fn assignable(&self) -> Vec<usize> {
        self.scope.iter().filter(|(_, a)| *a).map(|(x, _)| *x).collect()
    }
    fn spend(&mut self) -> bool {
        self.budget -= 1;
        self.budget > 0
    }

    /// A literal of `R` from the field expressions in the order in which they were generated
    /// (= the order in which they are written, so call-site keys ascend in source order); the
    /// fields they belong to are a random one of the six orders, independent of the declaration.
    fn record(&mut self, ty: T, es: Vec<E>) -> E {
        let perms = perms_of(ty.nfields());
        let perm = self.p.pick(&perms).clone();
        E::Record(Rk { ty, anon: false }, perm.iter().copied().zip(es).collect())
    }

    /// a record type with three fields (`R` mostly) where the caller only wants "some record"
    fn some_record_ty(&mut self) -> T {
        match self.p.below(8) {
            0 => T::P,
            1 => T::G,
            2 => T::H,
            _ => T::R,
        }
    }

    /// Where the context fixes the type (annotated `let`, assignment to a variable of type `R`)
    /// or the literal may keep its own anonymous type (`{ … }.f`), write it without the name.
    fn maybe_anon(&mut self, e: E) -> E {
        match e {
            E::Record(rk, fs) if !rk.anon && self.p.chance(1, 2) => E::Record(Rk { ty: rk.ty, anon: true }, fs),
            other => other,
        }
    }

    fn int_lit(&mut self) -> E {
        match self.p.below(12) {
            0 => E::Int(2147483647),
            1 => E::Int(1000),
            2 => E::Int(100),
            _ => E::Int(self.p.below(8) as i32),
        }
    }

    fn leaf(&mut self, t: T) -> E {
        let vs = self.vars(t);
        if !vs.is_empty() && self.p.chance(3, 5) {
            let x = *self.p.pick(&vs);
            if !self.annotated[x] {
                // the binder's type may still be `{integer}` here: pass it through a typed parameter
                return E::Host(H_EMIT, vec![self.k(), E::Var(x)]);
            }
            return E::Var(x);
        }
        match t {
            T::I => self.int_lit(),
            T::B => E::Bool(self.p.chance(1, 2)),
            T::U => E::Unit,
            T::S => E::FStr(vec![Part::Str("s".into())]),
            T::O => {
                if self.p.chance(1, 2) { E::None_ } else { E::Some(Box::new(self.int_lit())) }
            }
            T::E => match self.p.below(3) {
                0 => E::Ctor(0, vec![self.int_lit()]),
                1 => E::Ctor(1, vec![self.int_lit(), self.int_lit()]),
                _ => E::Ctor(2, vec![]),
            },
            T::R | T::P | T::G | T::H => {
                let es = (0..t.nfields()).map(|_| self.int_lit()).collect();
                self.record(t, es)
            }
            T::L => E::List((0..self.p.below(3)).map(|_| self.int_lit()).collect()),
            // there is no literal of the host type: a call of its constructor function
            T::K => {
                let (k, v) = (self.k(), self.int_lit());
                E::Host(H_TOK, vec![k, v])
            }
            T::V => unreachable!(),
        }
    }

    /// an effectful leaf: a host call around a leaf
    fn eleaf(&mut self, t: T) -> E {
        match t {
            T::I => {
                let (k, v) = (self.k(), self.leaf(T::I));
                E::Host(H_EMIT, vec![k, v])
            }
            T::B => {
                let (k, v) = (self.k(), self.leaf(T::B));
                E::Host(H_EMIT_B, vec![k, v])
            }
            T::U => E::Host(H_EMIT_U, vec![self.k()]),
            T::S => {
                let (k, v) = (self.k(), self.leaf(T::S));
                E::Host(H_EMIT_S, vec![k, v])
            }
            T::O => {
                let (k, v) = (self.k(), self.leaf(T::I));
                E::Host(H_EMIT_O, vec![k, v])
            }
            T::L => {
                let (k, v) = (self.k(), self.leaf(T::L));
                E::Host(H_EMIT_L, vec![k, v])
            }
            T::E => {
                let (k, v) = (self.k(), self.leaf(T::I));
                E::Ctor(0, vec![E::Host(H_EMIT, vec![k, v])])
            }
            T::R | T::G => {
                let (k, v, w) = (self.k(), self.leaf(T::I), self.leaf(T::I));
                let (k2, v2) = (self.k(), self.leaf(T::I));
                self.record(t, vec![E::Host(H_EMIT, vec![k, v]), w, E::Host(H_EMIT, vec![k2, v2])])
            }
            T::P | T::H => {
                let (k, v) = (self.k(), self.leaf(T::I));
                let (k2, v2) = (self.k(), self.leaf(T::I));
                self.record(t, vec![E::Host(H_EMIT, vec![k, v]), E::Host(H_EMIT, vec![k2, v2])])
            }
            T::K => {
                let (k, v) = (self.k(), self.leaf(T::I));
                E::Host(H_TOK, vec![k, v])
            }
            T::V => unreachable!(),
        }
    }

    fn calls(&self, t: T) -> Vec<usize> {
        self.sigs.iter().enumerate().filter(|(_, s)| s.ret == t).map(|(i, _)| i).collect()
    }

    fn call(&mut self, f: usize, d: u32) -> E {
        let tys = self.sigs[f].params.clone();
        let args = tys.iter().map(|t| self.expr(*t, d)).collect();
        E::Call(f, args)
    }

    pub fn expr(&mut self, t: T, d: u32) -> E {
        if d == 0 || !self.spend() {
            return if self.p.chance(2, 3) { self.eleaf(t) } else { self.leaf(t) };
        }
        let d1 = d - 1;
        // shared shapes: if/else, match, block, call
        let shared = self.p.below(100);
        if shared < 8 {
            let c = self.expr(T::B, d1);
            let a = self.blk(t, d1, false);
            let b = self.blk(t, d1, true);
            return E::Ite(Box::new(c), a, b);
        }
        if shared < 15 && t != T::V {
            return self.match_(t, d1);
        }
        if shared < 23 {
            return E::Block(self.blk(t, d1, false));
        }
        if shared < 29 {
            let cs = self.calls(t);
            if !cs.is_empty() {
                let f = *self.p.pick(&cs);
                return self.call(f, d1);
            }
        }
        match t {
            T::I => match self.p.below(100) {
                0..=24 => {
                    let (k, v) = (self.k(), self.expr(T::I, d1));
                    E::Host(H_EMIT, vec![k, v])
                }
                25..=36 => {
                    let (k, a, b) = (self.k(), self.expr(T::I, d1), self.expr(T::I, d1));
                    E::Host(H_EMIT3, vec![k, a, b])
                }
                37..=48 => {
                    let mut r = self.expr(T::I, d1);
                    // (a field of an anonymous literal with a type of its own, or of a literal of a generic
                    // record, is as open as the literal in it)
                    let own_type = matches!(&r, E::Field(rec, _) if has_open_literal(rec));
                    if own_type || !matches!(r, E::Host(..) | E::Call(..) | E::Field(..)) && !matches!(r, E::Var(x) if self.annotated[x]) {
                        // a literal (or a block ending in one) has type `{integer}`, which has no methods:
                        // give the receiver a definite type
                        r = E::Host(H_EMIT, vec![self.k(), r]);
                    }
                    let (k, y) = (self.k(), self.expr(T::I, d1));
                    E::Host(H_MIX, vec![r, k, y])
                }
                49..=72 => {
                    let op = *self.p.pick(&[Op::Add, Op::Sub, Op::Mul]);
                    let (l, r) = (self.expr(T::I, d1), self.expr(T::I, d1));
                    E::Bin(op, Box::new(l), Box::new(r))
                }
                73..=76 => E::Neg(Box::new(self.expr(T::I, d1))),
                77..=84 if self.ret == T::O => {
                    let mut o = self.expr(T::O, d1);
                    if open_none(&o) {
                        // `Option.None?` leaves the payload type open at that point of inference
                        o = self.eleaf(T::O);
                    }
                    E::Try(Box::new(o))
                }
                77..=88 => {
                    let rt = self.some_record_ty();
                    let r = self.expr(rt, d1);
                    // (an anonymous literal with a type of its own cannot be generic)
                    let r = if matches!(rt, T::G | T::H) { r } else { self.maybe_anon(r) };
                    E::Field(Box::new(r), self.p.below(rt.nfields() as u64) as usize)
                }
                89..=92 => {
                    // a method of the host type
                    let (r, k) = (self.expr(T::K, d1), self.k());
                    E::Host(H_PEEK, vec![r, k])
                }
                _ => self.eleaf(T::I),
            },
            T::B => match self.p.below(100) {
                0..=19 => {
                    let (k, v) = (self.k(), self.expr(T::B, d1));
                    E::Host(H_EMIT_B, vec![k, v])
                }
                20..=44 => {
                    let op = *self.p.pick(&[Op::Eq, Op::Ne, Op::Lt, Op::Le, Op::Gt, Op::Ge]);
                    let (l, r) = (self.expr(T::I, d1), self.expr(T::I, d1));
                    E::Bin(op, Box::new(l), Box::new(r))
                }
                45..=49 => {
                    let op = *self.p.pick(&[Op::Eq, Op::Ne]);
                    let (l, r) = (self.expr(T::B, d1), self.expr(T::B, d1));
                    E::Bin(op, Box::new(l), Box::new(r))
                }
                50..=67 => {
                    let (l, r) = (self.expr(T::B, d1), self.expr(T::B, d1));
                    E::And(Box::new(l), Box::new(r))
                }
                68..=85 => {
                    let (l, r) = (self.expr(T::B, d1), self.expr(T::B, d1));
                    E::Or(Box::new(l), Box::new(r))
                }
                86..=90 => E::Not(Box::new(self.expr(T::B, d1))),
                91..=95 => {
                    // `==` / `!=` on the host type: the compiler calls the type's equality
                    let op = *self.p.pick(&[Op::Eq, Op::Ne]);
                    let (l, r) = (self.expr(T::K, d1), self.expr(T::K, d1));
                    E::Bin(op, Box::new(l), Box::new(r))
                }
                _ => self.eleaf(T::B),
            },
            T::U => self.unit_expr(d1),
            T::S => match self.p.below(100) {
                0..=59 => {
                    let n = 1 + self.p.below(4);
                    let mut parts = vec![];
                    for _ in 0..n {
                        match self.p.below(7) {
                            0 => parts.push(Part::Str((*self.p.pick(&["a", "-", " b ", "é", "x=", ""])).to_string())),
                            1 => parts.push(Part::Expr(self.expr(T::B, d1))),
                            2 => parts.push(Part::Expr(self.expr(T::S, d1))),
                            // a part of the host type: the compiler inserts a call of its `to_string`
                            3 | 4 => parts.push(Part::Expr(self.expr(T::K, d1))),
                            _ => parts.push(Part::Expr(self.expr(T::I, d1))),
                        }
                    }
                    // adjacent literal parts would be merged by the lexer: keep them apart
                    let mut out: Vec<Part> = vec![];
                    for p in parts {
                        match (&p, out.last()) {
                            (Part::Str(s), _) if s.is_empty() => {}
                            (Part::Str(_), Some(Part::Str(_))) => {}
                            _ => out.push(p),
                        }
                    }
                    E::FStr(out)
                }
                60..=72 => {
                    let (l, r) = (self.expr(T::S, d1), self.expr(T::S, d1));
                    E::Concat(Box::new(l), Box::new(r))
                }
                73..=78 => E::Host(H_TO_STRING, vec![self.expr(T::K, d1)]),
                _ => {
                    let (k, v) = (self.k(), self.expr(T::S, d1));
                    E::Host(H_EMIT_S, vec![k, v])
                }
            },
            T::O => match self.p.below(100) {
                0..=49 => {
                    let (k, v) = (self.k(), self.expr(T::I, d1));
                    E::Host(H_EMIT_O, vec![k, v])
                }
                50..=84 => E::Some(Box::new(self.expr(T::I, d1))),
                _ => self.leaf(T::O),
            },
            T::E => match self.p.below(10) {
                0..=3 => E::Ctor(0, vec![self.expr(T::I, d1)]),
                4..=8 => {
                    let (a, b) = (self.expr(T::I, d1), self.expr(T::I, d1));
                    E::Ctor(1, vec![a, b])
                }
                _ => E::Ctor(2, vec![]),
            },
            T::R | T::P | T::G | T::H => {
                let es = (0..t.nfields()).map(|_| self.expr(T::I, d1)).collect();
                self.record(t, es)
            }
            T::K => {
                let (k, v) = (self.k(), self.expr(T::I, d1));
                E::Host(H_TOK, vec![k, v])
            }
            T::L => match self.p.below(10) {
                0..=4 => {
                    let n = self.p.below(4);
                    E::List((0..n).map(|_| self.expr(T::I, d1)).collect())
                }
                // `+` on lists: the other user of `desugared_binop`
                5..=6 => {
                    let (l, r) = (self.expr(T::L, d1), self.expr(T::L, d1));
                    E::ConcatL(Box::new(l), Box::new(r))
                }
                _ => {
                    let (k, v) = (self.k(), self.expr(T::L, d1));
                    E::Host(H_EMIT_L, vec![k, v])
                }
            },
            T::V => unreachable!(),
        }
    }

    fn unit_expr(&mut self, d: u32) -> E {
        let asg = self.assignable();
        match self.p.below(100) {
            // the target is a field of a variable of type `R` (`x.f = e`, `x.f op= e`)
            24..=29 | 48..=54 if asg.iter().any(|x| self.var_tys[*x].is_record()) => {
                let recs: Vec<usize> = asg.iter().copied().filter(|x| self.var_tys[*x].is_record()).collect();
                let x = *self.p.pick(&recs);
                let i = self.p.below(self.var_tys[x].nfields() as u64) as usize;
                if self.p.chance(1, 2) {
                    let v = self.expr(T::I, d);
                    E::AssignF(x, i, Box::new(v))
                } else {
                    let op = *self.p.pick(&[Op::Add, Op::Sub, Op::Mul]);
                    let v = self.expr(T::I, d);
                    E::CAssignF(op, x, i, Box::new(v))
                }
            }
            0..=29 if !asg.is_empty() => {
                let x = *self.p.pick(&asg);
                let v = self.expr(self.var_tys[x], d);
                let v = self.maybe_anon(v);
                E::Assign(x, Box::new(v))
            }
            30..=54 => {
                let ints: Vec<usize> = asg.iter().copied().filter(|x| self.var_tys[*x] == T::I).collect();
                if ints.is_empty() {
                    return self.eleaf(T::U);
                }
                let x = *self.p.pick(&ints);
                let op = *self.p.pick(&[Op::Add, Op::Sub, Op::Mul]);
                let v = self.expr(T::I, d);
                E::CAssign(op, x, Box::new(v))
            }
            55..=69 => {
                let c = self.expr(T::B, d);
                let b = self.blk(T::U, d, false);
                E::If1(Box::new(c), b)
            }
            70..=79 => {
                let mut l = self.expr(T::L, d);
                if matches!(&l, E::List(v) if v.is_empty()) {
                    // `for x in []` leaves the element type open while the body is checked
                    l = E::Host(H_EMIT_L, vec![self.k(), l]);
                }
                let mark = self.scope.len();
                let x = self.binder();
                let b = self.blk(T::U, d, false);
                self.scope.truncate(mark);
                E::For(x, Box::new(l), b)
            }
            _ => self.eleaf(T::U),
        }
    }

    /// `return e` / `accept e` / `reject e` for the current function
    fn leave(&mut self, d: u32) -> E {
        match self.ret {
            T::V => {
                let v = self.expr(T::I, d);
                if self.p.chance(1, 2) { E::Accept(Box::new(v)) } else { E::Reject(Box::new(v)) }
            }
            t => E::Ret(Box::new(self.expr(t, d))),
        }
    }

    fn match_(&mut self, t: T, d: u32) -> E {
        let is_opt = self.p.chance(1, 2);
        let mut s = self.expr(if is_opt { T::O } else { T::E }, d);
        if is_opt && open_none(&s) {
            // `match Option.None { Some(x) => … }` leaves the payload type open while the arms are checked
            s = self.eleaf(T::O);
        }
        let nvar = if is_opt { 2 } else { 3 };
        let arity = |v: usize| if is_opt { [1, 0][v] } else { VARIANTS[v].1 };
        let mut arms = vec![];
        let nguarded = self.p.below(3);
        for _ in 0..nguarded {
            let mark = self.scope.len();
            let pat = if self.p.chance(1, 4) {
                Pat::Wild
            } else {
                let v = self.p.below(nvar) as usize;
                Pat::Variant(v, (0..arity(v)).map(|_| self.binder()).collect())
            };
            let g = self.expr(T::B, d);
            let body = self.blk(t, d, true);
            self.scope.truncate(mark);
            arms.push(Arm { pat, guard: Some(g), body });
        }
        // the unguarded cover: all variants in a random order, or a prefix of them and `_`
        let mut order: Vec<usize> = (0..nvar as usize).collect();
        for i in (1..order.len()).rev() {
            order.swap(i, self.p.below(i as u64 + 1) as usize);
        }
        let keep = if self.p.chance(1, 2) { order.len() } else { self.p.below(order.len() as u64) as usize };
        for (i, v) in order.iter().enumerate() {
            if i >= keep {
                break;
            }
            let mark = self.scope.len();
            let pat = Pat::Variant(*v, (0..arity(*v)).map(|_| self.binder()).collect());
            let last_arm = keep == order.len() && i + 1 == keep;
            let body = self.blk(t, d, !last_arm);
            self.scope.truncate(mark);
            arms.push(Arm { pat, guard: None, body });
        }
        if keep < order.len() {
            let body = self.blk(t, d, false);
            arms.push(Arm { pat: Pat::Wild, guard: None, body });
        }
        E::Match(Box::new(s), is_opt, arms)
    }

    /// A block of type `t`. `may_diverge`: its final expression may be a
    /// `return`/`accept`/`reject` instead of a value.
    pub fn blk(&mut self, t: T, d: u32, may_diverge: bool) -> Blk {
        let mark = self.scope.len();
        let mut stmts = vec![];
        let n = if d == 0 { self.p.below(2) } else { self.p.below(4) };
        for _ in 0..n {
            if !self.spend() {
                break;
            }
            match self.p.below(100) {
                0..=34 => {
                    let ty = *self.p.pick(&LET_TYS);
                    let e = self.expr(ty, d);
                    let e = self.maybe_anon(e);
                    let x = self.fresh(ty, true);
                    stmts.push(S::Let(x, e));
                }
                35..=64 => stmts.push(S::Do(self.expr(T::U, d))),
                65..=72 => {
                    // an expression statement whose value is discarded
                    let ty = if self.frag { *self.p.pick(&[T::I, T::B]) } else { *self.p.pick(&[T::I, T::B, T::O, T::S]) };
                    stmts.push(S::Do(self.expr(ty, d)));
                }
                73..=84 if d > 0 => {
                    // let i = 0; while <cond involving i < N> { …; i = i + 1; }
                    let i = self.fresh(T::I, false);
                    stmts.push(S::Let(i, E::Int(0)));
                    let bound = E::Bin(Op::Lt, Box::new(E::Var(i)), Box::new(E::Int(self.p.below(4) as i32)));
                    let cond = match self.p.below(4) {
                        0 => bound,
                        1 => {
                            let k = self.k();
                            E::Host(H_EMIT_B, vec![k, bound])
                        }
                        2 => E::And(Box::new(bound), Box::new(self.expr(T::B, d - 1))),
                        _ => E::And(Box::new(self.expr(T::B, d - 1)), Box::new(bound)),
                    };
                    let mut body = self.blk(T::U, d - 1, false);
                    if let Some(l) = body.last.take() {
                        body.stmts.push(S::Do(*l));
                    }
                    body.stmts.push(S::Do(E::Assign(i, Box::new(E::Bin(Op::Add, Box::new(E::Var(i)), Box::new(E::Int(1)))))));
                    stmts.push(S::Do(E::While(Box::new(cond), body)));
                }
                85..=92 if d > 0 => {
                    // if c { return e; }
                    let c = self.expr(T::B, d - 1);
                    let r = self.leave(d - 1);
                    stmts.push(S::Do(E::If1(Box::new(c), Blk { stmts: vec![S::Do(r)], last: None })));
                }
                _ => stmts.push(S::Do(self.eleaf(T::U))),
            }
        }
        let last = if may_diverge && self.p.chance(1, 6) {
            Some(Box::new(self.leave(d)))
        } else if t == T::V {
            Some(Box::new(self.leave(d)))
        } else if t == T::U && self.p.chance(1, 2) {
            None
        } else {
            Some(Box::new(self.expr(t, d)))
        };
        self.scope.truncate(mark);
        Blk { stmts, last }
    }
}

/// Does the expression contain a record literal whose field types are not fixed by a declaration
/// (anonymous, or of a generic record)? A field of it may still be `{integer}`.
fn has_open_literal(e: &E) -> bool {
    matches!(e, E::Record(rk, _) if rk.anon || matches!(rk.ty, T::G | T::H)) || children(e).into_iter().any(has_open_literal)
}

/// Is the expression an `Option.None` whose payload type nothing anchors?
fn open_none(e: &E) -> bool {
    fn blk_open(b: &Blk) -> bool {
        match &b.last {
            Some(l) => open_none(l) || matches!(**l, E::Ret(_) | E::Accept(_) | E::Reject(_)),
            None => false,
        }
    }
    match e {
        E::None_ => true,
        E::Block(b) => blk_open(b),
        E::Ite(_, a, b) => blk_open(a) && blk_open(b),
        E::Match(_, _, arms) => arms.iter().all(|a| blk_open(&a.body)),
        _ => false,
    }
}

/// `frag`: only the constructs of the structured lowering model (scalars, host calls,
/// operators, `&&`/`||`, `if`, blocks, assignments, `while`, `return`), one function.
pub fn gen_program(p: &mut Prng, frag: bool) -> Generated {
    let depth = 2 + p.below(3) as u32;
    let nhelpers = match p.below(10) {
        0..=4 => 0,
        5..=7 => 1,
        _ => 2,
    };
    let mut g = G { p, var_tys: vec![], annotated: vec![], scope: vec![], ret: T::I, sigs: vec![], key: 0, budget: 0, frag };
    let mut fns = vec![];
    for i in 0..=nhelpers {
        let is_main = i == nhelpers;
        let (ptys, ret) = if is_main {
            (vec![T::I, T::I, T::B], if frag { *g.p.pick(&[T::I, T::I, T::B, T::U, T::O, T::V, T::S]) } else { *g.p.pick(&[T::I, T::I, T::I, T::B, T::U, T::S, T::O, T::O, T::V, T::V]) })
        } else {
            let n = g.p.below(3);
            ((0..n).map(|_| *g.p.pick(&[T::I, T::I, T::B])).collect(), *g.p.pick(&[T::I, T::I, T::B, T::U, T::O]))
        };
        g.scope.clear();
        g.ret = ret;
        g.budget = if is_main { 60 } else { 25 };
        let params: Vec<usize> = ptys.iter().map(|t| g.fresh(*t, true)).collect();
        let body = g.blk(ret, if is_main { depth } else { depth.min(3) - 1 }, false);
        fns.push(Fn_ { params, ret, body });
        g.sigs.push(Sig { params: ptys, ret });
    }
    Generated { prog: Prog { fns, var_tys: g.var_tys } }
}

/// Argument tuples for `main(x0: i32, x1: i32, x2: bool)`.
pub fn gen_args(p: &mut Prng, n: usize) -> Vec<(i32, i32, bool)> {
    const B: [i32; 10] = [0, 1, -1, 2, 3, 7, 100, i32::MAX, i32::MIN, -2];
    let mut out = vec![];
    for i in 0..n {
        let a = if i % 2 == 0 { *p.pick(&B) } else { p.range(-6, 6) as i32 };
        let b = if p.chance(1, 3) { *p.pick(&B) } else { p.range(-4, 9) as i32 };
        out.push((a, b, i % 2 == 0 || p.chance(1, 2) && i % 3 == 0));
    }
    // both values of the flag appear
    if n >= 2 {
        out[1].2 = !out[0].2;
    }
    out
}
