//! Host side of the C08 oracle: effect-logging functions. Every call appends
//! `(function id, argument values)` to one process-wide ordered log; results
//! are pure functions of the arguments (the same functions `hostSem` of
//! `lean/RotoV/Model/TraceSpec.lean` defines).
//!
//!   0 emit(k, v: i32) -> i32        1 emit_b(k, v: bool) -> bool
//!   2 emit_u(k)                     3 emit_s(k, s: String) -> String
//!   4 emit_o(k, v: i32) -> i32?     5 i32.mix(self, k, y) -> i32  (method)
//!   6 emit3(k, a, b) -> i32         7 emit_l(k, l: List[i32]) -> List[i32]
//!
//! A registered host type `Tok` (a value type wrapping an `i32`, printed `T<v>`), for the calls
//! the compiler inserts IMPLICITLY:
//!   8 tok(k, v: i32) -> Tok         9 Tok.to_string(self) -> String   ("T<v>"; called for `{e}`
//!                                      in an f-string when `e: Tok`, and callable as a method)
//!  10 Tok.peek(self, k) -> i32     11 `==` / `!=` on two `Tok`s (the type's `PartialEq::eq`)
//! `Clone` and `Drop` of `Tok` log nothing (they are not part of the property).

use roto::{List, NoCtx, RotoString, Runtime, Val, library};
use std::sync::Mutex;

pub static LOG: Mutex<Vec<String>> = Mutex::new(Vec::new());

fn log(s: String) {
    LOG.lock().unwrap_or_else(|e| e.into_inner()).push(s);
}

pub fn take_log() -> Vec<String> {
    std::mem::take(&mut *LOG.lock().unwrap_or_else(|e| e.into_inner()))
}

pub fn hex(s: &str) -> String {
    s.bytes().map(|b| format!("{b:02x}")).collect()
}

pub fn show_list(l: &[i32]) -> String {
    format!("[{}]", l.iter().map(|x| x.to_string()).collect::<Vec<_>>().join(";"))
}

/// The registered host type: every method, and its equality, logs.
#[derive(Clone, Debug)]
pub struct Tok(pub i32);

impl PartialEq for Tok {
    fn eq(&self, other: &Self) -> bool {
        log(format!("11(T{},T{})", self.0, other.0));
        self.0 == other.0
    }
}

pub fn runtime() -> Runtime<NoCtx> {
    Runtime::from_lib(library! {
        /// A host value (prints as `T<v>`)
        #[clone] type Tok = Val<Tok>;

        /// log (8, k, v), return the token of v
        fn tok(k: i32, v: i32) -> Val<Tok> { log(format!("8({k},{v})")); Val(Tok(v)) }

        impl Val<Tok> {
            /// log (9, self), return "T<v>"
            fn to_string(s: Val<Tok>) -> RotoString { log(format!("9(T{})", s.0.0)); format!("T{}", s.0.0).as_str().into() }

            /// log (10, self, k), return v
            fn peek(s: Val<Tok>, k: i32) -> i32 { log(format!("10(T{},{k})", s.0.0)); s.0.0 }
        }

        /// log (0, k, v), return v
        fn emit(k: i32, v: i32) -> i32 { log(format!("0({k},{v})")); v }

        /// log (1, k, v), return v
        fn emit_b(k: i32, v: bool) -> bool { log(format!("1({k},{v})")); v }

        /// log (2, k)
        fn emit_u(k: i32) { log(format!("2({k})")); }

        /// log (3, k, s), return s
        fn emit_s(k: i32, s: RotoString) -> RotoString { log(format!("3({k},s{})", hex(&s.to_string()))); s }

        /// log (4, k, v), return Some(v) when v is even
        fn emit_o(k: i32, v: i32) -> Option<i32> { log(format!("4({k},{v})")); if v % 2 == 0 { Some(v) } else { None } }

        /// log (6, k, a, b), return a - b
        fn emit3(k: i32, a: i32, b: i32) -> i32 { log(format!("6({k},{a},{b})")); a.wrapping_sub(b) }

        /// log (7, k, l), return l
        fn emit_l(k: i32, l: List<i32>) -> List<i32> {
            let v: Vec<i32> = l.to_vec();
            log(format!("7({k},{})", show_list(&v)));
            l
        }

        impl i32 {
            /// log (5, self, k, y), return self + y
            fn mix(s: i32, k: i32, y: i32) -> i32 { log(format!("5({s},{k},{y})")); s.wrapping_add(y) }
        }
    })
    .expect("runtime")
}
