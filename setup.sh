#!/bin/sh
# Build the framework from files on disk only (offline).
set -e
cd "$(dirname "$0")"
export CARGO_NET_OFFLINE=true CARGO_TARGET_DIR="$(pwd)/target"
REPO="${ROTO_REPO:-/repo}"
(cd extract && cargo build --offline --quiet)
# regenerate every Generated/*.lean the lake project imports
./target/debug/rotov-extract "$REPO" lean/RotoV/Generated $(./target/debug/rotov-extract --list) || true
sed "s#@ROTO_REPO@#$REPO#" harness/Cargo.toml.in > harness/Cargo.toml
[ -f harness/Cargo.lock ] || cp "$REPO/Cargo.lock" harness/Cargo.lock
(cd harness && cargo build --offline --quiet --bins)
rm -rf lean/RotoV/Audit   # axiom-audit files are rewritten by every check run
(cd lean && lake build RotoV Driver) || true
# one driver per property (a check builds only its own)
(cd lean && for i in 01 02 03 04 05 06 07 08 09 10 11 12 13 14 15 16 17 18 19 20; do lake build rotov-driver-c$i >/dev/null 2>&1 || true; done)
echo setup done
