/-
  Pratt: a faithful model of `Parser::binop_expr` / `Parser::negation`
  (src/parser/expr.rs) over a token list, and the declarative reference
  grammar the manual documents (four levels, left associativity, no chained
  comparisons, no mixing of `&&` and `||`).

  The model keeps the recursion structure of the Rust code: `binopExpr` parses
  one operand with `negation`, then runs the `while let Some(operator) =
  self.peek_binop()` loop (`binopLoop`), which consults
  `prev.relative_associativity(&operator)`, and recurses with
  `Some(operator)` as the new lower bound.  The relation is a *parameter*
  (`rel`); Props/C09 and the driver instantiate it with the definition
  generated from src/parser/precedence.rs.  Recursion is by fuel; running out
  of fuel is an explicit result (`PRes.fuel`), and `pratt_correct` shows it
  never happens with the fuel `parseExpr` supplies.

  Core Lean only: linked into the driver.
-/
import RotoV.Model.RustStd
import RotoV.Model.Lir

namespace RotoV.Pratt
open RotoV

/-- `parser::precedence::Associativity` -/
inductive Assoc | Left | Right | Not
  deriving DecidableEq, Repr, Inhabited

/-- The postfix forms of `Parser::access`'s loop: `?`, an argument list
    `( … )` (number `n`: the arguments are expressions of their own, parsed by
    `Parser::args`), and `.name` (`Token::Period` + identifier number `n`).
    A method call `x.f(a)` is `field` followed by `call`. -/
inductive Post
  | try_
  | call (n : Nat)
  | field (n : Nat)
  deriving DecidableEq, Repr, Inhabited

/-- Tokens of an operator expression. `op .Sub` is `Token::Hyphen`, which is
    both the binary minus and the prefix negation; `bang` is `Token::Bang`;
    `atom n` stands for any token sequence `Parser::atom` parses to one
    atom (identifier, literal of any spelling, parenthesised expression …);
    `post p` is one postfix form (`?`, an argument list, `.name`). -/
inductive Tok
  | atom (n : Nat)
  | bang
  | op (b : BinOp)
  | post (p : Post)
  deriving DecidableEq, Repr, Inhabited

/-- Expression trees (`ast::Expr` restricted to operators and the postfix
    forms: `Expr::QuestionMark`, `Expr::FunctionCall`, `Expr::Access`). -/
inductive Tree
  | leaf (n : Nat)
  | not (t : Tree)
  | neg (t : Tree)
  | bin (o : BinOp) (l r : Tree)
  | post (p : Post) (t : Tree)
  deriving DecidableEq, Repr, Inhabited

/-- Outcome of a parsing function: a tree and the unconsumed tokens, or one
    of the errors of the real parser. -/
inductive PRes
  | ok (t : Tree) (rest : List Tok)
  /-- "`op` cannot be chained with `prev`" -/
  | chained (op prev : BinOp)
  /-- `access` did not find an operand (end of input or an operator) -/
  | unexpected
  /-- `relative_associativity` panicked (cannot happen: see `prec_table`) -/
  | panic
  /-- the model ran out of fuel (cannot happen: see `pratt_correct`) -/
  | fuel
  deriving DecidableEq, Repr, Inhabited

/-- the `loop { … }` of `Parser::access`: every `?`, argument list and
    `.name` that follows is applied to the expression parsed so far -/
def accessLoop (e : Tree) : List Tok → Tree × List Tok
  | .post p :: rest => accessLoop (.post p e) rest
  | rest => (e, rest)

/-- `Parser::access`: `Atom ('?' | Args | '.' Ident)*` -/
def access : List Tok → PRes
  | .atom n :: rest => let r := accessLoop (.leaf n) rest; .ok r.1 r.2
  | _ => .unexpected

/-- `Parser::negation`: `('!' | '-')* Access`. After a prefix operator the
    function calls ITSELF (so the operator applies to everything `access`
    returns, postfix forms included); only without a prefix operator does it
    call `access`. -/
def negation : List Tok → PRes
  | .bang :: rest =>
    match negation rest with
    | .ok e r => .ok (.not e) r
    | e => e
  | .op .Sub :: rest =>
    match negation rest with
    | .ok e r => .ok (.neg e) r
    | e => e
  | toks => access toks

/-- `Parser::peek_binop` -/
def peekBinop : List Tok → Option BinOp
  | .op b :: _ => some b
  | _ => none

section
variable (rel : BinOp → BinOp → Res Assoc)

mutual
/-- `Parser::binop_expr(prev)` -/
def binopExpr : Nat → Option BinOp → List Tok → PRes
  | 0, _, _ => .fuel
  | fuel + 1, prev, toks =>
    match negation toks with
    | .ok lhs rest => binopLoop fuel prev lhs rest
    | e => e
/-- the `while let Some(operator) = self.peek_binop()` loop of `binop_expr` -/
def binopLoop : Nat → Option BinOp → Tree → List Tok → PRes
  | 0, _, _, _ => .fuel
  | fuel + 1, prev, lhs, toks =>
    match peekBinop toks with
    | none => .ok lhs toks
    | some operator =>
      -- `if let Some(prev) = prev { match prev.relative_associativity(&operator) … }`
      let go : PRes :=
        -- `self.next()`; `self.binop_expr(Some(operator))`
        match binopExpr fuel (some operator) toks.tail with
        | .ok rhs rest => binopLoop fuel prev (.bin operator lhs rhs) rest
        | e => e
      match prev with
      | none => go
      | some p =>
        match rel p operator with
        | .ok .Right => go
        | .ok .Left => .ok lhs toks
        | .ok .Not => .chained operator p
        | .panic => .panic
end

/-- A whole operator expression: `binop_expr(None)` followed by the end of the
    expression (nothing left that belongs to it). -/
def parseExpr (toks : List Tok) : PRes :=
  match binopExpr rel (2 * toks.length + 2) none toks with
  | .ok t [] => .ok t []
  | .ok _ _ => .unexpected
  | e => e

end

/-! ## The reference grammar (independent of the loop above)

```
Logical    ::= Comparison ( ('&&' Comparison)+ | ('||' Comparison)+ )?
Comparison ::= Sum ( ('=='|'!='|'<'|'<='|'>'|'>=') Sum )?
Sum        ::= Product ( ('+'|'-') Product )*          -- left associative
Product    ::= Unary ( ('*'|'/'|'%') Unary )*          -- left associative
Unary      ::= ('!' | '-')* Access
Access     ::= Atom ('?' | Args | '.' Ident)*
```
-/

/-- documented level of an operator (higher binds tighter) -/
def level : BinOp → Nat
  | .And | .Or => 0
  | .Eq | .Ne | .Lt | .Le | .Gt | .Ge => 1
  | .Add | .Sub => 2
  | .Mul | .Div | .Mod => 3

/-- may `b` follow `a` in one chain of their (common) level? -/
def chainable (a b : BinOp) : Bool :=
  match level a with
  | 0 => a == b          -- `&&` with `&&`, `||` with `||`, never mixed
  | 1 => false           -- comparisons do not chain
  | _ => true            -- arithmetic: left associative

/-- the documented relation between two consecutive operators -/
def docRel (a b : BinOp) : Assoc :=
  if level a < level b then .Right
  else if level b < level a then .Left
  else if chainable a b then .Left else .Not

inductive UnOp | not | neg deriving DecidableEq, Repr, Inhabited

/-- an operand: prefix operators (outermost first) applied to an atom that is
    followed by postfix forms (innermost = leftmost first) -/
structure Operand where
  pre : List UnOp
  atom : Nat
  post : List Post
  deriving DecidableEq, Repr, Inhabited

def UnOp.apply : UnOp → Tree → Tree
  | .not, t => .not t
  | .neg, t => .neg t

/-- postfix forms applied to an expression, left to right -/
def accessTreeOn (e : Tree) (post : List Post) : Tree :=
  post.foldl (fun t p => .post p t) e

/-- `Access`: the postfix forms apply to the atom, left to right -/
def accessTree (atom : Nat) (post : List Post) : Tree := accessTreeOn (.leaf atom) post

def Tree.isPost : Tree → Bool
  | .post _ _ => true
  | _ => false

/-- `Unary`: prefix chains bind tighter than every binary operator and LOOSER
    than every postfix form: they apply to the whole `Access` -/
def Operand.tree (x : Operand) : Tree := x.pre.foldr UnOp.apply (accessTree x.atom x.post)

abbrev Tail := List (BinOp × Operand)

/-- split `x0 rest` at the operators of level `k` (all operators are assumed to
    be of level ≥ k): the first segment, and (separator, segment) pairs. -/
def splitLevel (k : Nat) : Tail → Tail × List (BinOp × Operand × Tail)
  | [] => ([], [])
  | (o, x) :: rest =>
    let (seg, more) := splitLevel k rest
    if level o = k then ([], (o, x, seg) :: more) else ((o, x) :: seg, more)

/-- the tree of `x0 rest` by the stratified grammar, at level `4 - n` (n levels
    remain below `Unary`): split at the operators of this level, parse the
    segments one level up, combine left-associatively. -/
def refTree : Nat → Operand → Tail → Tree
  | 0, x0, _ => x0.tree
  | n + 1, x0, rest =>
    let k := 3 - n
    let (seg0, segs) := splitLevel k rest
    segs.foldl (fun acc s => .bin s.1 acc (refTree n s.2.1 s.2.2)) (refTree n x0 seg0)

/-- the first operator of level ≤ `l` -/
def nextLE (l : Nat) : Tail → Option BinOp
  | [] => none
  | (o, _) :: r => if level o ≤ l then some o else nextLE l r

/-- `o` meets an operator of its own level (only tighter operators in
    between) with which it cannot be chained: `a < b + 1 < c`, `a && b || c` -/
def clashAt (o : BinOp) (r : Tail) : Bool :=
  match nextLE (level o) r with
  | some o' => level o' == level o && !chainable o o'
  | none => false

/-- no incompatible pair of operators meets at one level -/
def clashFree : Tail → Bool
  | [] => true
  | (o, _) :: r => !clashAt o r && clashFree r

/-- the documented parse of `x0 op1 x1 op2 x2 …`: the tree of the stratified
    grammar when no incompatible pair meets at one level, rejected otherwise -/
def reference (x0 : Operand) (rest : Tail) : Option Tree :=
  if clashFree rest then some (refTree 4 x0 rest) else none

/-- rendering of the abstract expression as tokens -/
def UnOp.tok : UnOp → Tok
  | .not => .bang
  | .neg => .op .Sub

def Operand.toks (x : Operand) : List Tok :=
  x.pre.map UnOp.tok ++ (.atom x.atom :: x.post.map Tok.post)

def renderTail : Tail → List Tok
  | [] => []
  | (o, x) :: rest => .op o :: (x.toks ++ renderTail rest)

def render (x0 : Operand) (rest : Tail) : List Tok := x0.toks ++ renderTail rest

/-! ## printing / reading for the driver -/

def BinOp.name : BinOp → String
  | .And => "And" | .Or => "Or" | .Eq => "Eq" | .Ne => "Ne" | .Lt => "Lt" | .Le => "Le"
  | .Gt => "Gt" | .Ge => "Ge" | .Add => "Add" | .Sub => "Sub" | .Mul => "Mul" | .Div => "Div"
  | .Mod => "Mod"

def allBinOps : List BinOp :=
  [.And, .Or, .Eq, .Ne, .Lt, .Le, .Gt, .Ge, .Add, .Sub, .Mul, .Div, .Mod]

def BinOp.ofName (s : String) : Option BinOp := allBinOps.find? (fun o => BinOp.name o == s)

/-- the parse hook's s-expression; `c<n>` stands for the argument list number
    `n` (the harness substitutes the arguments' own trees), `f<n>` for a name -/
def Tree.sexp : Tree → String
  | .leaf n => s!"a{n}"
  | .not t => s!"(Not {t.sexp})"
  | .neg t => s!"(Negate {t.sexp})"
  | .bin o l r => s!"({BinOp.name o} {l.sexp} {r.sexp})"
  | .post .try_ t => s!"(try {t.sexp})"
  | .post (.call n) t => s!"(call {t.sexp} c{n})"
  | .post (.field n) t => s!"(field {t.sexp} f{n})"

end RotoV.Pratt
