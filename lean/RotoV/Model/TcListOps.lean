/-
  TcListOps: the operations of the type checker that are PARTIAL IN THE LENGTH
  OF A LIST (`x[0]`, `x[1..]`, `x.pop().unwrap()`, `x.first().unwrap()`, …),
  what the translator records about each of them (`Generated/TcListOps.lean`,
  target `tclistops`), and executable models of the two that build error
  messages (`join_quoted`, the missing-variants loop of `match_expr`).

  Core Lean only (no Mathlib).
-/

namespace RotoV.TcList

/-- an operation on a list that panics when the list is too short -/
inductive Op where
  /-- `x[k]` -/
  | index (k : Nat)
  /-- `x[k..]` -/
  | sliceFrom (k : Nat)
  /-- `x[..k]`, `x[a..k]` -/
  | sliceTo (k : Nat)
  /-- `x.first() / last() / pop() / next() / split_first() / max() / reduce(..) … .unwrap()` -/
  | takeOne (method : String)
  /-- `x.remove(k)`, `x.swap_remove(k)` -/
  | removeAt (k : Nat)
  deriving Repr, DecidableEq

/-- the number of elements the operation needs -/
def Op.need : Op → Nat
  | .index k => k + 1
  | .sliceFrom k => k
  | .sliceTo k => k
  | .takeOne _ => 1
  | .removeAt k => k + 1

/-- the operation on a concrete list: `true` = it returns, `false` = it panics
(std: index out of bounds / slice index out of range / `unwrap` on `None` /
`removal index should be < len`) -/
def Op.runs {α : Type} (op : Op) (l : List α) : Bool :=
  match op with
  | .index k => (l[k]?).isSome
  | .sliceFrom k => decide (k ≤ l.length)
  | .sliceTo k => decide (k ≤ l.length)
  | .takeOne _ => (l.head?).isSome
  | .removeAt k => (l[k]?).isSome

/-- what the translator found in the source about the list an operation (or a
call of a partial helper) is applied to -/
inductive Evidence where
  /-- a condition that dominates the site says the list has MORE than `k`
  elements (`if x.len() > k`, `!x.is_empty()`, an early exit on the opposite),
  and nothing shortens it in between -/
  | guard (k : Nat)
  /-- the list is parameter `i` of the enclosing function number `f` (an index
  into the generated `helperNames`): `f` is a partial helper; the obligation
  is on every call of `f` -/
  | param (f : Nat) (i : Nat)
  /-- the `idents` of an `ast::Path` (built by the parser only; the parser model
  proves `Parser::path` / `path_expr` never build an empty one) -/
  | astPath
  /-- `arguments[0]` of a `Type::Name` whose definition is the list type, in
  `TypeInfo::convert`: a type name has as many arguments as its definition has
  parameters (`resolve_type_path` rejects any other count; `instantiate` makes
  one variable per parameter). A data invariant, exercised by the oracle
  (`List`, `List[]`, `List[i32, i32]`), pinned to that one site -/
  | typeArity
  /-- collected by `for v in all { if !used.contains(&v) { list.push(v) } }`
  under a dominating `used.len() < all.len()` -/
  | complement (used all : String)
  /-- nothing -/
  | none
  deriving Repr, DecidableEq

structure Site where
  file : String
  fn : String
  text : String
  op : Op
  ev : Evidence
  deriving Repr, DecidableEq

/-- `fn` panics unless its parameter number `param` has at least `need` elements -/
structure Helper where
  /-- index into the generated `helperNames` -/
  fn : Nat
  param : Nat
  need : Nat
  deriving Repr, DecidableEq

structure Call where
  file : String
  caller : String
  /-- index into the generated `helperNames` -/
  callee : Nat
  param : Nat
  text : String
  ev : Evidence
  deriving Repr, DecidableEq

/-- what the helper table promises for parameter `i` of `f` (0 = nothing) -/
def promised (hs : List Helper) (f : Nat) (i : Nat) : Nat :=
  (hs.filter (fun h => h.fn == f && h.param == i)).foldl (fun m h => max m h.need) 0

/-- does the evidence cover a need of `n` elements? -/
def Evidence.covers (hs : List Helper) (n : Nat) : Evidence → Bool
  | .guard k => decide (n ≤ k + 1)
  | .param f i => decide (n ≤ promised hs f i)
  | .astPath => decide (n ≤ 1)
  | .typeArity => decide (n ≤ 1)
  | .complement _ _ => decide (n ≤ 1)
  | .none => decide (n = 0)

def Site.ok (hs : List Helper) (s : Site) : Bool := s.ev.covers hs s.op.need

def Call.ok (hs : List Helper) (c : Call) : Bool := c.ev.covers hs (promised hs c.callee c.param)

/-! ### the two list-building pieces of the error layer, executable -/

inductive Res (α : Type) where
  | ok (a : α)
  | panic
  deriving Repr, DecidableEq

/-- `join_quoted` (src/typechecker/error.rs): quote every item, `pop().unwrap()`
the last one, join the rest with commas and put `and` in front of the last -/
def joinQuoted (items : List String) : Res String :=
  let list := items.map (fun s => "`" ++ s ++ "`")
  match list.reverse with
  | [] => .panic                                   -- `list.pop().unwrap()`
  | last :: restRev =>
    if restRev.isEmpty then .ok last
    else .ok (", ".intercalate restRev.reverse ++ " and " ++ last)

/-- the loop of `match_expr` that collects the variants no arm names:
`for v in variants { if !used.contains(&v) { missing.push(v) } }` -/
def missingVariants (variants used : List Nat) : List Nat :=
  variants.filter (fun v => !used.contains v)

/-- `error_nonexhaustive_match` applies `join_quoted` to the missing variants (twice) -/
def errorNonexhaustive (names : Nat → String) (missing : List Nat) : Res String :=
  match joinQuoted (missing.map names), joinQuoted (missing.map names) with
  | .ok a, .ok _ => .ok ("match expression is not exhaustive, missing variants " ++ a)
  | _, _ => .panic

/-- the end of `match_expr`: `if !default_arm && used.len() < variants.len() { … return Err(…) }` -/
def matchEnd (names : Nat → String) (defaultArm : Bool) (variants used : List Nat) : Res (Option String) :=
  if !defaultArm && used.length < variants.length then
    match errorNonexhaustive names (missingVariants variants used) with
    | .ok e => .ok (some e)
    | .panic => .panic
  else .ok none

end RotoV.TcList
