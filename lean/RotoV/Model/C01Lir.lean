/-
  C01Lir: the LIR lowering of MIR control flow for the scalar fragment
  (src/lir/lower.rs: `Lowerer::item` / `block` / `instruction` / `assign` /
  `move_val` / `call_clone_of` / `binop` / `call` / `switch` / `r#return`), as a
  function from a MIR function (label CFG of instruction lists, as the pipeline hands
  it to the LIR lowerer, dead-code elimination applied) to a LIR function, and an
  executable semantics of both stages.

  * A variable with an `IrType` (`types`: the LIR variable table; here `I32` or
    `Bool`) lives in a LIR variable of the same name; a variable without one is
    zero-sized (`()`): every assignment to it is dropped, `drop`s of scalars are no-ops.
  * `Const` → `Assign to #value`; `Clone` / `Move` of a variable → `Assign to var`;
    `BinOp` → the instruction the GENERATED `lower_binop` selects at the operand type, into
    a fresh temporary (`new_tmp`: numbered from `mir::Item::tmp_idx` on), then `Assign to tmp`;
    `Not` / `Negate` likewise; `Call` → `Call` with the zero-sized arguments filtered out,
    result in a fresh temporary, then `Assign`.
  * `Jump` / `Switch` / `Return` block by block, labels kept; a `Switch` without default
    makes its last branch the default; a function whose return type is zero-sized returns nothing.
  * `none`: outside the model (another instruction or operand kind, an assignment that does
    not respect the variable table).

  The semantics: values are `TraceSpec.Val` (`int` / `bool` / `unit`); the operators of both
  stages are the generated table composition (`C01MirRun.tableBinop` = `lower_binop` then the
  generated codegen arm on CLIF semantics).  Fuel is spent on jumps and calls only, so both
  stages use exactly the same fuel.

  Tie: `c01 lir` in the driver lowers the real MIR of every function of the generated programs of
  the fragment (hook `verif_hooks::c01::stage_pairs`) and the harness compares the result with the
  real LIR, instruction by instruction.  Core Lean only.
-/
import RotoV.Model.C01MirRun

namespace RotoV.C01Lir
open RotoV RotoV.Gen RotoV.Gen.OpTables
open RotoV.TraceSpec (Val)

/-- variables of both stages (`mir::Var` / `lir::Var`) -/
inductive Name
  | e (id : String) (scope : Nat)
  | t (i : Nat)
  deriving DecidableEq, Repr, Inhabited

/-- the `IrType`s of the fragment -/
inductive LTy | i32 | bool
  deriving DecidableEq, Repr, Inhabited

/-! ### MIR -/

inductive MVal
  | constInt (n : Int)
  | constBool (b : Bool)
  | constUnit
  | clone (w : Name)
  | move (w : Name)
  /-- `BinOp { left, binop, ty, right }`: `ty` is the operands' type -/
  | binop (l : Name) (op : BinOp) (ty : LTy) (r : Name)
  | not (w : Name)
  | neg (w : Name)
  | call (f : String) (args : List Name)
  deriving Repr, Inhabited

inductive MIns
  | assign (to : Name) (v : MVal)
  | jump (l : Nat)
  | switch (x : Name) (brs : List (Nat × Nat)) (d : Option Nat)
  | ret (x : Name)
  | drop (x : Name)
  | other
  deriving Repr, Inhabited

structure MFn where
  name : String
  params : List Name
  /-- `mir::Item::tmp_idx` -/
  tmpIdx : Nat
  /-- the variables that have an `IrType` -/
  types : List (Name × LTy)
  /-- is the return type not zero-sized? -/
  retVal : Bool
  blocks : List (Nat × List MIns)
  deriving Repr, Inhabited

/-! ### LIR -/

inductive LOp
  | var (x : Name)
  | int (n : Int)
  | bool (b : Bool)
  deriving Repr, Inhabited, DecidableEq

inductive LIns
  | assign (to : Name) (v : LOp) (ty : LTy)
  /-- `IntCmp` / `Add` / `Sub` / `Mul`: the generated instruction (operands as `Side` placeholders) -/
  | instr (to : Name) (i : Instruction) (l r : LOp)
  | not (to : Name) (v : LOp)
  | neg (to : Name) (v : LOp)
  | call (to : Option (Name × LTy)) (f : String) (args : List LOp)
  | jump (l : Nat)
  | switch (x : LOp) (brs : List (Nat × Nat)) (d : Nat)
  | ret (v : Option LOp)
  deriving Repr, Inhabited

structure LFn where
  name : String
  /-- the parameters that have an `IrType` -/
  params : List Name
  /-- temporaries allocated by the lowering, with their types -/
  newTmps : List (Name × LTy)
  blocks : List (Nat × List LIns)
  deriving Repr, Inhabited

/-! ### the lowering -/

def tyOf (types : List (Name × LTy)) (x : Name) : Option LTy :=
  match types with
  | [] => none
  | (y, t) :: rest => if x = y then some t else tyOf rest x

def primOf : LTy → Ty
  | .i32 => .Primitive (.Int .Signed .I32)
  | .bool => .Primitive .Bool

/-- the `IrType` of the temporary an instruction's result goes to -/
def destTy (opTy : LTy) : Instruction → LTy
  | .IntCmp .. | .FloatCmp .. | .CallEq .. => .bool
  | _ => opTy

/-- what a caller needs to know of a function of the program: which of its parameters have an
    `IrType`, and whether it returns a value -/
abbrev RetInfo := String → Option (List Bool × Bool)

/-- `Lowerer::instruction` at temporary counter `c` -/
def lowerIns (types : List (Name × LTy)) (retVal : Bool) (ri : RetInfo) (c : Nat) : MIns → Option (List LIns × List (Name × LTy) × Nat)
  | .assign to v =>
    match v with
    | .constInt n =>
      match tyOf types to with
      | some .i32 => some ([.assign to (.int n) .i32], [], c)
      | _ => none
    | .constBool b =>
      match tyOf types to with
      | some .bool => some ([.assign to (.bool b) .bool], [], c)
      | _ => none
    | .constUnit =>
      match tyOf types to with
      | none => some ([], [], c)
      | some _ => none
    | .clone w | .move w =>
      match tyOf types to, tyOf types w with
      | some t, some t' => if t = t' then some ([.assign to (.var w) t], [], c) else none
      | none, none => some ([], [], c)
      | _, _ => none
    | .binop l op ty r =>
      match tyOf types l, tyOf types r, tyOf types to with
      | some tl, some tr, some tt =>
        if tl = ty ∧ tr = ty then
          match lower_binop false op (primOf tl) with
          | .ok i =>
            if destTy tl i = tt then
              some ([.instr (.t c) i (.var l) (.var r), .assign to (.var (.t c)) tt], [(.t c, tt)], c + 1)
            else none
          | .panic => none
        else none
      | _, _, _ => none
    | .not w =>
      match tyOf types w, tyOf types to with
      | some .bool, some .bool => some ([.not (.t c) (.var w), .assign to (.var (.t c)) .bool], [(.t c, .bool)], c + 1)
      | _, _ => none
    | .neg w =>
      match tyOf types w, tyOf types to with
      | some .i32, some .i32 => some ([.neg (.t c) (.var w), .assign to (.var (.t c)) .i32], [(.t c, .i32)], c + 1)
      | _, _ => none
    | .call f args =>
      let largs := (args.filter (fun a => (tyOf types a).isSome)).map LOp.var
      match ri f, tyOf types to with
      | some (mask, true), some tt =>
        if args.map (fun a => (tyOf types a).isSome) = mask then
          some ([.call (some (.t c, tt)) f largs, .assign to (.var (.t c)) tt], [(.t c, tt)], c + 1)
        else none
      | some (mask, false), none =>
        if args.map (fun a => (tyOf types a).isSome) = mask then some ([.call none f largs], [], c) else none
      | _, _ => none
  | .jump l => some ([.jump l], [], c)
  | .switch x brs d =>
    match tyOf types x with
    | some _ =>
      match d with
      | some d => some ([.switch (.var x) brs d], [], c)
      | none =>
        match brs.getLast? with
        | some (_, l) => some ([.switch (.var x) brs.dropLast l], [], c)
        | none => none
    | none => none
  | .ret x =>
    if retVal then
      match tyOf types x with
      | some _ => some ([.ret (some (.var x))], [], c)
      | none => none
    else some ([.ret none], [], c)
  | .drop _ => some ([], [], c)
  | .other => none

/-- `Lowerer::block`: the instructions one after the other -/
def lowerInss (types : List (Name × LTy)) (retVal : Bool) (ri : RetInfo) : Nat → List MIns → Option (List LIns × List (Name × LTy) × Nat)
  | c, [] => some ([], [], c)
  | c, i :: rest =>
    match lowerIns types retVal ri c i with
    | some (li, ti, c1) =>
      match lowerInss types retVal ri c1 rest with
      | some (lr, tr, c2) => some (li ++ lr, ti ++ tr, c2)
      | none => none
    | none => none

/-- the blocks in order, the temporary counter threaded through -/
def lowerBlocks (types : List (Name × LTy)) (retVal : Bool) (ri : RetInfo) : Nat → List (Nat × List MIns) → Option (List (Nat × List LIns) × List (Name × LTy) × Nat)
  | c, [] => some ([], [], c)
  | c, (l, ins) :: rest =>
    match lowerInss types retVal ri c ins with
    | some (li, ti, c1) =>
      match lowerBlocks types retVal ri c1 rest with
      | some (lr, tr, c2) => some ((l, li) :: lr, ti ++ tr, c2)
      | none => none
    | none => none

/-- no temporary of the variable table is one the lowering may allocate -/
def tmpsBelow (types : List (Name × LTy)) (c : Nat) : Bool :=
  types.all (fun p => match p.1 with | .t i => decide (i < c) | _ => true)

/-- `Lowerer::item` -/
def lowerFn (ri : RetInfo) (fn : MFn) : Option LFn :=
  if tmpsBelow fn.types fn.tmpIdx then
    match lowerBlocks fn.types fn.retVal ri fn.tmpIdx fn.blocks with
    | some (bs, ts, _) =>
      some { name := fn.name, params := fn.params.filter (fun p => (tyOf fn.types p).isSome), newTmps := ts, blocks := bs }
    | none => none
  else none

def retInfoOf (P : List MFn) : RetInfo := fun f =>
  (P.find? (fun fn => fn.name == f)).map (fun fn => (fn.params.map (fun p => (tyOf fn.types p).isSome), fn.retVal))

def lowerProgWith (ri : RetInfo) : List MFn → Option (List LFn)
  | [] => some []
  | fn :: rest =>
    match lowerFn ri fn, lowerProgWith ri rest with
    | some l, some ls => some (l :: ls)
    | _, _ => none

/-- `Lowerer::program` on the functions of the fragment -/
def lowerProg (P : List MFn) : Option (List LFn) := lowerProgWith (retInfoOf P) P

/-! ### semantics of both stages -/

abbrev Store := Name → Val

def Store.set (σ : Store) (x : Name) (v : Val) : Store := fun y => if y = x then v else σ y

/-- how a block ends: a transfer to another block (with the store it leaves), or a return -/
inductive Next
  | goto (l : Nat) (σ : Store)
  | ret (v : Val)

def findBlock {α} (bs : List (Nat × α)) (l : Nat) : Option α :=
  match bs with
  | [] => none
  | (k, b) :: rest => if k = l then some b else findBlock rest l

/-- the label a switch on `v` selects: `true` is 1, `false` is 0 -/
def switchKey : Val → Option Nat
  | .bool true => some 1
  | .bool false => some 0
  | .int n => if 0 ≤ n then some n.toNat else none
  | _ => none

def selectBr (k : Nat) : List (Nat × Nat) → Option Nat
  | [] => none
  | (k', l) :: rest => if k' = k then some l else selectBr k rest

def bindAll (ps : List Name) (vs : List Val) : Option Store :=
  match ps, vs with
  | [], [] => some (fun _ => .unit)
  | p :: ps, v :: vs => (bindAll ps vs).map (fun σ => σ.set p v)
  | _, _ => none

section
variable [FloatOps]

/-- a generated LIR instruction on two values: the generated codegen arm on CLIF semantics
    applied to their SSA values -/
def runI (i : Instruction) (a b : Val) : Option Val :=
  match C01MirRun.cvOf a, C01MirRun.cvOf b with
  | some ca, some cb =>
    match runInstr false i (operands ca cb) with
    | .ok c => C01MirRun.decode c
    | .panic => none
  | _, _ => none

/-- `BinOp { binop, ty }` of MIR: the instruction the generated `lower_binop` selects at `ty` -/
def binopAt (ty : LTy) (op : BinOp) (a b : Val) : Option Val :=
  match lower_binop false op (primOf ty) with
  | .ok i => runI i a b
  | .panic => none

/-- one block of MIR; `call` runs a function of the program (with less fuel) -/
def mExec (call : String → List Val → Option Val) : List MIns → Store → Option Next
  | [], _ => none
  | .assign to v :: rest, σ =>
    let r : Option Val :=
      match v with
      | .constInt n => some (.int n)
      | .constBool b => some (.bool b)
      | .constUnit => some .unit
      | .clone w | .move w => some (σ w)
      | .binop l op ty r => binopAt ty op (σ l) (σ r)
      | .not w => C01MirRun.tableNot (σ w)
      | .neg w => C01MirRun.tableNeg (σ w)
      | .call f args => call f (args.map σ)
    match r with
    | some w => mExec call rest (σ.set to w)
    | none => none
  | .jump l :: _, σ => some (.goto l σ)
  | .switch x brs d :: _, σ =>
    match switchKey (σ x) with
    | some k =>
      match selectBr k brs with
      | some l => some (.goto l σ)
      | none => d.map (fun l => .goto l σ)
    | none => none
  | .ret x :: _, σ => some (.ret (σ x))
  | .drop _ :: rest, σ => mExec call rest σ
  | .other :: _, _ => none

def mLoop (call : String → List Val → Option Val) (blocks : List (Nat × List MIns)) : Nat → Nat → Store → Option Val
  | 0, _, _ => none
  | k + 1, l, σ =>
    match findBlock blocks l with
    | some ins =>
      match mExec call ins σ with
      | some (.goto l' σ') => mLoop call blocks k l' σ'
      | some (.ret v) => some v
      | none => none
    | none => none

/-- call function `f` of the MIR program with fuel `n` -/
def mRun (P : List MFn) : Nat → String → List Val → Option Val
  | 0, _, _ => none
  | n + 1, f, args =>
    match P.find? (fun fn => fn.name == f) with
    | some fn =>
      match bindAll fn.params args, fn.blocks with
      | some σ, (l0, _) :: _ => mLoop (mRun P n) fn.blocks n l0 σ
      | _, _ => none
    | none => none

def lVal (σ : Store) : LOp → Val
  | .var x => σ x
  | .int n => .int n
  | .bool b => .bool b

/-- one block of LIR -/
def lExec (call : String → List Val → Option Val) : List LIns → Store → Option Next
  | [], _ => none
  | .assign to v _ :: rest, σ => lExec call rest (σ.set to (lVal σ v))
  | .instr to i l r :: rest, σ =>
    match runI i (lVal σ l) (lVal σ r) with
    | some w => lExec call rest (σ.set to w)
    | none => none
  | .not to v :: rest, σ =>
    match C01MirRun.tableNot (lVal σ v) with
    | some w => lExec call rest (σ.set to w)
    | none => none
  | .neg to v :: rest, σ =>
    match C01MirRun.tableNeg (lVal σ v) with
    | some w => lExec call rest (σ.set to w)
    | none => none
  | .call to f args :: rest, σ =>
    match call f (args.map (lVal σ)) with
    | some w =>
      match to with
      | some (t, _) => lExec call rest (σ.set t w)
      | none => lExec call rest σ
    | none => none
  | .jump l :: _, σ => some (.goto l σ)
  | .switch x brs d :: _, σ =>
    match switchKey (lVal σ x) with
    | some k => some (.goto ((selectBr k brs).getD d) σ)
    | none => none
  | .ret none :: _, _ => some (.ret .unit)
  | .ret (some v) :: _, σ => some (.ret (lVal σ v))

def lLoop (call : String → List Val → Option Val) (blocks : List (Nat × List LIns)) : Nat → Nat → Store → Option Val
  | 0, _, _ => none
  | k + 1, l, σ =>
    match findBlock blocks l with
    | some ins =>
      match lExec call ins σ with
      | some (.goto l' σ') => lLoop call blocks k l' σ'
      | some (.ret v) => some v
      | none => none
    | none => none

/-- call function `f` of the LIR program with fuel `n` -/
def lRun (L : List LFn) : Nat → String → List Val → Option Val
  | 0, _, _ => none
  | n + 1, f, args =>
    match L.find? (fun fn => fn.name == f) with
    | some fn =>
      match bindAll fn.params args, fn.blocks with
      | some σ, (l0, _) :: _ => lLoop (lRun L n) fn.blocks n l0 σ
      | _, _ => none
    | none => none

end

end RotoV.C01Lir
