/-
  Model/ValueCtor — C02: the total core of the value-semantics reading of
  CONSTRUCTORS, and the MIR lowering of that core as `src/mir/lower.rs` does it.

  Source core (`CE`): literals, reads of a variable / a field path / a nested
  path / a whole record (`read x p`), constructors whose components are written
  one after the other (`ctor`: a record literal, an anonymous record, an enum
  constructor, the arguments of a call — anything that evaluates its components
  in order and stores each), integer `+` (`add`, the two-component "constructor"
  every binary operator is), and block expressions `{ x.p = rhs; rest }` (`blk`)
  that WRITE to a variable of the enclosing scope before they yield a value.

  Spec (`eval` / `evals`): components are evaluated left to right, and each
  component IS the value its expression had at that point — a `V` is a tree
  without any reference to the store, so nothing that happens later can change it.

  Target (`Instr`): the MIR instructions `Lowerer::record`, `Lowerer::assign`,
  `Lowerer::block`, `Lowerer::block_expr`, `Lowerer::binop` emit for that core:
  `place: ty = value` with `value` one of `clone(place)` (READ WHEN EXECUTED),
  `move(var)`, a constant, `l + r`.  `lower` transliterates the lowerer
  statement by statement, including what makes the question non-trivial:
  `path_value` returns `Value::Clone(place)` WITHOUT emitting anything (the read
  happens when the value is assigned), `assign_to_var` emits nothing for a
  `Value::Move`, every component is stored by `assign_to_var` right after its
  expression was lowered, a block stores its final value in a variable of its
  own.  The parameter `mat` is that one decision of `Lowerer::record`: `true` =
  every component is stored before the next one is lowered (the tree), `false`
  = a component that is a plain read or a constant is kept as the lazy value
  and written into the record at the end (the class of seeded change C02-7).

  Theorems: `Lemmas/ValueCtor`, `Props/C02` (`constructor_lowering_holds_values`,
  `unmaterialised_component_refuted`, `components_left_to_right`).
  Tie: the harness prints generated `CE` programs as Roto source, reads the real
  lowerer's MIR of each (`verif_hooks::core::lower_to_mir(..).text()`), and the
  driver (`c02 ctor …`) runs THAT instruction list with `run` against `eval`.
  Core Lean only.
-/
namespace RotoV.ValueCtor

/-- values: integers and (cons-lists of) components; `nil` is also `()` -/
inductive V where
  | int (i : Int)
  | nil
  | cons (hd tl : V)
  deriving DecidableEq, Repr, Inhabited

namespace V

/-- component `k` of a record value -/
def get : V → Nat → V
  | .cons h _, 0 => h
  | .cons _ t, k + 1 => t.get k
  | _, _ => .nil

/-- the record value with component `k` replaced (a value that is too short is
    padded: storing field 0, then field 1, … into fresh storage builds the record) -/
def setAt : V → Nat → V → V
  | .cons _ t, 0, v => .cons v t
  | .cons h t, k + 1, v => .cons h (t.setAt k v)
  | _, 0, v => .cons v .nil
  | _, k + 1, v => .cons .nil (V.nil.setAt k v)

/-- the component a field path names -/
def proj : V → List Nat → V
  | v, [] => v
  | v, k :: p => (v.get k).proj p

/-- the value with the component a field path names replaced -/
def upd : V → List Nat → V → V
  | _, [], nv => nv
  | v, k :: p, nv => v.setAt k ((v.get k).upd p nv)

def add : V → V → V
  | .int a, .int b => .int (a + b)
  | _, _ => .nil

end V

mutual
/-- the source core -/
inductive CE where
  | lit (v : V)
  /-- a variable (`p = []`), a field path, a nested path -/
  | read (x : Nat) (p : List Nat)
  /-- a constructor: its components in the order written -/
  | ctor (cs : CEs)
  | add (a b : CE)
  /-- `{ x.p = rhs; rest }` -/
  | blk (x : Nat) (p : List Nat) (rhs rest : CE)
inductive CEs where
  | nil
  | cons (c : CE) (cs : CEs)
end

/-- the variables of the enclosing scope -/
abbrev Store := List V

def Store.read (σ : Store) (x : Nat) : V := σ.getD x .nil
def Store.write (σ : Store) (x : Nat) (p : List Nat) (v : V) : Store := σ.set x ((σ.read x).upd p v)

/-! ### the value-semantics spec -/

mutual
/-- value and store after evaluating an expression -/
def eval : CE → Store → V × Store
  | .lit v, σ => (v, σ)
  | .read x p, σ => ((σ.read x).proj p, σ)
  | .ctor cs, σ => evals cs σ
  | .add a b, σ =>
    let r₁ := eval a σ
    let r₂ := eval b r₁.2
    (V.add r₁.1 r₂.1, r₂.2)
  | .blk x p rhs rest, σ =>
    let r₁ := eval rhs σ
    eval rest (r₁.2.write x p r₁.1)
/-- the components of a constructor, left to right: each one in the store the
    ones before it left behind; the result holds the VALUES -/
def evals : CEs → Store → V × Store
  | .nil, σ => (.nil, σ)
  | .cons c cs, σ =>
    let r₁ := eval c σ
    let r₂ := evals cs r₁.2
    (.cons r₁.1 r₂.1, r₂.2)
end

/-! ### MIR -/

inductive Var where
  | user (x : Nat)
  | tmp (n : Nat)
  deriving DecidableEq, Repr, Inhabited

structure Place where
  var : Var
  proj : List Nat
  deriving DecidableEq, Repr, Inhabited

/-- `mir::Value` -/
inductive Val where
  | const (v : V)
  /-- read WHEN THE INSTRUCTION THAT HOLDS IT RUNS -/
  | clone (p : Place)
  | move (x : Var)
  | add (l r : Var)
  deriving DecidableEq, Repr, Inhabited

/-- `Instruction::Assign { to, value }` (drops do not change any value) -/
structure Instr where
  to : Place
  val : Val
  deriving DecidableEq, Repr, Inhabited

/-- machine state: the variables of the script and the temporaries -/
structure MS where
  users : Store
  tmps : Nat → V

def MS.var (s : MS) : Var → V
  | .user x => s.users.read x
  | .tmp n => s.tmps n

def MS.evalVal (s : MS) : Val → V
  | .const v => v
  | .clone p => (s.var p.var).proj p.proj
  | .move x => s.var x
  | .add l r => V.add (s.var l) (s.var r)

def MS.step (s : MS) (i : Instr) : MS :=
  let v := s.evalVal i.val
  match i.to.var with
  | .user x => { s with users := s.users.write x i.to.proj v }
  | .tmp n => { s with tmps := fun m => if m = n then (s.tmps n).upd i.to.proj v else s.tmps m }

def MS.run (s : MS) (code : List Instr) : MS := code.foldl MS.step s

/-! ### the lowering (`src/mir/lower.rs`) -/

/-- `Lowerer::assign_to_var`: nothing for a `Value::Move`, otherwise a fresh
    temporary that receives the value NOW -/
def assignToVar (val : Val) (n : Nat) : List Instr × Var × Nat :=
  match val with
  | .move x => ([], x, n)
  | v => ([⟨⟨.tmp n, []⟩, v⟩], .tmp n, n + 1)

/-- `Lowerer::record`'s decision per component: `mat = true` (the tree):
    `assign_to_var(op)`; `mat = false` (class C02-7): a plain read or a constant
    stays the lazy value it is -/
def component (mat : Bool) (val : Val) (n : Nat) : List Instr × Val × Nat :=
  match mat, val with
  | false, .clone p => ([], .clone p, n)
  | false, .const v => ([], .const v, n)
  | _, v =>
    let r := assignToVar v n
    (r.1, .move r.2.1, r.2.2)

/-- the final loop of `Lowerer::record`: `to.k = value_k` -/
def assemble (to : Nat) : List Val → Nat → List Instr
  | [], _ => []
  | v :: vs, k => ⟨⟨.tmp to, [k]⟩, v⟩ :: assemble to vs (k + 1)

mutual
/-- code emitted, the (lazy) value returned, the next free temporary -/
def lower (mat : Bool) : CE → Nat → List Instr × Val × Nat
  | .lit v, n => ([], .const v, n)
  -- `path_value`: `Value::Clone(place)`, nothing emitted
  | .read x p, n => ([], .clone ⟨.user x, p⟩, n)
  -- `Lowerer::record`
  | .ctor cs, n =>
    let r := lowerComps mat cs n
    let to := r.2.2
    (r.1 ++ assemble to r.2.1 0, .move (.tmp to), to + 1)
  -- `Lowerer::binop`
  | .add a b, n =>
    let ra := lower mat a n
    let la := assignToVar ra.2.1 ra.2.2
    let rb := lower mat b la.2.2
    let lb := assignToVar rb.2.1 rb.2.2
    (ra.1 ++ la.1 ++ rb.1 ++ lb.1, .add la.2.1 lb.2.1, lb.2.2)
  -- `Lowerer::block_expr` around `Lowerer::block` around `stmt(Lowerer::assign)`
  | .blk x p rhs rest, n =>
    let r₁ := lower mat rhs n
    -- assign: `tmp = val; drop(place); place = move(tmp)`, value `()`
    let t := r₁.2.2
    -- stmt: the `()` is stored in a variable and dropped
    let u := t + 1
    let r₂ := lower mat rest (u + 1)
    -- block: `final_var = assign_to_var(op)`
    let f := assignToVar r₂.2.1 r₂.2.2
    -- block_expr: `res = move(final_var)`
    let res := f.2.2
    (r₁.1 ++ [⟨⟨.tmp t, []⟩, r₁.2.1⟩, ⟨⟨.user x, p⟩, .move (.tmp t)⟩, ⟨⟨.tmp u, []⟩, .const .nil⟩]
      ++ r₂.1 ++ f.1 ++ [⟨⟨.tmp res, []⟩, .move f.2.1⟩],
     .move (.tmp res), res + 1)
/-- the first loop of `Lowerer::record`: lower a component, store it, go on -/
def lowerComps (mat : Bool) : CEs → Nat → List Instr × List Val × Nat
  | .nil, n => ([], [], n)
  | .cons c cs, n =>
    let r₁ := lower mat c n
    let m := component mat r₁.2.1 r₁.2.2
    let r₂ := lowerComps mat cs m.2.2
    (r₁.1 ++ m.1 ++ r₂.1, m.2.1 :: r₂.2.1, r₂.2.2)
end

/-- a function body `{ e }`: `function_like` stores the value of the body in a
    variable (`assign_to_var`) and returns it -/
def lowerBody (mat : Bool) (e : CE) : List Instr × Var :=
  let r := lower mat e 0
  let f := assignToVar r.2.1 r.2.2
  (r.1 ++ f.1, f.2.1)

/-- run the lowered body from a store: the value returned and the variables afterwards -/
def runBody (mat : Bool) (e : CE) (σ : Store) : V × Store :=
  let b := lowerBody mat e
  let s := MS.run ⟨σ, fun _ => .nil⟩ b.1
  (s.var b.2, s.users)

end RotoV.ValueCtor
