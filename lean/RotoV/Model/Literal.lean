/-
  Literal: executable models of how roto turns the *spelling* of a literal
  into a value — `Lexer::number` / `hex_number` / `as_number` / `ipv4`
  (src/parser/lexer.rs), `Parser::simple_literal` and `unescape_str`
  (src/parser/expr.rs).  Text is `List Char`.

  `unescape` models `rustc_literal_escaper::unescape_str` (mode `Str`) for the
  escapes the manual documents; that crate is *trusted* (DESIGN §2) and the
  model is tied to it by the correspondence run, not by proof.  The XID
  predicates of `unicode-ident` are parameters.

  Core Lean only: linked into the driver.
-/
namespace RotoV.Literal

/-! ## characters -/

/-- `char::is_ascii_digit` -/
def isDigit (c : Char) : Bool := 48 ≤ c.toNat && c.toNat ≤ 57
/-- `is_roto_digit` -/
def isRotoDigit (c : Char) : Bool := isDigit c || c == '_'
def digitVal (c : Char) : Nat := c.toNat - 48

/-- `char::to_digit(16)` -/
def hexVal (c : Char) : Option Nat :=
  let n := c.toNat
  if 48 ≤ n && n ≤ 57 then some (n - 48)
  else if 97 ≤ n && n ≤ 102 then some (n - 87)
  else if 65 ≤ n && n ≤ 70 then some (n - 55)
  else none
def isHexDigit (c : Char) : Bool := (hexVal c).isSome

/-! ## `str::parse` for unsigned decimal / hexadecimal digit strings -/

/-- digits → number in base `b` (`none` on an empty string or a bad digit) -/
def parseRadixAux (b : Nat) : Nat → List Char → Option Nat
  | acc, [] => some acc
  | acc, c :: cs =>
    match hexVal c with
    | some d => if d < b then parseRadixAux b (acc * b + d) cs else none
    | none => none

def parseRadix (b : Nat) (cs : List Char) : Option Nat :=
  if cs.isEmpty then none else parseRadixAux b 0 cs

/-- `s.parse::<i64>()` for a string that starts with a digit -/
def parseI64 (cs : List Char) : Option Nat :=
  match parseRadix 10 cs with
  | some n => if n < 2 ^ 63 then some n else none
  | none => none

/-! ## `Lexer::number` -/

structure NumTok where
  isFloat : Bool
  num : List Char
  suffix : List Char
  rest : List Char
  deriving Repr, DecidableEq

/-- `tail.eat_while(p)`: (eaten, tail) -/
def eatWhile (p : Char → Bool) : List Char → List Char × List Char
  | [] => ([], [])
  | c :: cs => if p c then let (a, b) := eatWhile p cs; (c :: a, b) else ([], c :: cs)

/-- the edge case of the block `'float`: `10..`, `10._hello`, `10.hello` are an
    integer followed by something else (`break 'float`) -/
def floatBrk (xidStart : Char → Bool) : List Char → Bool
  | '.' :: c :: _ => xidStart c || c == '.' || c == '_'
  | _ => false

/-- `if tail.starts_with('.') { is_float = true; eat '.'; eat digits }` -/
def floatFrac : List Char → Bool × List Char × List Char
  | '.' :: t' => let r := eatWhile isRotoDigit t'; (true, '.' :: r.1, r.2)
  | t => (false, [], t)

/-- `if tail.eat_one_of(['e', 'E']) { is_float = true; eat_one_of(['+', '-']); eat digits }` -/
def floatExp (isF : Bool) (fl : List Char) : List Char → Bool × List Char × List Char
  | e :: t' =>
    if e == 'e' || e == 'E' then
      let sg : List Char × List Char := match t' with
        | s :: u => if s == '+' || s == '-' then ([s], u) else ([], t')
        | [] => ([], [])
      let r := eatWhile isRotoDigit sg.2
      (true, fl ++ e :: sg.1 ++ r.1, r.2)
    else (isF, fl, e :: t')
  | [] => (isF, fl, [])

/-- the labelled block `'float: { … }` of `Lexer::number`, run on the text
    after the first digits: (is it a float, the characters it adds to the
    number, the text after them) -/
def floatBlock (xidStart : Char → Bool) (t : List Char) : Bool × List Char × List Char :=
  if floatBrk xidStart t then (false, [], t) else
  let r := floatFrac t
  floatExp r.1 r.2.1 r.2.2

/-- `Lexer::number`; `xidStart`/`xidCont` are `unicode_ident`'s predicates. -/
def lexNumber (xidStart xidCont : Char → Bool) (inp : List Char) : Option NumTok :=
  match inp with
  | [] => none
  | c0 :: _ =>
    if !isDigit c0 then none else
    let dt := eatWhile isRotoDigit inp
    let fb := floatBlock xidStart dt.2
    let sr := eatWhile (fun c => xidCont c || c == '_') fb.2.2
    some { isFloat := fb.1, num := dt.1 ++ fb.2.1, suffix := sr.1, rest := sr.2 }

/-! ## `simple_literal`, integer tokens -/

def stripUnderscores (cs : List Char) : List Char := cs.filter (· != '_')

def intSuffixes : List (List Char) :=
  ["i8", "i16", "i32", "i64", "u8", "u16", "u32", "u64", ""].map String.toList

/-- decimal float text (underscores removed) as an exact decimal `m · 10^e`:
    Rust's `f64::from_str` grammar restricted to what the lexer produces
    (`digits [. digits] [(e|E) [+|-] digits]`, at least one exponent digit). -/
def parseDecimal (cs : List Char) : Option (Nat × Int) :=
  let (ip, t) := eatWhile isDigit cs
  let (fp, t) : List Char × List Char := match t with
    | '.' :: t' => eatWhile isDigit t'
    | _ => ([], t)
  if ip.isEmpty && fp.isEmpty then none else
  let m := (ip ++ fp).foldl (fun a c => a * 10 + digitVal c) 0
  match t with
  | [] => some (m, - (fp.length : Int))
  | e :: t' =>
    if e == 'e' || e == 'E' then
      let (neg, t'') : Bool × List Char := match t' with
        | '+' :: u => (false, u)
        | '-' :: u => (true, u)
        | _ => (false, t')
      match parseRadix 10 t'' with
      | some x => some (m, (if neg then - (x : Int) else (x : Int)) - (fp.length : Int))
      | none => none
    else none

/-- round-half-even quotient -/
def roundDiv (p q : Nat) : Nat :=
  let d := p / q
  let r := p % q
  if 2 * r < q then d else if 2 * r > q then d + 1 else if d % 2 = 0 then d else d + 1

/-- IEEE-754 binary64 bit pattern nearest (ties to even) to `m · 10^e`
    (exact integer arithmetic; overflow gives +∞). -/
def f64Bits (m : Nat) (e : Int) : Nat :=
  if m = 0 then 0 else
  let p := m * 10 ^ e.toNat
  let q := 10 ^ (-e).toNat
  let scaled (k : Int) : Nat × Nat :=
    if k ≥ 0 then (p, q * 2 ^ k.toNat) else (p * 2 ^ (-k).toNat, q)
  let fits (k : Int) : Bool :=
    let (a, b) := scaled k
    decide (2 ^ 52 ≤ a / b) && decide (a / b < 2 ^ 53)
  let est : Int := (p.log2 : Int) - (q.log2 : Int) - 52
  let k : Int := if fits (est - 1) then est - 1 else if fits est then est else est + 1
  let k : Int := if k < -1074 then -1074 else k
  let (a, b) := scaled k
  let mant := roundDiv a b
  let bits := (k + 1074).toNat * 2 ^ 52 + mant
  if bits ≥ 0x7FF0000000000000 then 0x7FF0000000000000 else bits

inductive Lit
  | int (n : Nat) (suffix : List Char)
  /-- f64 bit pattern of the value, suffix (`f32` values are this one cast) -/
  | float (bits : Nat) (suffix : List Char)
  | asn (n : Nat)
  | ipv4 (a b c d : Nat)
  deriving Repr, DecidableEq

/-- `simple_literal` on `Token::Integer(num, suffix)` / `Token::Float(num, suffix)` -/
def decodeNumTok (t : NumTok) : Option Lit :=
  let s := stripUnderscores t.num
  if t.isFloat then
    if t.suffix == "f32".toList || t.suffix == "f64".toList || t.suffix == [] then
      (parseDecimal s).map fun (m, e) => .float (f64Bits m e) t.suffix
    else none
  else if t.suffix == "f32".toList || t.suffix == "f64".toList then
    (parseDecimal s).map fun (m, e) => .float (f64Bits m e) t.suffix
  else
    match parseI64 s with
    | some n => if intSuffixes.contains t.suffix then some (.int n t.suffix) else none
    | none => none

/-- a complete numeric literal: lexed by `number`, nothing left over -/
def decodeNumber (xidStart xidCont : Char → Bool) (src : List Char) : Option Lit :=
  match lexNumber xidStart xidCont src with
  | some t => if t.rest.isEmpty then decodeNumTok t else none
  | none => none

/-- `hex_number` + `i64::from_str_radix(&s[2..], 16)` on a complete literal -/
def decodeHex (src : List Char) : Option Nat :=
  match src with
  | '0' :: 'x' :: ds =>
    let (h, rest) := eatWhile isHexDigit ds
    if !rest.isEmpty then none else
    match parseRadix 16 h with
    | some n => if n < 2 ^ 63 then some n else none
    | none => none
  | _ => none

/-- `as_number` + `s[2..].parse::<u32>()` on a complete literal -/
def decodeAsn (src : List Char) : Option Nat :=
  match src with
  | 'A' :: 'S' :: ds =>
    let (h, rest) := eatWhile isDigit ds
    if !rest.isEmpty then none else
    match parseRadix 10 h with
    | some n => if n < 2 ^ 32 then some n else none
    | none => none
  | _ => none

/-- one octet of `Ipv4Addr::from_str`: 1–3 digits, no leading zero, ≤ 255 -/
def parseOctet (cs : List Char) : Option Nat :=
  if cs.length > 3 then none
  else if cs.length > 1 && cs.head? == some '0' then none
  else match parseRadix 10 cs with
    | some n => if n ≤ 255 then some n else none
    | none => none

/-- `ipv4` + `Ipv4Addr::from_str` on a complete literal -/
def decodeIpv4 (src : List Char) : Option Lit :=
  let (a, t) := eatWhile isDigit src
  match t with
  | '.' :: t =>
    let (b, t) := eatWhile isDigit t
    match t with
    | '.' :: t =>
      let (c, t) := eatWhile isDigit t
      match t with
      | '.' :: t =>
        let (d, t) := eatWhile isDigit t
        if !t.isEmpty then none else
        match parseOctet a, parseOctet b, parseOctet c, parseOctet d with
        | some a, some b, some c, some d => some (.ipv4 a b c d)
        | _, _, _, _ => none
      | _ => none
    | _ => none
  | _ => none

/-- `ip / len` (src/typechecker/expr.rs: `Prefix.new(ip, len)`,
    `Prefix::new_relaxed`): the address with host bits cleared, and the length;
    `none` when `len > 32` (the built-in unwraps: C10's finding, not C09's). -/
def prefixV4 (a b c d len : Nat) : Option (Nat × Nat) :=
  if len > 32 then none else
  let addr := ((a * 256 + b) * 256 + c) * 256 + d
  some ((addr / 2 ^ (32 - len)) * 2 ^ (32 - len), len)

/-! ## `unescape_str` (rustc_literal_escaper, mode `Str`; trusted, modelled) -/

/-- `simple_escape` plus `\0` -/
def simpleEscape : Char → Option Char
  | '"' => some '"'
  | 'n' => some '\n'
  | 'r' => some '\r'
  | 't' => some '\t'
  | '\\' => some '\\'
  | '\'' => some '\''
  | '0' => some (Char.ofNat 0)
  | _ => none

/-- the part of `unicode_escape` after the first digit: (value, digits, rest) -/
def unicodeRest : Nat → Nat → List Char → Option (Nat × Nat × List Char)
  | _, _, [] => none                                         -- UnclosedUnicodeEscape
  | v, n, c :: cs =>
    if c == '_' then unicodeRest v n cs
    else if c == '}' then (if n > 6 then none else some (v, n, cs))   -- OverlongUnicodeEscape
    else match hexVal c with
      | some d => unicodeRest (if n + 1 > 6 then v else v * 16 + d) (n + 1) cs
      | none => none                                         -- InvalidCharInUnicodeEscape

/-- is `v` a Unicode scalar value (`char::from_u32`) -/
def isScalar (v : Nat) : Bool := v < 0xD800 || (0xDFFF < v && v ≤ 0x10FFFF)

/-- skip `' ' '\t' '\n' '\r'` (`skip_ascii_whitespace`; its findings are warnings) -/
def skipWs : List Char → List Char
  | [] => []
  | c :: cs => if c == ' ' || c == '\t' || c == '\n' || c == '\r' then skipWs cs else c :: cs

theorem skipWs_length_le (cs : List Char) : (skipWs cs).length ≤ cs.length := by
  induction cs with
  | nil => simp [skipWs]
  | cons c cs ih => unfold skipWs; split <;> simp <;> omega

theorem unicodeRest_length_le (v n : Nat) (cs : List Char) (v' n' : Nat) (r : List Char)
    (h : unicodeRest v n cs = some (v', n', r)) : r.length ≤ cs.length := by
  induction cs generalizing v n with
  | nil => simp [unicodeRest] at h
  | cons c cs ih =>
    unfold unicodeRest at h
    split at h
    · have := ih _ _ h; simp; omega
    · split at h
      · split at h
        · simp at h
        · simp at h; obtain ⟨_, _, rfl⟩ := h; simp
      · split at h
        · have := ih _ _ h; simp; omega
        · simp at h

/-- `unescape_str` followed by roto's "first fatal error wins": the unescaped
    text, or `none` on any fatal `EscapeError`. -/
def unescape : List Char → Option (List Char)
  | [] => some []
  | '\\' :: '\n' :: cs =>
    have : (skipWs cs).length < cs.length + 2 := by have := skipWs_length_le cs; omega
    unescape (skipWs cs)
  | '\\' :: 'x' :: h :: l :: cs =>
    match hexVal h, hexVal l with
    | some a, some b =>
      if a * 16 + b < 128 then (unescape cs).map (Char.ofNat (a * 16 + b) :: ·) else none
    | _, _ => none
  | '\\' :: 'u' :: '{' :: c :: cs =>
    match hexVal c with
    | none => none          -- leading `_`, empty `{}`, bad digit
    | some d =>
      match h : unicodeRest d 1 cs with
      | some (v, _, rest) =>
        have : rest.length < cs.length + 4 := by
          have := unicodeRest_length_le _ _ _ _ _ _ h; omega
        if isScalar v then (unescape rest).map (Char.ofNat v :: ·) else none
      | none => none
  | '\\' :: c :: cs =>
    match simpleEscape c with
    | some r => (unescape cs).map (r :: ·)
    | none => none          -- InvalidEscape (incl. malformed `\x`, `\u`)
  | ['\\'] => none          -- LoneSlash
  | c :: cs =>
    if c == '"' || c == '\r' then none   -- EscapeOnlyChar / BareCarriageReturn
    else (unescape cs).map (c :: ·)
termination_by cs => cs.length
decreasing_by all_goals simp_wf <;> omega

/-- `unescape_char`: exactly one unit; `\n`, `\t`, `'` must be escaped -/
def unescapeChar (cs : List Char) : Option Char :=
  match cs with
  | [] => none
  | '\\' :: _ =>
    (match cs with
     | '\\' :: '\n' :: _ => none       -- no line continuation in a char
     | _ => match unescape cs with
       | some [c] => some c
       | _ => none)
  | [c] => if c == '\n' || c == '\t' || c == '\'' || c == '\r' then none else some c
  | _ => none

end RotoV.Literal
