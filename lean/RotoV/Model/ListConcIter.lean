/-
  C16 — a LIVE Rust-side iterator of a shared list, driven by one thread while
  other threads operate on the same list (src/value/list.rs, `IntoIterator for
  List<A>` / `IntoIter`).

  `IntoIter` keeps a list handle and an index; `next` is one `List::get` on the
  handle — one critical section per call — so an iteration is a *sequence of
  separate critical sections* between which every other thread may push, swap,
  concat, … . A thread driving an iterator is an ADAPTIVE program: which
  operation it issues next depends on the results it got so far (the cursor
  moves iff `next` returned an element). What `into_iter` initialises and what
  `next` decides — does it answer `None` without looking at the list, which
  index does it pass to `List::get`, the index afterwards — is *generated* from
  the source on every run (Generated/ListIter, translator target `listiter`)
  and executed here.

  `resolved`: the base operations (`Op` of `ListConc`) an adaptive program has
  issued, given the results of its completed operations. `Follows`: a static
  program of the step model is what the adaptive program issued under the
  results the run produced. Every theorem of C16 is for ALL static programs, so
  it holds for every run that `Follows` an adaptive one; the iterator-specific
  theorems are stated with `Follows` as hypothesis, and the driver executes
  `idrive` (resolve, run the step model, resolve again) for the correspondence
  run.

  Core Lean only (linked into the driver).
-/
import RotoV.Model.ListConc
import RotoV.Generated.ListIter

namespace RotoV.ListConc
open RotoV

/-- operations of a thread that may drive one iterator -/
inductive IOp
  | base (op : Op)
  /-- `h.clone().into_iter()` over shared list `l` (an `Arc` clone: no lock) -/
  | iterNew (l : Nat)
  /-- `it.next()` -/
  | iterNext
  /-- the iterator is dropped, with its handle -/
  | iterDrop
  deriving DecidableEq, Repr

/-- the thread-local state of the iterator: its list and `idx` (`none`: no iterator) -/
abbrev Cursor := Option (Nat × Nat)

/-- what `next` sees of the iterator. The list's own `len` / `capacity` are NOT
    visible to `next` without a lock; the model has no length snapshot either
    (`iter_next_as_modelled` checks that the generated decisions read neither) -/
def iterView (idx : Nat) : Gen.ListIter.IterView := Gen.ListIter.mkView ⟨0, 0⟩ idx 0

/-- the base operation an adaptive operation issues (`none`: `next` / drop without an iterator) -/
def iresolve : Cursor → IOp → Option Op
  | _, .base op => some op
  | _, .iterNew l => some (.clone l)
  | some (l, idx), .iterNext => some (.get l (Gen.ListIter.nextIndex (iterView idx)))
  | some (l, _), .iterDrop => some (.drop l)
  | none, _ => none

/-- the iterator after the operation returned `r` -/
def iadvance : Cursor → IOp → Res → Cursor
  | c, .base _, _ => c
  | _, .iterNew l, _ => some (l, Gen.ListIter.startIdx)
  | some (l, idx), .iterNext, .opt (some _) => some (l, Gen.ListIter.nextIdxAfter (iterView idx))
  | c, .iterNext, _ => c
  | _, .iterDrop, _ => none

/-- the base operations an adaptive program has issued *and completed*, given
    the results of its completed operations (oldest first) -/
def resolved : Cursor → List IOp → List Res → List Op
  | c, iop :: rest, r :: rs =>
    match iresolve c iop with
    | some op => op :: resolved (iadvance c iop r) rest rs
    | none => []
  | _, _, _ => []

/-- the cursor and the rest of the adaptive program after `rs` -/
def icursor : Cursor → List IOp → List Res → Cursor × List IOp
  | c, iop :: rest, r :: rs =>
    match iresolve c iop with
    | some _ => icursor (iadvance c iop r) rest rs
    | none => (c, [])
  | c, rest, _ => (c, rest)

/-- the operation the adaptive program issues next after results `rs` -/
def inextOp (iprog : List IOp) (rs : List Res) : Option Op :=
  match icursor none iprog rs with
  | (c, iop :: _) => iresolve c iop
  | (_, []) => none

/-- the static program `prog`, with the results `rs` of its completed
    operations, is what the adaptive program `iprog` issued: every completed
    operation is the one `iprog` issues after the results before it -/
def Follows (iprog : List IOp) (prog : List Op) (rs : List Res) : Prop :=
  resolved none iprog rs = prog.take rs.length

instance (iprog : List IOp) (prog : List Op) (rs : List Res) : Decidable (Follows iprog prog rs) := by
  unfold Follows; exact inferInstance

/-- the items an iterator yielded: the `Some` results of its `next` calls -/
def yielded : List Res → List Nat
  | [] => []
  | .opt (some v) :: rs => v :: yielded rs
  | _ :: rs => yielded rs

/-! ### executing adaptive programs on the step model (driver)

  `idrive` runs a schedule; before every step, every thread that stands between
  two operations issues its next operation (resolved from the results the
  thread has so far) by appending it to the thread's static program; the step
  model is re-run on the programs issued so far. Returns the static programs
  issued; the observation is that of `run` on them. -/

/-- every thread that stands between two operations issues its next one
    (appended to its static program), given the state `done` leads to -/
def issueAll (F : Facts) (lists : List (List Nat)) (iprogs : List (List IOp))
    (progs : List (List Op)) (done : List Nat) : Option (List (List Op)) :=
  match run F (init lists progs) done with
  | none => none
  | some s =>
    some ((List.range progs.length).foldl (fun ps t =>
      let th := s.threads t
      if th.prog.isEmpty && !th.halted then
        match inextOp (iprogs.getD t []) th.results with
        | some op => ps.set t (ps.getD t [] ++ [op])
        | none => ps
      else ps) progs)

def idriveAux (F : Facts) (lists : List (List Nat)) (iprogs : List (List IOp)) :
    List (List Op) → List Nat → List Nat → Option (List (List Op))
  | progs, done, [] => issueAll F lists iprogs progs done
  | progs, done, t :: todo =>
    match issueAll F lists iprogs progs done with
    | none => none
    | some progs' => idriveAux F lists iprogs progs' (done ++ [t]) todo

/-- the static programs an adaptive run has issued along (and right after) `sched` -/
def idrive (F : Facts) (lists : List (List Nat)) (iprogs : List (List IOp)) (sched : List Nat) :
    Option (List (List Op)) :=
  idriveAux F lists iprogs (iprogs.map fun _ => []) [] sched

/-- every maximal schedule of the adaptive programs: depth-first, issuing
    operations on the way (fuel bounds the depth) -/
def iallSchedules (F : Facts) (lists : List (List Nat)) (iprogs : List (List IOp)) :
    Nat → List Nat → List (List Nat)
  | 0, done => [done]
  | fuel + 1, done =>
    match idrive F lists iprogs done with
    | none => [done]
    | some progs =>
      match run F (init lists progs) done with
      | none => [done]
      | some s =>
        let nexts := (List.range iprogs.length).filter fun t => (step F t s).isSome
        if nexts.isEmpty then [done]
        else nexts.flatMap fun t => iallSchedules F lists iprogs fuel (done ++ [t])

/-! ### appending operations to programs (what justifies `Follows`)

  An adaptive thread decides its next operation when the previous one is done;
  the static program of the step model has it from the start. `ExtBy`: the
  same state, with `ext t` appended to the program of thread `t`. -/

/-- `s2` is `s` with `ext t` appended to the program of every thread `t` -/
def ExtBy (ext : Nat → List Op) (s s2 : State) : Prop :=
  s2.cells = s.cells ∧ s2.hist = s.hist ∧ s2.trace = s.trace ∧ s2.spans = s.spans ∧
  ∀ t, s2.threads t = { s.threads t with prog := (s.threads t).prog ++ ext t }

/-- the programs with `more t` appended to thread `t`'s -/
def extendProgs (progs : List (List Op)) (more : Nat → List Op) : List (List Op) :=
  (List.range progs.length).map fun t => progs.getD t [] ++ more t

def IOp.maxSteps : IOp → Nat
  | .base op => op.maxSteps
  | .iterNext => 2
  | _ => 1

def ifuelFor (iprogs : List (List IOp)) : Nat :=
  (iprogs.map fun p => (p.map IOp.maxSteps).sum).sum

end RotoV.ListConc
