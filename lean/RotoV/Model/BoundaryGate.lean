/-
C05 — which types cross the boundary at all: script-declared types.

The boundary family of `Model/Boundary` (`BTy`) consists of built-in and registered types.
A script may declare types of its own, and may give them the name of a built-in generic type:
`enum Option[T] { None, Some(T) }` in the script's scope shadows the global `Option`. Such a
type is laid out by Roto in the script's declaration order and has no counterpart in Rust.
Whether a value of such a type ever crosses is decided by `check_roto_type` (the gate in front
of `RotoFunc::invoke`); its name tests are GENERATED (`gateArms`, `gateLeafScope`,
`gateValByTypeId`) and interpreted here.

* `STy` — a type of a script signature after name resolution: every name carries the scope it
  was resolved in, its identifier and what it denotes (`TyDecl`: a built-in generic, a primitive,
  a registered type, an enum with the script's own variant table, a record).
* `RTy` — the Rust side (`TypeDescription` tree of the registry).
* `gate arms r t` — `check_roto_type`.
* `rustStruct r` / `scriptStruct t` — how each side reads a value: per enum the variant table
  (names in declaration order with the positions of their payload parameters) it uses, the Rust
  side from the mirror enums, the script side from `default_types()` for a built-in and from the
  script's declaration otherwise.
-/
import RotoV.Model.Boundary

namespace RotoV.Boundary
open RotoV RotoV.Gen.BoundaryTables

/-- the scope a type name was resolved in -/
inductive NScope | global | other (n : Nat)
  deriving DecidableEq, Repr, Inhabited

/-- identifier of a type name -/
inductive TIdent | generic (h : GateHead) | prim (p : Primitive) | other (n : Nat)
  deriving DecidableEq, Repr, Inhabited

/-- what a resolved type name denotes -/
inductive TyDecl
  | builtin (h : GateHead)                          -- the global Option / Result / Verdict / List
  | prim (p : Primitive)                            -- a global primitive
  | runtime (id : Nat)                              -- `TypeDefinition::Runtime`: registered by the host (a `TypeId`)
  | scriptEnum (tbl : List (VName × List Nat))      -- `enum` declared by the script: its own table
  | scriptRecord (fields : List Nat)                -- `record` declared by the script (parameter positions)
  deriving DecidableEq, Repr, Inhabited

/-- a type in a script's signature, after name resolution (names of up to two type
    arguments carry them; `nameN` = a name applied to `k + 3` arguments) -/
inductive STy
  | unit
  | name0 (s : NScope) (i : TIdent) (d : TyDecl)
  | name1 (s : NScope) (i : TIdent) (d : TyDecl) (a : STy)
  | name2 (s : NScope) (i : TIdent) (d : TyDecl) (a b : STy)
  | nameN (s : NScope) (i : TIdent) (d : TyDecl) (k : Nat)
  | other                                              -- a function type, a type variable, never
  deriving DecidableEq, Repr, Inhabited

/-- the Rust side: `TypeDescription` -/
inductive RTy
  | prim (p : Primitive)
  | unit
  | val (id : Nat) (l : Layout)
  | option (t : RTy)
  | result (t e : RTy)
  | verdict (a r : RTy)
  | list (t : RTy)
  deriving DecidableEq, Repr, Inhabited

def RTy.toBTy : RTy → BTy
  | .prim p => .prim p
  | .unit => .unit
  | .val _ l => .val l
  | .option t => .option t.toBTy
  | .result t e => .result t.toBTy e.toBTy
  | .verdict a r => .verdict a.toBTy r.toBTy
  | .list t => .list t.toBTy

def STy.scope? : STy → Option NScope
  | .name0 s .. | .name1 s .. | .name2 s .. | .nameN s .. => some s
  | _ => none
def STy.ident? : STy → Option TIdent
  | .name0 _ i .. | .name1 _ i .. | .name2 _ i .. | .nameN _ i .. => some i
  | _ => none
def STy.decl? : STy → Option TyDecl
  | .name0 _ _ d | .name1 _ _ d _ | .name2 _ _ d _ _ | .nameN _ _ d _ => some d
  | _ => none
/-- `type_name.arguments.len()` -/
def STy.arity : STy → Nat
  | .name0 .. => 0 | .name1 .. => 1 | .name2 .. => 2 | .nameN _ _ _ k => k + 3
  | _ => 0

/-- the arm of `check_roto_type` for a `TypeDescription` constructor -/
def armFor (arms : List GateArm) (h : GateHead) : Option GateArm := arms.find? (·.head = h)

/-- the name test of an arm: `let Type::Name(tn) = &roto_type`, then the comparison of
    `tn.name` (scope and identifier, or identifier only), then the slice pattern's length -/
def nameTest (arm : GateArm) (t : STy) : Bool :=
  match t.scope?, t.ident? with
  | some s, some i =>
    (match arm.scope with | .global => s = .global | .anyScope => true)
      && i = .generic arm.ident && t.arity = arm.arity
  | _, _ => false

/-- `check_roto_type`: does the gate let a value of Rust type `r` through for a function whose
    signature says `t`. -/
def gate (arms : List GateArm) : RTy → STy → Bool
  | .unit, t => t = .unit
  | .prim p, t =>
    -- `Type::named(expected_name, [])  == roto_type`
    (match gateLeafScope with
     | .global => t.scope? = some .global
     | .anyScope => t.scope?.isSome) && t.ident? = some (.prim p) && t.arity = 0
      && (match t with | .name0 .. => true | _ => false)
  | .val id _, t =>
    -- `TypeDefinition::Runtime(_, id') = resolve_type_name(name)`, `id' = id`
    gateValByTypeId && (match t.decl? with | some (.runtime id') => id' = id | _ => false)
  | .option r, t =>
    match armFor arms .option, t with
    | some arm, .name1 s i d a => nameTest arm (.name1 s i d a) && arm.pairs = [(0, 0)] && gate arms r a
    | _, _ => false
  | .list r, t =>
    match armFor arms .list, t with
    | some arm, .name1 s i d a => nameTest arm (.name1 s i d a) && arm.pairs = [(0, 0)] && gate arms r a
    | _, _ => false
  | .result r1 r2, t =>
    match armFor arms .result, t with
    | some arm, .name2 s i d a b =>
      nameTest arm (.name2 s i d a b)
        && ((arm.pairs = [(0, 0), (1, 1)] && gate arms r1 a && gate arms r2 b)
            || (arm.pairs = [(0, 1), (1, 0)] && gate arms r1 b && gate arms r2 a))
    | _, _ => false
  | .verdict r1 r2, t =>
    match armFor arms .verdict, t with
    | some arm, .name2 s i d a b =>
      nameTest arm (.name2 s i d a b)
        && ((arm.pairs = [(0, 0), (1, 1)] && gate arms r1 a && gate arms r2 b)
            || (arm.pairs = [(0, 1), (1, 0)] && gate arms r1 b && gate arms r2 a))
    | _, _ => false

/-- `check_args`: the slice pattern demands the Rust function type's number of parameters, then
    position `i` of the signature is checked against the `i`-th Rust parameter type -/
def gateArgs (arms : List GateArm) : List RTy → List STy → Bool
  | [], [] => true
  | r :: rs, t :: ts => gate arms r t && gateArgs arms rs ts
  | _, _ => false

/-- `get_function::<fn(A…) -> R>` on a function of signature `(ts) -> tret`: the parameters, then
    the return type; only then is the function pointer handed out -/
def gateSig (arms : List GateArm) (rs : List RTy) (rret : RTy) (ts : List STy) (tret : STy) : Bool :=
  gateArgsPositionwise && gateArgs arms rs ts && gateReturnChecked && gate arms rret tret

/-! ## How each side reads a value -/

/-- the structure a side attributes to the bytes of a value: per enum its variant table -/
inductive VStruct
  | unit
  | prim (p : Primitive)
  | val (id : Nat)
  | list (t : VStruct)
  | enum1 (tbl : List (VName × List Nat)) (a : VStruct)
  | enum2 (tbl : List (VName × List Nat)) (a b : VStruct)
  | opaque                                   -- a record, an enum of another arity, …
  deriving DecidableEq, Repr, Inhabited

/-- Rust: `Value::transform` / `untransform` with the mirror enums' declaration order -/
def rustStruct : RTy → VStruct
  | .unit => .unit
  | .prim p => .prim p
  | .val id _ => .val id
  | .list t => .list (rustStruct t)
  | .option t => .enum1 rotoOptionVariants (rustStruct t)
  | .result t e => .enum2 rotoResultVariants (rustStruct t) (rustStruct e)
  | .verdict a r => .enum2 verdictVariants (rustStruct a) (rustStruct r)

/-- the table the script uses for a generic built-in (`default_types()`) -/
def builtinTable : GateHead → Option (List (VName × List Nat))
  | .option => some defaultOption | .result => some defaultResult | .verdict => some defaultVerdict
  | .list => none

/-- the script: constructors and `match` use the declaration the name resolves to -/
def scriptStruct : STy → VStruct
  | .unit => .unit
  | .name0 _ _ (.prim p) => .prim p
  | .name0 _ _ (.runtime id) => .val id
  | .name1 _ _ (.builtin .list) a => .list (scriptStruct a)
  | .name1 _ _ (.builtin .option) a => .enum1 defaultOption (scriptStruct a)
  | .name2 _ _ (.builtin .result) a b => .enum2 defaultResult (scriptStruct a) (scriptStruct b)
  | .name2 _ _ (.builtin .verdict) a b => .enum2 defaultVerdict (scriptStruct a) (scriptStruct b)
  | .name1 _ _ (.scriptEnum tbl) a => .enum1 tbl (scriptStruct a)
  | .name2 _ _ (.scriptEnum tbl) a b => .enum2 tbl (scriptStruct a) (scriptStruct b)
  | _ => .opaque

/-- What name resolution guarantees (the type checker's scopes; trusted, C18's subject): the
    global names of the generic built-ins and of the primitives denote those, whatever a script
    declares lives in a scope of its own, primitives and registered types are never applied to
    type arguments, and a type argument is resolved the same way. -/
def STy.WF : STy → Bool
  | .unit | .other => true
  | .name0 s i d => declOk s i d
  | .name1 s i d a => declOk s i d && noParams d = false && a.WF
  | .name2 s i d a b => declOk s i d && noParams d = false && a.WF && b.WF
  | .nameN s i d _ => declOk s i d && noParams d = false
where
  /-- primitives and registered types take no type arguments -/
  noParams : TyDecl → Bool
    | .prim _ | .runtime _ => true
    | _ => false
  declOk (s : NScope) (i : TIdent) (d : TyDecl) : Bool :=
    match s, i, d with
    | .global, .generic h, d => d = .builtin h
    | .global, .prim p, d => d = .prim p
    | .global, .other _, d => (match d with | .runtime .. => true | _ => false)
    | .other _, _, d => (match d with | .builtin _ | .prim _ => false | _ => true)

/-- a type the script declared occurs somewhere in the type -/
def STy.mentionsDeclared : STy → Bool
  | .unit | .other => false
  | .name0 _ _ d | .nameN _ _ d _ => isDeclared d
  | .name1 _ _ d a => isDeclared d || a.mentionsDeclared
  | .name2 _ _ d a b => isDeclared d || a.mentionsDeclared || b.mentionsDeclared
where
  isDeclared : TyDecl → Bool
    | .scriptEnum _ | .scriptRecord _ => true
    | _ => false

/-- The MIR type the script compiles a signature type to (`TypeInfo::convert`): a built-in enum with
    the `default_types()` table, an enum the script declared with ITS table; `lay` = the layout a
    `TypeId` was registered with. -/
def scriptMTy (lay : Nat → Layout) : STy → MTy
  | .unit => .unit
  | .name0 _ _ (.prim p) => .prim p
  | .name0 _ _ (.runtime id) => .runtime (lay id)
  | .name1 _ _ (.builtin .list) _ => .list
  | .name1 _ _ (.builtin .option) a => .enum (instVariants .never defaultOption [scriptMTy lay a])
  | .name2 _ _ (.builtin .result) a b => .enum (instVariants .never defaultResult [scriptMTy lay a, scriptMTy lay b])
  | .name2 _ _ (.builtin .verdict) a b => .enum (instVariants .never defaultVerdict [scriptMTy lay a, scriptMTy lay b])
  | .name1 _ _ (.scriptEnum tbl) a => .enum (instVariants .never tbl [scriptMTy lay a])
  | .name2 _ _ (.scriptEnum tbl) a b => .enum (instVariants .never tbl [scriptMTy lay a, scriptMTy lay b])
  | _ => .never

/-- a `TypeId` was registered with one layout: the one Rust's `Val<T>` has -/
def RTy.LayOk (lay : Nat → Layout) : RTy → Prop
  | .prim _ | .unit => True
  | .val id l => lay id = l
  | .option t | .list t => t.LayOk lay
  | .result a b | .verdict a b => a.LayOk lay ∧ b.LayOk lay

/-- the signature type that spells a Rust type with the built-in names (registered types under the
    name and in the scope `nm` gives their `TypeId`) -/
def builtinImage (nm : Nat → NScope × TIdent) : RTy → STy
  | .unit => .unit
  | .prim p => .name0 .global (.prim p) (.prim p)
  | .val id _ => .name0 (nm id).1 (nm id).2 (.runtime id)
  | .option t => .name1 .global (.generic .option) (.builtin .option) (builtinImage nm t)
  | .list t => .name1 .global (.generic .list) (.builtin .list) (builtinImage nm t)
  | .result a b => .name2 .global (.generic .result) (.builtin .result) (builtinImage nm a) (builtinImage nm b)
  | .verdict a b => .name2 .global (.generic .verdict) (.builtin .verdict) (builtinImage nm a) (builtinImage nm b)
/-- the gate with every name test reduced to the identifier (the shape of seeded C05-9) -/
def identOnlyArms : List GateArm := gateArms.map fun a => { a with scope := .anyScope }

/-- `enum Option[T] { None, Some(T) }` declared by a script, applied to `u32` -/
def swappedOption : STy :=
  .name1 (.other 1) (.generic .option) (.scriptEnum [(.None, []), (.Some, [0])])
    (.name0 .global (.prim (.Int .Unsigned .I32)) (.prim (.Int .Unsigned .I32)))

end RotoV.Boundary
