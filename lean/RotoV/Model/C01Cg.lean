/-
  C01Cg: the code generator on the scalar LIR of `Model/C01Lir` (src/codegen/mod.rs:
  `FuncGen::block` / `instruction`), and an executable semantics of the code it emits.

  * `cgIns`: the dispatch of `FuncGen::instruction`.  The control-flow arms and `Assign` ARE the
    scripts `Generated/C01Cg` re-translates from the source on every run (`cg_Jump`, `cg_Switch`,
    `cg_Assign`, `cg_ReturnSome`, `cg_ReturnNone`); a scalar instruction becomes `CIns.instr`, whose
    meaning is the GENERATED arm of the operator tables (`runInstr`, as in `C01Lir.runI`); a call
    passes its operands on (hand-modelled: `ctx` and `return_ptr` do not occur in the fragment).
  * `cgFn` / `cgProg`: block by block, labels kept (`FuncGen::block`; its source text is checked
    by the translator).
  * semantics: a store of frontend variables holding SSA values (`CVal`: type and bit pattern);
    `switch` compares the BIT PATTERN of the examinee with the indices of the entries, `brif`
    takes its first block on any non-zero pattern; fuel as in `C01Lir` (jumps and calls).
    An SSA value of an integer type holds `ty.bits` bits: the result of an instruction is kept
    modulo `2 ^ ty.bits` (`CVal.mk'`, the identity on the values Cranelift can produce).
  Core Lean only.
-/
import RotoV.Generated.C01Cg

namespace RotoV.C01Cg
open RotoV RotoV.Gen RotoV.Gen.OpTables RotoV.C01Lir RotoV.C01CgBase RotoV.Gen.C01Cg

structure CFn where
  name : String
  params : List Name
  blocks : List (Nat × List CIns)
  deriving Repr, Inhabited

/-! ### the static condition under which no call assigns a result that does not exist

  `FuncGen::instruction`'s `Call` arm takes `inst_results(inst)[0]` whenever the LIR call has a
  `to`; a callee whose signature has no return value makes that an index panic while compiling.
  `callsOk L`: every call of `L` whose result is assigned names a function of `L` none of whose
  blocks contains `Return(None)` (a decidable check, run in the driver on the LIR of every
  program of the tie). -/

/-- one instruction: an assigned call goes to a function `rv` says returns a value; `rs`: this
    function is one of them, so it must not contain `Return(None)` -/
def insOk1 (rv : String → Bool) (rs : Bool) : LIns → Bool
  | .call (some _) f _ => rv f
  | .ret none => !rs
  | _ => true

def insOk (rv : String → Bool) (rs : Bool) (ins : List LIns) : Bool := ins.all (insOk1 rv rs)

def blocksOk (rv : String → Bool) (rs : Bool) (bs : List (Nat × List LIns)) : Bool :=
  bs.all (fun b => insOk rv rs b.2)

def progOk (rv : String → Bool) (L : List LFn) : Bool :=
  L.all (fun fn => blocksOk rv (rv fn.name) fn.blocks)

/-- `f` names a function of `L` without `Return(None)` -/
def rvOf (L : List LFn) (f : String) : Bool :=
  match L.find? (fun fn => fn.name == f) with
  | some fn => fn.blocks.all (fun b => b.2.all (fun i => match i with | .ret none => false | _ => true))
  | none => false

def callsOk (L : List LFn) : Bool := progOk (rvOf L) L

/-! the same condition at the source of `lir::lower`: `C01Lir.lowerProg` gives a call a `to` only when
  `retInfoOf P` says the callee returns a value (`Lemmas/C01CgCalls.lowerProg_progOk`) -/

/-- what `retInfoOf P` says of `f`: it returns a value -/
def rvM (P : List MFn) (f : String) : Bool :=
  match retInfoOf P f with
  | some (_, true) => true
  | _ => false

/-- every function of `P` is the one its name finds, as far as `retVal` goes -/
def namesOk (P : List MFn) : Bool :=
  P.all (fun fn => !(rvM P fn.name) || fn.retVal)

section
variable [FloatOps]

def cgOps : List LOp → Option (List COp)
  | [] => some []
  | a :: rest =>
    match B.operand a, cgOps rest with
    | some (c, _), some cs => some (c :: cs)
    | _, _ => none

/-- `FuncGen::instruction` -/
def cgIns : LIns → Option CIns
  | .assign to v ty => cg_Assign to v ty
  | .instr to i l r =>
    match B.operand l, B.operand r with
    | some (cl, _), some (cr, _) => some (.instr to i cl cr)
    | _, _ => none
  | .not to v => (B.operand v).map (fun p => .not to p.1)
  | .neg to v => (B.operand v).map (fun p => .neg to p.1)
  | .call to f args =>
    match cgOps args with
    | some cs =>
      match to with
      | some (t, ty) => (B.cranelift_type ty).map (fun cty => .call (some (t, cty)) f cs)
      | none => some (.call none f cs)
    | none => none
  | .jump l => cg_Jump l
  | .switch x brs d => cg_Switch x brs d
  | .ret none => cg_ReturnNone
  | .ret (some v) => cg_ReturnSome v

def cgInss : List LIns → Option (List CIns)
  | [] => some []
  | i :: rest =>
    match cgIns i, cgInss rest with
    | some c, some cs => some (c :: cs)
    | _, _ => none

def cgBlocks : List (Nat × List LIns) → Option (List (Nat × List CIns))
  | [] => some []
  | (l, ins) :: rest =>
    match cgInss ins, cgBlocks rest with
    | some c, some cs => some ((B.get_block l, c) :: cs)
    | _, _ => none

def cgFn (fn : LFn) : Option CFn :=
  (cgBlocks fn.blocks).map (fun bs => { name := fn.name, params := fn.params, blocks := bs })

def cgProg : List LFn → Option (List CFn)
  | [] => some []
  | fn :: rest =>
    match cgFn fn, cgProg rest with
    | some c, some cs => some (c :: cs)
    | _, _ => none

/-! ### semantics of the emitted code -/

abbrev CStore := Name → CVal

def CStore.set (σ : CStore) (x : Name) (v : CVal) : CStore := fun y => if y = x then v else σ y

def cVal (σ : CStore) : COp → CVal
  | .use x => σ x
  | .const c => c

inductive CNext
  | goto (l : Nat) (σ : CStore)
  | ret (v : Option CVal)

/-- an SSA value of type `ty` holds `ty.bits` bits -/
def norm (c : CVal) : CVal := CVal.mk' c.ty c.bits

def cExec (call : String → List CVal → Option (Option CVal)) : List CIns → CStore → Option CNext
  | [], _ => none
  | .defVar to _ v :: rest, σ => cExec call rest (σ.set to (cVal σ v))
  | .instr to i l r :: rest, σ =>
    match runInstr false i (operands (cVal σ l) (cVal σ r)) with
    | .ok c => cExec call rest (σ.set to (norm c))
    | .panic => none
  | .not to v :: rest, σ =>
    match cg_Not false (cVal σ v) with
    | .ok c => cExec call rest (σ.set to (norm c))
    | .panic => none
  | .neg to v :: rest, σ =>
    match cg_Negate false (cVal σ v) with
    | .ok c => cExec call rest (σ.set to (norm c))
    | .panic => none
  | .call to f args :: rest, σ =>
    match call f (args.map (cVal σ)) with
    | some r =>
      match to, r with
      | some (t, _), some c => cExec call rest (σ.set t c)
      | none, _ => cExec call rest σ
      -- the callee returned no value although one is assigned: the real builder panics on
      -- `inst_results(inst)[0]` (the call instruction has no result): no code
      | some _, none => none
    | none => none
  | .jump b _ :: _, σ => some (.goto b σ)
  | .switch v cases otherwise :: _, σ =>
    some (.goto ((selectBr (cVal σ v).bits cases).getD otherwise) σ)
  | .brif v thn els :: _, σ => some (.goto (if (cVal σ v).bits ≠ 0 then thn else els) σ)
  | .ret [] :: _, _ => some (.ret none)
  | .ret [v] :: _, σ => some (.ret (some (cVal σ v)))
  | .ret (_ :: _ :: _) :: _, _ => none

def cLoop (call : String → List CVal → Option (Option CVal)) (blocks : List (Nat × List CIns)) : Nat → Nat → CStore → Option (Option CVal)
  | 0, _, _ => none
  | k + 1, l, σ =>
    match findBlock blocks l with
    | some ins =>
      match cExec call ins σ with
      | some (.goto l' σ') => cLoop call blocks k l' σ'
      | some (.ret v) => some v
      | none => none
    | none => none

def cBind (ps : List Name) (vs : List CVal) : Option CStore :=
  match ps, vs with
  | [], [] => some (fun _ => ⟨.I8, 0⟩)
  | p :: ps, v :: vs => (cBind ps vs).map (fun σ => σ.set p v)
  | _, _ => none

/-- call function `f` of the emitted program with fuel `n`; `some none`: it returned no value -/
def cRun (C : List CFn) : Nat → String → List CVal → Option (Option CVal)
  | 0, _, _ => none
  | n + 1, f, args =>
    match C.find? (fun fn => fn.name == f) with
    | some fn =>
      match cBind fn.params args, fn.blocks with
      | some σ, (l0, _) :: _ => cLoop (cRun C n) fn.blocks n l0 σ
      | _, _ => none
    | none => none

end

end RotoV.C01Cg
