/-
  FString: model of `Lexer::f_string_part` (src/parser/lexer.rs) and of the
  text handling of `Parser::f_string` (src/parser/expr.rs).

  `fStringPart` follows the Rust scanner literally: it walks
  `input.char_indices()` — pairs (byte offset, char) — and finally calls
  `bump(i)`, i.e. `str::split_at(i)`, which *panics* when `i` is not a char
  boundary.  That panic is an explicit result here (`FRes.panic`), so "splits
  at the right byte offsets for arbitrary Unicode text" is a statement about
  this function (Props/C09 `fstring_parts`).

  Core Lean only: linked into the driver.
-/
import RotoV.Model.Literal

namespace RotoV.FString
open RotoV.Literal

/-- UTF-8 length of a text in bytes -/
def utf8Len : List Char → Nat
  | [] => 0
  | c :: cs => c.utf8Size + utf8Len cs

/-- `str::split_at(n)`: `none` = panic (not a char boundary / out of range) -/
def splitAtByte : List Char → Nat → Option (List Char × List Char)
  | cs, 0 => some ([], cs)
  | [], _ + 1 => none
  | c :: cs, n + 1 =>
    if c.utf8Size ≤ n + 1 then
      match splitAtByte cs (n + 1 - c.utf8Size) with
      | some (a, b) => some (c :: a, b)
      | none => none
    else none

inductive Kind | intermediate | stringEnd
  deriving DecidableEq, Repr

/-- what the scanner decides: the kind of part and the byte offset it bumps to -/
inductive Scan
  | found (k : Kind) (offset : Nat)
  | none
  deriving DecidableEq, Repr

/-- the `for (_, c) in chars.by_ref() { if c == '}' { continue 'outer } } return None`
    loop: the remaining chars after the closing brace, with the bytes skipped -/
def skipToBrace : List Char → Nat → Option (List Char × Nat)
  | [], _ => none
  | c :: cs, i => if c == '}' then some (cs, i + c.utf8Size) else skipToBrace cs (i + c.utf8Size)

theorem skipToBrace_length (cs : List Char) (i : Nat) (r : List Char) (j : Nat)
    (h : skipToBrace cs i = some (r, j)) : r.length < cs.length := by
  induction cs generalizing i with
  | nil => simp [skipToBrace] at h
  | cons c cs ih =>
    unfold skipToBrace at h
    split at h
    · simp at h; obtain ⟨rfl, _⟩ := h; simp
    · have := ih _ h; simp; omega

/-- the `'outer: while let Some((i, c)) = chars.next()` loop; `i` is the byte
    offset of the head of the remaining chars -/
def scan : List Char → Nat → Scan
  | [], _ => .none
  | c :: cs, i =>
    if c == '\\' then
      match cs with
      | [] => .none                       -- `chars.next()?`
      | c1 :: cs1 =>
        if c1 == 'u' || c1 == 'U' then
          match cs1 with
          | [] => .none
          | c2 :: cs2 =>
            if c2 != '{' then .none
            else
              match h : skipToBrace cs2 (i + c.utf8Size + c1.utf8Size + c2.utf8Size) with
              | some (r, j) =>
                have : r.length < cs2.length := skipToBrace_length _ _ _ _ h
                scan r j
              | none => .none
        else scan cs1 (i + c.utf8Size + c1.utf8Size)
    else if c == '{' then
      match cs with
      | [] => .none
      | c1 :: cs1 =>
        if c1 == '{' then scan cs1 (i + c.utf8Size + c1.utf8Size)
        -- `chars.next()` gave `(i', c1)` with `i' = i + 1`; `self.bump(i' - 1)`
        else .found .intermediate (i + c.utf8Size - 1)
    else if c == '"' then .found .stringEnd i
    else scan cs (i + c.utf8Size)
termination_by cs => cs.length
decreasing_by all_goals simp_wf <;> omega

inductive FRes
  /-- the part's text and the input after it (for `stringEnd` the closing
      quote is consumed as well) -/
  | part (k : Kind) (text rest : List Char)
  | none
  | panic
  deriving DecidableEq, Repr

/-- `Lexer::f_string_part` -/
def fStringPart (inp : List Char) : FRes :=
  match scan inp 0 with
  | .none => .none
  | .found .intermediate off =>
    match splitAtByte inp off with
    | some (a, b) => .part .intermediate a b
    | none => .panic
  | .found .stringEnd off =>
    match splitAtByte inp off with
    | some (a, b) =>
      -- `self.bump(1)`: eat the `"`
      match splitAtByte b 1 with
      | some (_, b') => .part .stringEnd a b'
      | none => .panic
    | none => .panic

/-- `str::replace(aa, a)` for a doubled character: leftmost, non-overlapping -/
def collapse (a : Char) : List Char → List Char
  | x :: y :: cs => if x == a && y == a then a :: collapse a cs else x :: collapse a (y :: cs)
  | cs => cs

/-- the text of one part as `Parser::f_string` computed it BEFORE the fix
    `fstring-escaped-brace-collapse`:
    `unescape_str(s)?.replace("{{", "{").replace("}}", "}")` — the braces were
    collapsed *after* unescaping, so two escaped braces collapsed as well. -/
def partTextOld (raw : List Char) : Option (List Char) :=
  (unescape raw).map fun s => collapse '}' (collapse '{' s)

/-- `unescape_f_string_part` (src/parser/expr.rs, after the fix): one pass over
    the *source* text; `\`+char is skipped (for `\u{` up to the closing `}`:
    `inU`), `{{` / `}}` end the pending piece (`acc`, reversed), which is
    unescaped on its own, and contribute one literal brace. -/
def partTextGo : Bool → List Char → List Char → Option (List Char)
  | _, [], acc => unescape acc.reverse
  | true, c :: cs, acc => partTextGo (c != '}') cs (c :: acc)
  | false, [c], acc => unescape (c :: acc).reverse
  | false, [c, d], acc =>
    if c == '\\' then partTextGo false [] (d :: c :: acc)
    else if (c == '{' || c == '}') && d == c then
      match unescape acc.reverse, partTextGo false [] [] with
      | some a, some b => some (a ++ c :: b)
      | _, _ => none
    else partTextGo false [d] (c :: acc)
  | false, c :: d :: e :: cs, acc =>
    if c == '\\' then
      if d == 'u' && e == '{' then partTextGo true cs (e :: d :: c :: acc)
      else partTextGo false (e :: cs) (d :: c :: acc)
    else if (c == '{' || c == '}') && d == c then
      match unescape acc.reverse, partTextGo false (e :: cs) [] with
      | some a, some b => some (a ++ c :: b)
      | _, _ => none
    else partTextGo false (d :: e :: cs) (c :: acc)
termination_by _ cs _ => cs.length
decreasing_by all_goals simp_wf <;> omega

/-- the text of one part as `Parser::f_string` computes it -/
def partText (raw : List Char) : Option (List Char) := partTextGo false raw []

/-! ## what the manual says a text part means

A text part is a sequence of items: a plain character, an escape sequence,
`{{` (a literal `{`) or `}}` (a literal `}`). -/

inductive Item
  | plain (c : Char)            -- not `\`, `"`, `{`, `}`, CR
  | esc (spelling : List Char) (value : Char)   -- a documented escape sequence and its value
  | lbrace                      -- `{{`
  | rbrace                      -- `}}`
  deriving DecidableEq, Repr

def Item.spelling : Item → List Char
  | .plain c => [c]
  | .esc s _ => s
  | .lbrace => ['{', '{']
  | .rbrace => ['}', '}']

def Item.value : Item → Char
  | .plain c => c
  | .esc _ v => v
  | .lbrace => '{'
  | .rbrace => '}'

def spell (items : List Item) : List Char := (items.map Item.spelling).flatten
def meaning (items : List Item) : List Char := items.map Item.value

inductive Part
  | text (s : List Char)
  | hole (src : List Char)
  deriving DecidableEq, Repr

/-! ## the decisions of `unescape_f_string_part` as data (GENERATED facts)

The backslash arm of the brace pass is a `&&` chain of tests on the peekable
`char_indices` iterator, followed by a skip loop.  The translator target
`fstrtext` emits that chain (`RotoV.Gen.C09FStrText.backslashConds`, `…SkipStop`,
`braceChars`) from the source; `partTextWith` runs the pass with them, so a
changed arm (e.g. `next()` replaced by `next_if(..)`) changes this function. -/

inductive IterTest
  /-- `let Some((_, 'c')) = chars.next()`: consumes one char whatever it is -/
  | nextIs (c : Char)
  /-- `let Some((_, 'c')) = chars.peek()` / `chars.peek().is_some_and(..)`: consumes nothing -/
  | peekIs (c : Char)
  /-- `chars.next_if(|(_, x)| *x == 'c').is_some()`: consumes the char only when it is `c` -/
  | nextIfIs (c : Char)
  deriving DecidableEq, Repr

/-- the `&&` chain (short-circuit): (all tests held, number of chars consumed) -/
def runConds : List IterTest → List Char → Nat → Bool × Nat
  | [], _, n => (true, n)
  | _ :: _, [], n => (false, n)
  | .nextIs a :: ts, c :: r, n => if c == a then runConds ts r (n + 1) else (false, n + 1)
  | .peekIs a :: ts, c :: r, n => if c == a then runConds ts (c :: r) n else (false, n)
  | .nextIfIs a :: ts, c :: r, n => if c == a then runConds ts r (n + 1) else (false, n)

/-- `for (_, c) in chars.by_ref() { if c == stop { break; } }`: chars consumed -/
def skipCount (stop : Char) : List Char → Nat
  | [] => 0
  | c :: cs => if c == stop then 1 else skipCount stop cs + 1

/-- the backslash arm: how many chars after the backslash it consumes -/
def armConsumed (conds : List IterTest) (stop : Option Char) (cs : List Char) : Nat :=
  match runConds conds cs 0 with
  | (true, n) =>
    match stop with
    | some s => n + skipCount s (cs.drop n)
    | none => n
  | (false, n) => n

/-- `unescape_f_string_part` with the backslash arm and the brace characters as
    parameters: `acc` is the pending piece `s[piece_start..i]` (reversed). -/
def partTextWith (arm : List Char → Nat) (braces : List Char) : List Char → List Char → Option (List Char)
  | [], acc => unescape acc.reverse
  | c :: cs, acc =>
    if c == '\\' then
      partTextWith arm braces (cs.drop (arm cs)) ((cs.take (arm cs)).reverse ++ c :: acc)
    else if braces.contains c && cs.head? == some c then
      match unescape acc.reverse, partTextWith arm braces cs.tail [] with
      | some a, some b => some (a ++ c :: b)
      | _, _ => none
    else partTextWith arm braces cs (c :: acc)
termination_by cs => cs.length
decreasing_by
  · simp only [List.length_drop, List.length_cons]; omega
  · simp only [List.length_tail, List.length_cons]; omega
  · simp only [List.length_cons]; omega

/-- `Parser::f_string` on the characters after `f"`, for holes whose
    expression contains no `}` / `"` (the hole's own parse is not modelled):
    the parts, or `none` on any error; `pt` decodes one text part. -/
def fStringP (pt : List Char → Option (List Char)) : Nat → List Char → Option (List Part)
  | 0, _ => none
  | fuel + 1, inp =>
    match fStringPart inp with
    | .part .stringEnd raw _ =>
      if raw.isEmpty then some [] else (pt raw).map fun s => [.text s]
    | .part .intermediate raw rest =>
      -- `take(CurlyLeft)`, `expr()`, `take(CurlyRight)`
      match rest with
      | '{' :: rest' =>
        let (h, after) := eatWhile (fun c => c != '}') rest'
        match after with
        | '}' :: after' =>
          match fStringP pt fuel after' with
          | some ps =>
            if raw.isEmpty then some (.hole h :: ps)
            else (pt raw).map fun s => .text s :: .hole h :: ps
          | none => none
        | _ => none
      | _ => none
    | _ => none

def fString : Nat → List Char → Option (List Part) := fStringP partText

end RotoV.FString
