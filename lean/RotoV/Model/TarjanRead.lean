/-
  C14, third layer: what a *read* of a script constant is lowered to, and what a
  body with several read sites on different paths observes.

  Source (pinned tree):
  * `src/mir/lower.rs`, `Lowerer::path_value`, arm `ValueKind::Constant`: a path
    without fields yields `Value::Constant(name, ty)` to the use site; a path
    with fields assigns `Value::Constant(name, ty)` to a fresh temporary *at the
    site* and yields `Value::Clone` of a projection of that temporary.
  * `src/lir/lower.rs`, `Lowerer::assign`, arm `mir::Value::Constant`: a fresh
    pointer temporary, `ConstantAddress` of the constant into it, a clone from
    that pointer into the destination.
  * `src/codegen/mod.rs`, arm `lir::Instruction::ConstantAddress`: the pointer of
    the runtime constant of that name, else of the stored script constant, else
    `ice!("Constant not defined")`.

  The statement lists of these three arms are regenerated from source on every
  run (translator target `c14read`, `Generated/C14Read.lean`) as lists of the
  acts below; `lowerSite` gives them their meaning.  A statement the translator
  does not recognise — a lookup in a per-function table of earlier reads, say —
  is an extraction failure, not an act.

  The model of a body is a small structured language (literal, read site, sum,
  branch on a run-time condition, loop running a run-time number of times,
  `return`):
  enough to have read sites that are executed conditionally and read sites that
  lie on a path around them.  Temporaries that were never assigned on the path
  taken read as `0` (what the Cranelift frontend materialises for a variable
  without a reaching definition).
-/
namespace RotoV.Tarjan

/-- what the `ValueKind::Constant` arm of `path_value` does, statement by statement -/
inductive MirReadAct where
  | yieldConstant      -- `return Value::Constant(*name, root_ty)`: the use site reads the constant
  | tempFromConstant   -- `let var = self.assign_to_var(Value::Constant(*name, root_ty), root_ty)`
  | yieldCloneOfTemp   -- `Value::Clone(Place { var, root_ty, projection })` of that `var`
  deriving DecidableEq, Repr

/-- what the `mir::Value::Constant` arm of `Lowerer::assign` (LIR) does -/
inductive LirReadAct where
  | freshPointer       -- `let ptr_var = self.new_tmp(IrType::Pointer)`
  | constantAddress    -- `self.emit_constant_address(ptr_var.clone(), name)` = `Instruction::ConstantAddress { to, name }`
  | cloneFromPointer   -- `self.call_clone_of(to, Location::Pointer { base: ptr_var, offset: 0 }, ty)`
  deriving DecidableEq, Repr

/-- where the `ConstantAddress` arm of the code generator takes the pointer from, in order -/
inductive CgAddrAct where
  | runtimeConstant    -- `self.module.runtime_constants.get(name)`
  | storedConstant     -- `self.module.roto_constants.get(name)`: what the item loop stored (`CgAct.store`)
  | ice                -- `ice!("Constant not defined")`
  deriving DecidableEq, Repr

/-- what one read site of constant `k` is in the lowered body -/
inductive Site where
  | direct (k : Nat)       -- `Value::Constant(k)`: the store is read when control reaches the site
  | viaTemp (t k : Nat)    -- `t := Value::Constant(k)` right at the site, then `Value::Clone(t…)`
  | reuse (t : Nat)        -- `Value::Clone(t)` of a temporary assigned at some other site
  deriving DecidableEq, Repr

/-- The meaning of a statement list of the `path_value` arm: the two lists the
pinned tree has. Nothing else is given a meaning (and no list means `reuse`). -/
def lowerSite (acts : List MirReadAct) (fresh k : Nat) : Option Site :=
  if acts = [.yieldConstant] then some (.direct k)
  else if acts = [.tempFromConstant, .yieldCloneOfTemp] then some (.viaTemp fresh k)
  else none

/-- The LIR arm reads the constant where the MIR value stands: a fresh pointer,
the address of *that* constant, a clone from it. -/
def modelLirConstantAssign : List LirReadAct := [.freshPointer, .constantAddress, .cloneFromPointer]

/-- The code generator resolves the address against the runtime's constants,
then against the script constants stored by the item loop, and gives up loudly
otherwise (`readConstant` in `Model/Tarjan`: a panic when not stored). -/
def modelCgConstantAddress : List CgAddrAct := [.runtimeConstant, .storedConstant, .ice]

/-- a body, source level: `cond c` / `count c` are run-time values of the call -/
inductive Body where
  | lit (n : Nat)
  | read (k : Nat)
  | add (a b : Body)
  | ite (c : Nat) (t e : Body)
  | loop (c : Nat) (b : Body)      -- runs `count c` times, the values are summed
  | ret (r : Body)                 -- `return r`: the function ends with the value of `r`
  deriving Repr

/-- the lowered body: the same structure, read sites resolved -/
inductive Code where
  | lit (n : Nat)
  | site (s : Site)
  | add (a b : Code)
  | ite (c : Nat) (t e : Code)
  | loop (c : Nat) (b : Code)
  | ret (r : Code)
  deriving Repr

/-- what evaluating (part of) a body comes to: a value, or the function returned -/
inductive Out where
  | val (n : Nat)
  | ret (n : Nat)
  deriving DecidableEq, Repr

/-- `a + b`, left to right; a `return` in either operand ends the function -/
def Out.add : Out → Out → Out
  | .ret n, _ => .ret n
  | .val _, .ret n => .ret n
  | .val x, .val y => .val (x + y)

/-- `return o` -/
def Out.toRet : Out → Out
  | .val n => .ret n
  | .ret n => .ret n

/-- `n` rounds of a body that comes to `o` every time, values summed -/
def Out.times : Out → Nat → Out
  | _, 0 => .val 0
  | .ret n, _ + 1 => .ret n
  | .val v, n + 1 => .val ((n + 1) * v)

/-- what the property demands: every read site, on whatever path, is worth the
one stored value of its constant -/
def Body.spec (store : Nat → Nat) (cond : Nat → Bool) (count : Nat → Nat) : Body → Out
  | .lit n => .val n
  | .read k => .val (store k)
  | .add a b => (a.spec store cond count).add (b.spec store cond count)
  | .ite c t e => if cond c then t.spec store cond count else e.spec store cond count
  | .loop c b => (b.spec store cond count).times (count c)
  | .ret r => (r.spec store cond count).toRet

/-- lowering, in source order; `fresh` numbers the temporaries -/
def lowerBody (acts : List MirReadAct) : Body → Nat → Option (Code × Nat)
  | .lit n, f => some (.lit n, f)
  | .read k, f => (lowerSite acts f k).map fun s => (.site s, f + 1)
  | .add a b, f => do
    let (ca, f) ← lowerBody acts a f
    let (cb, f) ← lowerBody acts b f
    pure (.add ca cb, f)
  | .ite c t e, f => do
    let (ct, f) ← lowerBody acts t f
    let (ce, f) ← lowerBody acts e f
    pure (.ite c ct ce, f)
  | .loop c b, f => do
    let (cb, f) ← lowerBody acts b f
    pure (.loop c cb, f)
  | .ret r, f => do
    let (cr, f) ← lowerBody acts r f
    pure (.ret cr, f)

/-- temporaries: assigned values, most recent first; unassigned reads as 0 -/
abbrev Temps := List (Nat × Nat)

def Temps.get (T : Temps) (t : Nat) : Nat :=
  match T.find? (·.1 == t) with
  | some p => p.2
  | none => 0

def runSite (store : Nat → Nat) : Site → Temps → Nat × Temps
  | .direct k, T => (store k, T)
  | .viaTemp t k, T => (store k, (t, store k) :: T)
  | .reuse t, T => (T.get t, T)

/-- `n` rounds of `step`, values summed; a `return` in a round ends the function -/
def iter (step : Temps → Out × Temps) : Nat → Temps → Out × Temps
  | 0, T => (.val 0, T)
  | n + 1, T =>
    match step T with
    | (.ret r, T1) => (.ret r, T1)
    | (.val v, T1) =>
      match iter step n T1 with
      | (.ret r, T2) => (.ret r, T2)
      | (.val w, T2) => (.val (v + w), T2)

/-- running the lowered body on one call (one choice of conditions and counts) -/
def Code.run (store : Nat → Nat) (cond : Nat → Bool) (count : Nat → Nat) : Code → Temps → Out × Temps
  | .lit n, T => (.val n, T)
  | .site s, T => ((.val (runSite store s T).1), (runSite store s T).2)
  | .add a b, T =>
    match a.run store cond count T with
    | (.ret r, T1) => (.ret r, T1)
    | (.val v, T1) =>
      match b.run store cond count T1 with
      | (.ret r, T2) => (.ret r, T2)
      | (.val w, T2) => (.val (v + w), T2)
  | .ite c t e, T => if cond c then t.run store cond count T else e.run store cond count T
  | .loop c b, T => iter (b.run store cond count) (count c) T
  | .ret r, T => ((r.run store cond count T).1.toRet, (r.run store cond count T).2)

end RotoV.Tarjan

namespace RotoV.Tarjan

/-- how many read sites of constant `k` a body has -/
def Body.sites (k : Nat) : Body → Nat
  | .lit _ => 0
  | .read k' => if k' = k then 1 else 0
  | .add a b => a.sites k + b.sites k
  | .ite _ t e => t.sites k + e.sites k
  | .loop _ b => b.sites k
  | .ret r => r.sites k

/-- does the site read constant `k` from the store where it stands -/
def Site.reads (k : Nat) : Site → Bool
  | .direct k' => k' == k
  | .viaTemp _ k' => k' == k
  | .reuse _ => false

/-- how many store reads of constant `k` (`Value::Constant(k)` operands, each of
which becomes one `ConstantAddress { name: k }`) the lowered body has -/
def Code.storeReads (k : Nat) : Code → Nat
  | .lit _ => 0
  | .site s => if s.reads k then 1 else 0
  | .add a b => a.storeReads k + b.storeReads k
  | .ite _ t e => t.storeReads k + e.storeReads k
  | .loop _ b => b.storeReads k
  | .ret r => r.storeReads k

end RotoV.Tarjan
