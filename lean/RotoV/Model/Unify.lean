/-
  Unify: hand-written executable model of unification in the type checker —
  `TypeChecker::{unify_inner, unify_intvars, unify_fields, occurs, resolve_type}`
  (`src/typechecker/mod.rs`) over the union-find store of
  `src/typechecker/unionfind.rs` — together with the graph the store describes
  and what "the store is acyclic" means.

  Tied to the source by `Generated/UnifyFacts.lean` (regenerated on every run):
    * `findRefHead` / `findHead` / `resolveHead`: which entries are followed;
    * `occursArm`: which children of which constructor the occurs check
      searches;
    * `setGuard`: whether an `if self.occurs(v, &t) { return None; }` stands in
      front of each `unionfind.set(v, t)` of `unify_inner`;
    * `innerNeverArm`: whether `unify_inner` has the arm
      `(Never, x) | (x, Never) => x` (it had; since the repair of the never type
      it has not: `!` is handled at the entry point only);
    * `entryNeverFound`: whether `unify(expected a, found b)` — the only caller
      of `unify_inner` (checked by the translator) — returns `resolve_type(a)`
      straight away when `resolve_type(b)` is `!`.
  Both are PARAMETERS of the model (`N`, `T`): the theorems hold for either
  value, the check instantiates them with what the source has now.
  The model CALLS these generated functions; the theorems need them to be what
  the specification below (`subVars`, `out`) says (`Lemmas/Unify.lean`:
  `occursArm_complete`, `guards_ok`, …) — a dropped arm breaks those proofs.

  Every function carries fuel; `none` = no answer (fuel exhausted, index out of
  bounds, `ice!`). The Rust functions have no bound: "no fuel suffices" is
  "recurses until the stack overflows".

  NOT threaded through `unify`: path compression of `UnionFind::find`
  (`self.inner[index] = new_t.clone()` on the way back) — the model looks
  entries up like `find_ref`; `findCompress` below is the compressing version,
  shown (`Lemmas/Unify.lean`, `findCompress_acyclic`) to return what `find_ref`
  returns and to keep the store acyclic. The error-reporting side of `unify`
  (spans, the `TypeError`) is irrelevant here.

  One model-level assertion: in the arms that bind a RECORD variable after
  `unify_fields`, the model gives up (`none`) if that variable is no longer
  unset at that point (see `unifyInner`).

  Core Lean only (no Mathlib): linked into the driver executable.
-/
import RotoV.Model.UnifyBase
import RotoV.Generated.UnifyFacts

namespace RotoV.Unify
open RotoV.Gen.UnifyFacts

/-! ## The variables of a type and the graph of a store -/

mutual
/-- the variables a traversal of `t` looks up: the index of every `Var` /
`IntVar` / `FloatVar` / `RecordVar` subterm. The fields written inside a
`RecordVar` SUBTERM are never looked at — every traversal resolves the
variable first and continues with the fields stored in the union-find. -/
def subVars : Ty → List Nat
  | .var x => [x]
  | .intVar x _ => [x]
  | .floatVar x => [x]
  | .recordVar x _ _ => [x]
  | .record _ ts => subVarsL ts
  | .func ps r => subVarsL ps ++ subVars r
  | .name _ as => subVarsL as
  | .explicitVar _ => []
  | .unit => []
  | .never => []
def subVarsL : List Ty → List Nat
  | [] => []
  | t :: ts => subVars t ++ subVarsL ts
end

/-- the variables entry `i` of the store leads to when it holds `e`:
a variable pointing elsewhere leads to its target only; an unset `RecordVar`
(pointing to itself) leads to the variables of its fields; an unset plain
variable leads nowhere; any other type leads to all its variables. -/
def out (i : Nat) : Ty → List Nat
  | .var j => if j = i then [] else [j]
  | .intVar j _ => if j = i then [] else [j]
  | .floatVar j => if j = i then [] else [j]
  | .recordVar j _ ts => if j = i then subVarsL ts else [j]
  | t => subVars t

/-- `i → j`: looking up variable `i` leads to variable `j` -/
def Edge (σ : Store) (i j : Nat) : Prop := ∃ e, σ[i]? = some e ∧ j ∈ out i e

/-- reflexive-transitive closure of `Edge` -/
inductive Reach (σ : Store) : Nat → Nat → Prop
  | refl (i : Nat) : Reach σ i i
  | step {i j k : Nat} : Edge σ i j → Reach σ j k → Reach σ i k

/-- the store is acyclic: there is no infinite chain `i₀ → i₁ → …`
(on a finite store: no cycle). -/
def Acyclic (σ : Store) : Prop := WellFounded (fun j i => Edge σ i j)

/-- all variables in the store exist (they all come from `UnionFind::fresh`) -/
def Closed (σ : Store) : Prop := ∀ i j, Edge σ i j → j < σ.length

/-- variable `v` is unset: its entry is a variable with its own index -/
def IsRoot (σ : Store) (v : Nat) : Prop := ∃ e, σ[v]? = some e ∧ findRefHead e = some v

def isRootB (σ : Store) (v : Nat) : Bool :=
  match σ[v]? with
  | some e => findRefHead e == some v
  | none => false

/-! ## `unionfind.rs` -/

/-- `UnionFind::find_ref` (and `find` without its path compression) -/
def findRef : Nat → Store → Nat → Option Ty
  | 0, _, _ => none
  | f + 1, σ, i =>
    match σ[i]? with
    | none => none
    | some e =>
      match findRefHead e with
      | some j => if j = i then some e else findRef f σ j
      | none => some e

/-- `UnionFind::find`, with path compression: `(found type, new store)` -/
def findCompress : Nat → Store → Nat → Option (Ty × Store)
  | 0, _, _ => none
  | f + 1, σ, i =>
    match σ[i]? with
    | none => none
    | some e =>
      match findHead e with
      | some j =>
        if j = i then some (e, σ) else
        match findCompress f σ j with
        | some (t, σ') => some (t, σ'.set i t)
        | none => none
      | none => some (e, σ)

/-- `TypeChecker::resolve_type` -/
def resolveType (f : Nat) (σ : Store) (t : Ty) : Option Ty :=
  match resolveHead t with
  | some x => findRef f σ x
  | none => some t

/-! ## `TypeChecker::occurs` -/

mutual
/-- `occurs(var, ty)` -/
def occurs : Nat → Store → Nat → Ty → Option Bool
  | 0, _, _, _ => none
  | f + 1, σ, var, t =>
    match resolveType f σ t with
    | none => none
    | some t' =>
      match occursArm t' with
      | .isVar x => some (x == var)
      | .varOr x cs => if x == var then some true else occursAny f σ var cs
      | .children cs => occursAny f σ var cs
      | .no => some false
/-- `cs.iter().any(|t| self.occurs(var, t))` -/
def occursAny : Nat → Store → Nat → List Ty → Option Bool
  | 0, _, _, _ => none
  | _ + 1, _, _, [] => some false
  | f + 1, σ, var, t :: ts =>
    match occurs f σ var t with
    | none => none
    | some true => some true
    | some false => occursAny f σ var ts
end

/-! ## `TypeChecker::unify_inner` -/

/-- what `unify_inner` asks of the type definitions -/
structure Defs where
  /-- `resolve_type_name(n).is_int()` -/
  isInt : Nat → Bool
  /-- `resolve_type_name(n).is_signed_int()` -/
  isSignedInt : Nat → Bool
  /-- `resolve_type_name(n).is_float()` -/
  isFloat : Nat → Bool
  /-- `resolve_type_name(n).record_fields(&arguments)` -/
  recordFields : Nat → List Ty → Option (List Nat × List Ty)

mutual
/-- `Type: PartialEq` -/
def Ty.beq : Ty → Ty → Bool
  | .var x, .var y => x == y
  | .intVar x s, .intVar y s' => x == y && s == s'
  | .floatVar x, .floatVar y => x == y
  | .recordVar x ns ts, .recordVar y ns' ts' => x == y && ns == ns' && Ty.beqL ts ts'
  | .record ns ts, .record ns' ts' => ns == ns' && Ty.beqL ts ts'
  | .func ps r, .func ps' r' => Ty.beqL ps ps' && Ty.beq r r'
  | .name n as, .name n' as' => n == n' && Ty.beqL as as'
  | .explicitVar n, .explicitVar n' => n == n'
  | .unit, .unit => true
  | .never, .never => true
  | _, _ => false
def Ty.beqL : List Ty → List Ty → Bool
  | [], [] => true
  | a :: as, b :: bs => Ty.beq a b && Ty.beqL as bs
  | _, _ => false
end

/-- `self.type_info.unionfind.set(v, t.clone()); t` with what the source puts
in front of it in that arm (`G`; the source's table is `setGuard`, generated): `Some(t)` and the new
store, or `None` (`return None`) when the occurs check fires. -/
def bind (G : SetArm → Guard) (arm : SetArm) (f : Nat) (σ : Store) (v : Nat) (t : Ty) :
    Option (Option Ty × Store) :=
  match G arm with
  | .occursCheck =>
    match occurs f σ v t with
    | none => none
    | some true => some (none, σ)
    | some false => some (some t, σ.set v t)
  | .atomic => some (some t, σ.set v t)
  | .unguarded => some (some t, σ.set v t)

/-- `if s == MustBeSigned::Yes { type_def.is_signed_int() } else { type_def.is_int() }` -/
def intOk (D : Defs) (s : Bool) (n : Nat) : Bool := if s then D.isSignedInt n else D.isInt n

/-- `self.unify_fields(..)?; …` / `for … { self.unify_inner(..)?; } …`: give
up without an answer, `return None` with the store as it is now, or go on -/
def afterFields (res : Option (Bool × Store)) (k : Store → Option (Option Ty × Store)) :
    Option (Option Ty × Store) :=
  match res with
  | none => none
  | some (false, σ1) => some (none, σ1)
  | some (true, σ1) => k σ1

/-- the arm `(Never, x) | (x, Never) => x` of `unify_inner`, if the source has
it (`N`): `some x` = the arm matches -/
def neverArm (N : Bool) (a b : Ty) : Option Ty :=
  if N then
    match a, b with
    | .never, x => some x
    | x, .never => some x
    | _, _ => none
  else none

mutual
/-- `unify_inner(a, b)`: `none` = no answer; `some (None, σ')` = the types do
not unify (the store may have been changed on the way: the error message is
then rendered from `σ'`); `some (Some t, σ')` = unified. -/
def unifyInner (G : SetArm → Guard) (N : Bool) (D : Defs) : Nat → Store → Ty → Ty → Option (Option Ty × Store)
  | 0, _, _, _ => none
  | f + 1, σ, a0, b0 =>
    match resolveType f σ a0, resolveType f σ b0 with
    | some a, some b =>
      if Ty.beq a b then some (some a, σ) else
      match a, b with
      | .explicitVar _, _ => none                       -- ice!
      | _, .explicitVar _ => none                       -- ice!
      | _, _ =>
      match neverArm N a b with                         -- `(Never, x) | (x, Never) => x`, if it is there
      | some x => some (some x, σ)
      | none =>
      match a, b with
      | .intVar x sx, .intVar y sy =>                   -- unify_intvars
        if sx = true ∧ sy = false then bind G .intInt f σ y (.intVar x sx)
        else bind G .intInt f σ x (.intVar y sy)
      | .intVar v s, .name n args =>
        if !args.isEmpty then some (none, σ)
        else if !intOk D s n then some (none, σ)
        else bind G .intName f σ v (.name n args)
      | .name n args, .intVar v s =>
        if !args.isEmpty then some (none, σ)
        else if !intOk D s n then some (none, σ)
        else bind G .intName f σ v (.name n args)
      | .floatVar x, .floatVar y => bind G .floatFloat f σ x (.floatVar y)
      | .floatVar v, .name n args =>
        if !args.isEmpty then some (none, σ)
        else if !D.isFloat n then some (none, σ)
        else bind G .floatName f σ v (.name n args)
      | .name n args, .floatVar v =>
        if !args.isEmpty then some (none, σ)
        else if !D.isFloat n then some (none, σ)
        else bind G .floatName f σ v (.name n args)
      | .var x, t => bind G .varLeft f σ x t
      | t, .var y => bind G .varRight f σ y t
      | .recordVar av an aty, .recordVar bv bn bt =>
        afterFields (unifyFields G N D f σ an aty bn bt) fun σ1 =>
          -- model-level assertion: `av` is still unset
          if isRootB σ1 av then bind G .recRec f σ1 av (.recordVar bv bn bt) else none
      | .recordVar av an aty, .record bn bt =>
        afterFields (unifyFields G N D f σ an aty bn bt) fun σ1 =>
          if isRootB σ1 av then bind G .recRecord f σ1 av (.record bn bt) else none
      | .record an aty, .recordVar bv bn bt =>
        afterFields (unifyFields G N D f σ an aty bn bt) fun σ1 =>
          if isRootB σ1 bv then bind G .recordRec f σ1 bv (.record an aty) else none
      | .recordVar v fn ft, .name n args =>
        match D.recordFields n args with
        | none => some (none, σ)
        | some (nn, nt) =>
          afterFields (unifyFields G N D f σ fn ft nn nt) fun σ1 =>
            if isRootB σ1 v then bind G .recName f σ1 v (.name n args) else none
      | .name n args, .recordVar v fn ft =>
        match D.recordFields n args with
        | none => some (none, σ)
        | some (nn, nt) =>
          afterFields (unifyFields G N D f σ fn ft nn nt) fun σ1 =>
            if isRootB σ1 v then bind G .recName f σ1 v (.name n args) else none
      | .name n as, .name m bs =>
        if n ≠ m then some (none, σ) else
        afterFields (unifyZip G N D f σ as bs) fun σ1 => some (some (.name m bs), σ1)
      | .func ps r, .func qs s =>
        afterFields (unifyZip G N D f σ ps qs) fun σ1 =>
          match unifyInner G N D f σ1 r s with
          | none => none
          | some (none, σ2) => some (none, σ2)
          | some (some _, σ2) => some (some (.func qs s), σ2)
      | _, _ => some (none, σ)
    | _, _ => none

/-- `unify_fields`: `true` = `Some(new_fields)` (the callers drop the fields) -/
def unifyFields (G : SetArm → Guard) (N : Bool) (D : Defs) : Nat → Store → List Nat → List Ty → List Nat → List Ty → Option (Bool × Store)
  | 0, _, _, _, _, _ => none
  | f + 1, σ, an, aty, bn, bt =>
    if an.length ≠ bn.length then some (false, σ) else unifyFieldsLoop G N D f σ an aty bn bt

/-- the `for (name, a_ty) in a_fields` loop of `unify_fields` -/
def unifyFieldsLoop (G : SetArm → Guard) (N : Bool) (D : Defs) : Nat → Store → List Nat → List Ty → List Nat → List Ty → Option (Bool × Store)
  | 0, _, _, _, _, _ => none
  | _ + 1, σ, [], _, _, _ => some (true, σ)
  | _ + 1, _, _ :: _, [], _, _ => none                  -- names / types out of step: not a `Vec` of pairs
  | f + 1, σ, n :: an, t :: aty, bn, bt =>
    match bn.findIdx? (· == n) with                     -- `position(..)?`
    | none => some (false, σ)
    | some idx =>
      match bt[idx]? with
      | none => none
      | some tb =>
        match unifyInner G N D f σ t tb with
        | none => none
        | some (none, σ1) => some (false, σ1)
        | some (some _, σ1) => unifyFieldsLoop G N D f σ1 an aty (bn.eraseIdx idx) (bt.eraseIdx idx)

/-- `for (a, b) in as.iter().zip(bs) { self.unify_inner(a, b)?; }` -/
def unifyZip (G : SetArm → Guard) (N : Bool) (D : Defs) : Nat → Store → List Ty → List Ty → Option (Bool × Store)
  | 0, _, _, _ => none
  | f + 1, σ, a :: as, b :: bs =>
    match unifyInner G N D f σ a b with
    | none => none
    | some (none, σ1) => some (false, σ1)
    | some (some _, σ1) => unifyZip G N D f σ1 as bs
  | _ + 1, σ, _, _ => some (true, σ)
end

/-! ## `TypeChecker::unify` -/

/-- `unify(expected a, found b)`, the entry point — the only caller of
`unify_inner`. With `T` (the source has the early return): a found `!` fits any
expected type, the answer is `resolve_type(a)` and nothing is bound. Otherwise
`unify_inner(a, b)`; on `None` the error is built from `resolve_type(a)`,
`resolve_type(b)` and rendered (`Type::display`: `walk`) from the store as
`unify_inner` left it. -/
def unify (G : SetArm → Guard) (N T : Bool) (D : Defs) (f : Nat) (σ : Store) (a b : Ty) :
    Option (Option Ty × Store) :=
  match resolveType f σ b with
  | none => none
  | some b' =>
    match T, b' with
    | true, .never =>
      match resolveType f σ a with
      | none => none
      | some a' => some (some a', σ)
    | _, _ => unifyInner G N D f σ a b

/-! ## A traversal that looks at everything: `Type::display`, `TypeInfo::convert`, … -/

mutual
/-- resolve, then walk into every child (the recursion scheme shared by
`occurs`, `display`, `convert`): `some ()` = returned -/
def walk : Nat → Store → Ty → Option Unit
  | 0, _, _ => none
  | f + 1, σ, t =>
    match resolveType f σ t with
    | none => none
    | some t' =>
      match t' with
      | .recordVar _ _ ts => walkL f σ ts
      | .record _ ts => walkL f σ ts
      | .func ps r => walkL f σ (ps ++ [r])
      | .name _ as => walkL f σ as
      | _ => some ()
def walkL : Nat → Store → List Ty → Option Unit
  | 0, _, _ => none
  | _ + 1, _, [] => some ()
  | f + 1, σ, t :: ts =>
    match walk f σ t with
    | none => none
    | some () => walkL f σ ts
end

end RotoV.Unify
