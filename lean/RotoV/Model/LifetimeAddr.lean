/-
  C11 — addresses of script constants baked into the machine code
  (src/codegen/mod.rs: `RotoConstant`, the `Constant` arm of `codegen`, the
  `ConstantAddress` arm of `FuncGen`).

  `codegen` goes through the items of a script in dependency order, constants
  and functions interleaved: a constant is evaluated and inserted into
  `ModuleBuilder::roto_constants : HashMap<ResolvedName, RotoConstant>`; every
  function generated afterwards that reads it gets the constant's ADDRESS as an
  immediate (`iconst(ptr)`).  The property wants a handle to read unchanged
  constants for as long as it lives, so every baked address has to stay valid
  from the moment it is baked until the module is released.  Whether it does is
  decided by where the value lives (`ConstStore`, a generated fact):

  * `ownAlloc`   — in a heap allocation of its own that the `RotoConstant` owns
                   (`ptr` field, `std::alloc::alloc` in `RotoConstant::new`,
                   given back in `Drop`): the allocation never moves; moving the
                   `RotoConstant` (into the map, inside the map, into `ModuleData`)
                   moves only the pointer.
  * `inMapEntry` — inside the `RotoConstant` value itself, i.e. inside the bucket
                   array of the map: when a later insertion makes the table grow
                   (hashbrown: at the 1st, 4th, 8th, 15th, 29th, 57th … entry) the
                   array is reallocated and the old one freed; code generated
                   before that keeps the old address.

  The table is modelled as hashbrown does it (bucket count a power of two ≥ 4,
  capacity 7/8 of it, 3 for 4 buckets); each (re)allocation is a new
  generation.
-/
namespace RotoV.Lifetime

/-- where the value of a script constant lives = what a baked constant address points into -/
inductive ConstStore
  | ownAlloc
  | inMapEntry
  deriving DecidableEq, Repr

/-- entries a hashbrown table of that many buckets takes before it grows -/
def capOf (buckets : Nat) : Nat := if buckets < 8 then buckets - 1 else buckets / 8 * 7

/-- the constant table during `codegen` -/
structure Tab where
  buckets : Nat := 0
  len : Nat := 0
  /-- allocation id of the bucket array (0 = none yet) -/
  gen : Nat := 0
  deriving DecidableEq, Repr

def Tab.insert (t : Tab) : Tab :=
  if t.len < capOf t.buckets then { t with len := t.len + 1 }
  else { buckets := if t.buckets = 0 then 4 else 2 * t.buckets, len := t.len + 1, gen := t.gen + 1 }

/-- the insertions (1-based, up to the n-th) at which the bucket array is (re)allocated -/
def growthPoints (n : Nat) : List Nat :=
  (List.range n).filter (fun i => (Nat.repeat Tab.insert i ({} : Tab)).gen != (Nat.repeat Tab.insert (i + 1) ({} : Tab)).gen)
    |>.map (· + 1)

/-- an address baked into the code -/
inductive Addr
  | heap (c : Nat)            -- the allocation owned by constant c's `RotoConstant`
  | table (gen : Nat) (c : Nat)  -- constant c's slot inside bucket array number `gen`
  deriving DecidableEq, Repr

def addrOf (st : ConstStore) (t : Tab) (c : Nat) : Addr :=
  match st with
  | .ownAlloc => .heap c
  | .inMapEntry => .table t.gen c

/-- `codegen` over a script whose items are: constant 0, a function reading it,
    constant 1, a function reading it (and an earlier constant), ….  Result: the
    final table and every (constant, address) pair baked into some function. -/
def codegenConsts (st : ConstStore) : Nat → Tab × List (Nat × Addr)
  | 0 => ({}, [])
  | n + 1 =>
    let p := codegenConsts st n
    let t := p.1.insert
    (t, (n, addrOf st t n) :: (n / 2, addrOf st t (n / 2)) :: p.2)

/-- is the pointee still there while the module (whose table is `final`) lives:
    an allocation of a `RotoConstant` lives until that constant is dropped with
    the module; of the bucket arrays only the last one -/
def addrValid (final : Tab) : Addr → Bool
  | .heap _ => true
  | .table g _ => g == final.gen

/-- every address baked while compiling a script with `n` constants is valid afterwards -/
def allBakedValid (st : ConstStore) (n : Nat) : Bool :=
  (codegenConsts st n).2.all (fun x => addrValid (codegenConsts st n).1 x.2)

/-- per baked address (oldest first): still valid? -/
def bakedValidity (st : ConstStore) (n : Nat) : List Bool :=
  (codegenConsts st n).2.reverse.map (fun x => addrValid (codegenConsts st n).1 x.2)

end RotoV.Lifetime
