/-
  Model/LayoutMem — C02: a byte-addressed memory, reads / writes of byte
  ranges, and the semantics of the generated clone and eq functions over it
  (mirroring `generate_clone_body*` / `generate_eq_body*` field by field, on
  top of the same `layoutOf` / `LayoutBuilder.add` as the offset loops).

  Core Lean only.
-/
import RotoV.Model.LayoutOps

namespace RotoV.Layout
open RotoV
open RotoV.Gen.LayoutGen

/-- memory: address ↦ byte (bytes are not bounded: nothing here depends on it) -/
abbrev Mem := Nat → Nat

/-- store the bytes `bs` at `a, a+1, …` -/
def Mem.write (m : Mem) (a : Nat) (bs : List Nat) : Mem :=
  fun x => if a ≤ x ∧ x < a + bs.length then bs.getD (x - a) 0 else m x

/-- load `n` bytes starting at `a` -/
def Mem.read (m : Mem) (a n : Nat) : List Nat := (List.range n).map (fun i => m (a + i))

/-- `memcpy(dst, src, n)` -/
def Mem.copy (m : Mem) (dst src n : Nat) : Mem := m.write dst (m.read src n)

/-! ## decoded values -/

mutual
/-- the value a byte range holds at a type: leaves are their bytes, an enum is
    its tag byte and the fields of the variant the tag selects (padding and the
    storage of other variants are not part of the value) -/
inductive V where
  | unit
  | leaf (k : LeafKind) (bs : List Nat)
  | rec_ (fs : Vs)
  | enm (tag : Nat) (fs : Vs)
inductive Vs where
  | nil
  | cons (v : V) (vs : Vs)
end

mutual
/-- decode the value of type `t` stored at address `a` (`none`: uninhabited
    type or a tag that selects no variant) -/
def decode (m : Mem) : Ty → Nat → Option V
  | .unit, _ => some .unit
  | .never, _ => none
  | .leaf k s _, a => some (.leaf k (m.read a s))
  | .record fs, a =>
    match decodeFields m fs LayoutBuilder.new a with
    | none => none
    | some vs => some (.rec_ vs)
  | .enum vs, a =>
    match decodeVariant m vs (m a) a with
    | none => none
    | some fs => some (.enm (m a) fs)
def decodeFields (m : Mem) : Tys → LayoutBuilder → Nat → Option Vs
  | .nil, _, _ => some .nil
  | .cons t ts, b, a =>
    match layoutOf t with
    | none => none
    | some l =>
      match decode m t (a + (b.add l).2), decodeFields m ts (b.add l).1 a with
      | some v, some vs => some (.cons v vs)
      | _, _ => none
def decodeVariant (m : Mem) : Vars → Nat → Nat → Option Vs
  | .nil, _, _ => none
  | .cons v _, 0, a => decodeFields m v variantStart a
  | .cons _ vs, k + 1, a => decodeVariant m vs k a
end

def Vs.get? : Vs → Nat → Option V
  | .nil, _ => none
  | .cons v _, 0 => some v
  | .cons _ vs, n + 1 => vs.get? n

/-- the component of a decoded value a projection path names (`none` when the
    path does not fit the value: wrong shape, or another variant is live) -/
def V.project : V → List Proj → Option V
  | v, [] => some v
  | .rec_ fs, .field n :: p =>
    match fs.get? n with
    | some c => c.project p
    | none => none
  | .enm tag fs, .variantField v n :: p =>
    if tag = v then
      match fs.get? n with
      | some c => c.project p
      | none => none
    else none
  | _, _ :: _ => none

def Vs.set : Vs → Nat → V → Vs
  | .nil, _, _ => .nil
  | .cons _ vs, 0, x => .cons x vs
  | .cons v vs, n + 1, x => .cons v (vs.set n x)

/-- the value with the component a path names replaced (`none` when the path
    does not fit the value) -/
def V.update : V → List Proj → V → Option V
  | _, [], x => some x
  | .rec_ fs, .field n :: p, x =>
    match fs.get? n with
    | some c =>
      match c.update p x with
      | some c' => some (.rec_ (fs.set n c'))
      | none => none
    | none => none
  | .enm tag fs, .variantField v n :: p, x =>
    if tag = v then
      match fs.get? n with
      | some c =>
        match c.update p x with
        | some c' => some (.enm tag (fs.set n c'))
        | none => none
      | none => none
    else none
  | _, _ :: _, _ => none

/-! ## the generated clone function, executed -/

mutual
/-- `call_clone_function(from = src, to = dst, ty)` followed by running the
    callee: a type that needs no clone is `memcpy`ed whole; String / List /
    registered `Clone` leaves go through the runtime's clone function, which is
    modelled as producing a handle with the same bytes (`Arc` clone: the SAME
    list storage, the same immutable string); records and enums run
    `generate_clone_body_record` / `_enum`. -/
def cloneTy : Ty → Nat → Nat → Mem → Mem
  | .unit, _, _, m => m
  | .never, _, _, m => m
  | .leaf _ s _, src, dst, m => m.copy dst src s
  | .record fs, src, dst, m =>
    if needsClone (.record fs) then cloneFields fs LayoutBuilder.new src dst m
    else match layoutOf (.record fs) with
      | none => m
      | some l => m.copy dst src l.get_size
  | .enum vs, src, dst, m =>
    if needsClone (.enum vs) then
      cloneVariant vs (m src) src dst (m.write dst [m src])
    else match layoutOf (.enum vs) with
      | none => m
      | some l => m.copy dst src l.get_size
/-- `generate_clone_body_record`'s loop / the per-variant loop -/
def cloneFields : Tys → LayoutBuilder → Nat → Nat → Mem → Mem
  | .nil, _, _, _, m => m
  | .cons t ts, b, src, dst, m =>
    match layoutOf t with
    | none => cloneFields ts b src dst m
    | some l =>
      cloneFields ts (b.add l).1 src dst (cloneTy t (src + (b.add l).2) (dst + (b.add l).2) m)
/-- the `Switch` of `generate_clone_body_enum`: branch `k` for tag `k`, the
    LAST variant is the default; an uninhabited variant's block just returns -/
def cloneVariant : Vars → Nat → Nat → Nat → Mem → Mem
  | .nil, _, _, _, m => m
  | .cons v .nil, _, src, dst, m =>
    match collectLayouts v with
    | none => m
    | some _ => cloneFields v variantStartClone src dst m
  | .cons v (.cons v' vs), 0, src, dst, m =>
    match collectLayouts v with
    | none => m
    | some _ => cloneFields v variantStartClone src dst m
  | .cons _ (.cons v' vs), k + 1, src, dst, m => cloneVariant (.cons v' vs) k src dst m
end

/-! ## the generated drop function, executed -/

/-- one runtime drop performed: (kind of the leaf, its address) -/
abbrev DropEv := LeafKind × Nat

mutual
/-- `call_drop_of(addr, ty)` followed by running the callee
    (`generate_drop_body_*`): the runtime drops performed, in order -/
def dropTy (m : Mem) : Ty → Nat → List DropEv
  | .unit, _ => []
  | .never, _ => []
  | .leaf k s al, a => if needsDrop (.leaf k s al) then [(k, a)] else []
  | .record fs, a => if needsDrop (.record fs) then dropFields m fs LayoutBuilder.new a else []
  | .enum vs, a => if needsDrop (.enum vs) then dropVariant m vs (m a) a else []
/-- `generate_drop_body_record`'s loop (`add`, then `continue` unless
    `needs_drop`) / the per-variant loop (which calls `call_drop_of` on every
    field; that re-tests `needs_drop`) -/
def dropFields (m : Mem) : Tys → LayoutBuilder → Nat → List DropEv
  | .nil, _, _ => []
  | .cons t ts, b, a =>
    match layoutOf t with
    | none => dropFields m ts b a
    | some l =>
      (if needsDrop t then dropTy m t (a + (b.add l).2) else []) ++ dropFields m ts (b.add l).1 a
/-- the `Switch` of `generate_drop_body_enum`: the last variant is the default -/
def dropVariant (m : Mem) : Vars → Nat → Nat → List DropEv
  | .nil, _, _ => []
  | .cons v .nil, _, a =>
    match collectLayouts v with
    | none => []
    | some _ => dropFields m v variantStartDrop a
  | .cons v (.cons _ _), 0, a =>
    match collectLayouts v with
    | none => []
    | some _ => dropFields m v variantStartDrop a
  | .cons _ (.cons v' vs), k + 1, a => dropVariant m (.cons v' vs) k a
end

mutual
/-- the owned handles (String / List / registered `Clone` leaves) of the value
    stored at `a`, with their addresses, in field order — placed as
    `layout_of` places them, the variant selected by the tag -/
def handles (m : Mem) : Ty → Nat → List DropEv
  | .unit, _ => []
  | .never, _ => []
  | .leaf k _ _, a => if k == .string || k == .list || k == .rtClone then [(k, a)] else []
  | .record fs, a => handlesFields m fs LayoutBuilder.new a
  | .enum vs, a => handlesVariant m vs (m a) a
def handlesFields (m : Mem) : Tys → LayoutBuilder → Nat → List DropEv
  | .nil, _, _ => []
  | .cons t ts, b, a =>
    match layoutOf t with
    | none => []
    | some l => handles m t (a + (b.add l).2) ++ handlesFields m ts (b.add l).1 a
def handlesVariant (m : Mem) : Vars → Nat → Nat → List DropEv
  | .nil, _, _ => []
  | .cons v _, 0, a => handlesFields m v variantStart a
  | .cons _ vs, k + 1, a => handlesVariant m vs k a
end

/-! ## the generated eq function, executed -/

mutual
/-- `generate_eq_body` run on `left = a`, `right = b`. `le` is the comparison
    of a leaf's bytes (`IntCmp::Eq` on the loaded value, `FloatCmp::Eq`, the
    runtime's eq function). -/
def eqTy (le : LeafKind → List Nat → List Nat → Bool) (m : Mem) : Ty → Nat → Nat → Bool
  | .unit, _, _ => true
  | .never, _, _ => true
  | .leaf k s _, a, b => le k (m.read a s) (m.read b s)
  | .record fs, a, b => eqFields le m fs LayoutBuilder.new a b
  | .enum vs, a, b => if m a = m b then eqVariant le m vs (m a) a b else false
/-- the field chain of `generate_eq_body_record` / of one variant: an
    uninhabited field is skipped; a field without IR value (zero-sized and
    not a registered type: `is_reference_type` = false, `lower_type` = None)
    compares equal without being looked at (`call_eq_by_ptr`); the others are
    compared by their own function — a zero-sized REGISTERED field too: it is
    a reference type, so the runtime's eq function is called on its address -/
def eqFields (le : LeafKind → List Nat → List Nat → Bool) (m : Mem) : Tys → LayoutBuilder → Nat → Nat → Bool
  | .nil, _, _, _ => true
  | .cons t ts, bd, a, b =>
    match layoutOf t with
    | none => eqFields le m ts bd a b
    | some l =>
      (if noIrValue t then true else eqTy le m t (a + (bd.add l).2) (b + (bd.add l).2))
        && eqFields le m ts (bd.add l).1 a b
/-- the `Switch` on the left discriminant: one branch per variant, default
    `false`; an uninhabited variant returns `true` -/
def eqVariant (le : LeafKind → List Nat → List Nat → Bool) (m : Mem) : Vars → Nat → Nat → Nat → Bool
  | .nil, _, _, _ => false
  | .cons v _, 0, a, b =>
    match collectLayouts v with
    | none => true
    | some _ => eqFields le m v variantStartEq a b
  | .cons _ vs, k + 1, a, b => eqVariant le m vs k a b
end

mutual
/-- structural equality of decoded values, leaves compared by `le` -/
def veq (le : LeafKind → List Nat → List Nat → Bool) : V → V → Bool
  | .unit, .unit => true
  | .leaf k x, .leaf k' y => k == k' && le k x y
  | .rec_ a, .rec_ b => vseq le a b
  | .enm t a, .enm u b => if t = u then vseq le a b else false
  | _, _ => false
def vseq (le : LeafKind → List Nat → List Nat → Bool) : Vs → Vs → Bool
  | .nil, .nil => true
  | .cons a as, .cons b bs => veq le a b && vseq le as bs
  | _, _ => false
end

end RotoV.Layout
