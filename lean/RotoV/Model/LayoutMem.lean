/-
  Model/LayoutMem — C02: a byte-addressed memory, reads / writes of byte
  ranges, and the semantics of the generated clone and eq functions over it
  (mirroring `generate_clone_body*` / `generate_eq_body*` field by field, on
  top of the same `layoutOf` / `LayoutBuilder.add` as the offset loops).

  Core Lean only.
-/
import RotoV.Model.LayoutOps

namespace RotoV.Layout
open RotoV
open RotoV.Gen.LayoutGen

/-- memory: address ↦ byte (bytes are not bounded: nothing here depends on it) -/
abbrev Mem := Nat → Nat

/-- store the bytes `bs` at `a, a+1, …` -/
def Mem.write (m : Mem) (a : Nat) (bs : List Nat) : Mem :=
  fun x => if a ≤ x ∧ x < a + bs.length then bs.getD (x - a) 0 else m x

/-- load `n` bytes starting at `a` -/
def Mem.read (m : Mem) (a n : Nat) : List Nat := (List.range n).map (fun i => m (a + i))

/-- `memcpy(dst, src, n)` -/
def Mem.copy (m : Mem) (dst src n : Nat) : Mem := m.write dst (m.read src n)

end RotoV.Layout
