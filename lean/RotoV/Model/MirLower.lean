/-
  C03 — the MIR → LIR lowering of a block, as far as ownership goes.

  The verified ownership checker (`ownCheck`) runs on the MIR.  What reaches the machine is
  the LIR that `Lowerer::block` / `instruction` / `assign` / `drop` (src/lir/lower.rs) make
  of it: every MIR `Clone` / `Constant` / `Context` of a type that needs a clone must become
  one clone call, every MIR `Drop` of a type that needs a drop one drop call, in the same
  order, rooted in the same variable — and nothing else may call a clone or drop function.
  A transformation between the two levels (a peephole, a fused pair, a skipped instruction)
  is invisible to the MIR checker.

  The decisions are NOT written here: `Generated/MirLower.lean` holds, as the translator
  target `mirlower` reads them from the source on every run, the statements of
  `Lowerer::block` (`BlockStep`), the arms of `Lowerer::instruction` (`IKind × LowerFn`),
  the arms of `let op = match value { … }` in `Lowerer::assign` (`VKind × AssignAct`) and the
  statements of `Lowerer::drop` (`DropStep`).  This file interprets them.
-/
import RotoV.Model.Mir

namespace RotoV.MirLower
open RotoV.Mir

/-- variants of `mir::Instruction` -/
inductive IKind where
  | assign | jump | switch | setDisc | ret | drop
  deriving DecidableEq, Repr, Inhabited

/-- the `Lowerer` method an arm of `Lowerer::instruction` hands the instruction to -/
inductive LowerFn where
  | assign | emitJump | switch | setDisc | ret | drop
  deriving DecidableEq, Repr, Inhabited

/-- variants of `mir::Value` -/
inductive VKind where
  | const | constant | context | disc | not | negate | move | clone | binop | call | callRuntime
  deriving DecidableEq, Repr, Inhabited

/-- where the clone an `assign` arm emits reads from -/
inductive CloneSrc where
  /-- `self.location(place, ty)` of the cloned place -/
  | place
  /-- the address of a constant / an offset into the context -/
  | global
  deriving DecidableEq, Repr, Inhabited

/-- what an arm of `let op = match value { … }` in `Lowerer::assign` does, ownership-wise -/
inductive AssignAct where
  /-- `if let Some(to) … { self.call_clone_of(to, <src>, ty); } return;` -/
  | cloneOf (src : CloneSrc)
  /-- evaluates to an operand that `move_val` stores: no clone or drop function is called -/
  | operand
  deriving DecidableEq, Repr, Inhabited

/-- statements of `Lowerer::drop(val, ty)` -/
inductive DropStep where
  /-- `let Some(var) = self.location(val, ty) else { return; };` -/
  | locOrReturn
  /-- `match var { Location::Var(_) => {} Location::Pointer { base, offset } => { let op =
      self.offset(base, offset as u32); self.call_drop_of(op.into(), ty); } };` -/
  | dropAtPointer
  deriving DecidableEq, Repr, Inhabited

/-- body of the loop over a block's instructions -/
inductive LoopStep where
  /-- `self.instruction(instruction)` -/
  | lower
  deriving DecidableEq, Repr, Inhabited

/-- statements of `Lowerer::block(block)` -/
inductive BlockStep where
  /-- `self.blocks.push(Block { label: block.label, instructions: Vec::new() });` -/
  | newBlock
  /-- `for instruction in block.instructions { … }` -/
  | forEach (body : List LoopStep)
  deriving DecidableEq, Repr, Inhabited

/-- the lowering as read from the source -/
structure Lowering where
  block : List BlockStep
  instr : List (IKind × LowerFn)
  assign : List (VKind × AssignAct)
  drop : List DropStep
  deriving Repr, Inhabited

/-- An ownership-relevant call in a LIR block: a clone call reading from the variable `root`
    (`none`: a constant / the context), a drop call on a place rooted in `root`. -/
inductive Ev where
  | clone (root : Option Nat) (path : List Proj) (ty : Nat)
  | drop (root : Nat) (path : List Proj) (ty : Nat)
  deriving DecidableEq, Repr, Inhabited

def lookup {α β} [DecidableEq α] (k : α) : List (α × β) → Option β
  | [] => none
  | (a, b) :: r => if a = k then some b else lookup k r

/-- the `mir::Value` variants behind a `Val` of the dump (the dump merges those the ownership
    semantics does not tell apart) -/
def vkinds : Val → List VKind
  | .lit => [.const]
  | .global => [.constant, .context]
  | .clone _ => [.clone]
  | .move _ => [.move]
  | .read _ => [.not, .negate, .binop]
  | .call _ => [.call, .callRuntime]
  | .disc _ => [.disc]

/-- `call_clone_of` at a field of a type: a clone call iff the type needs one
    (`clone_needed_iff_drop_needed`: iff it needs a drop — the `nd` bit of the dump) -/
def cloneEv (nd : Nat → Bool) (src : Option Place) (ty : Nat) : List Ev :=
  if nd ty then [.clone (src.map (·.var)) (match src with | some p => p.proj | none => []) ty] else []

/-- one arm of `assign`, on a value of the dump -/
def assignAct (nd : Nat → Bool) (ty : Nat) (v : Val) : AssignAct → Option (List Ev)
  | .operand => some []
  | .cloneOf .place => match v with
    | .clone p => some (cloneEv nd (some p) ty)
    | _ => none
  | .cloneOf .global => match v with
    | .global => some (cloneEv nd none ty)
    | _ => none

/-- all `mir::Value` variants a dumped value may stand for must be lowered alike -/
def assignEvs (L : Lowering) (nd : Nat → Bool) (ty : Nat) (v : Val) : Option (List Ev) :=
  match (vkinds v).map (fun k => (lookup k L.assign).bind (assignAct nd ty v)) with
  | [] => none
  | r :: rs => if rs.all (· == r) then r else none

/-- `Lowerer::drop` -/
def dropEvs (nd : Nat → Bool) (p : Place) (ty : Nat) : List DropStep → Option (List Ev)
  | [.locOrReturn, .dropAtPointer] => some (if nd ty then [.drop p.var p.proj ty] else [])
  | _ => none

def ikind : Instr → IKind
  | .assign .. => .assign
  | .setDisc .. => .setDisc
  | .drop .. => .drop

/-- `Lowerer::instruction` on a non-terminator -/
def instrEvs (L : Lowering) (nd : Nat → Bool) (i : Instr) : Option (List Ev) :=
  match lookup (ikind i) L.instr, i with
  | some .assign, .assign _ ty v => assignEvs L nd ty v
  | some .drop, .drop p ty => dropEvs nd p ty L.drop
  | some .setDisc, .setDisc .. => some []
  | _, _ => none

/-- a terminator goes to the function that emits it (none of them calls a clone / drop function:
    the translator checks their text for that) -/
def termOk (L : Lowering) : Term → Bool
  | .jump _ => lookup .jump L.instr == some .emitJump
  | .switch .. => lookup .switch L.instr == some .switch
  | .ret _ => lookup .ret L.instr == some .ret

def loopEvs (L : Lowering) (nd : Nat → Bool) : List LoopStep → Instr → Option (List Ev)
  | [.lower], i => instrEvs L nd i
  | _, _ => none

def eachEvs (L : Lowering) (nd : Nat → Bool) (body : List LoopStep) : List Instr → Option (List Ev)
  | [] => some []
  | i :: r => do
    let a ← loopEvs L nd body i
    let b ← eachEvs L nd body r
    pure (a ++ b)

/-- `Lowerer::block`: the clone / drop calls of the LIR block, in order -/
def blockEvs (L : Lowering) (nd : Nat → Bool) (b : Block) : Option (List Ev) :=
  match L.block with
  | [.newBlock, .forEach body] => if termOk L b.term then eachEvs L nd body b.instrs else none
  | _ => none

/-- What the ownership reading of the MIR says an instruction does (`Model/Mir`, `cInstr`): a
    clone of a place / of a global creates a value of a droppable type; a drop releases one.
    That this table IS what `cInstr` does is proved in `Props/C03Lower` §S (S1–S8). -/
def ownEvs (nd : Nat → Bool) : Instr → List Ev
  | .assign _ ty (.clone p) => if nd ty then [.clone (some p.var) p.proj ty] else []
  | .assign _ ty .global => if nd ty then [.clone none [] ty] else []
  | .assign .. => []
  | .setDisc .. => []
  | .drop p ty => if nd ty then [.drop p.var p.proj ty] else []

def blockOwnEvs (nd : Nat → Bool) (b : Block) : List Ev :=
  b.instrs.flatMap (ownEvs nd)

end RotoV.MirLower
