/-
  Registration (C18): the vocabulary in which the translator
  (`extract/src/targets/c18.rs`, target `decltype`) reports how
  `Rt::declare_type` (`src/runtime/mod.rs`) is *written*, and the decision it
  makes about ONE entry of `Rt::types` when a type item is registered.

  `Rt::types` is a `Vec<RuntimeType>`; each entry has the `TypeId` of a Rust
  type and the resolved name (scope + identifier) it is registered under.  For
  a new registration `(scope, ident, type_id)` every guard of `declare_type`
  scans that vector with a predicate over one entry; all the predicate can
  see of the entry is three facts:

    `t`  the entry has the Rust type of the new registration
    `i`  the entry has the identifier of the new registration
    `s`  the entry sits in the scope of the new registration

  `Generated/DeclType.lean` holds the guards as Boolean functions of
  `(t, i, s)`, regenerated from the source on every run.

  Core Lean only.
-/
import RotoV.Model.Registration

namespace RotoV.Reg.Src

inductive TyStep
  /-- `if <some entry of self.types satisfies P> { return Err(..) }` -/
  | guard
  /-- `self.type_checker.declare_runtime_type(..)…?` -/
  | declareInChecker
  /-- `self.types.push(RuntimeType { .. })` -/
  | pushEntry
  deriving DecidableEq, Repr

structure DeclTypeFacts where
  steps : List TyStep
  /-- `declare_runtime_type` receives the registration's own scope, identifier and type id -/
  declaresItsOwn : Bool
  /-- the entry pushed has the registration's own resolved name and type id -/
  pushesItsOwn : Bool
  deriving DecidableEq, Repr

/-- `declareType` of `Model/Registration.lean` (under `Cfg.fixed`): the lookup
    `st.types id`, the lookup `st.typeNames ⟨scope, n⟩`, the declaration, the
    two indexes extended -/
def declTypeAsModelled : DeclTypeFacts where
  steps := [.guard, .guard, .declareInChecker, .pushEntry]
  declaresItsOwn := true
  pushesItsOwn := true

/-- some guard stops the registration because of an entry with these facts -/
def rejectsEntry (guards : List (Bool → Bool → Bool → Bool)) (t i s : Bool) : Bool :=
  guards.any (fun g => g t i s)

/-- the first guard an entry with these facts trips (the error that is reported) -/
def firstGuard (guards : List (Bool → Bool → Bool → Bool)) (t i s : Bool) : Option Nat :=
  guards.findIdx? (fun g => g t i s)

/-- The facts about the entry `(id', nm)` of a runtime's type table, seen from
    the registration of Rust type `id` as `scope::n`. -/
def entryFacts (scope : ScopeId) (n : Name) (id : TyId) (id' : TyId) (nm : RName) : Bool × Bool × Bool :=
  (decide (id' = id), decide (nm.ident = n), decide (nm.scope = scope))

/-- `self.types.iter().any(|o| <some guard>)` on the model's type table: some
    registered entry trips a guard. -/
def SomeEntryRejects (guards : List (Bool → Bool → Bool → Bool)) (st : St)
    (scope : ScopeId) (n : Name) (id : TyId) : Prop :=
  ∃ id' nm, st.types id' = some nm ∧
    rejectsEntry guards (entryFacts scope n id id' nm).1 (entryFacts scope n id id' nm).2.1
      (entryFacts scope n id id' nm).2.2 = true

/-- The invariant that ties the model's two indexes of `Vec<RuntimeType>`:
    `typeNames` answers for exactly the names in `types`. -/
def NamesOfTypes (st : St) : Prop :=
  ∀ nm, st.typeNames nm = true ↔ ∃ id, st.types id = some nm

/-! ## `TypeChecker::declare_runtime_type` (target `declrtype`) -/

/-- the variants of `TypeDefinition` the primitive shortcut can name -/
inductive TyDefKind | primitive | list | runtime | record | enum
  deriving DecidableEq, Repr

inductive RtStep
  /-- `if let Some(other) = ….resolve_name(..) && let <kinds> = other.kind { …; return Ok(()) }` -/
  | shortcut
  /-- `….insert_type(scope, &ident, .., TypeDefinition::Runtime(name, type_id))…?` -/
  | insertType
  /-- `self.type_info.types.insert(name, ty)` -/
  | recordDefinition
  deriving DecidableEq, Repr

structure DeclRtFacts where
  steps : List RtStep
  /-- the shortcut looks the registration's own identifier up, starting in its own scope -/
  lookupOwn : Bool
  /-- the `recurse` argument of that lookup: also through the imports and the enclosing scopes -/
  recurse : Bool
  /-- the kinds of type definition the shortcut applies to -/
  shortcutKinds : List TyDefKind
  /-- the shortcut's block declares nothing and returns `Ok(())` -/
  shortcutDeclaresNothing : Bool
  /-- `insert_type` gets the registration's own scope and identifier and `Runtime(own name, own type id)` -/
  insertsItsOwn : Bool
  recordsItsOwn : Bool
  deriving DecidableEq, Repr

/-- what `declareType` of `Model/Registration.lean` embodies under `Cfg.fixed`:
    `found := st.decls nm` (NOT `resolveRec`), `shortcut := d.kind = .prim`
    (`Kind.prim` = `TypeDefinition::Primitive(_) | List(_)`) → only the two
    indexes are extended; otherwise a taken name is an error and the
    declaration is inserted under the registration's own name. -/
def declRtAsModelled : DeclRtFacts where
  steps := [.shortcut, .insertType, .recordDefinition]
  lookupOwn := true
  recurse := false
  shortcutKinds := [.primitive, .list]
  shortcutDeclaresNothing := true
  insertsItsOwn := true
  recordsItsOwn := true

/-- the configuration of the model that the source's `declare_runtime_type` is -/
def DeclRtFacts.cfg (f : DeclRtFacts) : Cfg := { Cfg.fixed with primRecursive := f.recurse }

end RotoV.Reg.Src
