/-
  C03, runtime boundary: who releases a value that compiled code hands to the
  type-erased list runtime by raw pointer.

  MIR lowering gives the arguments of a runtime call to the callee ("from here
  on the values belong to the callee") and emits no `Drop` for them.  For the
  methods of `List[T]` the element arrives as a `DynVal` (a raw pointer into
  the caller's stack slot), so Rust's own drop glue does not apply: the
  `ErasedList` function has to release the element by hand (`vtable.drop_fn`)
  or store it (`RawList::push` copies the bytes into the list).  This module
  is the ownership reading of such a function body; the bodies themselves are
  translated from `src/value/list.rs` on every run (`Generated/ListOwn.lean`,
  translator target `listown`).  Core Lean only.
-/
namespace RotoV.ListOwn

/-- one statement of an `ErasedList` function, as far as the element pointer is concerned -/
inductive OStmt where
  /-- `self.0.lock().unwrap()` -/
  | lock
  /-- the element is read (compared with `eq_fn`) and left alone -/
  | borrow
  /-- the element's bytes are moved into the list, which owns it from now on -/
  | moveIn
  /-- `if let Some(drop_fn) = raw.vtable.drop_fn { drop_fn(item) }` -/
  | releaseIfDroppable
  /-- `if <condition not about the element> { return … }` -/
  | retIf
  /-- tail expression / `return` -/
  | ret
  deriving DecidableEq, Repr, Inhabited

/-- what happens to the element on one path -/
inductive Ev where
  | read
  | consume
  deriving DecidableEq, Repr, Inhabited

/-- the events of the path on which the `i`-th `retIf` returns iff `choice i`
    (statements behind a `ret` are not reached) -/
def events (choice : Nat → Bool) : Nat → List OStmt → List Ev
  | _, [] => []
  | n, .lock :: r => events choice n r
  | n, .borrow :: r => .read :: events choice n r
  | n, .moveIn :: r => .consume :: events choice n r
  | n, .releaseIfDroppable :: r => .consume :: events choice n r
  | n, .retIf :: r => if choice n then [] else events choice (n + 1) r
  | _, .ret :: _ => []

/-- a path is right for an element the function owns: consumed exactly once, never read afterwards -/
def pathOk : Bool → List Ev → Bool
  | consumed, [] => consumed
  | false, .read :: r => pathOk false r
  | true, .read :: _ => false
  | false, .consume :: r => pathOk true r
  | true, .consume :: _ => false

/-- decision procedure over all paths: `consumed` = the element was consumed already -/
def runOwn : Bool → List OStmt → Bool
  | consumed, [] => consumed
  | consumed, .lock :: r => runOwn consumed r
  | false, .borrow :: r => runOwn false r
  | true, .borrow :: _ => false
  | false, .moveIn :: r => runOwn true r
  | true, .moveIn :: _ => false
  | false, .releaseIfDroppable :: r => runOwn true r
  | true, .releaseIfDroppable :: _ => false
  | consumed, .retIf :: r => consumed && runOwn consumed r
  | consumed, .ret :: _ => consumed

/-- the function only looks at the element (the caller keeps it) -/
def borrowOnly (b : List OStmt) : Bool :=
  b.all (fun s => s != .moveIn && s != .releaseIfDroppable)

def lookup (fns : List (Nat × List OStmt)) (i : Nat) : Option (List OStmt) :=
  match fns.find? (fun p => p.1 = i) with
  | some p => some p.2
  | none => none

/-- every script-visible entry hands its element to a function that consumes it exactly once on every path -/
def entriesConsume (fns : List (Nat × List OStmt)) (entries : List Nat) : Bool :=
  entries.all (fun e => match lookup fns e with | some b => runOwn false b | none => false)

/-- every function either consumes the element exactly once on every path or leaves it alone on every path -/
def allDecided (fns : List (Nat × List OStmt)) : Bool :=
  fns.all (fun p => runOwn false p.2 || borrowOnly p.2)

end RotoV.ListOwn
