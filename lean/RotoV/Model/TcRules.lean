/-
  TcRules: executable models of three pieces of decision logic of the type
  checker, written arm by arm from the source:

  * `binopReal` / `negateReal` / `notReal` — the operator/operand acceptance
    of `TypeChecker::binop`, `Expr::Negate`, `Expr::Not`
    (src/typechecker/expr.rs) on *resolved operand shapes* (`OTy`), with the
    flat part of unification (`uFlat`: literal variables against named types);
  * `matchReal` — the variant bookkeeping of `match_expr` (default arm,
    `used_variants`, the count-based exhaustiveness test, pattern arity);
  * `insertDecl` — `ScopeGraph::insert_declaration` (src/typechecker/scope.rs):
    vacant → insert, occupied → replace only if `update_if(old)`.

  The documented rules they are compared with are in `Model/Typing.lean`.
  Core Lean only (linked into the driver executable).
-/
import RotoV.Model.Typing
import RotoV.Generated.C07Facts

namespace RotoV.TcRules
open RotoV.Typing
open RotoV.Gen

/-- resolved shape of an operand, as `unify` / `is_numeric_type` see it -/
inductive OTy
  | int (t : ITy) | f32 | f64 | bool | string | char | ipAddr | prefix | asn | unit
  | listI32 | listStr | optI32 | record
  /-- an integer-literal variable (`IntVar(_, MustBeSigned)`) -/
  | intVar (signed : Bool)
  /-- a float-literal variable -/
  | floatVar
  deriving DecidableEq, Repr, Inhabited

def OTy.all : List OTy :=
  [.int .u8, .int .u16, .int .u32, .int .u64, .int .i8, .int .i16, .int .i32, .int .i64,
   .f32, .f64, .bool, .string, .char, .ipAddr, .prefix, .asn, .unit,
   .listI32, .listStr, .optI32, .record, .intVar false, .intVar true, .floatVar]

/-- `unify_inner` restricted to these shapes (the arms `a == b`, IntVar×IntVar,
    IntVar×Name, FloatVar×FloatVar, FloatVar×Name, everything else `None`) -/
def uFlat : OTy → OTy → Option OTy
  | .intVar a, .intVar b => some (.intVar (a || b))
  | .intVar s, .int t | .int t, .intVar s => if !s || t.signed then some (.int t) else none
  | .floatVar, .floatVar => some .floatVar
  | .floatVar, .f32 | .f32, .floatVar => some .f32
  | .floatVar, .f64 | .f64, .floatVar => some .f64
  | a, b => if a = b then some a else none

/-- `TypeInfo::is_numeric_type` -/
def isNumericReal : OTy → Bool
  | .int _ | .f32 | .f64 | .intVar _ | .floatVar => true
  | _ => false

/-- `TypeInfo::is_int_type` -/
def isIntReal : OTy → Bool
  | .int _ | .intVar _ => true
  | _ => false

def isListReal : OTy → Bool
  | .listI32 | .listStr => true
  | _ => false

/-- the general arms of `binop` (`match op { … }`): the arm is looked up in the
    table regenerated from the source (`Gen.C07Facts.binopArms`, source order) -/
def binopGeneral (op : BinOp) (l r : OTy) : Option OTy :=
  match C07Facts.binopArms.find? (fun a => a.ops.contains op) with
  | none => none
  | some arm =>
    if arm.operandsBool then
      match uFlat .bool l, uFlat .bool r with
      | some _, some _ => some .bool
      | _, _ => none
    else
      let guardOk := match arm.guard with
        | .none => true
        | .numeric => isNumericReal l
        | .int => isIntReal l
      if guardOk then (uFlat l r).map fun t => if arm.resultBool then .bool else t else none

/-- `TypeChecker::binop`: the special cases (ip `/` u8, String/List `+`) are
    tried first, on the resolved type of the left operand (present iff the
    generated facts say so). `some t` = the operands are accepted and the
    expression has type `t`. -/
def binopReal (op : BinOp) (l r : OTy) : Option OTy :=
  if C07Facts.divIpPrefix && op = .div && l = .ipAddr then (uFlat (.int .u8) r).map fun _ => .prefix
  else if C07Facts.addString && op = .add && l = .string then (uFlat .string r).map fun _ => .string
  else if C07Facts.addList && op = .add && isListReal l then uFlat l r
  else binopGeneral op l r

/-- `Expr::Negate`: unsigned named integer → error; numeric → the operand's
    type (an `IntVar` becomes `MustBeSigned::Yes`); anything else → error.
    Each test is present iff the generated facts say so. -/
def negateReal : OTy → Option OTy
  | .int t => if C07Facts.negateRejectsUnsigned && !t.signed then none else some (.int t)
  | .intVar s => some (.intVar (s || C07Facts.negateMarksSigned))
  | .f32 => some .f32
  | .f64 => some .f64
  | .floatVar => some .floatVar
  | t => if C07Facts.negateRequiresNumeric then none else some t

/-- `Expr::Not` -/
def notReal (t : OTy) : Option OTy :=
  if C07Facts.notOperandBool then (uFlat .bool t).map fun _ => .bool else some .bool

/-- what the root of an assigned path is -/
inductive VKind | local | constant | context
  deriving DecidableEq, Repr, Inhabited

/-- the `Assign` / `CompoundAssign` arm with or without the test
    `path_value.kind != ValueKind::Local` -/
def assignAcceptsWith (tested : Bool) (k : VKind) : Bool := !tested || k == .local

/-- `Expr::Assign` / `Expr::CompoundAssign`: is a path rooted at a value of this
    kind accepted? (whether the test is there is read off the source) -/
def assignAccepts (compound : Bool) (k : VKind) : Bool :=
  assignAcceptsWith
    (if compound then C07Facts.compoundAssignRequiresLocal else C07Facts.assignRequiresLocal) k

/-- the documented type an operand shape stands for -/
def OTy.toTy : OTy → Ty
  | .int t => .int t | .f32 => .f32 | .f64 => .f64 | .bool => .bool | .string => .string
  | .char => .prim 0 | .ipAddr => .prim 1 | .prefix => .prim 2 | .asn => .prim 3
  | .unit => .unit | .listI32 => .list (.int .i32) | .listStr => .list .string
  | .optI32 => .opt (.int .i32) | .record => .named 0
  | .intVar s => .anyInt s | .floatVar => .anyFloat

/-! ### match bookkeeping of `match_expr` -/

inductive MatchErr
  | unreachableAfterDefault | unknownVariant | variantHasNoFields | patternArity
  | needArguments | declaredTwice | nonExhaustive | unreachableDuplicate
  deriving DecidableEq, Repr, Inhabited

/-- state of the loop: `used_variants`, `default_arm` -/
structure MState where
  used : List PatName
  dflt : Bool

def patIn (n : PatName) (xs : List PatName) : Bool := xs.any (patNameEq n)

/-- `match (field_types.as_slice(), data_field)`: the pattern's binders against
    the variant's number of fields (binders are inserted with `insert_var`, so
    two equal binders are "declared multiple times") -/
def arityCheck : Nat → Option (List Nat) → Except MatchErr Unit
  | 0, none => .ok ()
  | 0, some _ => .error .variantHasNoFields
  | k + 1, some xs =>
    if k + 1 != xs.length then .error .patternArity
    else if hasDup xs then .error .declaredTwice else .ok ()
  | _ + 1, none => .error .needArguments

/-- one arm of `match_expr` (`variants`: name and number of fields) -/
def matchArm (vs : List (PatName × Nat)) (st : MState) (h : ArmHead) : Except MatchErr MState :=
  if st.dflt then .error .unreachableAfterDefault else
  match h.pat with
  | .wild => .ok { st with dflt := !h.guarded }
  | .variant n bs =>
    match vs.find? (fun v => patNameEq v.1 n) with
    | none => .error .unknownVariant
    | some (_, nf) =>
      -- an arm for a variant that an earlier unguarded arm covers is unreachable
      -- (an error iff the source says so; the unchanged tree only printed a
      -- warning); this is decided before the pattern's binders are looked at
      if C07Facts.matchDuplicateVariantIsError && patIn n st.used then .error .unreachableDuplicate else
      match arityCheck nf bs with
      | .error e => .error e
      | .ok () =>
        -- a guarded arm does not mark its variant as used
        if h.guarded then .ok st
        else if patIn n st.used then .ok st
        else .ok { st with used := st.used ++ [n] }

def matchLoop (vs : List (PatName × Nat)) : MState → List ArmHead → Except MatchErr MState
  | st, [] => .ok st
  | st, h :: rest => match matchArm vs st h with
    | .ok st' => matchLoop vs st' rest
    | .error e => .error e

/-- the tests of `match_expr` this model was written from are all still in the
    source (regenerated facts) -/
def matchModelled : Bool :=
  C07Facts.matchRejectsAfterDefault && C07Facts.matchCountsUsedVariants &&
  C07Facts.matchGuardedArmNotUsed && C07Facts.matchUnguardedWildIsDefault

/-- `match_expr`: `none` = accepted. If one of the modelled tests has left the
    source, nothing is claimed to be rejected any more. -/
def matchReal (vs : List (PatName × Nat)) (arms : List ArmHead) : Option MatchErr :=
  if !matchModelled then none else
  match matchLoop vs ⟨[], false⟩ arms with
  | .error e => some e
  | .ok st => if !st.dflt && st.used.length < vs.length then some .nonExhaustive else none

/-! ### `ScopeGraph::insert_declaration` -/

/-- what a declaration is, as far as `update_if` cares -/
inductive DKind
  | valueLocal | valueConst (defined : Bool) | type (stub : Bool) (params : Nat)
  | function (defined : Bool) | method (defined : Bool) | module | enumVariant (defined : Bool)
  | typeParam
  deriving DecidableEq, Repr, Inhabited

/-- the `update_if` closures of `insert_var`, `insert_const`, `insert_type`,
    `insert_module`, `insert_function`, `insert_method` and of the enum-variant
    definitions in `declare_types`: may the new declaration replace the old one? -/
def updateIf (new old : DKind) : Bool :=
  match new, old with
  | .valueLocal, _ => false
  | .valueConst true, .valueConst false => true
  | .type false n, .type true m => n == m
  | .module, _ => false
  | .function true, .function false => true
  | .method true, .method false => true
  | .enumVariant true, .enumVariant false => true
  | _, _ => false

abbrev Key := Nat × Nat   -- (scope, identifier)
abbrev Table := List (Key × DKind)

/-- the structure of `insert_declaration` and of the `update_if` closures this
    model was written from is still in the source (regenerated facts) -/
def insertModelled : Bool :=
  C07Facts.insertOccupiedAsksUpdateIf && C07Facts.insertVacantInserts &&
  C07Facts.insertVarNeverUpdates && C07Facts.insertModuleNeverUpdates &&
  C07Facts.insertConstUpdatesStubOnly && C07Facts.insertFunctionUpdatesStubOnly &&
  C07Facts.insertMethodUpdatesStubOnly

/-- `insert_declaration`: `none` = `Err(old.id)` ("declared multiple times").
    If the modelled structure has left the source, nothing is claimed to be
    rejected any more. -/
def insertDecl (t : Table) (k : Key) (new : DKind) : Option Table :=
  match t.lookup k with
  | none => some ((k, new) :: t)
  | some old =>
    if !insertModelled || updateIf new old then some (t.map fun e => if e.1 = k then (k, new) else e) else none

def insertAll : Table → List (Key × DKind) → Option Table
  | t, [] => some t
  | t, (k, d) :: rest => match insertDecl t k d with
    | some t' => insertAll t' rest
    | none => none

end RotoV.TcRules
