/-
  C14: the statement-level shape of `context_check` / `determine_uses_context`
  (src/typechecker/value_cycle.rs) that `Model/Tarjan.lean` (`contextLoop`,
  `determine`, `detLoop`) was written from.  The translator target `c14ctx`
  regenerates the two step lists from the source on every run
  (`Generated/C14Ctx`); `Props/C14Ctx` proves them equal to the lists below, so a
  changed rule (caching the answer of an on-stack name, one pass over the
  components, …) breaks an obligation.

  Core Lean only.
-/
namespace RotoV.TarjanCtxShape

inductive Cond where
  | cached         -- `if let Some(b) = uses_context.get(name)`
  | onStack        -- `if visited.contains(name)`
  | isCtx          -- the declaration is `Value(ValueKind::Context(..), _)`
  | recurse        -- `if self.determine_uses_context(uses_context, visited, reference)`
  | constAndUses   -- the declaration is a constant `&& self.determine_uses_context(…, name)`
  deriving DecidableEq, Repr

inductive Act where
  | returnCached | returnTrue | returnFalse
  | insertTrue | insertFalse | markVisited
  | errUsesContext | returnOk
  deriving DecidableEq, Repr

inductive Step where
  | guard (c : Cond) (acts : List Act)
  | act (a : Act)
  | forRefs (body : List Step)   -- `for reference in self.references.references.get(name).into_iter().flatten()`
  | forKeys (body : List Step)   -- `for name in self.references.references.keys()`
  deriving Repr

/-- structural equality as a `Bool` (nested inductive: no derived `DecidableEq`) -/
def Step.beq : Step → Step → Bool
  | .guard c a, .guard c' a' => c == c' && a == a'
  | .act a, .act a' => a == a'
  | .forRefs b, .forRefs b' => beqList b b'
  | .forKeys b, .forKeys b' => beqList b b'
  | _, _ => false
where
  beqList : List Step → List Step → Bool
    | [], [] => true
    | x :: xs, y :: ys => Step.beq x y && beqList xs ys
    | _, _ => false

/-- what `Model/Tarjan.determine` + `detLoop` transcribe: cache hit → that answer;
on the stack → `false`, **nothing stored**; context variable → store and answer
`true`; else mark, ask every reference — the first `true` is stored and
returned —, otherwise store and answer `false` -/
def determineAsModelled : List Step := [
  .guard .cached [.returnCached],
  .guard .onStack [.returnFalse],
  .guard .isCtx [.insertTrue, .returnTrue],
  .act .markVisited,
  .forRefs [.guard .recurse [.insertTrue, .returnTrue]],
  .act .insertFalse,
  .act .returnFalse
]

/-- what `Model/Tarjan.contextLoop` transcribes: every key in order, constants
only, the first one that uses the context is the error -/
def checkAsModelled : List Step := [
  .forKeys [.guard .constAndUses [.errUsesContext]],
  .act .returnOk
]

end RotoV.TarjanCtxShape
