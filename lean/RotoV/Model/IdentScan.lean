/-
  IdentScan: model of the scan of `Lexer::keyword_or_ident`
  (src/parser/lexer.rs):

      let Some(c) = tail.chars().next() else { return Continue };
      if !(FIRST c) { return Continue }
      tail = &tail[c.len_utf8()..];
      tail.eat_while(|c| REST c);          // trim_start_matches
      let (ident, span) = self.bump_to(tail);

  The two character tests FIRST / REST are DATA (`CharTest` lists, an `||`
  chain each); the translator target `identscan` generates them from the
  source (`Generated/C09IdentScan`), and checks the straight-line shape above.
  `unicode-ident`'s `is_xid_start` / `is_xid_continue` are parameters
  (`xs` / `xc`): nothing is assumed about them.

  Core Lean only: linked into the driver.
-/

namespace RotoV.IdentScan

/-- one disjunct of a character test -/
inductive CharTest where
  | xidStart
  | xidContinue
  | isChar (c : Char)
  deriving DecidableEq, Repr

def CharTest.eval (xs xc : Char → Bool) : CharTest → Char → Bool
  | .xidStart, c => xs c
  | .xidContinue, c => xc c
  | .isChar d, c => c == d

/-- an `||` chain -/
def anyTest (xs xc : Char → Bool) (ts : List CharTest) (c : Char) : Bool :=
  ts.any (fun t => t.eval xs xc c)

/-- the scan: `none` = `ControlFlow::Continue` (no identifier / keyword here),
    `some (word, rest)` = the text handed to the keyword match and the input
    that is left -/
def scanWith (first rest : List CharTest) (xs xc : Char → Bool) :
    List Char → Option (List Char × List Char)
  | [] => none
  | c :: t =>
    if !(anyTest xs xc first c) then none
    else some (c :: t.takeWhile (anyTest xs xc rest), t.dropWhile (anyTest xs xc rest))

/-- the documented word: XID_Start or `_`, then XID_Continue characters -/
def IsIdentWord (xs xc : Char → Bool) (w : List Char) : Prop :=
  ∃ c t, w = c :: t ∧ (xs c = true ∨ c = '_') ∧ ∀ d ∈ t, xc d = true

/-- the word cannot be extended: what follows does not begin with XID_Continue -/
def EndsWord (xc : Char → Bool) (rest : List Char) : Prop :=
  ∀ d r, rest = d :: r → xc d = false

/-- executable form of the documented rule (used by the driver) -/
def docScan (xs xc : Char → Bool) : List Char → Option (List Char × List Char)
  | [] => none
  | c :: t => if xs c || c == '_' then some (c :: t.takeWhile xc, t.dropWhile xc) else none

end RotoV.IdentScan
