/-
  Built-ins of roto's default runtime (property C10): the vocabulary the
  translator's `c10builtins` target emits (`Generated/C10Builtins.lean` is the
  transliteration of the argument-validating bindings of `src/runtime/basic.rs`
  and of the view methods of `src/value/string.rs` / `RawList::get/swap` of
  `src/value/list.rs`), plus hand-written models of what the translator cannot
  express (`StringLines::slice`'s loops, `inetnum::Prefix::new_relaxed`,
  `str::repeat`, `splitn`, …).

  Conventions
  * a Rust `str` is a list of Unicode scalar values (`Str`); byte offsets are
    computed from `Char.utf8Size`, so "is a char boundary" is decidable and
    Rust's slice-index panics (`&s[i..j]`) are explicit (`Res.panic`);
  * `usize` is `RInt false Target.usizeBits` — the pointer width is a
    parameter, theorems hold for every target;
  * `unwrap`, `expect`, slice indexing, `+ - *` in a debug profile: explicit
    `Res.panic`.  A capacity overflow / allocation failure is `Lim.limit`
    (the documented memory-exhaustion limit), never confused with a value.

  Core Lean only: linked into the driver.
-/
import RotoV.Model.RustStd

namespace RotoV

/-- The compilation target: width of `usize`. -/
class Target where
  usizeBits : Nat

abbrev USz [Target] := RInt false Target.usizeBits

namespace RInt
variable {s : Bool} {w : Nat}
/-- `a.checked_sub(b)` -/
def checked_sub (a b : RInt s w) : Option (RInt s w) :=
  if inRange s w (a.val - b.val) then some (ofInt s w (a.val - b.val)) else none
/-- `a.try_into()` followed by `.ok()` (the error carries no information). -/
def try_into {s' : Bool} {w' : Nat} (a : RInt s w) : Option (RInt s' w') :=
  if inRange s' w' a.val then some (ofInt s' w' a.val) else none
/-- the value as a natural (0 for negatives; only used on unsigned operands) -/
def toNat (a : RInt s w) : Nat := a.val.toNat
end RInt

/-- `Option::unwrap` / `Result::unwrap`. -/
def ROpt.unwrap {α} : Option α → Res α
  | some a => .ok a
  | none => .panic

/-- The `?` operator on an `Option` inside a function returning `Option`:
    `let x = e?; rest` is `RQ.bind e (fun x => rest)`. -/
def RQ.bind {α β} (o : Option α) (k : α → Res (Option β)) : Res (Option β) :=
  match o with
  | some a => k a
  | none => .ok none

/-- byte offsets: naturals (iterator results) or `usize` values (arguments) -/
class ToOff (α : Type) where
  toOff : α → Nat
instance : ToOff Nat := ⟨id⟩
instance {s w} : ToOff (RInt s w) := ⟨RInt.toNat⟩

/-- A Rust `str`. -/
structure Str where
  chars : List Char
  deriving DecidableEq, Repr, Inhabited

/-- An iterator in mid-flight: the items still to come. -/
structure Iter (α : Type) where
  items : List α
  deriving Repr

/-- `it.nth(n)?` at statement level: the n-th remaining item, and the iterator
    advanced past it, or an early `return None`. -/
def RIter.nthQ {α β} [ToOff ι] (it : Iter α) (n : ι) (k : α → Iter α → Res (Option β)) : Res (Option β) :=
  match it.items[ToOff.toOff n]? with
  | some x => k x ⟨it.items.drop (ToOff.toOff n + 1)⟩
  | none => .ok none

namespace Str

def byteLenL : List Char → Nat
  | [] => 0
  | c :: cs => c.utf8Size + byteLenL cs

def byteLen (s : Str) : Nat := byteLenL s.chars

/-- drop exactly `i` bytes; `none` if `i` is past the end or inside a character -/
def dropBytes : List Char → Nat → Option (List Char)
  | s, 0 => some s
  | [], _ + 1 => none
  | c :: cs, i + 1 => if c.utf8Size ≤ i + 1 then dropBytes cs (i + 1 - c.utf8Size) else none

/-- take exactly `i` bytes -/
def takeBytes : List Char → Nat → Option (List Char)
  | _, 0 => some []
  | [], _ + 1 => none
  | c :: cs, i + 1 =>
    if c.utf8Size ≤ i + 1 then (takeBytes cs (i + 1 - c.utf8Size)).map (c :: ·) else none

/-- `s.len()` -/
def len [Target] (s : Str) : USz := RInt.ofInt _ _ s.byteLen

/-- `s.get(i..)` -/
def get_from {ι} [ToOff ι] (s : Str) (i : ι) : Option Str :=
  (dropBytes s.chars (ToOff.toOff i)).map Str.mk

/-- `s.get(i..j)`: `None` when `i > j`, `j > len`, or either is not a char boundary -/
def get_range {ι κ} [ToOff ι] [ToOff κ] (s : Str) (i : ι) (j : κ) : Option Str :=
  let i := ToOff.toOff i
  let j := ToOff.toOff j
  if i ≤ j then
    match dropBytes s.chars i with
    | some t => (takeBytes t (j - i)).map Str.mk
    | none => none
  else none

/-- `&s[i..j]`: panics exactly where `get` returns `None` -/
def index_range {ι κ} [ToOff ι] [ToOff κ] (s : Str) (i : ι) (j : κ) : Res Str :=
  match get_range s i j with
  | some t => .ok t
  | none => .panic

/-- `&s[i..]` -/
def index_from {ι} [ToOff ι] (s : Str) (i : ι) : Res Str :=
  match get_from s i with
  | some t => .ok t
  | none => .panic

/-- `s.chars().next()` -/
def next_char (s : Str) : Option Char := s.chars.head?
/-- `s.chars().nth(n)` -/
def nth_char {ι} [ToOff ι] (s : Str) (n : ι) : Option Char := s.chars[ToOff.toOff n]?
/-- `s.chars().count()` -/
def count_chars [Target] (s : Str) : USz := RInt.ofInt _ _ s.chars.length

/-- byte offset of every character start, then the length: all char boundaries, ascending -/
def boundariesFrom (off : Nat) : List Char → List Nat
  | [] => [off]
  | c :: cs => off :: boundariesFrom (off + c.utf8Size) cs

/-- `s.char_indices().map(|(byte, _)| byte).chain(once(s.len()))` -/
def boundary_iter (s : Str) : Iter Nat := ⟨boundariesFrom 0 s.chars⟩

def empty : Str := ⟨[]⟩

/-- `s.ends_with('\n')` -/
def ends_with_nl (s : Str) : Bool := s.chars.getLast? == some '\n'

/-- `s.match_indices('\n').map(|(byte, _)| byte + 1)`: offsets just after each newline -/
def afterNewlinesFrom (off : Nat) : List Char → List Nat
  | [] => []
  | c :: cs =>
    if c = '\n' then (off + 1) :: afterNewlinesFrom (off + 1) cs
    else afterNewlinesFrom (off + c.utf8Size) cs

/-- split at '\n' keeping nothing of the terminator (helper of `lines`) -/
def splitNl : List Char → List Char → List (List Char)
  | acc, [] => if acc.isEmpty then [] else [acc.reverse]
  | acc, c :: cs => if c = '\n' then acc.reverse :: splitNl [] cs else splitNl (c :: acc) cs

def stripCr (l : List Char) : List Char :=
  match l.getLast? with
  | some '\r' => l.dropLast
  | _ => l

/-- `s.lines()`: split at "\n", a "\r" directly before the "\n" is dropped; a
    last line without terminator keeps a trailing "\r". -/
def linesL : List Char → List Char → List (List Char)
  | acc, [] => if acc.isEmpty then [] else [acc.reverse]
  | acc, c :: cs => if c = '\n' then stripCr acc.reverse :: linesL [] cs else linesL (c :: acc) cs

def lines (s : Str) : List Str := (linesL [] s.chars).map Str.mk
def count_lines [Target] (s : Str) : USz := RInt.ofInt _ _ (lines s).length

end Str

/-- `for _ in 0..k { let idx = iter.next()?; cur = idx; }`: advance an iterator
    `k` times remembering the last item; `none` when it runs dry (the `?`). -/
def Str.advance : List Nat → Nat → Nat → Option (Nat × List Nat)
  | it, 0, cur => some (cur, it)
  | [], _ + 1, _ => none
  | x :: xs, k + 1, _ => Str.advance xs k x

/-- the loop `let mut cur = init; for _ in a..b { let idx = it.next()?; cur = idx; }` as the translator
    reads it: `b - a` steps (none when `a ≥ b`, as a Rust range), `None` when the iterator runs dry -/
def Str.advanceR {ι κ} [ToOff ι] [ToOff κ] (it : List Nat) (a : ι) (b : κ) (init : Nat) : Option (Nat × List Nat) :=
  Str.advance it (ToOff.toOff b - ToOff.toOff a) init
/-- `s.match_indices('\n').map(|(byte, _)| byte + 1)`: the offsets just after each newline -/
def Str.after_newlines (s : Str) : List Nat := Str.afterNewlinesFrom 0 s.chars
/-- `iter.chain(end)` with `end : Option<usize>` -/
def Str.chain_opt (it : List Nat) (e : Option Nat) : List Nat := it ++ e.toList

/-- (Reference only since round 4: `Generated/C10Builtins.StringLines_slice` is transliterated from the
    source and `Props/C10B.lines_slice_inner_no_panic` is proved over it; nothing uses this model.)
    `StringLines::slice` (src/value/string.rs), hand-modelled: its two `for`
    loops advance one iterator over the offsets just after each newline
    (chained with the string's length when it does not end in a newline).
    `byte + 1` cannot overflow (bounded by the string's length). -/
def StringLines_slice_model [Target] (s : Str) (i j : USz) : Res (Option Str) :=
  -- let num = j.checked_sub(i)?;
  RQ.bind (RInt.checked_sub j i) fun _num =>
  let end_ : List Nat := if s.ends_with_nl then [] else [s.byteLen]
  -- for _ in 0..i { let idx = iter.next()?; start_idx = idx; }
  match Str.advance (Str.afterNewlinesFrom 0 s.chars) i.toNat 0 with
  | none => .ok none
  | some (start_idx, iter) =>
    -- if num == 0 { return Some("") }     (num = j - i: the subtraction succeeded)
    if j.toNat - i.toNat = 0 then .ok (some Str.empty) else
    -- let mut iter = iter.chain(end);  for _ in i..j { let idx = iter.next()?; end_idx = idx; }
    match Str.advance (iter ++ end_) (j.toNat - i.toNat) start_idx with
    | none => .ok none
    | some (end_idx, _) =>
      -- Some(self.0.0[start_idx..end_idx].into())
      match Str.index_range s start_idx end_idx with
      | .ok t => .ok (some t)
      | .panic => .panic

/-! ### `inetnum::addr::Prefix` (inetnum 0.1.1, our reading; trusted) -/

inductive IpAddr where
  | v4 (a : BitVec 32)
  | v6 (a : BitVec 128)
  deriving DecidableEq, Repr, Inhabited

structure Prefix where
  isV4 : Bool
  bits : BitVec 128
  len : Nat
  deriving DecidableEq, Repr, Inhabited

namespace Prefix
def maxLen (ip : IpAddr) : Nat := match ip with | .v4 _ => 32 | .v6 _ => 128

/-- `Bits::clear_host` -/
def clearHost (b : BitVec 128) (len : Nat) : BitVec 128 :=
  if len = 0 then 0 else b &&& (BitVec.allOnes 128 <<< (128 - len))

/-- `Prefix::new_relaxed(addr, len)`: `Err(LenOverflow)` iff `len` exceeds the
    family's maximum (`FamilyAndLen::new_v4/new_v6`), else host bits cleared. -/
def new_relaxed (ip : IpAddr) (len : U8) : Option Prefix :=
  let l := len.toNat
  match ip with
  | .v4 a => if l > 32 then none else some ⟨true, clearHost (a.zeroExtend 128 <<< 96) l, l⟩
  | .v6 a => if l > 128 then none else some ⟨false, clearHost a l, l⟩

def addr (p : Prefix) : IpAddr :=
  if p.isV4 then .v4 ((p.bits >>> 96).truncate 32) else .v6 p.bits
def max_addr (p : Prefix) : IpAddr :=
  let b := if p.len ≥ 128 then p.bits else p.bits ||| (BitVec.allOnes 128 >>> p.len)
  if p.isV4 then .v4 ((b >>> 96).truncate 32) else .v6 b
end Prefix

/-! ### allocation-sized results -/

/-- value, or the documented memory-exhaustion limit (capacity overflow /
    allocation failure: the request cannot be represented or satisfied) -/
inductive Lim (α : Type) where
  | val (a : α)
  | limit
  deriving Repr

/-- `str::repeat(n)`: `len * n` must fit `usize` (`checked_mul().expect("capacity
    overflow")`) and `isize::MAX` (`Vec::with_capacity`).  Both overflows are
    requests for more memory than the address space holds: `Lim.limit`. -/
def Str.repeat [Target] (s : Str) (n : USz) : Lim Str :=
  if s.byteLen * n.toNat ≥ 2 ^ (Target.usizeBits - 1) then .limit
  else if s.chars.isEmpty then .val ⟨[]⟩  -- (the general case would build `n` empty lists)
  else .val ⟨(List.replicate n.toNat s.chars).flatten⟩

/-! ### `str` searching (naive leftmost, non-overlapping; our reading of std) -/

namespace Str

def splitOnce (pat : List Char) : List Char → List Char → Option (List Char × List Char)
  | _, [] => none
  | acc, c :: cs =>
    if pat.isPrefixOf (c :: cs) then some (acc.reverse, (c :: cs).drop pat.length)
    else splitOnce pat (c :: acc) cs

/-- after an empty-needle match at the start of `r`: further pieces -/
def emptyGo : Nat → List Char → List (List Char)
  | 0, r => [r]
  | _ + 1, [] => [[]]
  | k + 1, c :: cs => [c] :: emptyGo k cs

/-- `s.splitn(n, pat)` with `n` already clamped to at most `len + 2` -/
def splitNL (pat : List Char) : Nat → List Char → List (List Char)
  | 0, _ => []
  | 1, s => [s]
  | n + 2, s =>
    if pat.isEmpty then [] :: emptyGo n s
    else match splitOnce pat [] s with
      | none => [s]
      | some (a, b) => a :: splitNL pat (n + 1) b

def splitn {ι} [ToOff ι] (s : Str) (n : ι) (pat : Str) : List Str :=
  (splitNL pat.chars (min (ToOff.toOff n) (s.chars.length + 2)) s.chars).map Str.mk

def split (s : Str) (pat : Str) : List Str := splitn s (s.chars.length + 2) pat

/-- `rsplitn`: the mirror image -/
def rsplitn {ι} [ToOff ι] (s : Str) (n : ι) (pat : Str) : List Str :=
  (splitNL pat.chars.reverse (min (ToOff.toOff n) (s.chars.length + 2)) s.chars.reverse).map
    (fun l => Str.mk l.reverse)

def isInfix (pat : List Char) : List Char → Bool
  | [] => pat.isEmpty
  | c :: cs => pat.isPrefixOf (c :: cs) || isInfix pat cs

def contains (s pat : Str) : Bool := isInfix pat.chars s.chars
def starts_with (s pat : Str) : Bool := pat.chars.isPrefixOf s.chars
def ends_with (s pat : Str) : Bool := pat.chars.reverse.isPrefixOf s.chars.reverse
def strip_prefix (s pat : Str) : Option Str :=
  if starts_with s pat then some ⟨s.chars.drop pat.chars.length⟩ else none
def strip_suffix (s pat : Str) : Option Str :=
  if ends_with s pat then some ⟨s.chars.take (s.chars.length - pat.chars.length)⟩ else none
def append (a b : Str) : Str := ⟨a.chars ++ b.chars⟩
instance : REq Str := ⟨fun a b => .ok (decide (a.chars = b.chars))⟩
/-- `s.is_empty()` -/
def is_empty (s : Str) : Bool := s.chars.isEmpty
/-- `s.is_char_boundary(i)`: `i` is 0, the length, or the offset of a character -/
def is_char_boundary {ι} [ToOff ι] (s : Str) (i : ι) : Bool := (dropBytes s.chars (ToOff.toOff i)).isSome
/-- `s.split_at(i)`: panics where `i` is past the end or inside a character -/
def split_at {ι} [ToOff ι] (s : Str) (i : ι) : Res (Str × Str) :=
  match takeBytes s.chars (ToOff.toOff i), dropBytes s.chars (ToOff.toOff i) with
  | some a, some b => .ok (⟨a⟩, ⟨b⟩)
  | _, _ => .panic
/-- `s.split_at_checked(i)` -/
def split_at_checked {ι} [ToOff ι] (s : Str) (i : ι) : Option (Str × Str) :=
  match takeBytes s.chars (ToOff.toOff i), dropBytes s.chars (ToOff.toOff i) with
  | some a, some b => some (⟨a⟩, ⟨b⟩)
  | _, _ => none
def join (l : List Str) (sep : Str) : Str := ⟨List.intercalate sep.chars (l.map Str.chars)⟩

end Str

/-! ### `RawList` (src/value/list.rs): the bookkeeping `get` / `swap` consult -/

/-- element size, length, capacity of the allocation (in elements) -/
structure RawListS [Target] where
  size : USz
  len : USz
  capacity : USz

/-- `compute_capacity(size, required)` for `required ≥ 1` after `n` pushes of
    `size`-byte elements starting from an empty list. -/
def listCapacityAfter (size n : Nat) : Nat :=
  if n = 0 || size = 0 then 0
  else
    let minimum := if size = 1 then 8 else if size ≤ 1024 then 4 else 1
    max (Nat.nextPowerOfTwo n) minimum

end RotoV

namespace RotoV
/-- unsuffixed integer literals at a Rust integer type (`len.checked_sub(1)`) -/
instance (priority := low) {s w n} : OfNat (RInt s w) n := ⟨RInt.ofInt s w n⟩
end RotoV
