/-
  C07 — rules the type checker special-cases for a BUILT-IN type, and the
  deferred `to_string` obligation of f-string parts.

  A script may declare its own type under the name of a built-in one
  (`enum Option { .. }`, `record List { .. }`, `record u32 { .. }`); inside the
  script the name then denotes the script's type. A type name is therefore a
  RESOLVED name: the scope it was declared in (GLOBAL for what the runtime
  registers) and the identifier. The decisions below are the ones of
  `TypeChecker::expr` (`QuestionMark` arm), `TypeChecker::binop` (`+` on lists)
  and `TypeChecker::resolve_obligations`, parameterised by facts regenerated
  from src/typechecker/{expr,mod}.rs on every run (`Generated/C07Facts.lean`):
  which tests are there.
-/
import RotoV.Generated.C07Facts

namespace RotoV.TcBuiltin
open RotoV.Gen

/-- a resolved type name: declared in the GLOBAL scope (the runtime's types) or
    in a scope of the script, and its identifier (a number per spelling) -/
structure RName where
  global : Bool
  ident : Nat
  deriving DecidableEq, Repr

/-- the spelling `Option` -/
def idOption : Nat := 0
/-- the spelling `List` -/
def idList : Nat := 1

/-- the built-in `Option` / `List` -/
def builtinOption : RName := ⟨true, idOption⟩
def builtinList : RName := ⟨true, idList⟩

/-- what `?` finds as return type of the enclosing item: none (a constant), a
    type that is not a type name (a variable, a record, `!`), or a type name -/
inductive RetTy
  | noReturnType
  | notAName
  | name (n : RName)
  deriving DecidableEq, Repr

/-- the `QuestionMark` arm after its operand is checked: the three exits, each
    present or not -/
def tryAllowedWith (needsRet needsName testsIdent testsScope : Bool) : RetTy → Bool
  | .noReturnType => !needsRet
  | .notAName => !needsName
  | .name n => (!testsIdent || n.ident == idOption) && (!testsScope || n.global)

/-- `?` as written in the source -/
def tryAllowed (r : RetTy) : Bool :=
  tryAllowedWith C07Facts.tryNeedsReturnType C07Facts.tryNeedsTypeName C07Facts.tryTestsIdent
    C07Facts.tryTestsGlobalScope r

/-- `binop`, `Add`: is the list-concatenation branch taken for a left operand of
    this resolved type (`none`: not a type name)? -/
def concatTakenWith (testsIdent testsScope : Bool) : Option RName → Bool
  | none => false
  | some n => (!testsIdent || n.ident == idList) && (!testsScope || n.global)

def concatTaken (l : Option RName) : Bool :=
  C07Facts.addList && concatTakenWith C07Facts.concatTestsIdent C07Facts.concatTestsGlobalScope l

/-- a method signature over ground types -/
structure Sig (α : Type) where
  params : List α
  ret : α
  deriving DecidableEq, Repr

/-- `resolve_obligations`: the comparison of the found signature with the
    required one — number of parameters, parameters pairwise (`zip`: the shorter
    list decides how many), return type; each test present or not. On ground
    types unification is equality. -/
def sigFitsWith {α : Type} [DecidableEq α] (arity params ret rejects : Bool) (found required : Sig α) : Bool :=
  let correct :=
    (!arity || found.params.length == required.params.length)
    && (!params || (found.params.zip required.params).all (fun p => p.1 == p.2))
    && (!ret || found.ret == required.ret)
  !rejects || correct

def sigFits {α : Type} [DecidableEq α] (found required : Sig α) : Bool :=
  sigFitsWith C07Facts.oblChecksArity C07Facts.oblUnifiesParams C07Facts.oblUnifiesReturn
    C07Facts.oblRejectsIncorrect found required

/-- an f-string part whose (ground) type is `recv`, `method` = what `get_method
    (recv, "to_string")` finds, `str` = the built-in `String` -/
def fstringPartAccepts {α : Type} [DecidableEq α] (method : Option (Sig α)) (recv str : α) : Bool :=
  match method with
  | none => !C07Facts.oblMissingMethodIsError
  | some s => if C07Facts.fstringAsksUnaryToString then sigFits s ⟨[recv], str⟩ else true

end RotoV.TcBuiltin
