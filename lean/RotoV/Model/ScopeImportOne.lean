/-
  C13 — the steps of `TypeChecker::import` (src/typechecker/mod.rs) as the
  translator target `scopeimportone` reads them off the source, and their meaning.

      let mut idents = path.idents.iter();
      let (i, d) = self.resolve_module_part_of_path(scope, &mut idents)?;     resolve
      if let Some(_) = idents.next() {
          return Err(self.error_expected_module(i, d));                       leftoverIsError
      }
      self.type_info.scope_graph.insert_import(scope, i.id, d.name)
          .map_err(|old| self.error_declared_twice(i, old))                    insert

  (`i`, `d` any names; the scope is always the parameter `scope` — anything else
  is an extraction failure.)  `Props/C13.lean` proves `import_as_modelled`: the
  steps mean `Scope.importOne` — the path is resolved from the importing scope,
  identifiers left over are an error, the alias goes into the importing scope
  under the name of the declaration found.

  Core Lean only.
-/
import RotoV.Model.Scope

namespace RotoV.Scope.ImportOne
open RotoV.Scope

inductive IStep | resolve | leftoverIsError | insert
  deriving DecidableEq, Repr, Inhabited

structure ISt where
  /-- what `idents` still yields -/
  rest : List Name
  /-- `(ident, declaration)` once resolved -/
  res : Option (Name × Decl)

/-- a body that does not end in the `insert_import` tail expression, or uses the
    result before `resolve`, does not type-check in Rust: mapped to the fuel
    panic so that nothing can be proved about it -/
def run (g : Graph) (s : Nat) : List IStep → ISt → Res Graph
  | [], _ => .panic .fuel
  | .resolve :: k, st =>
    match resolveModulePart g s st.rest with
    | .ok r => run g s k ⟨r.rest, some (r.ident, r.decl)⟩
    | .err e => .err e
    | .panic p => .panic p
  | .leftoverIsError :: k, st =>
    match st.res, st.rest with
    | none, _ => .panic .fuel
    | some _, _ :: _ => .err .expectedModule
    | some _, [] => run g s k st
  | .insert :: _, st =>
    match st.res with
    | some (_, d) => g.insertImport s d.name
    | none => .panic .fuel

def runImport (steps : List IStep) (g : Graph) (s : Nat) (p : Path) : Res Graph :=
  run g s steps ⟨p, none⟩

def referenceSteps : List IStep := [.resolve, .leftoverIsError, .insert]

/-- a variant without the check for identifiers left over -/
def noLeftoverCheckSteps : List IStep := [.resolve, .insert]

end RotoV.Scope.ImportOne
