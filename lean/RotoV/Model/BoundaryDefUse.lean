/-
C05 — "a value read from the host is the same at every read site": the
control-flow side. A read that is lowered once and re-used (a per-function
cache of the first read) is only right where the definition reaches every use;
on a path that skips the defining block the variable was never assigned (the
code generator then supplies 0). This model states, for the LIR a script is
lowered to, that NO variable is read before it was assigned, on any path.

The control-flow graph of one lowered function: blocks of instructions, each
instruction with the variable it defines and the variables it reads, each
block with its successors (`Jump`, `Switch`). `Cfg.check` is a definite-
assignment check with a certificate (`Cfg.entrySets`: per block the variables
assigned on every path to it). `Props/C05DefUse` proves it sound for every
path through the graph. The harness hands the real blocks of every generated
script (hook `verif_hooks::c05::mem_ops`) to `Cfg.check` through the driver.
Core Lean only.
-/
namespace RotoV.BoundaryDefUse

abbrev Var := Nat

/-- what matters of one instruction: what it reads, then what it defines -/
structure Ins where
  uses : List Var
  defs : Option Var
  deriving Repr, Inhabited, DecidableEq

structure Block where
  instrs : List Ins
  succs : List Nat
  deriving Repr, Inhabited

/-- a lowered function: block 0 is the entry; `initial` are the variables that
hold a value when the function starts (parameters, the context pointer, the
return pointer, stack slots); `entrySets` is the certificate -/
structure Cfg where
  blocks : List Block
  initial : List Var
  entrySets : List (List Var)
  deriving Repr, Inhabited

def subset (a b : List Var) : Bool := a.all b.contains

/-- run the instructions of a block over the set of assigned variables;
`none` = some instruction reads a variable outside the set -/
def runBlock : List Ins → List Var → Option (List Var)
  | [], s => some s
  | i :: rest, s =>
    if i.uses.all s.contains then
      runBlock rest (match i.defs with | some d => d :: s | none => s)
    else none

def Cfg.entrySet (g : Cfg) (b : Nat) : List Var := g.entrySets.getD b []

/-- one block against the certificate: its instructions read only variables of
its entry set or defined earlier in the block, and what is assigned at its end
covers the entry set of every successor (which must exist) -/
def Cfg.blockOk (g : Cfg) (b : Nat) (blk : Block) : Bool :=
  match runBlock blk.instrs (g.entrySet b) with
  | none => false
  | some out => blk.succs.all fun s => s < g.blocks.length && subset (g.entrySet s) out

def Cfg.check (g : Cfg) : Bool :=
  subset (g.entrySet 0) g.initial && (g.blocks.zipIdx.all fun p => g.blockOk p.2 p.1)

/-- a path through the graph starting at block `b`: each next block is a successor -/
inductive Path (g : Cfg) : Nat → List Nat → Prop
  | last (b : Nat) (hb : b < g.blocks.length) : Path g b [b]
  | step (b c : Nat) (rest : List Nat) (blk : Block) (hb : g.blocks[b]? = some blk) (hs : c ∈ blk.succs)
      (tail : Path g c (c :: rest)) : Path g b (b :: c :: rest)

/-- the instructions executed along a path -/
def trace (g : Cfg) : List Nat → List Ins
  | [] => []
  | b :: rest => (g.blocks.getD b default).instrs ++ trace g rest

/-- executing instructions one after the other from the set `s` of assigned
variables: `false` as soon as one reads a variable that was never assigned -/
def noUnassignedRead : List Ins → List Var → Bool
  | [], _ => true
  | i :: rest, s =>
    i.uses.all s.contains && noUnassignedRead rest (match i.defs with | some d => d :: s | none => s)

/-- the certificate by forward dataflow: a block's entry set is the intersection
of what its predecessors assign (the driver computes it; the check does not trust it) -/
def inter (a b : List Var) : List Var := a.filter b.contains

def outSet (blk : Block) (s : List Var) : List Var :=
  blk.instrs.foldl (fun s i => match i.defs with | some d => if s.contains d then s else d :: s | none => s) s

def allVars (g : Cfg) : List Var :=
  (g.initial ++ g.blocks.flatMap fun b => b.instrs.filterMap (·.defs)).eraseDups

def dataflowRound (g : Cfg) (sets : List (List Var)) : List (List Var) :=
  (List.range g.blocks.length).map fun b =>
    if b = 0 then g.initial.eraseDups
    else
      let preds := g.blocks.zipIdx.filter fun p => p.1.succs.contains b
      preds.foldl (fun acc p => inter acc (outSet p.1 (sets.getD p.2 []))) (sets.getD b [])

/-- iterate to a fixpoint (the sets only shrink; `fuel` bounds the rounds) -/
def dataflowFix (g : Cfg) : Nat → List (List Var) → List (List Var)
  | 0, sets => sets
  | fuel + 1, sets =>
    let next := dataflowRound g sets
    if next.map List.length == sets.map List.length then sets else dataflowFix g fuel next

def certify (g : Cfg) : Cfg :=
  let top := allVars g
  let start := (List.range g.blocks.length).map fun b => if b = 0 then g.initial.eraseDups else top
  { g with entrySets := dataflowFix g (g.blocks.length * top.length + 2) start }

end RotoV.BoundaryDefUse
