/-
  C14, between the second layer and the source facts of `c14emit`: how
  `Lowerer::program` lays `Lir.functions` out.  It has three groups of generated
  functions (clone / drop / eq — they refer to each other only) and the script's
  items in compilation order, refers to everything by *name*, and emits the
  groups in some order (`programOrder`, regenerated from the source).  The code
  generator then works by position.  `lowerProg p order` is the emitted list with
  every name resolved to the position it gets when the groups are emitted in
  `order`; `progReady` is what the compilation order gives the script items, in
  terms of their own indices.  (Lemmas/TarjanEmit: when the generated groups are
  emitted before the items, `progReady` implies the positional condition
  `lirReady` of the item loop.)

  Core Lean only.
-/
import RotoV.Model.TarjanLir

namespace RotoV.Tarjan

/-- a generated clone / drop / eq function before its symbols are resolved to
positions: it refers to generated functions only (by group and index in the group) -/
structure HItem where
  refs : List (EmitGroup × Nat)
  deriving Repr, DecidableEq

/-- a script item (constant or function) in compilation order, before its symbols
are resolved to positions -/
structure SItem where
  isConst : Bool
  /-- constants: index of `::generated::drop_<type_id>` among the drop functions -/
  drop : Nat
  /-- generated functions the body refers to -/
  helpers : List (EmitGroup × Nat)
  /-- script functions the body refers to (index in the script list) -/
  funcs : List Nat
  /-- script constants the body reads (index in the script list) -/
  consts : List Nat
  deriving Repr, DecidableEq

/-- what `Lowerer::program` has in hand: the three generated groups and the
script's items in compilation order -/
structure Prog where
  clones : List HItem
  drops : List HItem
  eqs : List HItem
  items : List SItem
  deriving Repr, DecidableEq

def Prog.size (p : Prog) : EmitGroup → Nat
  | .clones => p.clones.length
  | .drops => p.drops.length
  | .eqs => p.eqs.length
  | .items => p.items.length

/-- number of generated functions -/
def Prog.helperCount (p : Prog) : Nat := p.clones.length + p.drops.length + p.eqs.length

/-- position at which group `x` starts when the groups are emitted in `order` -/
def offset (p : Prog) : List EmitGroup → EmitGroup → Option Nat
  | [], _ => none
  | g :: rest, x => if g = x then some 0 else (offset p rest x).map (· + p.size g)

/-- position of the `k`-th member of group `g` -/
def resolve (p : Prog) (order : List EmitGroup) (r : EmitGroup × Nat) : Option Nat :=
  if r.2 < p.size r.1 then (offset p order r.1).map (· + r.2) else none

def lowerH (p : Prog) (order : List EmitGroup) (h : HItem) : LItem :=
  ⟨false, none, h.refs.map (resolve p order), []⟩

def lowerS (p : Prog) (order : List EmitGroup) (s : SItem) : LItem :=
  ⟨s.isConst, if s.isConst then resolve p order (.drops, s.drop) else none,
   s.helpers.map (resolve p order) ++ s.funcs.map (fun j => resolve p order (.items, j)),
   s.consts.map (fun j => resolve p order (.items, j))⟩

def lowerGroup (p : Prog) (order : List EmitGroup) : EmitGroup → List LItem
  | .clones => p.clones.map (lowerH p order)
  | .drops => p.drops.map (lowerH p order)
  | .eqs => p.eqs.map (lowerH p order)
  | .items => p.items.map (lowerS p order)

/-- `Lir.functions` when the groups are emitted in `order` -/
def lowerProg (p : Prog) (order : List EmitGroup) : List LItem :=
  order.flatMap (lowerGroup p order)

/-- a reference to a generated function that exists -/
def helperOk (p : Prog) (r : EmitGroup × Nat) : Bool := r.1 != .items && decide (r.2 < p.size r.1)

def sIsConst (p : Prog) (j : Nat) : Bool :=
  match p.items[j]? with
  | some s => s.isConst
  | none => false

def sFuncs (p : Prog) (j : Nat) : List Nat :=
  match p.items[j]? with
  | some s => s.funcs
  | none => []

/-- what the script item at index `j` needs of the compilation order -/
def sItemReady (p : Prog) (j : Nat) (s : SItem) : Bool :=
  s.helpers.all (helperOk p)
    && s.funcs.all (fun f => decide (f < p.items.length))
    && s.consts.all (fun c => decide (c < j) && sIsConst p c)
    && (!s.isConst || (decide (s.drop < p.drops.length)
          && (List.range (j + 1)).all fun j' => (sFuncs p j').all fun f => decide (f ≤ j)))

def sItemsReady (p : Prog) : Nat → List SItem → Bool
  | _, [] => true
  | j, s :: rest => sItemReady p j s && sItemsReady p (j + 1) rest

/-- The program is well formed and its script items stand in a compilation
order: generated functions refer to generated functions that exist; a script
item refers to generated functions that exist and to script functions of the
list; it reads only *constants that stand earlier*; a constant's drop function
exists, and no item up to a constant calls a script function that stands after
that constant (functions that call each other are not separated by a constant). -/
def progReady (p : Prog) : Bool :=
  (p.clones ++ p.drops ++ p.eqs).all (fun h => h.refs.all (helperOk p)) && sItemsReady p 0 p.items

/-- the orders `helpersFirst` accepts -/
def helperFirstOrders : List (List EmitGroup) :=
  [[.clones, .drops, .eqs, .items], [.clones, .eqs, .drops, .items], [.drops, .clones, .eqs, .items],
   [.drops, .eqs, .clones, .items], [.eqs, .clones, .drops, .items], [.eqs, .drops, .clones, .items]]

/-- the script items of a reference graph in the order `order`, as
`Lowerer::program` has them in hand: names of script functions / constants
become indices into the item list; which generated functions an item refers to
and which drop function a constant has is given from outside -/
def progOfGraph (g : Graph) (order : List Nat) (clones drops eqs : List HItem)
    (helpersOf : Nat → List (EmitGroup × Nat)) (dropOf : Nat → Nat) : Prog :=
  let items := mirItems g order
  { clones := clones, drops := drops, eqs := eqs,
    items := items.map fun n =>
      ⟨g.kind n == .const, dropOf n, helpersOf n,
       (funcRefs g items n).map items.idxOf, (constRefs g items n).map items.idxOf⟩ }

/-- indices of the constants among the script items, in order -/
def sConstIdx : Nat → List SItem → List Nat
  | _, [] => []
  | j, s :: rest => if s.isConst then j :: sConstIdx (j + 1) rest else sConstIdx (j + 1) rest

end RotoV.Tarjan
