/-
  ReportBase: what the translator records about the code that builds and
  renders error reports (`Generated/ReportSlices.lean`, target `reportslices`).

  Core Lean only (no Mathlib).
-/

namespace RotoV.Report

/-- One place where a text is cut by byte offsets (`x[a..b]`, `x[..n]`,
`x[n..]`, `split_at`, `truncate`, `drain`, `split_off`, `insert`,
`replace_range`, `…_unchecked`) in the files that build or render reports. -/
inductive SliceSite where
  /-- `x[..]`: the whole of it — cannot fail -/
  | full
  /-- `file[..self.start]` in `Span::character_range` (model: `Lex.characterRange`) -/
  | charRangePrefix
  /-- `file[self.start..self.end]` in `Span::character_range` (model: `Lex.characterRange`) -/
  | charRangeSpan
  /-- `s[1..s.len() - 1]` in `Parser::simple_literal`: a `String` / `Char` token
  starts and ends with an ASCII quote (the lexer's `string` / `char`) -/
  | quotesStripped
  /-- `s[2..]` in `Parser::simple_literal`: a `Hex` / `Asn` token starts with
  the two ASCII characters `0x` / `AS` -/
  | asciiPrefix2
  /-- `s[piece_start..i]`, `s[piece_start..]` in `unescape_f_string_part`:
  offsets from `char_indices`, moved past ASCII braces only -/
  | fstringPiece
  /-- `parameter_types[1..]` of a method: a list, after `parameter_types[0]`
  has been used -/
  | vecTail
  /-- anything else: a cut at a computed byte offset nobody has shown to be a
  character boundary -/
  | unaudited (file : String) (function : String) (line : Nat) (text : String)
  deriving Repr, DecidableEq

def SliceSite.audited : SliceSite → Bool
  | .full => true
  | .charRangePrefix => true
  | .charRangeSpan => true
  | .quotesStripped => true
  | .asciiPrefix2 => true
  | .fstringPiece => true
  | .vecTail => true
  | .unaudited _ _ _ _ => false

end RotoV.Report
