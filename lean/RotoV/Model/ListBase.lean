/-
  ListBase: the vocabulary the translator targets for `src/value/list.rs`
  (property C15): `usize` arithmetic with explicit overflow, the lock
  references and the step alphabet of `ErasedList::concat`.

  Core Lean only: linked into the driver executable.
-/
import RotoV.Model.RustStd

namespace RotoV.ListM

/-- `usize::MAX` on the 64-bit targets roto supports. -/
def usizeMax : Nat := 2 ^ 64 - 1

/-- smallest power of two `≥ n` (`usize::next_power_of_two`, unbounded) -/
def nextPow2 (n : Nat) : Nat := if n ≤ 1 then 1 else 2 ^ ((n - 1).log2 + 1)

/-- `usize::checked_next_power_of_two` -/
def checkedNextPow2 (n : Nat) : Option Nat :=
  if nextPow2 n ≤ usizeMax then some (nextPow2 n) else none

/-- `usize::checked_add` -/
def checkedAdd (a b : Nat) : Option Nat :=
  if a + b ≤ usizeMax then some (a + b) else none

/-- `Option::unwrap` -/
def unwrapOpt {α : Type} : Option α → Res α
  | some a => .ok a
  | none => .panic

/-- `Ord::max` on `usize` -/
def ordMax (a b : Nat) : Nat := if a ≤ b then b else a

/-- the two `usize` fields of `RawList` the generated guards read -/
structure RawView where
  len : Nat
  capacity : Nat
  deriving DecidableEq, Repr, Inhabited

/-- which mutex a `lock()` call in a two-list operation goes to -/
inductive LockRef
  | self_
  | other
  deriving DecidableEq, Repr, Inhabited

/-- the statements of `ErasedList::concat`, in source order -/
inductive CStep
  /-- `let g = <r>.0.lock().unwrap()` -/
  | lock (r : LockRef)
  /-- `let new = Self::new(vtable)` -/
  | allocNew
  /-- `let mut raw = new.0.lock().unwrap()` -/
  | lockNew
  /-- `raw.extend(&g)` where `g` is the guard of `r` -/
  | extendFrom (r : LockRef)
  /-- `drop(g)` (or the end of `g`'s scope) -/
  | unlock (r : LockRef)
  /-- `drop(raw)` (or the end of its scope) -/
  | unlockNew
  deriving DecidableEq, Repr, Inhabited

end RotoV.ListM

namespace RotoV
/-- comparisons of `usize` values the translator emits as `ROrd.*` -/
instance : ROrd Nat :=
  ⟨fun a b => .ok (decide (a < b)), fun a b => .ok (decide (a ≤ b)),
   fun a b => .ok (decide (a > b)), fun a b => .ok (decide (a ≥ b))⟩
end RotoV
