/-
  ListBase: the vocabulary the translator targets for `src/value/list.rs`
  (property C15): `usize` arithmetic with explicit overflow, the lock
  references and the step alphabet of `ErasedList::concat`, byte strings and
  `[S]::join` for the `join` binding.

  Core Lean only: linked into the driver executable.
-/
import RotoV.Model.RustStd

namespace RotoV.ListM

/-- `usize::MAX` on the 64-bit targets roto supports. -/
def usizeMax : Nat := 2 ^ 64 - 1

/-- smallest power of two `≥ n` (`usize::next_power_of_two`, unbounded) -/
def nextPow2 (n : Nat) : Nat := if n ≤ 1 then 1 else 2 ^ ((n - 1).log2 + 1)

/-- `usize::checked_next_power_of_two` -/
def checkedNextPow2 (n : Nat) : Option Nat :=
  if nextPow2 n ≤ usizeMax then some (nextPow2 n) else none

/-- `usize::checked_add` -/
def checkedAdd (a b : Nat) : Option Nat :=
  if a + b ≤ usizeMax then some (a + b) else none

/-- `Option::unwrap` -/
def unwrapOpt {α : Type} : Option α → Res α
  | some a => .ok a
  | none => .panic

/-- `Ord::max` on `usize` -/
def ordMax (a b : Nat) : Nat := if a ≤ b then b else a

/-- the two `usize` fields of `RawList` the generated guards read -/
structure RawView where
  len : Nat
  capacity : Nat
  deriving DecidableEq, Repr, Inhabited

/-- which mutex a `lock()` call in a two-list operation goes to -/
inductive LockRef
  | self_
  | other
  deriving DecidableEq, Repr, Inhabited

/-- the statements of `ErasedList::concat`, in source order -/
inductive CStep
  /-- `let g = <r>.0.lock().unwrap()` -/
  | lock (r : LockRef)
  /-- `let new = Self::new(vtable)` -/
  | allocNew
  /-- `let mut raw = new.0.lock().unwrap()` -/
  | lockNew
  /-- `raw.extend(&g)` where `g` is the guard of `r` -/
  | extendFrom (r : LockRef)
  /-- `drop(g)` (or the end of `g`'s scope) -/
  | unlock (r : LockRef)
  /-- `drop(raw)` (or the end of its scope) -/
  | unlockNew
  deriving DecidableEq, Repr, Inhabited

/-! ### strings (the `List[String]` bindings: `join`)

A Rust `String` / `&str` / `RotoString` is its sequence of UTF-8 bytes; the
operations below are the vocabulary the translator target `listjoin` uses for
the body of the `join` binding of `src/runtime/basic.rs`. -/

/-- a Rust string: its UTF-8 bytes -/
abbrev Str := List Nat

/-- `String::new()` / `""` -/
def strNew : Str := []

/-- `String::push_str` / `+=` -/
def strPush (s t : Str) : Str := s ++ t

/-- `str::is_empty` -/
def strIsEmpty (s : Str) : Bool := s.isEmpty

/-- `str::len` (bytes) -/
def strLen (s : Str) : Nat := s.length

/-- the tail of `[S]::join` as std's `join_generic_copy` writes it: for every
    remaining element, the separator followed by the element -/
def sliceJoinRest (sep : Str) : List Str → Str
  | [] => []
  | y :: rest => sep ++ (y ++ sliceJoinRest sep rest)

/-- `[S]::join(&sep)` of Rust's std (`join_generic_copy`): nothing for the
    empty slice; otherwise the first element, then separator + element for
    every further one -/
def sliceJoin : List Str → Str → Str
  | [], _ => []
  | x :: rest, sep => x ++ sliceJoinRest sep rest

/-- `[S]::concat()` -/
def sliceConcat (l : List Str) : Str := l.flatten

/-- the string an element value stands for in a `List[String]`: the harness
    builds the same strings (`<RotoString as Elem>::make`). Small values are
    the boundary strings — empty, a proper prefix of another element, a
    separator character, multi-byte, differing in case only, trailing blank —
    every other value `v` is `"s<v>"`. -/
def elemStr (v : Nat) : Str :=
  match v with
  | 0 => []                        -- ""
  | 1 => [115, 49]                 -- "s1"
  | 2 => [115]                     -- "s"
  | 3 => [195, 169]                -- "é"
  | 4 => [44]                      -- ","
  | 5 => [83, 49]                  -- "S1"
  | 6 => [115, 49, 32]             -- "s1 "
  | 7 => [226, 134, 146, 120]      -- "→x"
  | v => 115 :: (Nat.toDigits 10 v).map Char.toNat

/-! ### element equality (`vtable.eq_fn` / `T: PartialEq`)

Element values are natural numbers. A value below `2^64` is a *plain* value —
an integer, the index of a string in `elemStr`, the id of a tracked value, a
handle of an inner list — and two plain values are equal iff they are the same
number. A value `2^64 + b` is the IEEE-754 binary64 with the bit pattern `b`
(an element of a `List[f64]`): its `==` is not the identity on bit patterns —
`0.0 == -0.0` although the bits differ, and a NaN is not equal to anything,
itself included. This is the equality the element `eq_fn` of a list (and
`PartialEq` of the elements of a `Vec`) computes; comparing the buffers as raw
bytes is a different function. -/

/-- where the floating-point element values start -/
def f64Base : Nat := 2 ^ 64

/-- the bit pattern is a NaN: exponent all ones, mantissa not zero -/
def f64IsNan (b : Nat) : Bool := decide (0x7FF0000000000000 < b % 2 ^ 63)

/-- `+0.0` or `-0.0` -/
def f64IsZero (b : Nat) : Bool := b % 2 ^ 63 == 0

/-- IEEE-754 `==` on binary64 bit patterns -/
def f64Eq (a b : Nat) : Bool :=
  !f64IsNan a && !f64IsNan b && (a == b || (f64IsZero a && f64IsZero b))

/-- `==` on element values -/
def elemEq (x y : Nat) : Bool :=
  if f64Base ≤ x ∧ f64Base ≤ y then f64Eq (x - f64Base) (y - f64Base) else x == y

/-- `==` of two slices / vectors (`[T]: PartialEq`): same length, equal element by element -/
def listEq : List Nat → List Nat → Bool
  | [], [] => true
  | x :: xs, y :: ys => elemEq x y && listEq xs ys
  | _, _ => false

/-- `iter().position(|e| *e == v)`, counting from `i` -/
def firstIdx (v : Nat) : List Nat → Nat → Option Nat
  | [], _ => none
  | x :: xs, i => if elemEq x v then some i else firstIdx v xs (i + 1)

/-- `[T]::contains`: `iter().any(|e| *e == v)` -/
def anyEq (v : Nat) (xs : List Nat) : Bool := xs.any (fun e => elemEq e v)

/-- integer types an `as` cast in a list binding can go from / to -/
inductive CastTy
  | u8 | u16 | u32 | u64 | usize | i8 | i16 | i32 | i64 | isize
  /-- not a parameter (an expression whose type the translator does not track) / any other type -/
  | other
  deriving DecidableEq, Repr, Inhabited

/-- the cast keeps every list length / index (64-bit targets): 64 bits, unsigned -/
def CastTy.keepsIndices : CastTy → Bool
  | .u64 | .usize => true
  | _ => false

end RotoV.ListM

namespace RotoV
/-- comparisons of `usize` values the translator emits as `ROrd.*` -/
instance : ROrd Nat :=
  ⟨fun a b => .ok (decide (a < b)), fun a b => .ok (decide (a ≤ b)),
   fun a b => .ok (decide (a > b)), fun a b => .ok (decide (a ≥ b))⟩
end RotoV
