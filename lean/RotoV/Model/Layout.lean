/-
  Model/Layout — C02: type trees, `Pool::layout_of`, `is_reference_type`
  (generated: `RotoV.Gen.LayoutDecide`), `needs_clone`, and the independently written offset loops of the LIR
  lowerer, each modelled AS WRITTEN on top of the *generated* layout
  arithmetic (`RotoV.Gen.LayoutGen`, regenerated from
  `src/runtime/layout.rs` on every run).

  Rust source of each definition is named in its doc comment.  `unwrap()` on
  `None`, `ice!()` and a missing variant are explicit `Res.panic`; the `?`
  of an uninhabited type is an explicit `none`.

  Core Lean only (linked into the driver).
-/
import RotoV.Model.RustStd
import RotoV.Generated.LayoutGen
import RotoV.Generated.LayoutLoops
import RotoV.Generated.LayoutDecide

namespace RotoV.Layout
open RotoV
open RotoV.Gen.LayoutGen

/-- What the lowerer needs to know about a leaf (`Ty::Primitive`, `Ty::List`,
    `Ty::Runtime`). -/
inductive LeafKind where
  /-- Int / Bool / Char / Asn: by value, `IntCmp` -/
  | int
  /-- f32 / f64: by value, `FloatCmp` -/
  | float
  /-- `String`: by reference, runtime clone / drop / eq -/
  | string
  /-- `IpAddr`, `Prefix`: by reference, bitwise copy, runtime eq -/
  | copyRef
  /-- `List[T]`: by reference, runtime clone (same handle) / drop / eq -/
  | list
  /-- registered `Copy` type -/
  | rtCopy
  /-- registered `Clone` type -/
  | rtClone
  deriving DecidableEq, Repr, Inhabited

mutual
/-- `mir::Ty` with `TyRef`s expanded and field / variant names replaced by
    their positions. A leaf carries the layout the runtime reports for it. -/
inductive Ty where
  | unit
  | never
  | leaf (k : LeafKind) (size align : Nat)
  | record (fs : Tys)
  | enum (vs : Vars)
/-- field types of a record or of one enum variant -/
inductive Tys where
  | nil
  | cons (t : Ty) (ts : Tys)
/-- variants of an enum -/
inductive Vars where
  | nil
  | cons (v : Tys) (vs : Vars)
end

instance : Inhabited Ty := ⟨.unit⟩

def Tys.length : Tys → Nat
  | .nil => 0
  | .cons _ ts => ts.length + 1

def Tys.get? : Tys → Nat → Option Ty
  | .nil, _ => none
  | .cons t _, 0 => some t
  | .cons _ ts, n + 1 => ts.get? n

def Tys.toList : Tys → List Ty
  | .nil => []
  | .cons t ts => t :: ts.toList

def Tys.ofList : List Ty → Tys
  | [] => .nil
  | t :: ts => .cons t (Tys.ofList ts)

def Vars.length : Vars → Nat
  | .nil => 0
  | .cons _ vs => vs.length + 1

def Vars.get? : Vars → Nat → Option Tys
  | .nil, _ => none
  | .cons v _, 0 => some v
  | .cons _ vs, n + 1 => vs.get? n

def Vars.toList : Vars → List Tys
  | .nil => []
  | .cons v vs => v :: vs.toList

def Vars.ofList : List Tys → Vars
  | [] => .nil
  | v :: vs => .cons v (Vars.ofList vs)

/-- `Layout::of::<u8>()` as written in `layout_of`: the enum tag. -/
def tagLayout : Layout := Gen.LayoutLoops.tag_layout_of

/-- `let mut builder = LayoutBuilder::new(); builder.add(&Layout::of::<u8>());`
    — the start of `layout_of`'s per-variant loop. Each of the other four
    loops has its own copy of these two lines, hence its own constant
    (regenerated from its own source on every run). -/
def variantStart : LayoutBuilder := (LayoutBuilder.new.add tagLayout).1
/-- the same two lines in the `VariantField` arm of `Lowerer::location` -/
def variantStartLoc : LayoutBuilder := (LayoutBuilder.new.add Gen.LayoutLoops.tag_location).1
/-- … in `generate_clone_body_enum` -/
def variantStartClone : LayoutBuilder := (LayoutBuilder.new.add Gen.LayoutLoops.tag_clone).1
/-- … in `generate_drop_body_enum` -/
def variantStartDrop : LayoutBuilder := (LayoutBuilder.new.add Gen.LayoutLoops.tag_drop).1
/-- … in `generate_eq_body_enum` -/
def variantStartEq : LayoutBuilder := (LayoutBuilder.new.add Gen.LayoutLoops.tag_eq).1

mutual
/-- `Pool::layout_of` (src/mir/ty.rs). `none` = uninhabited. -/
def layoutOf : Ty → Option Layout
  | .unit => some Gen.LayoutLoops.unit_layout
  | .never => none
  | .leaf _ s a => some (Layout.new s a)
  | .record fs =>
    match buildFields fs LayoutBuilder.new with
    | none => none
    | some b => some b.finish
  | .enum vs => enumLayout vs none
/-- the field loop of `layout_of` (`builder.add(&self.layout_of(t, rt)?)` /
    the `try_fold` of the enum arm) -/
def buildFields : Tys → LayoutBuilder → Option LayoutBuilder
  | .nil, b => some b
  | .cons t ts, b =>
    match layoutOf t with
    | none => none
    | some l => buildFields ts (b.add l).1
/-- the variant loop of `layout_of`'s enum arm; an uninhabited variant is
    skipped (`continue`), the others are `union`ed -/
def enumLayout : Vars → Option Layout → Option Layout
  | .nil, acc => acc
  | .cons v vs, acc =>
    match buildFields v variantStart with
    | none => enumLayout vs acc
    | some b =>
      enumLayout vs (some (match acc with
        | none => b.finish
        | some l => l.union b.finish))
end

/-- what `self.get(ty)` is matched against by the small decision functions:
    the kind of a type tree (`Ty::Runtime(_)` for both sorts of registered
    type) -/
def Ty.kind : Ty → LayoutKind.Kind
  | .unit => .unit
  | .never => .never
  | .record _ => .record
  | .enum _ => .enum
  | .leaf .int _ _ => .int
  | .leaf .float _ _ => .float
  | .leaf .string _ _ => .string
  | .leaf .copyRef _ _ => .copyRef
  | .leaf .list _ _ => .list
  | .leaf .rtCopy _ _ => .runtime
  | .leaf .rtClone _ _ => .runtime

/-- `Pool::is_reference_type` (src/mir/ty.rs): the GENERATED function
    (`RotoV.Gen.LayoutDecide.is_reference_type`, re-translated from the source
    on every run) applied to this type's kind and its `layout_of`.  A
    registered type is a reference type whatever its size; every other
    zero-sized type is not. -/
def isReferenceType (t : Ty) : Option Bool :=
  Gen.LayoutDecide.is_reference_type t.kind (layoutOf t)

mutual
/-- `Lowerer::needs_clone` (clones.rs); `needs_drop` (drops.rs) has the same
    arms and calls `needs_clone` on the components. -/
def needsClone : Ty → Bool
  | .unit => false
  | .never => false
  | .leaf k _ _ => k == .string || k == .list || k == .rtClone
  | .record fs => anyNeedsClone fs
  | .enum vs => anyVarNeedsClone vs
def anyNeedsClone : Tys → Bool
  | .nil => false
  | .cons t ts => needsClone t || anyNeedsClone ts
def anyVarNeedsClone : Vars → Bool
  | .nil => false
  | .cons v vs => anyNeedsClone v || anyVarNeedsClone vs
end

def needsDrop (t : Ty) : Bool := needsClone t

/-! ## The offset loops, as written -/

/-- `Lowerer::get_field` (src/lir/lower.rs): walk the fields, `add` each
    (`layout_of(..).unwrap()`), return at the named one; running off the end
    is `ice!("Field not found")`. -/
def getField : Tys → Nat → LayoutBuilder → Res (Nat × Ty)
  | .nil, _, _ => .panic
  | .cons t ts, n, b =>
    match layoutOf t with
    | none => .panic
    | some l =>
      let r := b.add l
      match n with
      | 0 => .ok (r.2, t)
      | n + 1 => getField ts n r.1

/-- the `for &field_ty in variant.1.iter().take(n + 1)` loop of
    `Lowerer::location`. First component `none`: the `?` fired. -/
def variantFieldLoop : Tys → Nat → LayoutBuilder → Option (Nat × Ty) → Option (Option (Nat × Ty))
  | _, 0, _, last => some last
  | .nil, _ + 1, _, last => some last
  | .cons t ts, k + 1, b, _ =>
    match layoutOf t with
    | none => none
    | some l =>
      let r := b.add l
      variantFieldLoop ts k r.1 (some (r.2, t))

/-- the `VariantField` arm of `Lowerer::location`. `ok none` = uninhabited. -/
def variantField (vs : Vars) (v n : Nat) : Res (Option (Nat × Ty)) :=
  match vs.get? v with
  | none => .panic
  | some fields =>
    match variantFieldLoop fields (n + 1) variantStartLoc none with
    | none => .ok none
    | some none => .panic
    | some (some r) => .ok (some r)

/-- `mir::Projection` with names replaced by positions -/
inductive Proj where
  | field (n : Nat)
  | variantField (v n : Nat)
  deriving DecidableEq, Repr, Inhabited

/-- the projection loop of `Lowerer::location`: accumulated byte offset and
    type of the addressed component -/
def locate : Ty → List Proj → Nat → Res (Option (Nat × Ty))
  | t, [], off => .ok (some (off, t))
  | .record fs, .field n :: ps, off =>
    match getField fs n LayoutBuilder.new with
    | .panic => .panic
    | .ok (o, t) => locate t ps (off + o)
  | .enum vs, .variantField v n :: ps, off =>
    match variantField vs v n with
    | .panic => .panic
    | .ok none => .ok none
    | .ok (some (o, t)) => locate t ps (off + o)
  | _, _ :: _, _ => .panic

/-- one visited component: (field index, byte offset, type) -/
abbrev Visit := Nat × Nat × Ty

/-- `generate_clone_body_record` (clones.rs): an uninhabited field is skipped
    with `continue` *before* `builder.add`. -/
def cloneRecordLoop : Tys → Nat → LayoutBuilder → List Visit
  | .nil, _, _ => []
  | .cons t ts, i, b =>
    match layoutOf t with
    | none => cloneRecordLoop ts (i + 1) b
    | some l =>
      let r := b.add l
      (i, r.2, t) :: cloneRecordLoop ts (i + 1) r.1

/-- `generate_drop_body_record` (drops.rs): `add`, then `continue` unless
    `needs_drop`. -/
def dropRecordLoop : Tys → Nat → LayoutBuilder → List Visit
  | .nil, _, _ => []
  | .cons t ts, i, b =>
    match layoutOf t with
    | none => dropRecordLoop ts (i + 1) b
    | some l =>
      let r := b.add l
      if !needsDrop t then dropRecordLoop ts (i + 1) r.1
      else (i, r.2, t) :: dropRecordLoop ts (i + 1) r.1

/-- `generate_eq_body_record` (eq.rs): an uninhabited field jumps on to the
    next label without `add`. -/
def eqRecordLoop : Tys → Nat → LayoutBuilder → List Visit
  | .nil, _, _ => []
  | .cons t ts, i, b =>
    match layoutOf t with
    | none => eqRecordLoop ts (i + 1) b
    | some l =>
      let r := b.add l
      (i, r.2, t) :: eqRecordLoop ts (i + 1) r.1

/-- `.map(|ty| Some((ty, self.layout_of(*ty)?))).collect::<Option<Vec<_>>>()`
    of the three per-variant loops -/
def collectLayouts : Tys → Option (List (Ty × Layout))
  | .nil => some []
  | .cons t ts =>
    match layoutOf t with
    | none => none
    | some l =>
      match collectLayouts ts with
      | none => none
      | some r => some ((t, l) :: r)

/-- per-variant loop of `generate_clone_body_enum` -/
def cloneVariantLoop : List (Ty × Layout) → Nat → LayoutBuilder → List Visit
  | [], _, _ => []
  | (t, l) :: r, i, b =>
    let x := b.add l
    (i, x.2, t) :: cloneVariantLoop r (i + 1) x.1

/-- per-variant loop of `generate_drop_body_enum` -/
def dropVariantLoop : List (Ty × Layout) → Nat → LayoutBuilder → List Visit
  | [], _, _ => []
  | (t, l) :: r, i, b =>
    let x := b.add l
    (i, x.2, t) :: dropVariantLoop r (i + 1) x.1

/-- per-variant loop of `generate_eq_body_enum` -/
def eqVariantLoop : List (Ty × Layout) → Nat → LayoutBuilder → List Visit
  | [], _, _ => []
  | (t, l) :: r, i, b =>
    let x := b.add l
    (i, x.2, t) :: eqVariantLoop r (i + 1) x.1

def cloneRecordVisits (fs : Tys) : List Visit := cloneRecordLoop fs 0 LayoutBuilder.new
def dropRecordVisits (fs : Tys) : List Visit := dropRecordLoop fs 0 LayoutBuilder.new
def eqRecordVisits (fs : Tys) : List Visit := eqRecordLoop fs 0 LayoutBuilder.new

/-- the components a generated clone function touches in variant `fs`
    (nothing when the variant is uninhabited) -/
def cloneVariantVisits (fs : Tys) : List Visit :=
  match collectLayouts fs with
  | none => []
  | some ls => cloneVariantLoop ls 0 variantStartClone
def dropVariantVisits (fs : Tys) : List Visit :=
  match collectLayouts fs with
  | none => []
  | some ls => dropVariantLoop ls 0 variantStartDrop
def eqVariantVisits (fs : Tys) : List Visit :=
  match collectLayouts fs with
  | none => []
  | some ls => eqVariantLoop ls 0 variantStartEq

/-- `layout_of`'s own placement of the fields of a record (`start = new`) or
    of a variant (`start = variantStart`): the offsets its builder hands out. -/
def placement : Tys → Nat → LayoutBuilder → Option (List Visit)
  | .nil, _, _ => some []
  | .cons t ts, i, b =>
    match layoutOf t with
    | none => none
    | some l =>
      let r := b.add l
      match placement ts (i + 1) r.1 with
      | none => none
      | some vs => some ((i, r.2, t) :: vs)

/-- `Layout::new`'s asserts hold -/
def Layout.wf (l : Layout) : Bool := (Layout.new_asserts l.size l.align).all id

mutual
/-- every leaf of the tree reports a layout that passes `Layout::new`'s
    asserts (true of every Rust type's `std::alloc::Layout`) -/
def leavesWf : Ty → Bool
  | .unit => true
  | .never => true
  | .leaf _ s a => Layout.wf (Layout.new s a)
  | .record fs => leavesWfs fs
  | .enum vs => leavesWfv vs
def leavesWfs : Tys → Bool
  | .nil => true
  | .cons t ts => leavesWf t && leavesWfs ts
def leavesWfv : Vars → Bool
  | .nil => true
  | .cons v vs => leavesWfs v && leavesWfv vs
end

end RotoV.Layout
