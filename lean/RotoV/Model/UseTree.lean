/-
  Use trees (C18): the `use` declarations `library!` accepts and the list of
  paths it turns them into (`flatten_use_tree` in `macros/src/lib.rs`; the
  paths become the `imports` of one `roto::Use` item).

  `UseTree` mirrors `syn::UseTree` (syn 2, five variants).  The function
  itself is NOT written here: it is regenerated from the Rust source on every
  run (`RotoV/Generated/FlattenUse.lean`, translator target `flattenuse`).
  This file holds the datatype, the specification (`paths`: the root-to-leaf
  paths of the tree, left to right) and an independent relational reading of
  "root-to-leaf path" (`Leaf`), so that the theorem of `Props/C18.lean`
  compares what the source says with something that is not a copy of it.

  Conventions: identifiers are abstract (`Nat`); `panic!()` inside the
  proc-macro (a compile error of the embedding crate, never a run-time
  panic) is `none`.

  Core Lean only (linked into the driver).
-/

namespace RotoV.Use

abbrev Name := Nat
abbrev Path := List Name

/-- the identifier spelled `self` (the harness numbers it 0) -/
def selfIdent : Name := 0

mutual
/-- `syn::UseTree` -/
inductive UseTree
  /-- `ident :: tree` -/
  | path (ident : Name) (tree : UseTree)
  /-- `ident` -/
  | name (ident : Name)
  /-- `ident as rename` -/
  | rename (ident : Name) (rename : Name)
  /-- `*` -/
  | glob
  /-- `{ items , … }` -/
  | group (items : UseTrees)
/-- `Punctuated<UseTree, Token![,]>` -/
inductive UseTrees
  | nil
  | cons (t : UseTree) (ts : UseTrees)
end

def UseTrees.ofList : List UseTree → UseTrees
  | [] => .nil
  | t :: ts => .cons t (ofList ts)

def UseTrees.toList : UseTrees → List UseTree
  | .nil => []
  | .cons t ts => t :: toList ts

/-! ## specification -/

mutual
/-- The root-to-leaf paths of a use tree, left to right: what the `use`
    declaration names. A `self` leaf names what the path leading to it names
    (`a::b::{self, c}` names `a::b` and `a::b::c`, as in Rust). (`rename` and
    `*` leaves name nothing that `roto::Use` can express; see `supported`.) -/
def paths : UseTree → List Path
  | .path i t => (paths t).map (fun p => i :: p)
  | .name i => if i = selfIdent then [[]] else [[i]]
  | .rename _ _ => []
  | .glob => []
  | .group ts => pathsAll ts
def pathsAll : UseTrees → List Path
  | .nil => []
  | .cons t ts => paths t ++ pathsAll ts
end

mutual
/-- no `as` and no `*` anywhere in the tree -/
def supported : UseTree → Bool
  | .path _ t => supported t
  | .name _ => true
  | .rename _ _ => false
  | .glob => false
  | .group ts => supportedAll ts
def supportedAll : UseTrees → Bool
  | .nil => true
  | .cons t ts => supported t && supportedAll ts
end

/-- What `library!` must hand to `roto::Use::new` for a `use` declaration:
    every root-to-leaf path once, in source order; a compile error for a tree
    with `as` or `*`. -/
def flattenSpec (t : UseTree) : Option (List Path) :=
  bif supported t then some (paths t) else none

mutual
/-- number of name leaves -/
def leaves : UseTree → Nat
  | .path _ t => leaves t
  | .name _ => 1
  | .rename _ _ => 0
  | .glob => 0
  | .group ts => leavesAll ts
def leavesAll : UseTrees → Nat
  | .nil => 0
  | .cons t ts => leaves t + leavesAll ts
end

mutual
/-- `Leaf t p`: `p` spells the identifiers on a walk from the root of `t` down
    to a name leaf (a group contributes no segment of its own). -/
inductive Leaf : UseTree → Path → Prop
  | name (i : Name) : i ≠ selfIdent → Leaf (.name i) [i]
  | self : Leaf (.name selfIdent) []
  | path (i : Name) (t : UseTree) (p : Path) : Leaf t p → Leaf (.path i t) (i :: p)
  | group (ts : UseTrees) (p : Path) : LeafAny ts p → Leaf (.group ts) p
/-- some member of the group has the leaf -/
inductive LeafAny : UseTrees → Path → Prop
  | here (t : UseTree) (ts : UseTrees) (p : Path) : Leaf t p → LeafAny (.cons t ts) p
  | there (t : UseTree) (ts : UseTrees) (p : Path) : LeafAny ts p → LeafAny (.cons t ts) p
end

mutual
/-- a `self` leaf that no path segment leads to (`use self;`, `use {self, …};`):
    not valid Rust; it names nothing and comes out as the empty path, which
    `declare_import` rejects with a registration error -/
def selfAtRoot : UseTree → Bool
  | .path _ _ => false
  | .name i => decide (i = selfIdent)
  | .rename _ _ => false
  | .glob => false
  | .group ts => selfAtRootAny ts
def selfAtRootAny : UseTrees → Bool
  | .nil => false
  | .cons t ts => selfAtRoot t || selfAtRootAny ts
end

mutual
/-- `flatten_use_tree` as it stood on the pinned tree (before fix 5daff39): a
    `self` leaf is pushed like any other identifier -/
def flattenPinned : UseTree → Option (List Path)
  | .path i t => (flattenPinned t).map (fun ps => ps.map (fun p => i :: p))
  | .name i => some [[i]]
  | .rename _ _ => none
  | .glob => none
  | .group ts => flattenPinnedAll ts
def flattenPinnedAll : UseTrees → Option (List Path)
  | .nil => some []
  | .cons t ts =>
    match flattenPinned t, flattenPinnedAll ts with
    | some a, some b => some (a ++ b)
    | _, _ => none
end

/-! ## the use item the macro emits, seen by `declare_import`

`declare_import` binds, for every path, its last segment in the scope where
the `use` stands, to the item found by walking the other segments as nested
scopes.  `bindings` is that reading of a list of paths: (bound name, scope
path walked). -/

def bindings (ps : List Path) : List (Name × Path) :=
  ps.filterMap (fun p => match p.getLast? with
    | some l => some (l, p.dropLast)
    | none => none)

end RotoV.Use
