/-
  C10 — the vtable a generic built-in receives for a type parameter.

  `List[T]`'s Rust code (`src/value/list.rs`) is type-erased: everything it
  knows about `T` is a `#[repr(C)] struct VTable` (`src/value/vtable.rs`):
  size, align and three callbacks.  For lists created by compiled code
  (`List.new()`, list literals) that struct is not built by Rust but **written
  word by word by the LIR lowerer** (`Lowerer::call_runtime`,
  `src/lir/lower.rs`): Rust's type system does not protect it.  A field of
  type `Option<fn>` may hold 0 (= `None`, the null-pointer niche); a field of
  type `fn` must never hold 0, and list.rs calls it without a test — a 0 there
  is a jump to address 0 inside a built-in (SIGSEGV of the host).

  This file is the vocabulary for the three generated facts
  (`Generated/C10VTable.lean`):
   * `vtableFields` — the fields of `struct VTable`, in declaration order, with
     their kind (data word / `Option<fn>` / bare `fn`);
   * `lowerWrites`  — the words `call_runtime` writes, in order: what it writes
     and, for a callback, under which condition a function address (else 0);
   * `listUses`     — every use of a callback field in list.rs: called
     directly, or only under a `Some(f)` pattern;
  and the model of what a list operation does with a callback slot.
  Core Lean only (no Mathlib).
-/
namespace RotoV.VTableFill

/-- the callbacks of a vtable -/
inductive Callback where
  | clone | drop | eq
  deriving DecidableEq, Repr

/-- kind of a field of `struct VTable` -/
inductive FieldKind where
  /-- `usize` -/
  | data
  /-- `Option<unsafe extern "C" fn(..)>`: 0 is `None` -/
  | optFn
  /-- `unsafe extern "C" fn(..)`: 0 is not a value of this type -/
  | bareFn
  deriving DecidableEq, Repr

inductive FieldId where
  | size | align
  | cb (c : Callback)
  deriving DecidableEq, Repr

/-- what the lowerer knows about the element type when it builds the vtable -/
structure ElemTy where
  /-- `lower_type(ty)` is `Some`: values take up space (not `()`, not a record of `()`s …) -/
  sized : Bool
  /-- `needs_clone(ty)`: a bitwise copy is not a clone (strings, lists, …) -/
  needsClone : Bool
  /-- `needs_drop(ty)` -/
  needsDrop : Bool
  deriving DecidableEq, Repr

def ElemTy.all : List ElemTy :=
  [⟨false, false, false⟩, ⟨false, false, true⟩, ⟨false, true, false⟩, ⟨false, true, true⟩,
   ⟨true, false, false⟩, ⟨true, false, true⟩, ⟨true, true, false⟩, ⟨true, true, true⟩]

theorem ElemTy.mem_all (τ : ElemTy) : τ ∈ ElemTy.all := by
  rcases τ with ⟨a, b, c⟩
  cases a <;> cases b <;> cases c <;> simp [ElemTy.all]

/-- the condition under which the lowerer stores a function address (otherwise 0) -/
inductive Fill where
  /-- unconditional -/
  | always
  /-- `if self.needs_clone(ty_ref)` -/
  | needsClone
  /-- `if self.needs_drop(ty_ref)` -/
  | needsDrop
  /-- `if self.lower_type(ty_ref).is_some()` (and its spellings): only for types with an IR type -/
  | sized
  /-- any other condition: nothing is known, the slot may be 0 for every type -/
  | other
  deriving DecidableEq, Repr

/-- does the lowerer store a function address for element type `τ`?  (`other`: not known to) -/
def Fill.holds (τ : ElemTy) : Fill → Bool
  | .always => true
  | .needsClone => τ.needsClone
  | .needsDrop => τ.needsDrop
  | .sized => τ.sized
  | .other => false

inductive Width where
  | usize | ptr
  deriving DecidableEq, Repr

def FieldKind.width : FieldKind → Width
  | .data => .usize
  | _ => .ptr

/-- one word written by `call_runtime` -/
inductive Src where
  /-- `ty_layout.size()` -/
  | tySize
  /-- `ty_layout.align()` -/
  | tyAlign
  /-- the address of `::generated::<gen>_<type id>` when `fill` holds, else 0;
      `queued`: the family whose to-generate queue the type is pushed on in the same branch -/
  | fn (gen : Callback) (fill : Fill) (queued : Option Callback)
  deriving DecidableEq, Repr

/-- how list.rs uses a callback field at one site -/
inductive UseKind where
  /-- `(x.vtable.f)(..)` or `let f = x.vtable.f; … f(..)`: called whatever the word is -/
  | direct
  /-- `match x.vtable.f { Some(f) => …, None => … }`, `if let Some(f) = …`, `let Some(f) = … else`:
      called only when the word is not 0 -/
  | guarded
  deriving DecidableEq, Repr

/-- a slot as the lowerer leaves it -/
inductive Word where
  | null
  | fnAddr (gen : Callback)
  | num
  deriving DecidableEq, Repr

def Src.word (τ : ElemTy) : Src → Word
  | .tySize | .tyAlign => .num
  | .fn g fill _ => if fill.holds τ then .fnAddr g else .null

/-- The vtable the lowerer builds for `τ`: `#[repr(C)]` lays fields out in declaration
    order and the lowerer's `LayoutBuilder` adds the words in write order, so field `k`
    holds write `k`. -/
def lowered (fields : List (FieldId × FieldKind)) (writes : List (Width × Src)) (τ : ElemTy) :
    List (FieldId × FieldKind × Word) :=
  (fields.zip writes).map fun ((id, k), (_, s)) => (id, k, s.word τ)

def slot (vt : List (FieldId × FieldKind × Word)) (c : Callback) : Option Word :=
  (vt.find? (fun e => e.1 == .cb c)).map (·.2.2)

/-- what happens when a list operation reaches a use of callback `c` -/
inductive Outcome where
  /-- the callback runs -/
  | calls (gen : Callback)
  /-- the `None` path: bitwise copy instead of clone, nothing instead of drop -/
  | fallback
  /-- a call through a null function pointer: the host process dies (SIGSEGV) -/
  | segv
  /-- no such field -/
  | missing
  deriving DecidableEq, Repr

def useOutcome (vt : List (FieldId × FieldKind × Word)) (c : Callback) (k : UseKind) : Outcome :=
  match slot vt c, k with
  | none, _ => .missing
  | some (.fnAddr g), _ => .calls g
  | some .null, .direct => .segv
  | some .null, .guarded => .fallback
  | some .num, _ => .segv

/-- is the callback semantically required for `τ`? (`eq` always: every comparison asks it) -/
def needed (τ : ElemTy) : Callback → Bool
  | .clone => τ.needsClone
  | .drop => τ.needsDrop
  | .eq => true

/-- layout agreement between the struct and the lowerer's writes -/
def layoutAgrees (reprC : Bool) (fields : List (FieldId × FieldKind)) (writes : List (Width × Src)) : Bool :=
  reprC && fields.length == writes.length &&
  (fields.zip writes).all fun ((id, k), (w, s)) =>
    k.width == w &&
    match id, s with
    | .size, .tySize => true
    | .align, .tyAlign => true
    | .cb c, .fn g _ q => c == g && q == some g && k != .data
    | _, _ => false

/-- every callback has exactly one field -/
def fieldsComplete (fields : List (FieldId × FieldKind)) : Bool :=
  [Callback.clone, .drop, .eq].all fun c => (fields.filter (fun f => f.1 == .cb c)).length == 1

/-- the decision the theorems are about, for one element type: no use of a callback in
    list.rs jumps to 0, every callback that runs is the one of its own family, a fallback
    is taken only for a type that does not need the callback, a bare `fn` field never holds 0,
    and an `Option<fn>` field is never called unguarded. -/
def safeFor (fields : List (FieldId × FieldKind)) (writes : List (Width × Src))
    (uses : List (Callback × UseKind)) (τ : ElemTy) : Bool :=
  let vt := lowered fields writes τ
  (uses.all fun (c, k) =>
    match useOutcome vt c k with
    | .calls g => g == c
    | .fallback => !needed τ c
    | .segv => false
    | .missing => false) &&
  (vt.all fun (_, k, w) => k != .bareFn || w != .null) &&
  (uses.all fun (c, k) => k == .guarded || (fields.find? (fun f => f.1 == .cb c)).map (·.2) == some .bareFn)

/-! ### the operations at callback granularity (what the harness's oracle asks)

A list operation on a list of `n` elements reaches its callback uses this many
times; with a null slot the first direct use kills the process. -/

/-- number of `eq_fn` calls `contains` / `index` make on `l` looking for `x`
    (elements as codes: equal iff same code) -/
def eqCallsFind (l : List Nat) (x : Nat) : Nat :=
  match l.idxOf? x with
  | some i => i + 1
  | none => l.length

/-- number of `eq_fn` calls of `a == b` -/
def eqCallsEq : List Nat → List Nat → Nat
  | a, b =>
    if a.length != b.length then 0
    else
      let rec go : List Nat → List Nat → Nat
        | x :: xs, y :: ys => if x == y then 1 + go xs ys else 1
        | _, _ => 0
      go a b

end RotoV.VTableFill
