/-
  Parse: hand-written executable model of roto's recursive-descent parser
  (`src/parser/mod.rs`, `expr.rs`, `filter_map.rs`) on top of `Model/ParseBase`
  (state, helper methods) and the proved lexer model, property C06.

  One Lean function per Rust method, same order of sub-parsers, `take`s,
  `peek`s and span-table entries (`spans.add`, in the order the code makes
  them: the differential run compares the whole table). Loops are recursive
  functions; every function of a recursion cycle takes FUEL and every call
  passes `fuel - 1`, so fuel bounds the depth of the call tree (loop iterations
  included). Results: `PR.ok` tree, `PR.err` (a `ParseError`), `PR.panic` (an
  `unwrap` on `None`/`Err`, an index out of range, `unreachable!()`), `PR.fuel`.

  Decision tables (`can_start_expression`, the tokens that start a path in
  `atom`, `path_item`'s accepted tokens, the literal kinds, `peek_binop`,
  `peek_many`'s stop tokens and `atom`'s record windows) are read from
  `Generated/ParseFacts.lean` / `Generated/Precedence.lean`, regenerated from
  the source on every run; the operator relation is
  `Gen.Precedence.relative_associativity` (the one C09's Pratt model uses).
  The order of the `if` chains and the call skeleton of every method are
  pinned against the generated skeletons in `Props/C06Parse.lean`.

  Core Lean only (no Mathlib): linked into the driver executable.
-/
import RotoV.Model.ParseBase
import RotoV.Model.Pratt
import RotoV.Generated.Precedence
import RotoV.Generated.ParseFacts

namespace RotoV.Parse
open RotoV RotoV.Lex

/-- the name the generated tables use for a token -/
def tokName : TokKind → String
  | .ident => "Ident"
  | .punct n => n
  | .keyword n => "Keyword(" ++ n ++ ")"
  | .bool _ => "Bool"
  | .string => "String"
  | .char => "Char"
  | .integer _ => "Integer"
  | .float _ => "Float"
  | .hex => "Hex"
  | .asn => "Asn"
  | .ipv4 => "IpV4"
  | .ipv6 => "IpV6"
  | .fStringStart => "FStringStart"

abbrev pu (n : String) : TokKind := .punct n
abbrev kw (n : String) : TokKind := .keyword n

/-- membership of a token in a generated table of token names -/
def inTable (tbl : List String) (k : TokKind) : Bool := tbl.contains (tokName k)

/-- `Parser::can_start_expression` -/
def canStart (k : TokKind) : Bool := inTable Gen.ParseFacts.canStartExpression k

/-- `Parser::peek_binop` (table generated for C09) -/
def peekBinop (k : TokKind) : Option BinOp :=
  match k with
  | .punct n => (Gen.Precedence.peekBinopTable.find? (fun e => e.1 == n)).map (·.2)
  | _ => none

/-- the stop tokens of `Lexer::peek_many` -/
def stops : List TokKind :=
  (if Gen.ParseFacts.peekManyStops.contains "FStringStart" then [TokKind.fStringStart] else [])

/-- does the queue start with this window of `atom` (`matches!(self.peek_many::<N>(), Some([…]))`)? -/
def windowMatches (w : List String) (toks : List TokKind) : Bool := toks.map tokName == w

/-- `is_anonymous_record` of `atom`: the windows in order, `||` short-circuits -/
def isRecord (c : Ctx) : List (List String) → PState → PR Bool
  | [], s => .ok false s
  | w :: ws, s =>
    (peekMany c stops w.length s).bind fun r s =>
      match r with
      | some toks => if windowMatches w toks then .ok true s else isRecord c ws s
      | none => isRecord c ws s

def sx (tag : String) (kids : List Sx) : Sx := .n tag kids
def num (n : Nat) : Sx := .a (toString n)

/-! ## paths (`path_item`, `path`, `path_expr`, `path_list`) -/

/-- `Parser::path_item` -/
def pathItem (c : Ctx) (s : PState) : PR Node :=
  (pnext c s).bind fun r s =>
    if inTable Gen.ParseFacts.pathItemArms r.1 then addNode r.2 (.a "I") s .ok
    else fail .expected r.2 s

/-- the `while self.next_is(Token::Period)` loop of `path` (`ids` reversed) -/
def pathLoop (c : Ctx) : Nat → List Node → PState → PR (List Node)
  | 0, _, _ => .fuel
  | n + 1, ids, s =>
    (nextIs c (pu "Period") s).bind fun b s =>
      if b then (pathItem c s).bind fun x s => pathLoop c n (x :: ids) s
      else .ok ids s

/-- `merge_spans(idents.first().unwrap(), idents.last().unwrap())` + `add_span` -/
def closePath (ids : List Node) (s : PState) : PR Node :=
  match ids.getLast?, ids.head? with
  | some f, some l => mergeSpans f.id l.id s fun sp s => addNode sp (sx "Path" [num ids.length]) s .ok
  | _, _ => .panic

/-- `Parser::path` -/
def path (c : Ctx) (n : Nat) (s : PState) : PR Node :=
  (pathItem c s).bind fun x s => (pathLoop c n [x] s).bind fun ids s => closePath ids s

mutual
/-- `Parser::path_expr`: the lengths of the paths it returns -/
def pathExpr (c : Ctx) : Nat → PState → PR (List Nat)
  | 0, _ => .fuel
  | n + 1, s => pathExprLoop c n [] s

/-- the `loop` of `path_expr` (`root` reversed) -/
def pathExprLoop (c : Ctx) : Nat → List Node → PState → PR (List Nat)
  | 0, _, _ => .fuel
  | n + 1, root, s =>
    (peekIs c (pu "CurlyLeft") s).bind fun b s =>
      if b then (pathList c n s).bind fun subs s => .ok (subs.map (· + root.length)) s
      else
        (pathItem c s).bind fun x s =>
          (nextIs c (pu "Period") s).bind fun b s =>
            if b then pathExprLoop c n (x :: root) s
            else (closePath (x :: root) s).bind fun _ s => .ok [root.length + 1] s

/-- `Parser::path_list` -/
def pathList (c : Ctx) : Nat → PState → PR (List Nat)
  | 0, _ => .fuel
  | n + 1, s =>
    (take c (pu "CurlyLeft") s).bind fun _ s =>
      (pathListLoop c n [] s).bind fun ps s => (take c (pu "CurlyRight") s).bind fun _ s => .ok ps s

def pathListLoop (c : Ctx) : Nat → List Nat → PState → PR (List Nat)
  | 0, _, _ => .fuel
  | n + 1, acc, s =>
    (pathExpr c n s).bind fun ps s =>
      (nextIs c (pu "Comma") s).bind fun b s =>
        if b then pathListLoop c n (acc ++ ps) s else .ok (acc ++ ps) s
end

/-- `Parser::import` -/
def importStmt (c : Ctx) (n : Nat) (s : PState) : PR (List Sx) :=
  (take c (kw "Import") s).bind fun _ s =>
    (pathExpr c n s).bind fun ps s =>
      (take c (pu "SemiColon") s).bind fun _ s => .ok (ps.map fun k => sx "Path" [num k]) s

/-! ## literals -/

/-- decode a literal token through the oracle: an error, or the `Meta<Literal>`.
`unescape_str(trimmed, span)` with `span.start = token.start + 1` reports
`span.start + range.start .. span.start + range.end` for the first fatal escape
error; `unescape_char` reports the whole `token.start + 1 .. token.end`; every
other decoding error (`ParseError::invalid_literal(…, span)`) cites the token. -/
def decodeLit (c : Ctx) (k : TokKind) (sp : Span) (s : PState) : PR Node :=
  match c.lit false sp.1 sp.2 with
  | some (ek, _, a, b) =>
    fail ek (match k with
      | .string => (sp.1 + 1 + a, sp.1 + 1 + b)
      | .char => (sp.1 + 1, sp.2)
      | _ => sp) s
  | none => addNode sp (sx "Lit" []) s .ok

/-- `Parser::ip_address` -/
def ipAddress (c : Ctx) (s : PState) : PR Node :=
  (pnext c s).bind fun r s =>
    if inTable Gen.ParseFacts.ipAddressArms r.1 then decodeLit c r.1 r.2 s else fail .expected r.2 s

/-- the slices `simple_literal` takes of the token text `s` before it decodes
it: `&s[1..s.len() - 1]` (string and character literals: the quotes are cut
off), `&s[2..]` (`0x…`, `AS…`). Off a character boundary, out of range or with
`s.len() = 0` they panic. -/
def litSlices (k : TokKind) (t : List Char) : Res Unit :=
  match k with
  | .string | .char =>
    match usub (blen t) 1 with
    | .panic => .panic
    | .ok e =>
      match slice t 1 e with
      | .ok _ => .ok ()
      | .panic => .panic
  | .hex | .asn =>
    match sliceFrom t 2 with
    | .ok _ => .ok ()
    | .panic => .panic
  | _ => .ok ()

/-- `Parser::simple_literal` (`Bool` needs no decoding) -/
def simpleLiteral (c : Ctx) (s : PState) : PR Node :=
  (pnext c s).bind fun r s =>
    if inTable Gen.ParseFacts.simpleLiteralArms r.1 then
      match litSlices r.1 (textOf c.src r.2) with
      | .panic => .panic
      | .ok _ =>
        match r.1 with
        | .bool _ => addNode r.2 (sx "Lit" []) s .ok
        | _ => decodeLit c r.1 r.2 s
    else fail .expected r.2 s

/-- `Parser::literal` -/
def literal (c : Ctx) (s : PState) : PR Node :=
  (ppeek c s).bind fun k s =>
    match k with
    | some t => if inTable Gen.ParseFacts.literalIpStarts t then ipAddress c s else simpleLiteral c s
    | none => simpleLiteral c s

/-! ## types -/

mutual
/-- `Parser::type_expr` -/
def typeExpr (c : Ctx) : Nat → PState → PR Node
  | 0, _ => .fuel
  | n + 1, s => (typeAtom c n s).bind fun t s => typeLoop c n t s

/-- the `while self.peek_is(Token::QuestionMark)` loop: `take(..).unwrap()` -/
def typeLoop (c : Ctx) : Nat → Node → PState → PR Node
  | 0, _, _ => .fuel
  | n + 1, t, s =>
    (peekIs c (pu "QuestionMark") s).bind fun b s =>
      if b then
        getSpan t.id s fun sp s =>
          match take c (pu "QuestionMark") s with
          | .ok sp2 s => addNode (mergeSp sp sp2) (sx "TOption" [t.sx]) s fun t s => typeLoop c n t s
          | .err _ _ => .panic
          | .panic => .panic
          | .fuel => .fuel
      else .ok t s

/-- `Parser::type_expr_atom` -/
def typeAtom (c : Ctx) : Nat → PState → PR Node
  | 0, _ => .fuel
  | n + 1, s =>
    (peekIs c (pu "Bang") s).bind fun b s =>
      if b then (take c (pu "Bang") s).bind fun sp s => addNode sp (sx "TNever" []) s .ok
      else
        (peekIs c (pu "RoundLeft") s).bind fun b s =>
          if b then
            (take c (pu "RoundLeft") s).bind fun l s =>
              (take c (pu "RoundRight") s).bind fun r s => addNode (mergeSp l r) (sx "TUnit" []) s .ok
          else
            (peekIs c (pu "CurlyLeft") s).bind fun b s =>
              if b then
                (recordType c n s).bind fun rt s =>
                  getSpan rt.id s fun sp s => addNode sp (sx "TRecord" rt.sx.kids) s .ok
              else
                (path c n s).bind fun p s =>
                  getSpan p.id s fun psp s =>
                    (peekIs c (pu "SquareLeft") s).bind fun b s =>
                      if b then
                        (separated c (typeExpr c n) (pu "SquareLeft") (pu "SquareRight") (pu "Comma") n s).bind
                          fun params s =>
                            getSpan params.id s fun sp2 s =>
                              addNode (mergeSp psp sp2) (sx "TPath" [p.sx, sx "Args" params.sx.kids]) s .ok
                      else addNode psp (sx "TPath" [p.sx]) s .ok

/-- `Parser::record_type`: the `Meta` of its field list -/
def recordType (c : Ctx) : Nat → PState → PR Node
  | 0, _ => .fuel
  | n + 1, s => separated c (recordField c n) (pu "CurlyLeft") (pu "CurlyRight") (pu "Comma") n s

/-- `Parser::record_field` / `type_ident_field`: `Identifier ':' TypeExpr` -/
def recordField (c : Ctx) : Nat → PState → PR Node
  | 0, _ => .fuel
  | n + 1, s =>
    (identifier c s).bind fun _ s => (take c (pu "Colon") s).bind fun _ s => typeExpr c n s
end

/-- `Parser::params` -/
def params (c : Ctx) (n : Nat) (s : PState) : PR Node :=
  (separated c (recordField c n) (pu "RoundLeft") (pu "RoundRight") (pu "Comma") n s).bind fun m s =>
    .ok ⟨m.id, sx "Params" m.sx.kids⟩ s

/-- `Parser::type_parameters`: how many -/
def typeParameters (c : Ctx) (n : Nat) (s : PState) : PR Nat :=
  (peekIs c (pu "SquareLeft") s).bind fun b s =>
    if b then
      (separated c (identifier c) (pu "SquareLeft") (pu "SquareRight") (pu "Comma") n s).bind fun m s =>
        .ok m.sx.kids.length s
    else .ok 0 s

/-! ## expressions and blocks -/

/-- is the expression `Expr::Path(path)`? -/
def asPath : Sx → Option Sx
  | .n "PathE" [p] => some p
  | _ => none

/-- `Block { imports, stmts, last }` -/
def blockSx (imps stmts : List Sx) (last : Option Sx) : Sx :=
  sx "Block" (sx "Imports" imps.reverse :: stmts.reverse ++ (match last with | some e => [sx "Last" [e]] | none => []))

/-- where the scan of `unescape_f_string_part` stands -/
inductive UMode where
  /-- at the top of the `while let Some((i, c)) = chars.next()` loop -/
  | normal
  /-- just read `\`: the next character is consumed whatever it is -/
  | esc
  /-- inside `\u{…`, consuming up to and including the `}` -/
  | uni
  deriving DecidableEq, Repr

/-- the scan of `unescape_f_string_part` over `s.char_indices().peekable()`: `i`
is the byte index of the head of the list, `ps` is `piece_start`. The result is
the list of ranges `piece_start..i` it cuts out of `s` (at every `{{` / `}}`,
after which `piece_start = i + 2`) and the final `piece_start`. -/
def uScan : UMode → Nat → Nat → List Char → List (Nat × Nat) → List (Nat × Nat) × Nat
  | _, _, ps, [], acc => (acc.reverse, ps)
  | .normal, i, ps, c :: cs, acc =>
    if c = '\\' then uScan .esc (i + sz c) ps cs acc
    else if c = '{' ∨ c = '}' then
      match cs with
      | d :: ds =>
        if d = c then uScan .normal (i + sz c + sz d) (i + 2) ds ((ps, i) :: acc)
        else uScan .normal (i + sz c) ps (d :: ds) acc
      | [] => (acc.reverse, ps)
    else uScan .normal (i + sz c) ps cs acc
  | .esc, i, ps, c :: cs, acc =>
    if c = 'u' then
      match cs with
      | d :: ds => if d = '{' then uScan .uni (i + sz c + sz d) ps ds acc else uScan .normal (i + sz c) ps (d :: ds) acc
      | [] => (acc.reverse, ps)
    else uScan .normal (i + sz c) ps cs acc
  | .uni, i, ps, c :: cs, acc =>
    if c = '}' then uScan .normal (i + sz c) ps cs acc else uScan .uni (i + sz c) ps cs acc

/-- `&s[a..b]` for every range of the list -/
def sliceAll (t : List Char) : List (Nat × Nat) → Res Unit
  | [] => .ok ()
  | r :: rs =>
    match slice t r.1 r.2 with
    | .panic => .panic
    | .ok _ => sliceAll t rs

/-- the slices `unescape_f_string_part(s, …)` takes of `s`: `&s[piece_start..i]`
at every doubled brace and `&s[piece_start..]` at the end (each piece is then
decoded by `unescape_str`: the oracle; an error in one piece returns before the
later slices are taken, so checking all of them over-approximates the panics) -/
def fPieces (t : List Char) : Res Unit :=
  match sliceAll t (uScan .normal 0 0 t []).1 with
  | .panic => .panic
  | .ok _ =>
    match sliceFrom t (uScan .normal 0 0 t []).2 with
    | .panic => .panic
    | .ok _ => .ok ()

/-- the pieces of an f-string text `unescape_f_string_part` decodes one by one:
the ranges between doubled braces, then `piece_start..` -/
def pieces (t : List Char) : List Span :=
  (uScan .normal 0 0 t []).1 ++ [((uScan .normal 0 0 t []).2, blen t)]

/-- piece `j` (the oracle names the piece whose decoding failed) -/
def pieceOf (t : List Char) (j : Nat) : Span := (pieces t).getD j (0, blen t)

/-- a non-empty text part of an f-string: `unescape_f_string_part` (its slices,
then the oracle; an escape error in piece `j` is reported at
`span.start + piece_start + range`), then `spans.add(span, FStringPart::String(s))` -/
def fText (c : Ctx) (sp : Span) (parts : List Sx) (s : PState) : PR (List Sx) :=
  if sp.1 < sp.2 then
    match fPieces (textOf c.src sp) with
    | .panic => .panic
    | .ok _ =>
      match c.lit true sp.1 sp.2 with
      | some (k, j, a, b) =>
        fail k (sp.1 + (pieceOf (textOf c.src sp) j).1 + a, sp.1 + (pieceOf (textOf c.src sp) j).1 + b) s
      | none => addNode sp (sx "S" []) s fun p s => .ok (p.sx :: parts) s
  else .ok parts s

def opName (o : BinOp) : String := Pratt.BinOp.name o

mutual
/-- `Parser::block` -/
def block (c : Ctx) : Nat → PState → PR Node
  | 0, _ => .fuel
  | n + 1, s => (take c (pu "CurlyLeft") s).bind fun start s => blockLoop c n start [] [] s

/-- the `loop` of `block` (`imps`, `stmts` reversed) -/
def blockLoop (c : Ctx) : Nat → Span → List Sx → List Sx → PState → PR Node
  | 0, _, _, _, _ => .fuel
  | n + 1, start, imps, stmts, s =>
    (peekIs c (pu "CurlyRight") s).bind fun b s =>
      if b then
        (take c (pu "CurlyRight") s).bind fun e s => addNode (mergeSp start e) (blockSx imps stmts none) s .ok
      else
        (peekIs c (kw "Import") s).bind fun b s =>
          if b then (importStmt c n s).bind fun ps s => blockLoop c n start (ps.reverse ++ imps) stmts s
          else
            (peekIs c (kw "Let") s).bind fun b s =>
              if b then
                (take c (kw "Let") s).bind fun st s =>
                  (identifier c s).bind fun _ s =>
                    (peekIs c (pu "Colon") s).bind fun b s =>
                      (if b then
                        (take c (pu "Colon") s).bind fun _ s => (typeExpr c n s).bind fun t s => .ok [t.sx] s
                      else .ok [] s).bind fun ty s =>
                        (take c (pu "Eq") s).bind fun _ s =>
                          (assignExpr c n false s).bind fun e s =>
                            (take c (pu "SemiColon") s).bind fun en s =>
                              addNode (mergeSp st en) (sx "Let" (ty ++ [e.sx])) s fun st s =>
                                blockLoop c n start imps (st.sx :: stmts) s
              else
                (peekIs c (kw "If") s).bind fun b s =>
                  if b then (ifElse c n s).bind fun e s => blockKw c n start imps stmts e s
                  else
                    (peekIs c (kw "Match") s).bind fun b s =>
                      if b then (matchExpr c n s).bind fun e s => blockKw c n start imps stmts e s
                      else
                        (peekIs c (kw "While") s).bind fun b s =>
                          if b then (whileExpr c n s).bind fun e s => blockKw c n start imps stmts e s
                          else
                            (peekIs c (kw "For") s).bind fun b s =>
                              if b then (forExpr c n s).bind fun e s => blockKw c n start imps stmts e s
                              else
                                (assignExpr c n false s).bind fun e s =>
                                  (nextIs c (pu "SemiColon") s).bind fun b s =>
                                    if b then blockLoop c n start imps (sx "Expr" [e.sx] :: stmts) s
                                    else
                                      (take c (pu "CurlyRight") s).bind fun en s =>
                                        addNode (mergeSp start en) (blockSx imps stmts (some e.sx)) s .ok

/-- after an `if` / `match` / `while` / `for` statement: it is the last
expression when `}` follows, otherwise a statement with an optional `;` -/
def blockKw (c : Ctx) : Nat → Span → List Sx → List Sx → Node → PState → PR Node
  | 0, _, _, _, _, _ => .fuel
  | n + 1, start, imps, stmts, e, s =>
    (peekIs c (pu "CurlyRight") s).bind fun b s =>
      if b then
        (take c (pu "CurlyRight") s).bind fun en s =>
          addNode (mergeSp start en) (blockSx imps stmts (some e.sx)) s .ok
      else
        (nextIs c (pu "SemiColon") s).bind fun _ s => blockLoop c n start imps (sx "Expr" [e.sx] :: stmts) s

/-- `Parser::assign_expr` (= `expr` with `forbid_records = false`,
`expr_no_records` with `true`) -/
def assignExpr (c : Ctx) : Nat → Bool → PState → PR Node
  | 0, _, _ => .fuel
  | n + 1, r, s =>
    (binopExpr c n none r s).bind fun left s =>
      (nextIs c (pu "Eq") s).bind fun b s =>
        if b then
          match asPath left.sx with
          | none => getSpan left.id s fun sp s => fail .custom sp s
          | some p =>
            (binopExpr c n none r s).bind fun right s =>
              mergeSpans left.id right.id s fun sp s => addNode sp (sx "Assign" [p, right.sx]) s .ok
        else
          (nextIs c (pu "PlusEq") s).bind fun b s =>
            if b then compoundAssign c n left "Add" r s
            else
              (nextIs c (pu "MinusEq") s).bind fun b s =>
                if b then compoundAssign c n left "Sub" r s
                else
                  (nextIs c (pu "StarEq") s).bind fun b s =>
                    if b then compoundAssign c n left "Mul" r s
                    else
                      (nextIs c (pu "SlashEq") s).bind fun b s =>
                        if b then compoundAssign c n left "Div" r s
                        else
                          (nextIs c (pu "PercentEq") s).bind fun b s =>
                            if b then compoundAssign c n left "Mod" r s else .ok left s

/-- `Parser::compound_assign_expr` -/
def compoundAssign (c : Ctx) : Nat → Node → String → Bool → PState → PR Node
  | 0, _, _, _, _ => .fuel
  | n + 1, left, op, r, s =>
    (binopExpr c n none r s).bind fun right s =>
      mergeSpans left.id right.id s fun sp s =>
        match asPath left.sx with
        | none => getSpan left.id s fun lsp s => fail .custom lsp s
        | some p =>
          addNode sp (.a "binop") s fun _ s =>
            addNode sp (sx "CompoundAssign" [.a op, p, right.sx]) s .ok

/-- `Parser::binop_expr` -/
def binopExpr (c : Ctx) : Nat → Option BinOp → Bool → PState → PR Node
  | 0, _, _, _ => .fuel
  | n + 1, prev, r, s => (negation c n r s).bind fun lhs s => binopLoop c n prev r lhs s

/-- the `while let Some(operator) = self.peek_binop()` loop -/
def binopLoop (c : Ctx) : Nat → Option BinOp → Bool → Node → PState → PR Node
  | 0, _, _, _, _ => .fuel
  | n + 1, prev, r, lhs, s =>
    (ppeek c s).bind fun k s =>
      match k.bind peekBinop with
      | none => .ok lhs s
      | some op =>
        let go : PState → PR Node := fun s =>
          (pnext c s).bind fun _ s =>
            (binopExpr c n (some op) r s).bind fun rhs s =>
              mergeSpans lhs.id rhs.id s fun sp s =>
                addNode sp (sx "BinOp" [.a (opName op), lhs.sx, rhs.sx]) s fun lhs s =>
                  binopLoop c n prev r lhs s
        match prev with
        | none => go s
        | some p =>
          match Gen.Precedence.relative_associativity true p op with
          | .ok .Right => go s
          | .ok .Left => .ok lhs s
          | .ok .Not => (pnext c s).bind fun t s => fail .custom t.2 s
          | .panic => .panic

/-- `Parser::negation` -/
def negation (c : Ctx) : Nat → Bool → PState → PR Node
  | 0, _, _ => .fuel
  | n + 1, r, s =>
    (peekIs c (pu "Bang") s).bind fun b s =>
      if b then
        (take c (pu "Bang") s).bind fun sp s =>
          (negation c n r s).bind fun e s =>
            getSpan e.id s fun esp s => addNode (mergeSp sp esp) (sx "Not" [e.sx]) s .ok
      else
        (peekIs c (pu "Hyphen") s).bind fun b s =>
          if b then
            (take c (pu "Hyphen") s).bind fun sp s =>
              (negation c n r s).bind fun e s =>
                getSpan e.id s fun esp s => addNode (mergeSp sp esp) (sx "Negate" [e.sx]) s .ok
          else access c n r s

/-- `Parser::access` -/
def access (c : Ctx) : Nat → Bool → PState → PR Node
  | 0, _, _ => .fuel
  | n + 1, r, s => (atom c n r s).bind fun e s => accessLoop c n e s

/-- the `loop` of `access` -/
def accessLoop (c : Ctx) : Nat → Node → PState → PR Node
  | 0, _, _ => .fuel
  | n + 1, e, s =>
    (peekIs c (pu "QuestionMark") s).bind fun b s =>
      if b then
        (take c (pu "QuestionMark") s).bind fun sp s =>
          getSpan e.id s fun esp s =>
            addNode (mergeSp sp esp) (sx "QuestionMark" [e.sx]) s fun e s => accessLoop c n e s
      else
        (peekIs c (pu "RoundLeft") s).bind fun b s =>
          if b then
            (separated c (assignExpr c n false) (pu "RoundLeft") (pu "RoundRight") (pu "Comma") n s).bind
              fun args s =>
                mergeSpans e.id args.id s fun sp s =>
                  addNode sp (sx "Call" (e.sx :: args.sx.kids)) s fun e s => accessLoop c n e s
          else
            (nextIs c (pu "Period") s).bind fun b s =>
              if b then
                (identifier c s).bind fun i s =>
                  mergeSpans e.id i.id s fun sp s =>
                    addNode sp (sx "Access" [e.sx]) s fun e s => accessLoop c n e s
              else .ok e s

/-- `Parser::record`: the `Meta` of the field list (`record` reuses its id) -/
def record (c : Ctx) : Nat → PState → PR Node
  | 0, _ => .fuel
  | n + 1, s => separated c (recordItem c n) (pu "CurlyLeft") (pu "CurlyRight") (pu "Comma") n s

/-- the closure of `record`: `identifier ':' expr` -/
def recordItem (c : Ctx) : Nat → PState → PR Node
  | 0, _ => .fuel
  | n + 1, s =>
    (identifier c s).bind fun _ s => (take c (pu "Colon") s).bind fun _ s => assignExpr c n false s

/-- `Parser::atom` -/
def atom (c : Ctx) : Nat → Bool → PState → PR Node
  | 0, _, _ => .fuel
  | n + 1, r, s =>
    (peekIs c (pu "RoundLeft") s).bind fun b s =>
      if b then
        (take c (pu "RoundLeft") s).bind fun l s =>
          (peekIs c (pu "RoundRight") s).bind fun b s =>
            if b then
              (take c (pu "RoundRight") s).bind fun rr s => addNode (mergeSp l rr) (sx "Lit" []) s .ok
            else
              (assignExpr c n false s).bind fun e s => (take c (pu "RoundRight") s).bind fun _ s => .ok e s
      else
        (peekIs c (pu "SquareLeft") s).bind fun b s =>
          if b then
            (separated c (assignExpr c n false) (pu "SquareLeft") (pu "SquareRight") (pu "Comma") n s).bind
              fun v s => .ok ⟨v.id, sx "List" v.sx.kids⟩ s
          else
            (peekIs c (pu "CurlyLeft") s).bind fun b s =>
              if b then
                (isRecord c Gen.ParseFacts.recordWindows s).bind fun isRec s =>
                  if isRec then
                    (record c n s).bind fun kv s =>
                      getSpan kv.id s fun sp s => addNode sp (sx "RecordE" kv.sx.kids) s .ok
                  else
                    (block c n s).bind fun bl s =>
                      getSpan bl.id s fun sp s => addNode sp (sx "BlockE" [bl.sx]) s .ok
              else
                (ppeek c s).bind fun k s =>
                  if (k.map fun t => inTable (Gen.ParseFacts.returnKinds.map (·.1)) t) == some true then
                    (pnext c s).bind fun t s =>
                      match Gen.ParseFacts.returnKinds.find? (fun e => e.1 == tokName t.1) with
                      | none => .panic   -- `_ => unreachable!()`
                      | some rk =>
                        (ppeek c s).bind fun k2 s =>
                          if (k2.map canStart) == some true then
                            (assignExpr c n false s).bind fun e s =>
                              getSpan e.id s fun esp s => addNode (mergeSp t.2 esp) (sx rk.2 [e.sx]) s .ok
                          else addNode t.2 (sx rk.2 []) s .ok
                  else
                    (peekIs c (kw "If") s).bind fun b s =>
                      if b then ifElse c n s
                      else
                        (peekIs c (kw "Match") s).bind fun b s =>
                          if b then matchExpr c n s
                          else
                            (peekIs c (kw "While") s).bind fun b s =>
                              if b then whileExpr c n s
                              else
                                (peekIs c (kw "For") s).bind fun b s =>
                                  if b then forExpr c n s
                                  else
                                    (ppeek c s).bind fun k s =>
                                      if (k.map fun t => inTable Gen.ParseFacts.atomPathStarts t) == some true then
                                        (path c n s).bind fun p s =>
                                          (if r then .ok false s else peekIs c (pu "CurlyLeft") s).bind fun b s =>
                                            if b then
                                              (record c n s).bind fun kv s =>
                                                mergeSpans p.id kv.id s fun sp s =>
                                                  addNode sp (sx "TypedRecord" (p.sx :: kv.sx.kids)) s .ok
                                            else .ok ⟨p.id, sx "PathE" [p.sx]⟩ s
                                      else
                                        (peekIs c .fStringStart s).bind fun b s =>
                                          if b then fString c n s
                                          else (literal c s).bind fun l s => .ok ⟨l.id, sx "Lit" []⟩ s

/-- `Parser::if_else` -/
def ifElse (c : Ctx) : Nat → PState → PR Node
  | 0, _ => .fuel
  | n + 1, s =>
    (take c (kw "If") s).bind fun start s =>
      (assignExpr c n true s).bind fun cond s =>
        (block c n s).bind fun tb s =>
          (nextIs c (kw "Else") s).bind fun b s =>
            if b then
              ((peekIs c (kw "If") s).bind fun b2 s =>
                if b2 then (ifElse c n s).bind fun e s => .ok ⟨e.id, blockSx [] [] (some e.sx)⟩ s
                else block c n s).bind fun eb s =>
                  getSpan eb.id s fun sp s =>
                    addNode (mergeSp start sp) (sx "IfElse" [cond.sx, tb.sx, eb.sx]) s .ok
            else
              getSpan tb.id s fun sp s => addNode (mergeSp start sp) (sx "IfElse" [cond.sx, tb.sx]) s .ok

/-- `Parser::while_expr` -/
def whileExpr (c : Ctx) : Nat → PState → PR Node
  | 0, _ => .fuel
  | n + 1, s =>
    (take c (kw "While") s).bind fun start s =>
      (assignExpr c n true s).bind fun cond s =>
        (block c n s).bind fun b s =>
          getSpan b.id s fun sp s => addNode (mergeSp start sp) (sx "While" [cond.sx, b.sx]) s .ok

/-- `Parser::for_expr` -/
def forExpr (c : Ctx) : Nat → PState → PR Node
  | 0, _ => .fuel
  | n + 1, s =>
    (take c (kw "For") s).bind fun start s =>
      (identifier c s).bind fun _ s =>
        (take c (kw "In") s).bind fun _ s =>
          (assignExpr c n true s).bind fun cond s =>
            (block c n s).bind fun b s =>
              getSpan b.id s fun sp s => addNode (mergeSp start sp) (sx "For" [cond.sx, b.sx]) s .ok

/-- `Parser::match_expr` -/
def matchExpr (c : Ctx) : Nat → PState → PR Node
  | 0, _ => .fuel
  | n + 1, s =>
    (take c (kw "Match") s).bind fun start s =>
      (assignExpr c n true s).bind fun e s =>
        (take c (pu "CurlyLeft") s).bind fun _ s =>
          (matchLoop c n [] s).bind fun arms s =>
            (take c (pu "CurlyRight") s).bind fun en s =>
              addNode (mergeSp start en) (.a "match") s fun _ s =>
                addNode (mergeSp start en) (sx "Match" (e.sx :: arms.reverse)) s .ok

/-- the `while !self.peek_is(Token::CurlyRight)` loop of `match_expr` (`arms` reversed) -/
def matchLoop (c : Ctx) : Nat → List Sx → PState → PR (List Sx)
  | 0, _, _ => .fuel
  | n + 1, arms, s =>
    (peekIs c (pu "CurlyRight") s).bind fun b s =>
      if b then .ok arms s
      else
        (identifier c s).bind fun v s =>
          getSpan v.id s fun vsp s =>
            (if textOf c.src vsp == ['_'] then .ok (vsp, sx "Under" []) s
             else
              (peekIs c (pu "RoundLeft") s).bind fun b s =>
                if b then
                  (separated c (identifier c) (pu "RoundLeft") (pu "RoundRight") (pu "Comma") n s).bind
                    fun fs s =>
                      mergeSpans v.id fs.id s fun sp s => .ok (sp, sx "Variant" [num fs.sx.kids.length]) s
                else .ok (vsp, sx "Variant" []) s).bind fun pat s =>
              addNode pat.1 pat.2 s fun pat s =>
                (nextIs c (kw "If") s).bind fun b s =>
                  (if b then (assignExpr c n false s).bind fun g s => .ok [sx "Guard" [g.sx]] s
                   else .ok [] s).bind fun guard s =>
                    (take c (pu "FatArrow") s).bind fun _ s =>
                      (peekIs c (pu "CurlyLeft") s).bind fun b s =>
                        (if b then
                          (block c n s).bind fun bl s => (nextIs c (pu "Comma") s).bind fun _ s => .ok bl.sx s
                         else
                          (assignExpr c n false s).bind fun e s =>
                            (peekIs c (pu "CurlyRight") s).bind fun b s =>
                              (if b then .ok () s
                               else (take c (pu "Comma") s).bind fun _ s => .ok () s).bind fun _ s =>
                                .ok (blockSx [] [] (some e.sx)) s).bind fun body s =>
                          matchLoop c n (sx "Arm" (pat.sx :: guard ++ [body]) :: arms) s

/-- `Parser::f_string` -/
def fString (c : Ctx) : Nat → PState → PR Node
  | 0, _ => .fuel
  | n + 1, s => (take c .fStringStart s).bind fun start s => fLoop c n start [] s

/-- the `while let Some((part, span)) = self.lexer.f_string_part()` loop
(`parts` reversed) -/
def fLoop (c : Ctx) : Nat → Span → List Sx → PState → PR Node
  | 0, _, _, _ => .fuel
  | n + 1, start, parts, s =>
    match fStringPart s.lx with
    | .panic => .panic
    | .ok (.none, _) => fail .endOfInput (s.lx.origLen, s.lx.origLen) s
    | .ok (.strEnd sp, L) =>
      (fText c sp parts { s with lx := L }).bind fun parts s =>
        addNode (mergeSp start sp) (sx "FString" parts.reverse) s .ok
    | .ok (.strMid sp, L) =>
      (fText c sp parts { s with lx := L }).bind fun parts s =>
        (take c (pu "CurlyLeft") s).bind fun _ s =>
          (assignExpr c n false s).bind fun e s =>
            getSpan e.id s fun esp s =>
              addNode esp (sx "E" [e.sx]) s fun p s =>
                (take c (pu "CurlyRight") s).bind fun _ s => fLoop c n start (p.sx :: parts) s
end

/-! ## declarations (`src/parser/mod.rs`, `filter_map.rs`) -/

/-- `Parser::function` -/
def function (c : Ctx) (n : Nat) (s : PState) : PR Sx :=
  (take c (kw "Fn") s).bind fun _ s =>
    (identifier c s).bind fun _ s =>
      (params c n s).bind fun ps s =>
        (nextIs c (pu "Arrow") s).bind fun b s =>
          (if b then (typeExpr c n s).bind fun t s => .ok [sx "Ret" [t.sx]] s else .ok [] s).bind fun ret s =>
            (block c n s).bind fun b s => .ok (sx "Function" (ps.sx :: ret ++ [b.sx])) s

/-- `Parser::filter_map` -/
def filterMap (c : Ctx) (n : Nat) (s : PState) : PR Sx :=
  (pnext c s).bind fun t s =>
    match Gen.ParseFacts.filterMapArms.find? (fun e => e.1 == tokName t.1) with
    | none => fail .expected t.2 s
    | some ft =>
      (identifier c s).bind fun _ s =>
        (params c n s).bind fun ps s => (block c n s).bind fun b s => .ok (sx ft.2 [ps.sx, b.sx]) s

/-- `Parser::constant` -/
def constant (c : Ctx) (n : Nat) (s : PState) : PR Sx :=
  (take c (kw "Const") s).bind fun _ s =>
    (identifier c s).bind fun _ s =>
      (take c (pu "Colon") s).bind fun _ s =>
        (typeExpr c n s).bind fun t s =>
          (take c (pu "Eq") s).bind fun _ s =>
            (assignExpr c n false s).bind fun e s =>
              (take c (pu "SemiColon") s).bind fun _ s => .ok (sx "Const" [t.sx, e.sx]) s

/-- `Parser::test` -/
def test (c : Ctx) (n : Nat) (s : PState) : PR Sx :=
  (take c (kw "Test") s).bind fun _ s =>
    (identifier c s).bind fun _ s => (block c n s).bind fun b s => .ok (sx "Test" [b.sx]) s

/-- `Parser::record_type_assignment` -/
def recordDecl (c : Ctx) (n : Nat) (s : PState) : PR Sx :=
  (take c (kw "Record") s).bind fun _ s =>
    (identifier c s).bind fun _ s =>
      (typeParameters c n s).bind fun k s =>
        (recordType c n s).bind fun rt s => .ok (sx "Record" [num k, sx "Fields" rt.sx.kids]) s

/-- `Parser::enum_variant` -/
def enumVariant (c : Ctx) (n : Nat) (s : PState) : PR Node :=
  (identifier c s).bind fun i s =>
    (peekIs c (pu "RoundLeft") s).bind fun b s =>
      if b then
        (separated c (typeExpr c n) (pu "RoundLeft") (pu "RoundRight") (pu "Comma") n s).bind fun fs s =>
          .ok ⟨i.id, sx "Variant" fs.sx.kids⟩ s
      else .ok ⟨i.id, sx "Variant" []⟩ s

/-- `Parser::enum_declaration` -/
def enumDecl (c : Ctx) (n : Nat) (s : PState) : PR Sx :=
  (take c (kw "Enum") s).bind fun _ s =>
    (identifier c s).bind fun _ s =>
      (typeParameters c n s).bind fun k s =>
        (separated c (enumVariant c n) (pu "CurlyLeft") (pu "CurlyRight") (pu "Comma") n s).bind fun vs s =>
          .ok (sx "Enum" (num k :: vs.sx.kids)) s

/-- `Parser::root`: the arm is chosen by the generated table `rootItems` -/
def root (c : Ctx) (n : Nat) (s : PState) : PR Sx :=
  (ppeek c s).bind fun k s =>
    match k with
    | none => fail .endOfInput (s.lx.origLen, s.lx.origLen) s
    | some t =>
      match (Gen.ParseFacts.rootItems.find? (fun e => e.1 == tokName t)).map (·.2) with
      | some "filter_map" => filterMap c n s
      | some "constant" => constant c n s
      | some "record_type_assignment" => recordDecl c n s
      | some "enum_declaration" => enumDecl c n s
      | some "function" => function c n s
      | some "test" => test c n s
      | some "import" => (importStmt c n s).bind fun ps s => .ok (sx "Import" ps) s
      | _ => (pnext c s).bind fun t s => fail .expected t.2 s

/-- the `while self.peek().is_some()` loop of `Parser::tree` (`acc` reversed) -/
def treeLoop (c : Ctx) : Nat → List Sx → PState → PR (List Sx)
  | 0, _, _ => .fuel
  | n + 1, acc, s =>
    (ppeek c s).bind fun k s =>
      match k with
      | some _ => (root c n s).bind fun d s => treeLoop c n (d :: acc) s
      | none => .ok acc s

/-- outcome of `Parser::parse` -/
inductive Out where
  | tree (t : Sx) (spans : List Span)
  | error (e : PErr) (spans : List Span)
  | panic
  | fuel
  deriving Repr

/-- `Parser::parse` = `run_parser(Self::tree, …)`: `Lexer::new`, `skip_shebang`,
the declarations, then the whole input must have been consumed. A parse error
gets the `almost_keyword` hint. -/
def parseWith (c : Ctx) (fuel : Nat) : Out :=
  match skipShebang c.P (Lexer.new c.src) with
  | .panic => .panic
  | .ok L =>
    match treeLoop c fuel [] ⟨L, [], [], none⟩ with
    | .panic => .panic
    | .fuel => .fuel
    | .err e s => .error { e with hint := s.almost } s.rspans.reverse
    | .ok ds s =>
      match lexNext c s with
      | .panic => .panic
      | .fuel => .fuel
      | .err e s => .error e s.rspans.reverse
      | .ok none s => .tree (sx "Tree" ds.reverse) s.rspans.reverse
      | .ok (some (.tok _ sp)) s => .error ⟨.failedToParseEntireInput, sp, none⟩ s.rspans.reverse
      | .ok (some (.invalid sp)) s => .error ⟨.failedToParseEntireInput, sp, none⟩ s.rspans.reverse

/-- `Parser::signature` (src/parser/signature.rs): `fn[T, …](type, …) -> type` -/
def signature (c : Ctx) (n : Nat) (s : PState) : PR Sx :=
  (take c (kw "Fn") s).bind fun _ s =>
    (typeParameters c n s).bind fun k s =>
      (separated c (typeExpr c n) (pu "RoundLeft") (pu "RoundRight") (pu "Comma") n s).bind fun ps s =>
        (nextIs c (pu "Arrow") s).bind fun b s =>
          (if b then (typeExpr c n s).bind fun t s => .ok [sx "Ret" [t.sx]] s else .ok [] s).bind fun ret s =>
            .ok (sx "Signature" (num k :: sx "Params" ps.sx.kids :: ret)) s

/-- `Parser::parse_signature` = `run_parser(Self::signature, 0, …)`: no shebang
is skipped (that is `tree`'s business); the rest is `run_parser` as in `parseWith` -/
def parseSignatureWith (c : Ctx) (fuel : Nat) : Out :=
  match signature c fuel ⟨Lexer.new c.src, [], [], none⟩ with
  | .panic => .panic
  | .fuel => .fuel
  | .err e s => .error { e with hint := s.almost } s.rspans.reverse
  | .ok t s =>
    match lexNext c s with
    | .panic => .panic
    | .fuel => .fuel
    | .err e s => .error e s.rspans.reverse
    | .ok none s => .tree t s.rspans.reverse
    | .ok (some (.tok _ sp)) s => .error ⟨.failedToParseEntireInput, sp, none⟩ s.rspans.reverse
    | .ok (some (.invalid sp)) s => .error ⟨.failedToParseEntireInput, sp, none⟩ s.rspans.reverse

/-- fuel per byte of input (+ the queue): every cycle of calls that does not
consume a token is shorter than this -/
def fuelPerByte : Nat := 32

/-- the fuel `parse` supplies: linear in the length of the input -/
def parseFuel (src : List Char) : Nat := fuelPerByte * (blen src + 2)

/-- `Parser::parse` -/
def parse (c : Ctx) : Out := parseWith c (parseFuel c.src)

/-- `Parser::parse_signature` -/
def parseSignature (c : Ctx) : Out := parseSignatureWith c (parseFuel c.src)

end RotoV.Parse
