/-
  C13 — the statement language in which the translator (`extract` target
  `scoperesolve`) transliterates the body of `ScopeGraph::resolve_name`
  (src/typechecker/scope.rs), and its meaning.

  The function is one `loop` over the mutable parameter `scope`; its body reads
  the declaration table, the import table of the current scope and the parent
  link, binds immutable locals and returns.  What the translator accepts:

    let v = e;                                   letE e …
    if let Some(v) = e { … }                     ifLetSome e … …
    if let Some((_, v)) = e { … }                ifLetSome e (letE (snd (var _)) …) …
    if !recurse { … }                            ifNotRecurse … …
    return Some(e) / return Some(e.clone())      retSome e
    return None                                  retNone
    scope = self.parent(scope)?;                 ascend …

  with the expressions

    a local                                      var i   (i-th binding in scope, outermost first)
    ResolvedName { scope, ident: **ident }       mkName
    self.declarations.get(&e)                    declGet e
    &self.scopes[scope.0].imports                scopeImports   (indexing may panic)
    e.get(ident)                                 tableGet e
    &e.1                                         snd e
    e.unwrap()                                   unwrap e       (may panic)

  (`&e`, `(e)` and `e.clone()` mean `e`).  Everything else — a call of a helper
  method, another loop, an `else` — is an extraction failure.  Values are
  dynamically typed (`Val`); an ill-typed program is `Out.stuck`, about which
  nothing can be proved.

  `Props/C13.lean` proves `resolve_name_as_modelled`: the transliterated body
  means exactly `Graph.resolveName` of `Model/Scope.lean` on every graph, scope,
  name and flag — including where it panics — so a changed lookup order, a
  moved `recurse` gate, a different key or a dropped step stops a proof, while a
  renaming or an extra local does not.

  Core Lean only.
-/
import RotoV.Model.Scope

namespace RotoV.Scope.RLoop
open RotoV.Scope

/-- what a local of `resolve_name` can hold -/
inductive Val
  /-- `ResolvedName` / `&ResolvedName` -/
  | name (n : RName)
  /-- `Option<&Declaration>` -/
  | odecl (d : Option Decl)
  /-- `&Declaration` -/
  | decl (d : Decl)
  /-- `&imports` of a scope -/
  | table (t : List (Name × RName))
  /-- `Option<&(MetaId, ResolvedName)>` (the `MetaId` plays no role in lookup) -/
  | oentry (t : Option RName)
  /-- `&(MetaId, ResolvedName)` -/
  | entry (t : RName)
  deriving DecidableEq, Repr, Inhabited

inductive RExpr
  | var (i : Nat)
  | mkName
  | declGet (k : RExpr)
  | scopeImports
  | tableGet (t : RExpr)
  | snd (e : RExpr)
  | unwrap (e : RExpr)
  deriving DecidableEq, Repr, Inhabited

inductive RBlock
  /-- end of a block: control falls through -/
  | done
  | letE (e : RExpr) (k : RBlock)
  | ifLetSome (e : RExpr) (t k : RBlock)
  | ifNotRecurse (t k : RBlock)
  | retSome (e : RExpr)
  | retNone
  | ascend (k : RBlock)
  deriving DecidableEq, Repr, Inhabited

inductive Out (α : Type) where
  | ok (a : α)
  | panic (s : Site)
  /-- the program is ill-typed or reads an unbound local -/
  | stuck
  deriving Repr, DecidableEq

/-- `Res` as `Out` (`resolve_name` has no error results) -/
def Out.ofRes {α} : Res α → Out α
  | .ok a => .ok a
  | .panic s => .panic s
  | .err _ => .stuck

/-- how a block ends -/
inductive Flow
  | ret (d : Option Decl)
  /-- fell through its end, `scope` being `s` -/
  | fall (s : Nat)
  deriving Repr, DecidableEq

/-- expressions; `s` is the current value of `scope`, `x` is `ident` -/
def eval (g : Graph) (x : Name) (s : Nat) (env : List Val) : RExpr → Out Val
  | .var i => match env[i]? with
    | some v => .ok v
    | none => .stuck
  | .mkName => .ok (.name ⟨s, x⟩)
  | .declGet k => match eval g x s env k with
    | .ok (.name n) => .ok (.odecl (g.decl n))
    | .ok _ => .stuck
    | .panic p => .panic p
    | .stuck => .stuck
  | .scopeImports => match g.scopes[s]? with
    | none => .panic .scopeIndex
    | some sc => .ok (.table sc.imports)
  | .tableGet t => match eval g x s env t with
    | .ok (.table l) => .ok (.oentry (l.lookup x))
    | .ok _ => .stuck
    | .panic p => .panic p
    | .stuck => .stuck
  | .snd e => match eval g x s env e with
    | .ok (.entry t) => .ok (.name t)
    | .ok _ => .stuck
    | .panic p => .panic p
    | .stuck => .stuck
  | .unwrap e => match eval g x s env e with
    | .ok (.odecl (some d)) => .ok (.decl d)
    | .ok (.odecl none) => .panic .importTarget
    | .ok _ => .stuck
    | .panic p => .panic p
    | .stuck => .stuck

/-- one pass through the loop body (`recurse` is the flag, `s` the scope at entry) -/
def exec (g : Graph) (x : Name) (recurse : Bool) : RBlock → Nat → List Val → Out Flow
  | .done, s, _ => .ok (.fall s)
  | .letE e k, s, env =>
    match eval g x s env e with
    | .ok v => exec g x recurse k s (env ++ [v])
    | .panic p => .panic p
    | .stuck => .stuck
  | .ifLetSome e t k, s, env =>
    match eval g x s env e with
    | .ok (.odecl (some d)) =>
      (match exec g x recurse t s (env ++ [.decl d]) with
       | .ok (.fall s') => exec g x recurse k s' env
       | o => o)
    | .ok (.odecl none) => exec g x recurse k s env
    | .ok (.oentry (some t')) =>
      (match exec g x recurse t s (env ++ [.entry t']) with
       | .ok (.fall s') => exec g x recurse k s' env
       | o => o)
    | .ok (.oentry none) => exec g x recurse k s env
    | .ok _ => .stuck
    | .panic p => .panic p
    | .stuck => .stuck
  | .ifNotRecurse t k, s, env =>
    if !recurse then
      (match exec g x recurse t s env with
       | .ok (.fall s') => exec g x recurse k s' env
       | o => o)
    else exec g x recurse k s env
  | .retSome e, s, env =>
    match eval g x s env e with
    | .ok (.decl d) => .ok (.ret (some d))
    | .ok _ => .stuck
    | .panic p => .panic p
    | .stuck => .stuck
  | .retNone, _, _ => .ok (.ret none)
  | .ascend k, s, env =>
    -- `self.parent(scope)` is `self.scopes[scope.0].parent`; `?` returns `None`
    match g.scopes[s]? with
    | none => .panic .scopeIndex
    | some sc =>
      match sc.parent with
      | none => .ok (.ret none)
      | some p => exec g x recurse k p env

/-- `loop { body }`, fuel = iterations left (as in `Graph.resolveName`) -/
def run (body : RBlock) (g : Graph) : Nat → Nat → Name → Bool → Out (Option Decl)
  | 0, _, _, _ => .panic .fuel
  | fuel + 1, s, x, recurse =>
    match exec g x recurse body s [] with
    | .ok (.ret d) => .ok d
    | .ok (.fall s') => run body g fuel s' x recurse
    | .panic p => .panic p
    | .stuck => .stuck

/-- what `extract` generates from the unchanged tree (kept here so that the
    meaning of the language is exercised even without the generated file) -/
def referenceBody : RBlock :=
  .letE .mkName
  (.ifLetSome (.declGet (.var 0)) (.retSome (.var 1))
  (.ifNotRecurse .retNone
  (.ifLetSome (.tableGet .scopeImports) (.retSome (.unwrap (.declGet (.snd (.var 1)))))
  (.ascend .done))))

/-- seeded C13-1: the gate below the import lookup -/
def gateAfterImportsBody : RBlock :=
  .letE .mkName
  (.ifLetSome (.declGet (.var 0)) (.retSome (.var 1))
  (.ifLetSome (.tableGet .scopeImports) (.retSome (.unwrap (.declGet (.snd (.var 1)))))
  (.ifNotRecurse .retNone
  (.ascend .done))))

end RotoV.Scope.RLoop
