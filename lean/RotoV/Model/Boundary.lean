/-
  C05 — executable model of the host boundary (core Lean only; linked into
  the driver).

  Two independent descriptions of every boundary type and signature:

  * the **Roto side**, as the compiler computes it: `toMTy` (the MIR type a
    boundary type lowers to, variant order from the generated
    `default_types()` tables), `layoutOf` (model of `Pool::layout_of`, over the
    generated `LayoutBuilder.add/finish`, `Layout.union`, `primitiveLayout`),
    `isReferenceType`, `lowerType` (interpreting the generated step list of
    `Lowerer::lower_type`), `rotoSig` (what `declare_function` declares for a
    script function: hidden return pointer, context, filtered parameters) and
    `rotoRuntimeCall` (what `call_runtime` + `CallRuntime` pass to a
    trampoline);
  * the **Rust side**, as rustc and the platform C ABI fix it: `rustLayout`
    (the Rust reference's layout of `#[repr(u8)]` enums in closed form, over
    the generated declaration order of `RotoOption`/`RotoResult`/`Verdict`),
    `rustSig` (the `extern "C"` type `RotoFunc::invoke` transmutes to, from the
    generated `AsParam` kinds) and `rustTrampoline`.

  plus the value level: `RVal` (Rust's view: `Option`/`Result`/`Verdict`),
  `TVal` (the transformed value: a discriminant and at most one payload),
  `transform`/`untransform` (discriminant = index in the Rust declaration
  order) and `scriptView` (what a script `match` sees: variant = the entry of
  `default_types()` at that discriminant).

  The compiler-side knobs live in `Cfg` so that theorems can be stated both
  for the current tree (`Cfg.current`, all fields generated) and for the tree
  as pinned (`Cfg.pinned`, frozen), where the ABI theorem is false.
-/
import RotoV.Generated.BoundaryTables

namespace RotoV.Boundary
open RotoV RotoV.Gen.BoundaryTables

/-! ## Boundary types -/

/-- The boundary grammar: leaves × `Option`/`Result`/`Verdict`/`List` nesting.
    A registered type is represented by the layout it was registered with. -/
inductive BTy
  | prim (p : Primitive)
  | unit
  | val (l : Layout)
  | option (t : BTy)
  | result (t e : BTy)
  | verdict (a r : BTy)
  | list (t : BTy)
  deriving DecidableEq, Repr, Inhabited

/-- Instantiate an enum table: per variant, the types of its fields. An index
    outside the argument list is an uninhabited field (never happens for the
    generated tables; the theorems show it). -/
def instVariants {α} (dflt : α) (tbl : List (VName × List Nat)) (args : List α) : List (List α) :=
  tbl.map fun v => v.2.map fun i => args.getD i dflt

/-- The MIR type of a boundary type (`TypeInfo::convert` on the built-in
    enums: variants in `default_types()` order). -/
def toMTy : BTy → MTy
  | .prim p => .prim p
  | .unit => .unit
  | .val l => .runtime l
  | .list _ => .list
  | .option t => .enum (instVariants .never defaultOption [toMTy t])
  | .result t e => .enum (instVariants .never defaultResult [toMTy t, toMTy e])
  | .verdict a r => .enum (instVariants .never defaultVerdict [toMTy a, toMTy r])

/-! ## Roto side: `Pool::layout_of` -/

mutual
/-- `Pool::layout_of`; `none` = uninhabited. -/
def layoutOf (h : HostLayouts) : MTy → Option Layout
  | .never => none
  | .unit => some unitLayout
  | .prim p => some (primitiveLayout h p)
  | .runtime l => some l
  | .list => some (listLayout h)
  | .record fs => (addFields h LayoutBuilder.new fs).map LayoutBuilder.finish
  | .enum vs => enumVariants h vs none
/-- `builder.add(&self.layout_of(t)?)` over the fields (`try_fold` in the enum arm) -/
def addFields (h : HostLayouts) : LayoutBuilder → List MTy → Option LayoutBuilder
  | b, [] => some b
  | b, t :: ts =>
    match layoutOf h t with
    | none => none
    | some l => addFields h (LayoutBuilder.add b l).1 ts
/-- the `for (_, fields) in variants` loop with its accumulator `layout` -/
def enumVariants (h : HostLayouts) : List (List MTy) → Option Layout → Option Layout
  | [], acc => acc
  | fs :: vs, acc =>
    match addFields h (LayoutBuilder.add LayoutBuilder.new enumTagLayout).1 fs with
    | none => enumVariants h vs acc
    | some b =>
      let vl := LayoutBuilder.finish b
      enumVariants h vs (some (match acc with | none => vl | some l => Layout.union l vl))
end

def rotoLayout (h : HostLayouts) (t : BTy) : Option Layout := layoutOf h (toMTy t)

/-- Offset of field `k` of a variant (the `VariantField` loop of
    `Lowerer::location`: tag first, then every field before it). -/
def variantFieldOffset (h : HostLayouts) (fs : List MTy) (k : Nat) : Option Nat :=
  match addFields h (LayoutBuilder.add LayoutBuilder.new locationTagLayout).1 (fs.take k), (fs[k]?).bind (layoutOf h) with
  | some b, some l => some (LayoutBuilder.add b l).2
  | _, _ => none

/-! ## Rust side: the reference layout of `#[repr(u8)]` enums, in closed form -/

/-- least multiple of `a` that is `≥ n` -/
def roundUp (n a : Nat) : Nat := (n + a - 1) / a * a

/-- `repr(C)` struct: end offset after placing the fields in order, each at the
    next multiple of its alignment -/
def structEnd : Nat → List Layout → Nat
  | off, [] => off
  | off, l :: ls => structEnd (roundUp off l.align + l.size) ls

def maxAlign (ls : List Layout) : Nat := ls.foldr (fun l a => max l.align a) 1
def maxSize (ls : List Layout) : Nat := ls.foldr (fun l s => max l.size s) 0

def reprC (fs : List Layout) : Layout :=
  ⟨roundUp (structEnd 0 fs) (maxAlign fs), maxAlign fs⟩

/-- `#[repr(u8)] enum`: a `repr(C)` union of `repr(C)` structs, each starting
    with the `u8` tag (Rust reference, "Primitive representation of enums with
    fields"); a union is as large as its largest member rounded up to the
    largest alignment. -/
def reprU8 (vs : List (List Layout)) : Layout :=
  let ss := vs.map fun fs => reprC (⟨1, 1⟩ :: fs)
  ⟨roundUp (maxSize ss) (maxAlign ss), maxAlign ss⟩

/-- payload offset of the single-field variants of the mirror enums -/
def payloadOffset (l : Layout) : Nat := roundUp 1 l.align

/-- Rust's own layout of the scalar leaves (x86-64 / aarch64 Linux). -/
def rustPrimLayout (h : HostLayouts) : Primitive → Layout
  | .Int _ .I8 => ⟨1, 1⟩ | .Int _ .I16 => ⟨2, 2⟩ | .Int _ .I32 => ⟨4, 4⟩ | .Int _ .I64 => ⟨8, 8⟩
  | .Float .F32 => ⟨4, 4⟩ | .Float .F64 => ⟨8, 8⟩
  | .Bool => ⟨1, 1⟩ | .Char => h.char | .Asn => ⟨4, 4⟩
  | .String => h.string | .IpAddr => h.ipaddr | .Prefix => h.prefix_

/-- `Layout::of::<T::Transformed>()` as rustc computes it. -/
def rustLayout (h : HostLayouts) : BTy → Layout
  | .prim p => rustPrimLayout h p
  | .unit => ⟨0, 1⟩
  | .val l => l
  | .list _ => h.list
  | .option t => reprU8 (instVariants ⟨0, 1⟩ rotoOptionVariants [rustLayout h t])
  | .result t e => reprU8 (instVariants ⟨0, 1⟩ rotoResultVariants [rustLayout h t, rustLayout h e])
  | .verdict a r => reprU8 (instVariants ⟨0, 1⟩ verdictVariants [rustLayout h a, rustLayout h r])

/-- well-formed boundary type: registered layouts satisfy `Layout`'s invariant -/
def BTy.WF : BTy → Prop
  | .prim _ | .unit => True
  | .val l => l.WF
  | .option t | .list t => t.WF
  | .result a b | .verdict a b => a.WF ∧ b.WF

def BTy.wfb : BTy → Bool
  | .prim _ | .unit => true
  | .val l => l.wfb
  | .option t | .list t => t.wfb
  | .result a b | .verdict a b => a.wfb && b.wfb

/-! ## Roto side: `is_reference_type`, `lower_type`, signatures -/

/-- The compiler-side decisions the ABI depends on. -/
structure Cfg where
  lowerSteps : List LowerStep
  isRefZeroSized : LowerStep
  sigFilter : ArgFilter
  callFilter : ArgFilter
  callRuntimeFilter : ArgFilter
  deriving DecidableEq, Repr

/-- everything generated from the current source -/
def Cfg.current : Cfg :=
  { lowerSteps := lowerTypeSteps, isRefZeroSized := isReferenceZeroSized, sigFilter := sigParamFilter,
    callFilter := callArgFilter, callRuntimeFilter := callRuntimeArgFilter }

/-- the tree as pinned (before `fix: zero-sized registered types are passed like every other
    registered type`) -/
def Cfg.pinned : Cfg :=
  { lowerSteps := [.zeroSizedNone, .primTable, .listPointer, .runtimePointer, .referencePointerElseIce],
    isRefZeroSized := .zeroSizedNone, sigFilter := .lowerType, callFilter := .nonZeroLayout,
    callRuntimeFilter := .lowerType }

/-- does the zero-sized early return apply to this type? -/
def zeroSizedApplies (step : LowerStep) (t : MTy) : Bool :=
  match step with
  | .zeroSizedNone => true
  | .zeroSizedNoneUnlessRuntime => t.kind != .Runtime
  | _ => false

/-- `Pool::is_reference_type` -/
def isReferenceType (c : Cfg) (h : HostLayouts) (t : MTy) : Option Bool :=
  match layoutOf h t with
  | none => if zeroSizedApplies c.isRefZeroSized t then none else isReferenceKind t.kind
  | some l =>
    if zeroSizedApplies c.isRefZeroSized t && l.size == 0 then some false
    else isReferenceKind t.kind

/-- One step of `lower_type`: `some r` = the function returns `r` here,
    `none` = control falls through to the next step. -/
def lowerStep (c : Cfg) (h : HostLayouts) (t : MTy) : LowerStep → Res (Option (Option IrType))
  | .zeroSizedNone =>
    .ok (if (layoutOf h t).any (·.size == 0) then some none else none)
  | .zeroSizedNoneUnlessRuntime =>
    .ok (if t.kind != .Runtime && (layoutOf h t).any (·.size == 0) then some none else none)
  | .primTable =>
    .ok (match t with
      | .prim p => (lowerPrim p).map some
      | _ => none)
  | .listPointer => .ok (if t.kind == .List then some (some .Pointer) else none)
  | .runtimePointer => .ok (if t.kind == .Runtime then some (some .Pointer) else none)
  | .referencePointerElseIce =>
    match isReferenceType c h t with
    | none => .ok (some none)
    | some true => .ok (some (some .Pointer))
    | some false => .panic

def lowerSteps (c : Cfg) (h : HostLayouts) (t : MTy) : List LowerStep → Res (Option IrType)
  | [] => .panic
  | s :: ss =>
    match lowerStep c h t s with
    | .panic => .panic
    | .ok (some r) => .ok r
    | .ok none => lowerSteps c h t ss

/-- `Lowerer::lower_type`; `panic` = `ice!()` -/
def lowerType (c : Cfg) (h : HostLayouts) (t : MTy) : Res (Option IrType) :=
  lowerSteps c h t c.lowerSteps

/-- is an argument of this type kept in a parameter list? (`some ty` = passed as `ty`) -/
def keepArg (c : Cfg) (h : HostLayouts) (f : ArgFilter) (t : MTy) : Res (Option IrType) :=
  match f with
  | .lowerType => lowerType c h t
  | .nonZeroLayout =>
    -- `layout_of(t).filter(|l| !l.is_zero_sized())`; the callee declares `lower_type`
    match layoutOf h t with
    | none => .ok none
    | some l => if l.size == 0 then .ok none else lowerType c h t

def keepArgs (c : Cfg) (h : HostLayouts) (f : ArgFilter) : List MTy → Res (List IrType)
  | [] => .ok []
  | t :: ts =>
    match keepArg c h f t, keepArgs c h f ts with
    | .ok (some x), .ok xs => .ok (x :: xs)
    | .ok none, .ok xs => .ok xs
    | _, _ => .panic

/-- a machine-level signature: Cranelift parameter and return types -/
structure AbiSig where
  params : List AbiTy
  ret : Option AbiTy
  deriving DecidableEq, Repr, Inhabited

/-- a boundary signature -/
structure BSig where
  params : List BTy
  ret : BTy
  deriving DecidableEq, Repr, Inhabited

def ptrAbi : AbiTy := craneliftType .Pointer

/-- `(return_ir_type, return_ptr)` of `Lowerer::…` for a function item -/
def returnRule (c : Cfg) (h : HostLayouts) (r : MTy) : Res (Option IrType × Bool) :=
  match isReferenceType c h r with
  | some true => .ok (none, true)
  | some false => match lowerType c h r with
    | .ok ty => .ok (ty, false)
    | .panic => .panic
  | none => .ok (none, false)

def slotTypes (retPtr ctx : Bool) (params : List AbiTy) : Slot → List AbiTy
  | .retPtr => if retPtr then [ptrAbi] else []
  | .ctx => if ctx then [ptrAbi] else []
  | .params => params
  | .fnPtr => [ptrAbi]
  | .vtables => []

/-- What `declare_function` declares for a script function with this
    signature, and the `return_by_ref` flag handed to `TypedFunc`. -/
def rotoSig (c : Cfg) (h : HostLayouts) (s : BSig) : Res (AbiSig × Bool) :=
  match returnRule c h (toMTy s.ret), keepArgs c h c.sigFilter (s.params.map toMTy) with
  | .ok (rty, rptr), .ok ps =>
    .ok (⟨declareSlots.flatMap (slotTypes rptr sigContext (ps.map craneliftType)), rty.map craneliftType⟩, rptr)
  | _, _ => .panic

/-- What a script-to-script call site passes (`Lowerer::call` + `Call` codegen:
    return pointer, context, filtered arguments). -/
def rotoCallSite (c : Cfg) (h : HostLayouts) (s : BSig) : Res AbiSig :=
  match returnRule c h (toMTy s.ret), keepArgs c h c.callFilter (s.params.map toMTy) with
  | .ok (rty, rptr), .ok ps =>
    .ok ⟨[Slot.retPtr, .ctx, .params].flatMap (slotTypes rptr true (ps.map craneliftType)), rty.map craneliftType⟩
  | _, _ => .panic

/-- What `call_runtime` + `CallRuntime` pass to the trampoline of a registered
    function (no vtables: non-generic functions). -/
def rotoRuntimeCall (c : Cfg) (h : HostLayouts) (s : BSig) : Res AbiSig :=
  match keepArgs c h c.callRuntimeFilter (s.params.map toMTy) with
  | .ok ps => .ok ⟨(callRuntimePrefix ++ callRuntimeSlots).flatMap (slotTypes true false (ps.map craneliftType)), none⟩
  | .panic => .panic

/-! ## Rust side: the `extern "C"` types of `func!` and `registerable_fn!` -/

def BTy.head : BTy → RustHead
  | .prim (.Int .Unsigned .I8) => .u8 | .prim (.Int .Unsigned .I16) => .u16
  | .prim (.Int .Unsigned .I32) => .u32 | .prim (.Int .Unsigned .I64) => .u64
  | .prim (.Int .Signed .I8) => .i8 | .prim (.Int .Signed .I16) => .i16
  | .prim (.Int .Signed .I32) => .i32 | .prim (.Int .Signed .I64) => .i64
  | .prim (.Float .F32) => .f32 | .prim (.Float .F64) => .f64
  | .prim .Bool => .bool | .prim .Char => .char | .prim .Asn => .Asn
  | .prim .String => .RotoString | .prim .IpAddr => .IpAddr | .prim .Prefix => .Prefix
  | .unit => .unit | .val _ => .Val | .option _ => .Option | .result _ _ => .Result
  | .verdict _ _ => .Verdict | .list _ => .List

/-- C ABI class of the by-value leaves (System V x86-64 / AAPCS64: integers in
    general registers by width, floats in vector registers). -/
def scalarAbi : RustHead → Option AbiTy
  | .bool | .u8 | .i8 => some .I8
  | .u16 | .i16 => some .I16
  | .u32 | .i32 | .char | .Asn => some .I32
  | .u64 | .i64 => some .I64
  | .f32 => some .F32
  | .f64 => some .F64
  | _ => none

def lookupKind (hd : RustHead) : List (RustHead × ParamKind) → Option ParamKind
  | [] => none
  | (k, v) :: rest => if k = hd then some v else lookupKind hd rest

/-- How `T::AsParam` is passed: `none` = not passed at all (`()` is zero-sized
    and ignored by `extern "C"`); a pointer; or the scalar class.
    `panic` = the type has no (usable) `impl Value`. -/
def asParamAbi (t : BTy) : Res (Option AbiTy) :=
  match lookupKind t.head asParamKinds with
  | some .pointer => .ok (some .I64)
  | some .unitValue => .ok none
  | some .byValue => match scalarAbi t.head with
    | some a => .ok (some a)
    | none => .panic
  | none => .panic

def asParamAbis : List BTy → Res (List AbiTy)
  | [] => .ok []
  | t :: ts =>
    match asParamAbi t, asParamAbis ts with
    | .ok (some x), .ok xs => .ok (x :: xs)
    | .ok none, .ok xs => .ok xs
    | _, _ => .panic

/-- `R::Transformed` returned by value: a scalar in its register class, nothing
    for a zero-sized type; `panic` = an aggregate would be returned by value
    (never requested: `return_by_ref` is then true). -/
def transformedRetAbi (h : HostLayouts) (t : BTy) : Res (Option AbiTy) :=
  if (rustLayout h t).size = 0 then .ok none
  else match scalarAbi t.head with
    | some a => .ok (some a)
    | none => .panic

/-- The `extern "C"` type `RotoFunc::invoke` transmutes the code pointer to. -/
def rustSig (h : HostLayouts) (s : BSig) (returnByRef : Bool) : Res AbiSig :=
  match asParamAbis s.params with
  | .panic => .panic
  | .ok ps =>
    if returnByRef then
      .ok ⟨rustWithReturnPointer.flatMap (slotTypes true true ps), none⟩
    else
      match transformedRetAbi h s.ret with
      | .ok r => .ok ⟨rustWithoutReturnPointer.flatMap (slotTypes false true ps),
                      match rustWithoutReturnPointerRet with | .transformed => r | .nothing => none⟩
      | .panic => .panic

/-- The `extern "C"` type of a trampoline. -/
def rustTrampoline (s : BSig) : Res AbiSig :=
  match asParamAbis s.params with
  | .ok ps => .ok ⟨trampolineSlots.flatMap (slotTypes true false ps), none⟩
  | .panic => .panic

/-! ## Values -/

/-- A value as Rust sees it. Leaves are opaque payloads (`leaf n` stands for
    any scalar / string / address / registered value). -/
inductive RVal
  | leaf (n : Nat)
  | unit
  | some (v : RVal) | none
  | ok (v : RVal) | err (v : RVal)
  | accept (v : RVal) | reject (v : RVal)
  | list (vs : List RVal)
  deriving Repr, Inhabited

/-- The transformed value: what is in memory when it crosses — leaves
    unchanged, the three enums as a `u8` discriminant and at most one payload. -/
inductive TVal
  | leaf (n : Nat)
  | unit
  | tagged (discr : Nat) (payload : Option TVal)
  | list (vs : List TVal)
  deriving Repr, Inhabited

def indexOf (n : VName) : List (VName × List Nat) → Nat → Option Nat
  | [], _ => Option.none
  | (m, _) :: rest, i => if m = n then Option.some i else indexOf n rest (i + 1)

def nameAt (tbl : List (VName × List Nat)) (d : Nat) : Option VName := (tbl[d]?).map (·.1)

/-- `Value::transform`: the discriminant of a `#[repr(u8)]` variant is its
    position in the declaration. `none` = the variant does not exist. -/
def tag (tbl : List (VName × List Nat)) (n : VName) (p : Option TVal) : Option TVal :=
  (indexOf n tbl 0).map fun d => .tagged d p

mutual
def transform : RVal → Option TVal
  | .leaf n => Option.some (.leaf n)
  | .unit => Option.some .unit
  | .some v => (transform v).bind fun p => tag rotoOptionVariants .Some (Option.some p)
  | .none => tag rotoOptionVariants .None Option.none
  | .ok v => (transform v).bind fun p => tag rotoResultVariants .Ok (Option.some p)
  | .err v => (transform v).bind fun p => tag rotoResultVariants .Err (Option.some p)
  | .accept v => (transform v).bind fun p => tag verdictVariants .Accept (Option.some p)
  | .reject v => (transform v).bind fun p => tag verdictVariants .Reject (Option.some p)
  | .list vs => (transformList vs).map .list
def transformList : List RVal → Option (List TVal)
  | [] => Option.some []
  | v :: vs => (transform v).bind fun t => (transformList vs).map fun ts => t :: ts
end

/-- which of the three enums a value is expected to be -/
inductive EnumOf | option | result | verdict deriving DecidableEq, Repr

/-- rebuild the Rust-level variant from a name -/
def mkVariant : VName → Option RVal → Option RVal
  | .Some, Option.some v => Option.some (.some v)
  | .None, Option.none => Option.some .none
  | .Ok, Option.some v => Option.some (.ok v)
  | .Err, Option.some v => Option.some (.err v)
  | .Accept, Option.some v => Option.some (.accept v)
  | .Reject, Option.some v => Option.some (.reject v)
  | _, _ => Option.none

/-- A typed shape: enough type information to decode a `TVal`. -/
inductive Shape
  | leaf | unit
  | option (t : Shape) | result (t e : Shape) | verdict (a r : Shape) | list (t : Shape)
  deriving DecidableEq, Repr, Inhabited

def BTy.shape : BTy → Shape
  | .prim _ | .val _ => .leaf
  | .unit => .unit
  | .option t => .option t.shape
  | .result a b => .result a.shape b.shape
  | .verdict a b => .verdict a.shape b.shape
  | .list t => .list t.shape

/-- the payload shape of the variant at index `d` of an enum table -/
def payloadShape (tbl : List (VName × List Nat)) (args : List Shape) (d : Nat) : Option (Option Shape) :=
  (tbl[d]?).map fun v => (v.2.head?).bind fun i => args[i]?

mutual
/-- Decode a transformed value with the variant tables `tbls` (the Rust
    declaration order for `untransform`, the `default_types()` order for what
    a script sees). -/
def decode (tbls : EnumOf → List (VName × List Nat)) : Shape → TVal → Option RVal
  | .leaf, .leaf n => Option.some (.leaf n)
  | .unit, .unit => Option.some .unit
  | .option t, .tagged d p => decodeTagged tbls (tbls .option) [t] d p
  | .result t e, .tagged d p => decodeTagged tbls (tbls .result) [t, e] d p
  | .verdict a r, .tagged d p => decodeTagged tbls (tbls .verdict) [a, r] d p
  | .list t, .list vs => (decodeList tbls t vs).map .list
  | _, _ => Option.none
def decodeTagged (tbls : EnumOf → List (VName × List Nat)) (tbl : List (VName × List Nat))
    (args : List Shape) (d : Nat) : Option TVal → Option RVal
  | Option.none =>
    match nameAt tbl d, payloadShape tbl args d with
    | Option.some n, Option.some Option.none => mkVariant n Option.none
    | _, _ => Option.none
  | Option.some p =>
    match nameAt tbl d, payloadShape tbl args d with
    | Option.some n, Option.some (Option.some sh) => (decode tbls sh p).bind fun v => mkVariant n (Option.some v)
    | _, _ => Option.none
def decodeList (tbls : EnumOf → List (VName × List Nat)) (t : Shape) : List TVal → Option (List RVal)
  | [] => Option.some []
  | v :: vs => (decode tbls t v).bind fun r => (decodeList tbls t vs).map fun rs => r :: rs
end

def rustTables : EnumOf → List (VName × List Nat)
  | .option => rotoOptionVariants | .result => rotoResultVariants | .verdict => verdictVariants
def scriptTables : EnumOf → List (VName × List Nat)
  | .option => defaultOption | .result => defaultResult | .verdict => defaultVerdict

/-- `Value::untransform` -/
def untransform : Shape → TVal → Option RVal := decode rustTables
/-- what a script `match` (or constructor) sees of the same memory -/
def scriptView : Shape → TVal → Option RVal := decode scriptTables

/-- a value has a shape -/
def RVal.hasShape : RVal → Shape → Bool
  | .leaf _, .leaf => true
  | .unit, .unit => true
  | .some v, .option t => v.hasShape t
  | .none, .option _ => true
  | .ok v, .result t _ => v.hasShape t
  | .err v, .result _ e => v.hasShape e
  | .accept v, .verdict a _ => v.hasShape a
  | .reject v, .verdict _ r => v.hasShape r
  | .list vs, .list t => vs.attach.all fun ⟨v, _⟩ => v.hasShape t
  | _, _ => false


/-! ## Placement: where the tag bytes and leaves of a value lie in memory -/

/-- what occupies an offset: a discriminant byte, a leaf value, or a list handle (the elements of a
    list live in the list's own buffer, at a stride both sides take from the element layout) -/
inductive Cell
  | tag (d : Nat)
  | leaf (n : Nat)
  | handle
  deriving DecidableEq, Repr, Inhabited

/-- one enum level: the tag at `b`, the payload (if the variant at discriminant `d` has one) placed
    by `sub i` (the placer of type parameter `i`) at `b + off i` -/
def placeTagged (tbl : List (VName × List Nat)) (d : Nat) (p : Option TVal) (b : Nat)
    (sub : Nat → Option (TVal → Nat → Option (List (Nat × Cell)))) (off : Nat → Option Nat) :
    Option (List (Nat × Cell)) :=
  match tbl[d]?, p with
  | some (_, []), none => some [(b, .tag d)]
  | some (_, [i]), some x =>
    match sub i, off i with
    | some f, some o => (f x (b + o)).map fun cells => (b, .tag d) :: cells
    | _, _ => none
  | _, _ => none

/-- As rustc lays the transformed type out (`#[repr(u8)]`: tag at 0, payload at
    `roundUp 1 align`), in the Rust declaration order of the mirror enums. -/
def rustPlace (h : HostLayouts) : BTy → TVal → Nat → Option (List (Nat × Cell))
  | .prim _, .leaf n, b => some [(b, .leaf n)]
  | .val _, .leaf n, b => some [(b, .leaf n)]
  | .unit, .unit, _ => some []
  | .list _, .list _, b => some [(b, .handle)]
  | .option t, .tagged d p, b =>
    placeTagged rotoOptionVariants d p b
      (fun i => if i = 0 then some (rustPlace h t) else none)
      (fun i => if i = 0 then some (payloadOffset (rustLayout h t)) else none)
  | .result t e, .tagged d p, b =>
    placeTagged rotoResultVariants d p b
      (fun i => if i = 0 then some (rustPlace h t) else if i = 1 then some (rustPlace h e) else none)
      (fun i => if i = 0 then some (payloadOffset (rustLayout h t))
                else if i = 1 then some (payloadOffset (rustLayout h e)) else none)
  | .verdict t e, .tagged d p, b =>
    placeTagged verdictVariants d p b
      (fun i => if i = 0 then some (rustPlace h t) else if i = 1 then some (rustPlace h e) else none)
      (fun i => if i = 0 then some (payloadOffset (rustLayout h t))
                else if i = 1 then some (payloadOffset (rustLayout h e)) else none)
  | _, _, _ => none

/-- the field list of the variant at discriminant `d` of the MIR enum, and the offset of its field 0
    as `Lowerer::location` computes it -/
def rotoFieldOffset (h : HostLayouts) (tbl : List (VName × List Nat)) (args : List MTy) (d : Nat) : Option Nat :=
  ((instVariants .never tbl args)[d]?).bind fun fs => variantFieldOffset h fs 0

/-- As a script addresses the same memory (`SetDiscriminant` / `Discriminant` at offset 0,
    `VariantField(name, 0)` through `layout_of`), in the `default_types()` order. -/
def rotoPlace (h : HostLayouts) : BTy → TVal → Nat → Option (List (Nat × Cell))
  | .prim _, .leaf n, b => some [(b, .leaf n)]
  | .val _, .leaf n, b => some [(b, .leaf n)]
  | .unit, .unit, _ => some []
  | .list _, .list _, b => some [(b, .handle)]
  | .option t, .tagged d p, b =>
    placeTagged defaultOption d p b
      (fun i => if i = 0 then some (rotoPlace h t) else none)
      (fun _ => rotoFieldOffset h defaultOption [toMTy t] d)
  | .result t e, .tagged d p, b =>
    placeTagged defaultResult d p b
      (fun i => if i = 0 then some (rotoPlace h t) else if i = 1 then some (rotoPlace h e) else none)
      (fun _ => rotoFieldOffset h defaultResult [toMTy t, toMTy e] d)
  | .verdict t e, .tagged d p, b =>
    placeTagged defaultVerdict d p b
      (fun i => if i = 0 then some (rotoPlace h t) else if i = 1 then some (rotoPlace h e) else none)
      (fun _ => rotoFieldOffset h defaultVerdict [toMTy t, toMTy e] d)
  | _, _, _ => none

end RotoV.Boundary
