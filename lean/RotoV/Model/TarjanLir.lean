/-
  C14, second layer of the model: the code generator's item loop over the
  *lowered* item list (`Lir.functions`, what `codegen::codegen` really walks),
  generated clone / drop / eq functions included, and the comparison of the
  reference graph the type checker collected with the dependency structure a
  generated program is known to have.

  `codegen` (src/codegen/mod.rs):
    for func in ir { declare_function(func) }            -- all symbols declared
    for item in ir {
      Constant => define_function(item);                   -- `module.functions[f]` for every
                  finalize_definitions().unwrap();         --   Call / FunctionAddress (index panic
                  functions.get(drop_<ty>).unwrap();       --   when undeclared), ConstantAddress of a
                  get_finalized_function(drop id);         --   script constant not yet evaluated is
                  (func_ptr)(constant.ptr);                --   ice!("Constant not defined")
                  roto_constants.insert(name, constant)
      Function => define_function(item)
    }
    module.finalize()

  `finalize_definitions` resolves the relocations of every function defined
  since the last call: a referenced symbol that is declared but has no body yet
  is cranelift-jit's "can't resolve symbol" panic.  `get_finalized_function` on
  a function without a body panics as well.  Positions in the list are the
  names here (`Nat`), `none` is a symbol/constant that is not in the list.

  Core Lean only (linked into the driver).
-/
import RotoV.Model.Tarjan

namespace RotoV.Tarjan

/-- One item of `Lir.functions`. -/
structure LItem where
  isConst : Bool
  /-- constants: position of `::generated::drop_<type_id>` (`none`: not declared) -/
  drop : Option Nat
  /-- `Call { func }` / `FunctionAddress { name }`: position of the symbol (`none`: not declared) -/
  funcs : List (Option Nat)
  /-- `ConstantAddress { name }` of constants that are not the runtime's: position of the
  constant's item (`none`: there is no such item) -/
  consts : List (Option Nat)
  deriving Repr, DecidableEq, Inhabited

structure LState where
  /-- positions whose body has been defined -/
  defined : List Nat
  /-- defined since the last `finalize_definitions` -/
  pending : List Nat
  /-- `roto_constants` (oldest first) -/
  store : List Nat
  /-- every run of an initialiser in time order, with the functions that were
  defined (and finalized) and the constants that had been evaluated at that moment -/
  runs : List (Nat × List Nat × List Nat)
  deriving Repr, DecidableEq

def LState.new : LState := ⟨[], [], [], []⟩

def lFuncs (items : List LItem) (p : Nat) : List (Option Nat) :=
  match items[p]? with
  | some it => it.funcs
  | none => []

def lConsts (items : List LItem) (p : Nat) : List (Option Nat) :=
  match items[p]? with
  | some it => it.consts
  | none => []

def isSomeIn (l : List Nat) : Option Nat → Bool
  | some x => l.contains x
  | none => false

/-- `define_function` -/
def lDefine (st : LState) (i : Nat) (it : LItem) : M LState :=
  if it.funcs.all Option.isSome && it.consts.all (isSomeIn st.store) then
    .ok { st with defined := i :: st.defined, pending := i :: st.pending }
  else .error .panic

/-- `finalize_definitions` -/
def lFinalize (items : List LItem) (st : LState) : M LState :=
  if st.pending.all (fun p => (lFuncs items p).all (isSomeIn st.defined)) then
    .ok { st with pending := [] }
  else .error .panic

/-- one iteration of `for item in ir` -/
def lStep (items : List LItem) (st : LState) (i : Nat) (it : LItem) : M LState := do
  let st ← lDefine st i it
  if it.isConst then
    let st ← lFinalize items st
    if isSomeIn st.defined it.drop then
      .ok { st with store := st.store ++ [i], runs := st.runs ++ [(i, st.defined, st.store)] }
    else .error .panic
  else .ok st

def lLoop (items : List LItem) : Nat → List LItem → LState → M LState
  | _, [], st => .ok st
  | i, it :: rest, st => do
    let st ← lStep items st i it
    lLoop items (i + 1) rest st

/-- the loop, then `module.finalize()` -/
def cgLir (items : List LItem) : M LState := do
  let st ← lLoop items 0 items LState.new
  lFinalize items st

/-- positions of the constants, in list order -/
def constPositions : Nat → List LItem → List Nat
  | _, [] => []
  | i, it :: rest => if it.isConst then i :: constPositions (i + 1) rest else constPositions (i + 1) rest

/-- for diagnostics only: the length of the longest prefix the loop survives -/
def lSurvives (items : List LItem) : Nat → Nat
  | 0 => 0
  | n + 1 =>
    match lLoop items 0 (items.take (n + 1)) LState.new with
    | .ok _ => n + 1
    | .error _ => lSurvives items n

/-! ## the same condition in closed form -/

def optLe (n : Nat) : Option Nat → Bool
  | some q => decide (q ≤ n)
  | none => false

def optLt (n : Nat) : Option Nat → Bool
  | some q => decide (q < n)
  | none => false

def isConstAt (items : List LItem) (k : Nat) : Bool :=
  match items[k]? with
  | some it => it.isConst
  | none => false

/-- what position `i` needs: every symbol is declared; every script constant
read is an *earlier constant* of the list; and for a constant, its drop function
and everything any body up to here refers to sits at or before this position -/
def itemReady (items : List LItem) (i : Nat) (it : LItem) : Bool :=
  it.funcs.all Option.isSome
    && it.consts.all (fun c => match c with | some k => decide (k < i) && isConstAt items k | none => false)
    && (!it.isConst || (optLe i it.drop && (List.range (i + 1)).all fun j => (lFuncs items j).all (optLe i)))

def itemsReady (items : List LItem) : Nat → List LItem → Bool
  | _, [] => true
  | i, it :: rest => itemReady items i it && itemsReady items (i + 1) rest

/-- the static form of "the loop completes": decided positionally, no state -/
def lirReady (items : List LItem) : Bool :=
  itemsReady items 0 items && (List.range items.length).all fun j => (lFuncs items j).all (optLt items.length)

/-! ## statement-level facts of the source this loop rests on (translator target `c14emit`) -/

/-- the groups `Lowerer::program` puts into `Lir.functions` -/
inductive EmitGroup where
  | clones | drops | eqs   -- `generate_clones` / `generate_drops` / `generate_eqs`
  | items                  -- the script's own constants and functions, in compilation order
  deriving DecidableEq, Repr

/-- what an arm of `codegen`'s define loop does -/
inductive CgAct where
  | define        -- `define_function`
  | finalize      -- `finalize_definitions`
  | lookupDrop    -- `functions.get("::generated::drop_<type_id>")`
  | getFinalized  -- `get_finalized_function`
  | run           -- the call through the initialiser's function pointer
  | store         -- `roto_constants.insert`
  deriving DecidableEq, Repr

/-- every generated group is emitted, once, before the script's items: an
initialiser may need any of them, and the first item may be a constant -/
def helpersFirst (o : List EmitGroup) : Bool :=
  match o.idxOf? .items with
  | none => false
  | some k =>
    [EmitGroup.clones, .drops, .eqs].all (fun g => (o.take k).count g == 1 && (o.drop k).count g == 0)
      && o.count .items == 1

/-- what `lStep` models for a constant: define, finalize, fetch the drop
function (looked up, then taken as finalized), fetch the initialiser, run it,
store the constant -/
def modelConstantArm : List CgAct := [.define, .finalize, .lookupDrop, .getFinalized, .getFinalized, .run, .store]

/-- … and for a function -/
def modelFunctionArm : List CgAct := [.define]

/-! ## edge completeness: collected graph against the known dependency structure -/

/-- every edge of `t` (what the program is known to mention) is an edge of `i`
(what the type checker collected) -/
def edgesSubset (t i : Graph) : Bool :=
  t.edges.all fun (u, vs) => vs.all fun v => (i.refs u).contains v

/-- the edges of `t` that `i` lacks -/
def edgesMissing (t i : Graph) : List (Nat × Nat) :=
  t.edges.flatMap fun (u, vs) => (vs.filter fun v => !(i.refs u).contains v).map fun v => (u, v)

end RotoV.Tarjan
