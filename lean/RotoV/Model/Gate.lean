/-
  C04 — the signature gate of the embedding API.

  What is modelled (anchors: src/codegen/check.rs `check_roto_type`,
  `RotoFunc::check_args`; src/codegen/mod.rs `Module::get_function`;
  src/value/mod.rs `TypeRegistry`/`TypeDescription`; src/typechecker/mod.rs
  `force_filtermap_types`):

  * `RustTy` — what the global `TypeRegistry` records about a Rust type that
    implements `Value`: a tree of `TypeDescription`s. In the implementation the
    children are `TypeId`s looked up in the registry; here they are the
    subtrees themselves (trusted: `TypeId` is injective and `Value::resolve`
    registers children before parents, so a lookup of a child never fails).
  * `RotoTy` — what the type checker keeps of a script type, as far as the
    gate can see it (record fields are abstracted to a tag: no arm looks at
    them).
  * `checkRotoType`, hand-written arm by arm. The translator regenerates the
    same function from the source (`RotoV.Gen.Gate.checkRotoType`), and
    `RotoV.C04.generated_gate_eq_model` proves the two equal.
  * `checkArgs`, `getFunction`, `forceFiltermap`.

  Identifiers and Rust type names are lists of code points (`List Nat`), so
  every comparison reduces in the kernel.
-/
namespace RotoV.Gate

/-- an identifier / Rust type name as its list of Unicode code points -/
abbrev Ident := List Nat

/-- for the driver and for `#eval`: the code points of a string -/
def ident (s : String) : Ident := s.toList.map Char.toNat

/-- `id% "u16"` is the literal `[117, 49, 54]` (expanded at parse time, so the
    kernel only ever sees a list of numerals) -/
macro "id%" s:str : term => do
  let cps := s.getString.toList.toArray.map (fun c => Lean.Syntax.mkNumLit (toString c.toNat))
  `([$cps,*])

def Ident.toString (i : Ident) : String := String.ofList (i.map Char.ofNat)

/-- `std::any::TypeId`, as far as the gate distinguishes them: the id of a
    nameable primitive/leaf type (`TypeId::of::<u16>()` ↦ `prim "u16"`), the id
    of some other type (a `Val<T>`, an internal leaf such as `StringBytes`), or
    the id of a constructor application (never compared by the gate). -/
inductive TypeId
  | prim (rustName : Ident)
  | opaque (n : Nat)
  | compound
  deriving DecidableEq, Repr

/-- What the registry records (`Ty.description`, `Ty.type_id`). -/
inductive RustTy
  /-- `TypeDescription::Leaf` with the entry's `type_id` -/
  | leaf (tid : TypeId)
  | option (t : RustTy)
  | result (t e : RustTy)
  | verdict (a r : RustTy)
  | list (t : RustTy)
  /-- `TypeDescription::Val(_)` with the entry's `type_id` (that of `Val<T>`) -/
  | val (tid : TypeId)
  /-- `TypeRegistry::get` answered `None` -/
  | unknown
  deriving DecidableEq, Repr

def RustTy.type_id : RustTy → TypeId
  | .leaf tid => tid
  | .val tid => tid
  | _ => .compound

inductive ScopeRef
  | GLOBAL
  | other (n : Nat)
  deriving DecidableEq, Repr

structure ResolvedName where
  scope : ScopeRef
  ident : Ident
  deriving DecidableEq, Repr

/-- `typechecker::types::Type` as the gate sees it. -/
inductive RotoTy
  /-- `Type::Var`, `Type::ExplicitVar` (unresolved) -/
  | var (n : Nat)
  /-- `Type::IntVar(_, _)` -/
  | intVar
  /-- `Type::FloatVar(_)` -/
  | floatVar
  | unit
  | never
  /-- `Type::Record`, `Type::RecordVar`, `Type::Function`: no Rust counterpart -/
  | record (tag : Nat)
  /-- `Type::Name(TypeName { name, arguments })` -/
  | name (name : ResolvedName) (arguments : List RotoTy)
  deriving Repr

mutual
def RotoTy.beq : RotoTy → RotoTy → Bool
  | .var a, .var b => a == b
  | .intVar, .intVar => true
  | .floatVar, .floatVar => true
  | .unit, .unit => true
  | .never, .never => true
  | .record a, .record b => a == b
  | .name n as, .name m bs => n == m && RotoTy.beqList as bs
  | _, _ => false
def RotoTy.beqList : List RotoTy → List RotoTy → Bool
  | [], [] => true
  | a :: as, b :: bs => RotoTy.beq a b && RotoTy.beqList as bs
  | _, _ => false
end

instance : BEq RotoTy := ⟨RotoTy.beq⟩

/-- `Type::named(ident, arguments)`: a named type in the global scope -/
def RotoTy.named (i : Ident) (arguments : List RotoTy) : RotoTy :=
  .name ⟨.GLOBAL, i⟩ arguments

/-- `typechecker::types::TypeDefinition` (payloads the gate ignores dropped) -/
inductive TypeDefinition
  | enum
  | record
  | runtime (name : ResolvedName) (id : TypeId)
  | primitive
  | list
  deriving DecidableEq, Repr

/-- The part of `TypeInfo` the gate consults. -/
structure TypeInfo where
  /-- `resolve_type_name`: declaration of a type name (an `ice!` for a name
      that is not a type cannot happen for a type-checked signature) -/
  resolve_type_name : ResolvedName → TypeDefinition

/-- `TypeInfo::resolve`: follows the union-find for type variables. Signatures
    reaching the gate are already resolved up to defaulting, so: identity. -/
def TypeInfo.resolve (_ : TypeInfo) (t : RotoTy) : RotoTy := t

/-- Outcome of the recursive comparison: `Ok(())`, `Err(TypeMismatch)`, or the
    `panic!()` of the leaf-name table's fall-through arm. -/
inductive Res
  | ok
  | err
  | panic
  deriving DecidableEq, Repr

/-- `a?; b` -/
def Res.seq : Res → Res → Res
  | .ok, b => b
  | .err, _ => .err
  | .panic, _ => .panic

/-- first-match lookup in a guard table `x if x == K => v` -/
def lookupFirst {α} : List (TypeId × α) → TypeId → Option α
  | [], _ => none
  | (k, v) :: rest, x => if x == k then some v else lookupFirst rest x

/-! ## The hand-written gate (parameterised by the generated tables) -/

structure Tables where
  /-- the `UNIT` constant -/
  unitId : TypeId
  /-- the arms `x if x == K => "name"` in source order -/
  leafNames : List (TypeId × Ident)
  /-- defaults of `IntVar` / `FloatVar` -/
  intDefault : Ident
  floatDefault : Ident
  /-- constructor names tested by the four compound arms -/
  verdictName : Ident
  resultName : Ident
  optionName : Ident
  listName : Ident

def defaulted (tb : Tables) : RotoTy → RotoTy
  | .intVar => .named tb.intDefault []
  | .floatVar => .named tb.floatDefault []
  | t => t

def checkRotoType (tb : Tables) (ti : TypeInfo) : RustTy → RotoTy → Res
  | .unknown, _ => .err
  | .leaf tid, t0 =>
    let t := defaulted tb (ti.resolve t0)
    if tid == tb.unitId then
      (if t == RotoTy.unit then .ok else .err)
    else
      match lookupFirst tb.leafNames tid with
      | some n => if RotoTy.named n [] == t then .ok else .err
      | none => .panic
  | .val tid, t0 =>
    match defaulted tb (ti.resolve t0) with
    | .name n _ =>
      match ti.resolve_type_name n with
      | .runtime _ id => if tid != id then .err else .ok
      | _ => .err
    | _ => .err
  | .verdict ra rr, t0 =>
    match defaulted tb (ti.resolve t0) with
    | .name n args =>
      if n != ⟨.GLOBAL, tb.verdictName⟩ then .err
      else match args with
        | [a, r] => (checkRotoType tb ti ra a).seq (checkRotoType tb ti rr r)
        | _ => .err
    | _ => .err
  | .result rt re, t0 =>
    match defaulted tb (ti.resolve t0) with
    | .name n args =>
      if n != ⟨.GLOBAL, tb.resultName⟩ then .err
      else match args with
        | [t, e] => (checkRotoType tb ti rt t).seq (checkRotoType tb ti re e)
        | _ => .err
    | _ => .err
  | .option r, t0 =>
    match defaulted tb (ti.resolve t0) with
    | .name n args =>
      if n != ⟨.GLOBAL, tb.optionName⟩ then .err
      else match args with
        | [t] => checkRotoType tb ti r t
        | _ => .err
    | _ => .err
  | .list r, t0 =>
    match defaulted tb (ti.resolve t0) with
    | .name n args =>
      if n != ⟨.GLOBAL, tb.listName⟩ then .err
      else match args with
        | [t] => checkRotoType tb ti r t
        | _ => .err
    | _ => .err

/-! ## `check_args`, `get_function` -/

/-- `FunctionRetrievalError` (+ success, + panic) -/
inductive GetRes
  | ok
  | doesNotExist
  | incorrectNumberOfArguments (expected got : Nat)
  /-- `TypeMismatch("argument i", _)`, 1-based -/
  | argMismatch (i : Nat)
  /-- `TypeMismatch("the return value", _)` -/
  | retMismatch
  | panic
  deriving DecidableEq, Repr

/-- A requested Rust function type `fn(A1, …, An) -> R` -/
structure RustFn where
  args : List RustTy
  ret : RustTy
  deriving DecidableEq, Repr

/-- `typechecker::types::Signature` -/
structure Signature where
  parameter_types : List RotoTy
  return_type : RotoTy

/-- the `$( i += 1; check_roto_type_reflect::<$a>(type_info, $a).map_err(…)?; )*` loop -/
def checkEach (gate : RustTy → RotoTy → Res) : Nat → List RustTy → List RotoTy → GetRes
  | i, r :: rs, t :: ts =>
    match gate r t with
    | .ok => checkEach gate (i + 1) rs ts
    | .err => .argMismatch (i + 1)
    | .panic => .panic
  | _, _, _ => .ok

/-- `RotoFunc::check_args` for `fn(A1, …, An) -> R`: the slice pattern
    `let [$($a),*] = ty else { … }` is the arity test. -/
def checkArgs (gate : RustTy → RotoTy → Res) (rust : List RustTy) (ty : List RotoTy) : GetRes :=
  if ty.length != rust.length then
    .incorrectNumberOfArguments ty.length rust.length
  else checkEach gate 0 rust ty

/-- `Module.functions`: mangled name ↦ `FunctionInfo.signature`
    (`none` for generated clone/drop/eq helpers). First entry wins. -/
abbrev Functions := List (Ident × Option Signature)

def lookupFn : Functions → Ident → Option (Option Signature)
  | [], _ => none
  | (k, v) :: rest, n => if n == k then some v else lookupFn rest n

/-- the `pkg.` prefix of `format!("pkg.{name}")` -/
def pkgPrefix : Ident := [112, 107, 103, 46]

/-- `Module::get_function::<F>(name)` -/
def getFunction (gate : RustTy → RotoTy → Res) (fns : Functions) (name : Ident) (f : RustFn) : GetRes :=
  match lookupFn fns (pkgPrefix ++ name) with
  | none => .doesNotExist
  | some none => .doesNotExist
  | some (some sig) =>
    match checkArgs gate f.args sig.parameter_types with
    | .ok =>
      match gate f.ret sig.return_type with
      | .ok => .ok
      | .err => .retMismatch
      | .panic => .panic
    | e => e

/-! ## Histories of requests on one package

  `Module::get_function` takes `&mut self`. What of `self` it touches is read
  off the source by the translator (`Gen.Gate.getFunctionSelfFields`,
  `getFunctionMutFields`, `getFunctionSelfCalls`): the function table and the
  JIT handle are only read; `type_info` is handed to the checkers as `&mut`,
  and they only call `resolve` (union-find path compression, which does not
  change what a type resolves to) and `resolve_type_name`. So the state a
  request leaves behind is the state it found, and the model of a package is
  the pair below, threaded unchanged. -/

/-- `get_function::<F>(name)` -/
structure Request where
  name : Ident
  f : RustFn

structure Package where
  fns : Functions
  ti : TypeInfo

/-- one request: the package afterwards, and the answer -/
def Package.get (gate : TypeInfo → RustTy → RotoTy → Res) (pk : Package) (q : Request) : Package × GetRes :=
  (pk, getFunction (gate pk.ti) pk.fns q.name q.f)

/-- the answers to a history of requests on one package, in order -/
def Package.run (gate : TypeInfo → RustTy → RotoTy → Res) : Package → List Request → List GetRes
  | _, [] => []
  | pk, q :: qs => (pk.get gate q).2 :: Package.run gate (pk.get gate q).1 qs

/-! ## Histories of requests in one process

  Besides the package, `get_function` consults one piece of state that outlives
  the package: the process-wide `TypeRegistry` (`Value::resolve` stores the
  description of every Rust type it meets, `check_roto_type` looks components
  up by `TypeId`). The model's `RustTy` *is* the description tree, i.e. the
  registry's entry for a type is taken to be the structure of that type,
  whatever the process resolved before (tied to the `resolve` bodies by the
  translator target `gatereg`, `RotoV.C04Reg.registry_describes_the_type`). So
  a process is a list of (package, request) and the registry does not appear. -/

/-- the answers to the requests of one process, each made on some package, in order -/
def processRun (gate : TypeInfo → RustTy → RotoTy → Res) : List (Package × Request) → List GetRes
  | [] => []
  | (pk, q) :: rest => (pk.get gate q).2 :: processRun gate rest

/-! ## `force_filtermap_types` -/

/-- What the checker does to the declared signature of a filtermap after type
    checking: the return type is `Verdict[a, r]` (an ICE otherwise); a side
    that is still an unresolved variable is unified with `()`. -/
def forceSide : RotoTy → RotoTy
  | .var _ => .unit
  | t => t

def forceFiltermap : RotoTy → Option RotoTy
  | .name n [a, r] => some (.name n [forceSide a, forceSide r])
  | _ => none

/-- the signature `filter_map_type` + `force_filtermap_types` give a filtermap
    whose accept/reject statements carry payloads of types `a`/`r` (`none` =
    the side is never used, so its variable stays unresolved) -/
def filtermapSignature (verdictName : Ident) (params : List RotoTy) (a r : Option RotoTy) : Option Signature :=
  let side : Option RotoTy → Nat → RotoTy := fun o k => o.getD (.var k)
  match forceFiltermap (.named verdictName [side a 0, side r 1]) with
  | some ret => some ⟨params, ret⟩
  | none => none

/-! ### `force_filtermap_types` as read off the source

  The translator (`Gen.GateSig.forceArms`) lists the statements
  `if let Type::P(x) = self.resolve_type(side) { self.unify(&Type::P(x), &Type::F(), …) }`
  of the function as (side, P, F). Interpreted: -/

/-- does a resolved type match the pattern `Type::P(..)`? -/
def matchesPat (p : Ident) : RotoTy → Bool
  | .var _ => p == id% "Var"
  | .intVar => p == id% "IntVar"
  | .floatVar => p == id% "FloatVar"
  | _ => false

/-- `Type::unit()`, `Type::i32()`, … by constructor-function name -/
def forcedTy (f : Ident) : RotoTy :=
  if f == id% "unit" then .unit else .named f []

/-- what the listed statements do to the side `side` whose resolved type is
    `t` (a unification of a variable with a closed type makes it that type;
    at most one statement can apply, the first that matches) -/
def forceSideBy : List (Ident × Ident × Ident) → Ident → RotoTy → RotoTy
  | [], _, t => t
  | (s, p, f) :: rest, side, t =>
    if s == side && matchesPat p t then forcedTy f else forceSideBy rest side t

/-! ### What a signature is compiled at

  `TypeInfo::convert` (the types the code of a function is generated for) maps
  a literal type variable that nothing constrained to `i32` / `f64` wherever it
  occurs, also below type constructors: `Option[{integer}]` is compiled as
  `Option[i32]`. -/
mutual
def deepDefault (tb : Tables) : RotoTy → RotoTy
  | .intVar => .named tb.intDefault []
  | .floatVar => .named tb.floatDefault []
  | .name n args => .name n (deepDefaultList tb args)
  | t => t
def deepDefaultList (tb : Tables) : List RotoTy → List RotoTy
  | [] => []
  | a :: as => deepDefault tb a :: deepDefaultList tb as
end

/- does a literal type variable occur in the type (at any depth)? -/
mutual
def hasLiteral : RotoTy → Bool
  | .intVar => true
  | .floatVar => true
  | .name _ args => hasLiteralList args
  | _ => false
def hasLiteralList : List RotoTy → Bool
  | [] => false
  | a :: as => hasLiteral a || hasLiteralList as
end

/-- the fixed signature of `test name { … }` (`typechecker/function.rs`) -/
def testSignature (verdictName : Ident) : Signature :=
  ⟨[], .named verdictName [.unit, .unit]⟩


/-! ## Specification: the documented Roto → Rust mapping

  (doc/ "Using Roto from Rust": primitives map to the Rust type of the same
  name, `String` to `RotoString`, `()` to `()`, `Option[T]`/`T?` to
  `Option<T>`, `Result[T, E]` to `Result<T, E>`, `Verdict[A, R]` to
  `Verdict<A, R>`, `List[T]` to `List<T>`, a registered type to the `Val<T>` it
  was registered as; an integer/float literal type that was never constrained
  defaults to `i32`/`f64`.) -/

/-- (Roto name, Rust type name) of the primitive types -/
def docLeaves : List (Ident × Ident) := [
  (id% "bool", id% "bool"), (id% "char", id% "char"),
  (id% "u8", id% "u8"), (id% "u16", id% "u16"), (id% "u32", id% "u32"), (id% "u64", id% "u64"),
  (id% "i8", id% "i8"), (id% "i16", id% "i16"), (id% "i32", id% "i32"), (id% "i64", id% "i64"),
  (id% "f32", id% "f32"), (id% "f64", id% "f64"),
  (id% "Asn", id% "Asn"), (id% "IpAddr", id% "IpAddr"), (id% "Prefix", id% "Prefix"),
  (id% "String", id% "RotoString")]

def docLeaf (i : Ident) : Option Ident := (docLeaves.find? (·.1 == i)).map (·.2)

def nOption : ResolvedName := ⟨.GLOBAL, id% "Option"⟩
def nResult : ResolvedName := ⟨.GLOBAL, id% "Result"⟩
def nVerdict : ResolvedName := ⟨.GLOBAL, id% "Verdict"⟩
def nList : ResolvedName := ⟨.GLOBAL, id% "List"⟩
def rustUnit : RustTy := .leaf (.prim (id% "()"))

/-- The documented mapping. `none`: the Roto type has no Rust counterpart. -/
def mapping (ti : TypeInfo) : RotoTy → Option RustTy
  | .unit => some rustUnit
  | .intVar => some (.leaf (.prim (id% "i32")))
  | .floatVar => some (.leaf (.prim (id% "f64")))
  | .name n [] =>
    match n.scope, docLeaf n.ident with
    | .GLOBAL, some rust => some (.leaf (.prim rust))
    | _, _ =>
      match ti.resolve_type_name n with
      | .runtime _ id => some (.val id)
      | _ => none
  | .name n [a] =>
    if n = nOption then (mapping ti a).map .option
    else if n = nList then (mapping ti a).map .list
    else match ti.resolve_type_name n with
      | .runtime _ id => some (.val id)
      | _ => none
  | .name n [a, b] =>
    if n = nResult then
      match mapping ti a, mapping ti b with
      | some x, some y => some (.result x y)
      | _, _ => none
    else if n = nVerdict then
      match mapping ti a, mapping ti b with
      | some x, some y => some (.verdict x y)
      | _, _ => none
    else match ti.resolve_type_name n with
      | .runtime _ id => some (.val id)
      | _ => none
  | .name n _ =>
    match ti.resolve_type_name n with
    | .runtime _ id => some (.val id)
    | _ => none
  | _ => none

/-- position-wise relation between two lists of equal length -/
inductive Forall2 {α β} (R : α → β → Prop) : List α → List β → Prop
  | nil : Forall2 R [] []
  | cons {a b as bs} : R a b → Forall2 R as bs → Forall2 R (a :: as) (b :: bs)

theorem Forall2.length_eq {α β} {R : α → β → Prop} {as : List α} {bs : List β}
    (h : Forall2 R as bs) : as.length = bs.length := by
  induction h with
  | nil => rfl
  | cons _ _ ih => simp [ih]

theorem forall2_cons {α β} {R : α → β → Prop} {a : α} {b : β} {as : List α} {bs : List β} :
    Forall2 R (a :: as) (b :: bs) ↔ R a b ∧ Forall2 R as bs :=
  ⟨fun h => by cases h; exact ⟨‹_›, ‹_›⟩, fun ⟨h1, h2⟩ => .cons h1 h2⟩

/-- Names the language reserves in the global scope are not host-registered
    types (registration refuses them; see C18). -/
def reserved : List Ident :=
  docLeaves.map (·.1) ++ [id% "Option", id% "Result", id% "Verdict", id% "List"]

def TypeInfo.WF (ti : TypeInfo) : Prop :=
  ∀ i ∈ reserved, ∀ n id, ti.resolve_type_name ⟨.GLOBAL, i⟩ ≠ .runtime n id

end RotoV.Gate
