/-
  Model for C12, part 4 — shared state behind `unsafe impl Send/Sync`.

  The handle types of the API are `Send + Sync` by `unsafe impl` (RawList,
  FunctionDescription, ModuleData, TypedFunc, DynVal).  What makes that sound
  are three declaration-level disciplines; each is a *decision* over facts the
  translator regenerates from the sources (target `c12sharing` →
  `Generated/C12Sharing.lean`), and each has a small abstract machine that says
  what the decision buys (theorems in Props/C12, lemmas in Lemmas/ConcShare):

  1. `lockDiscipline`  every acquisition of the list's lock under which a
     writing `RawList` method runs is exclusive (`Mutex::lock`, `RwLock::write`).
     Machine: `Ev` / `stepLock` / `runLock` — instances acquire, access, release;
     a `Mutex` admits one holder, an `RwLock` one writer or many readers, no
     lock admits everybody.  Nothing in the machine stops a reader-mode holder
     from writing: that it does not is what the discipline says.
  2. `countsAtomic`    no `Rc` (non-atomic count) and no interior mutability
     outside a lock is reachable from a type that is `Send/Sync` by `unsafe impl`,
     and none of these types except `RawList` has a `&self` method that writes.
     Machines: `countRun` (atomic read-modify-write: the count IS the number of
     live handles) and `rcRun` (load / store as separate steps: `Rc`).
  3. `closuresOwn`     a closure built from a `TypedFunc` that uses its raw code
     pointer also captures the field that keeps the module alive, and what it
     captures is `Send + Sync`.  Machine: `ownRun` (owners dropped from any
     thread, calls through the closure).

  Core Lean only.
-/
namespace RotoV.Conc.Share

/-! ## Facts -/

/-- Ownership / synchronisation shape of a Rust type; structs declared in the
crate are inlined by the translator (`own (pair …)`). -/
inductive Shape
  | plain                      -- scalars, `TypeId`, `fn` pointers, `String`
  | raw                        -- `*const T`, `*mut T`, `NonNull<T>`
  | atomic                     -- `AtomicXxx`
  | param                      -- a generic parameter / `PhantomData`
  | ext                        -- a type declared elsewhere (not inspected)
  | dyn (send sync : Bool)     -- `dyn Trait (+ Send) (+ Sync)`
  | arc (t : Shape)
  | rc (t : Shape)
  | mutex (t : Shape)
  | rwlock (t : Shape)
  | cell (t : Shape)           -- `Cell`, `RefCell`, `UnsafeCell`, `OnceCell`
  | own (t : Shape)            -- `Box`, `Vec`, `Option`, `ManuallyDrop`, `&`, arrays, an inlined struct
  | pair (a b : Shape)         -- tuples, maps, consecutive fields
  deriving DecidableEq, Repr

inductive TyName
  | rawList | functionDescription | moduleData | typedFunc | dynVal | other
  deriving DecidableEq, Repr

/-- receiver of a method -/
inductive Recv
  | shared   -- `&self`
  | excl     -- `&mut self`
  | owned    -- `self`
  | none     -- associated function
  deriving DecidableEq, Repr

/-- which acquisition method is called on the list's cell -/
inductive LockMode
  | mutexLock  -- `Mutex::lock` / `try_lock`
  | rwRead     -- `RwLock::read` / `try_read`
  | rwWrite    -- `RwLock::write` / `try_write`
  deriving DecidableEq, Repr

structure UnsafeTy where
  ty : TyName
  /-- which `unsafe impl`s exist -/
  send : Bool
  sync : Bool
  /-- field shapes in declaration order -/
  fields : List Shape
  /-- number of `&self` methods of the type whose body writes (through a raw
      pointer, a field, `drop_fn` …) -/
  sharedWriters : Nat
  deriving Repr

structure RawMethod where
  recv : Recv
  /-- the body writes to the list's memory or fields (write primitive, call
      through `drop_fn` / `clone_fn`, field assignment, or a call of a writing
      method on `self`) -/
  writes : Bool
  deriving Repr

structure LockSite where
  mode : LockMode
  /-- indices (into `Facts.rawMethods`) of the methods invoked on the guard -/
  calls : List Nat
  /-- the guard is borrowed mutably / assigned through -/
  mutBorrow : Bool
  deriving Repr

structure Closure where
  isMove : Bool
  /-- the closure body uses `self` as a whole (e.g. `self.call(..)`) -/
  wholeSelf : Bool
  /-- indices of the fields of `TypedFunc` mentioned as `self.<field>` -/
  fields : List Nat
  deriving Repr

structure Facts where
  edition : Nat
  unsafeTypes : List UnsafeTy
  /-- type of the field of `ErasedList` -/
  listCell : Shape
  rawMethods : List RawMethod
  lockSites : List LockSite
  typedFuncFields : List Shape
  closures : List Closure
  deriving Repr

/-! ## Decisions -/

/-- a non-atomic shared ownership count somewhere in the type -/
def Shape.hasRc : Shape → Bool
  | .rc _ => true
  | .arc t | .mutex t | .rwlock t | .cell t | .own t => t.hasRc
  | .pair a b => a.hasRc || b.hasRc
  | _ => false

/-- interior mutability that is not behind a lock -/
def Shape.bareCell : Shape → Bool
  | .cell _ => true
  | .mutex _ | .rwlock _ => false
  | .arc t | .rc t | .own t => t.bareCell
  | .pair a b => a.bareCell || b.bareCell
  | _ => false

/-- the value holds a shared-ownership count on something (keeps it alive) -/
def Shape.hasArc : Shape → Bool
  | .arc _ => true
  | .rc t | .mutex t | .rwlock t | .cell t | .own t => t.hasArc
  | .pair a b => a.hasArc || b.hasArc
  | _ => false

/-- the value is or contains a raw pointer -/
def Shape.hasRaw : Shape → Bool
  | .raw => true
  | .arc t | .rc t | .mutex t | .rwlock t | .cell t | .own t => t.hasRaw
  | .pair a b => a.hasRaw || b.hasRaw
  | _ => false

/-- auto `Send + Sync` of a shape (as far as the shape decides it) -/
def Shape.autoSendSync : Shape → Bool
  | .plain | .atomic | .param | .ext => true
  | .raw => false
  | .dyn s y => s && y
  | .rc _ => false
  | .cell _ => false
  | .arc t | .mutex t | .rwlock t | .own t => t.autoSendSync
  | .pair a b => a.autoSendSync && b.autoSendSync

inductive LockKind
  | mutex | rwlock | none
  deriving DecidableEq, Repr

/-- the lock behind the shared list -/
def lockKind : Shape → LockKind
  | .arc (.mutex _) => .mutex
  | .arc (.rwlock _) => .rwlock
  | _ => .none

/-- does this acquisition exclude every other holder? -/
def grantsExcl : LockKind → LockMode → Bool
  | .mutex, .mutexLock => true
  | .rwlock, .rwWrite => true
  | _, _ => false

/-- the acquisition method exists for the lock kind -/
def modeValid : LockKind → LockMode → Bool
  | .mutex, .mutexLock => true
  | .rwlock, .rwRead => true
  | .rwlock, .rwWrite => true
  | _, _ => false

def RawMethod.needsExcl (m : RawMethod) : Bool :=
  m.writes || m.recv == .excl || m.recv == .owned

/-- a site under which some mutation of the list can happen (an index outside
the method table counts as a mutation: never a silent default) -/
def siteNeedsExcl (f : Facts) (s : LockSite) : Bool :=
  s.mutBorrow || s.calls.any (fun i => match f.rawMethods[i]? with
    | some m => m.needsExcl
    | none => true)

/-- **decision 1**: every mutation of the shared list happens under an
exclusive lock -/
def lockDiscipline (f : Facts) : Bool :=
  lockKind f.listCell != .none
  && !f.lockSites.isEmpty
  && f.lockSites.all (fun s =>
      modeValid (lockKind f.listCell) s.mode
      && (!siteNeedsExcl f s || grantsExcl (lockKind f.listCell) s.mode))

/-- **decision 2**: what the `unsafe impl`s override never contains a
non-atomic count or unlocked interior mutability -/
def countsAtomic (f : Facts) : Bool :=
  !f.unsafeTypes.isEmpty
  && f.unsafeTypes.all (fun u =>
      u.fields.all (fun s => !s.hasRc && !s.bareCell)
      -- mutation through `&self` exists only in `RawList` (where decision 1 puts it under the lock)
      && (u.ty == .rawList || u.sharedWriters == 0))

/-- indices of the `TypedFunc` fields a closure captures (closures of edition
≥ 2021 capture the places they mention; older ones, and any use of `self` as a
whole, capture all of `self`) -/
def captured (f : Facts) (c : Closure) : List Nat :=
  if c.wholeSelf || f.edition < 2021 then List.range f.typedFuncFields.length else c.fields

def capturedShapes (f : Facts) (c : Closure) : List Shape :=
  (captured f c).filterMap (fun i => f.typedFuncFields[i]?)

/-- the closure owns what it uses: if it holds a raw pointer it also holds a
count on the owner of what the pointer points into -/
def closureOwns (f : Facts) (c : Closure) : Bool :=
  (captured f c).all (fun i => i < f.typedFuncFields.length)
  && (!(capturedShapes f c).any Shape.hasRaw || (capturedShapes f c).any Shape.hasArc)

def typedFuncClaimed (f : Facts) : Bool :=
  f.unsafeTypes.any (fun u => u.ty == .typedFunc && u.send && u.sync)

/-- the closure is still a handle that may cross threads: either it captures
the whole `TypedFunc` (`Send + Sync` by its `unsafe impl`) or everything it
captures is `Send + Sync` by itself -/
def closureSendSync (f : Facts) (c : Closure) : Bool :=
  if c.wholeSelf || f.edition < 2021 then typedFuncClaimed f
  else (capturedShapes f c).all Shape.autoSendSync

/-- **decision 3** -/
def closuresOwn (f : Facts) : Bool :=
  !f.closures.isEmpty && f.closures.all (fun c => closureOwns f c && closureSendSync f c)

def shareJustified (f : Facts) : Bool :=
  lockDiscipline f && countsAtomic f && closuresOwn f

/-! ## Machine 1: a lock with many instances -/

section Lock
variable {ι : Type} [DecidableEq ι]

/-- events of operation instances (one instance = one call of a list method
from some thread) on one shared list -/
inductive Ev (ι : Type)
  | acq (i : ι)
  | rel (i : ι)
  | acc (i : ι) (write : Bool)
  deriving Repr

def Ev.inst : Ev ι → ι
  | .acq i | .rel i | .acc i _ => i

/-- may instance `i` (requesting `mode i`) get the lock while `H` hold it? -/
def canAcq (k : LockKind) (mode : ι → LockMode) (H : List ι) (i : ι) : Bool :=
  match k with
  | .none => true
  | .mutex => H.isEmpty
  | .rwlock => if mode i == .rwWrite then H.isEmpty else H.all (fun h => mode h != .rwWrite)

/-- one event; `none` = the event cannot happen in this state (the lock blocks
the acquisition; only holders access and release) -/
def stepLock (k : LockKind) (mode : ι → LockMode) (H : List ι) : Ev ι → Option (List ι)
  | .acq i => if !H.contains i && canAcq k mode H i then some (i :: H) else none
  | .rel i => if H.contains i then some (H.erase i) else none
  | .acc i _ => if H.contains i then some H else none

/-- holders after a trace -/
def runLock (k : LockKind) (mode : ι → LockMode) : List ι → List (Ev ι) → Option (List ι)
  | H, [] => some H
  | H, e :: rest =>
    match stepLock k mode H e with
    | some H' => runLock k mode H' rest
    | none => none

end Lock

/-- micro-steps of list operations on a concrete array (for witnesses): a swap
is two loads and two stores, exactly as `ptr::swap_nonoverlapping` is not one
atomic action -/
inductive Micro
  | acq (i : Nat)
  | rel (i : Nat)
  | load (i : Nat) (slot : Nat) (idx : Nat)   -- tmp[i][slot] := arr[idx]
  | store (i : Nat) (idx : Nat) (slot : Nat)  -- arr[idx] := tmp[i][slot]
  deriving DecidableEq, Repr

def Micro.toEv : Micro → Ev Nat
  | .acq i => .acq i
  | .rel i => .rel i
  | .load i _ _ => .acc i false
  | .store i _ _ => .acc i true

/-- array and per-instance temporaries `(instance, slot, value)` -/
def execMicro : List Nat × List (Nat × Nat × Nat) → List Micro → List Nat
  | (arr, _), [] => arr
  | (arr, tmp), .acq _ :: rest => execMicro (arr, tmp) rest
  | (arr, tmp), .rel _ :: rest => execMicro (arr, tmp) rest
  | (arr, tmp), .load i slot idx :: rest => execMicro (arr, (i, slot, arr.getD idx 0) :: tmp) rest
  | (arr, tmp), .store i idx slot :: rest =>
      let v := match tmp.find? (fun t => t.1 == i && t.2.1 == slot) with
        | some t => t.2.2
        | none => 0
      execMicro (arr.set idx v, tmp) rest

/-- the program of `swap(a, b)` by instance `i` -/
def swapProg (i a b : Nat) : List Micro :=
  [.acq i, .load i 0 a, .load i 1 b, .store i a 1, .store i b 0, .rel i]

def projMicro (i : Nat) (tr : List Micro) : List Micro :=
  tr.filter (fun m => (m.toEv).inst == i)

/-! ## Machine 2: ownership counts -/

inductive CountEv
  | clone
  | drop
  deriving DecidableEq, Repr

/-- Atomic read-modify-write counts (`Arc`): the events of all threads form one
sequence; every event is issued through a live handle, so an event at count 0
cannot happen (`none`). Result: (count, number of times the payload was freed). -/
def countRun : Nat × Nat → List CountEv → Option (Nat × Nat)
  | s, [] => some s
  | (0, _), _ :: _ => none
  | (n + 1, fr), .clone :: rest => countRun (n + 2, fr) rest
  | (n + 1, fr), .drop :: rest => countRun (n, if n = 0 then fr + 1 else fr) rest

def clones : List CountEv → Nat
  | [] => 0
  | .clone :: r => clones r + 1
  | .drop :: r => clones r

def drops : List CountEv → Nat
  | [] => 0
  | .clone :: r => drops r
  | .drop :: r => drops r + 1

/-- Non-atomic counts (`Rc`): load and store are separate steps of a thread. -/
inductive RcOp
  | ld       -- tmp := count
  | stInc    -- count := tmp + 1   (a handle comes to life)
  | stDec    -- count := tmp - 1   (a handle dies); frees the payload when the stored value is 0
  deriving DecidableEq, Repr

structure RcSt where
  count : Nat
  /-- ghost: the true number of live handles -/
  live : Nat
  tmp : List (Nat × Nat)
  frees : Nat
  /-- the payload was freed while a handle was still alive -/
  freedWhileLive : Bool
  deriving DecidableEq, Repr

def RcSt.tmpOf (s : RcSt) (t : Nat) : Nat :=
  match s.tmp.find? (fun p => p.1 == t) with
  | some p => p.2
  | none => 0

def rcStep (s : RcSt) (t : Nat) : RcOp → RcSt
  | .ld => { s with tmp := (t, s.count) :: s.tmp }
  | .stInc => { s with count := s.tmpOf t + 1, live := s.live + 1 }
  | .stDec =>
    let c := s.tmpOf t - 1
    { s with count := c, live := s.live - 1,
             frees := if c = 0 then s.frees + 1 else s.frees,
             freedWhileLive := s.freedWhileLive || (c == 0 && s.live - 1 != 0) }

def rcRun (s : RcSt) : List (Nat × RcOp) → RcSt
  | [] => s
  | (t, op) :: rest => rcRun (rcStep s t op) rest

/-! ## Machine 3: owners of a module and a closure derived from a handle -/

inductive OwnEv
  | dropOwner (o : Nat)   -- some thread drops the package / a handle / a clone
  | call                  -- the closure is called
  deriving DecidableEq, Repr

/-- `closureOwns`: the closure holds a count on the module. The module is freed
when the last owner is gone. Returns `false` when some call ran after the free. -/
def ownRun (closureOwns : Bool) : List Nat → List OwnEv → Bool
  | _, [] => true
  | owners, .dropOwner o :: rest => ownRun closureOwns (owners.erase o) rest
  | owners, .call :: rest => (closureOwns || !owners.isEmpty) && ownRun closureOwns owners rest

/-! ## process-global state (generated by target `c12globals`) -/

inductive GlobalKind
  | mutex       -- `Mutex<…>`, possibly inside `LazyLock` / `OnceLock`
  | rwlock
  | atomic
  | immutable   -- no interior mutability: written once before `main` / on first use
  | other       -- `Cell`, `RefCell`, `UnsafeCell`, `Rc`, unknown wrappers
  deriving DecidableEq, Repr

inductive GlobalUse
  | lock | read | write   -- `NAME.lock()`, `NAME.read()`, `NAME.write()`
  | other                 -- anything else done with the name
  deriving DecidableEq, Repr

/-- what a stretch of code does with the table behind a lock-shaped global -/
inductive TableOp
  | lookup   -- `get` / `contains_key` / `entry` / `iter` …: finds out whether a key is present
  | insert   -- `insert` / `push` / `or_insert_with` / `extend` / `set` …: adds an entry
  deriving DecidableEq, Repr

/-- the code of one function from one acquisition of the global to the next one
(or to the end of the function): how it was acquired, the table operations in
source order -/
structure GlobalSection where
  use : GlobalUse
  ops : List TableOp
  deriving Repr

/-- one function that touches a lock-shaped global: its sections in source order -/
structure GlobalFn where
  sections : List GlobalSection
  deriving Repr

structure StaticFact where
  kind : GlobalKind
  isMut : Bool            -- `static mut`
  uses : List GlobalUse   -- every occurrence of the name (lock-shaped statics only)
  /-- every function with an occurrence of the name (lock-shaped statics only) -/
  fns : List GlobalFn := []
  /-- fields with interior mutability (`OnceLock`, `Mutex`, `Cell`, atomics …) INSIDE
  the value the lock protects, crate structs of the declaring file inlined: state of
  an entry that can change after the entry was inserted, without the table's lock -/
  entryCells : Nat := 0
  deriving Repr

/-- what a function does with a `thread_local!` table -/
inductive TlUse
  | lookup   -- finds out whether THIS THREAD's table has a key
  | insert   -- fills this thread's table
  | other    -- anything the translator does not recognise
  deriving DecidableEq, Repr

/-- one function that touches a thread-local table: its operations on it in source
order, and whether after its first lookup it acquires a lock-shaped global (a miss
in the thread's table falls through to the table every thread shares) -/
structure TlFn where
  ops : List TlUse
  sharedAfterLookup : Bool
  deriving Repr

/-- one `static` of a `thread_local!`: every function under src/ that names it -/
structure ThreadLocalFact where
  fns : List TlFn
  deriving Repr

structure GlobalFacts where
  threadLocals : Nat
  statics : List StaticFact
  /-- every `static` declared in a `thread_local!` (round 4 of C12: state keyed by the running thread) -/
  threadLocalTables : List ThreadLocalFact := []
  /-- occurrences of the identity of the running thread (`thread::current`, `ThreadId`) under src/:
  state keyed by it is thread-affine without any `thread_local!` -/
  threadIdUses : Nat := 0
  deriving Repr

/-- the mode in which a use of a lock-shaped global acquires it -/
def GlobalUse.mode : GlobalUse → Option LockMode
  | .lock => some .mutexLock
  | .read => some .rwRead
  | .write => some .rwWrite
  | .other => none

def GlobalKind.lockKind : GlobalKind → LockKind
  | .mutex => .mutex
  | .rwlock => .rwlock
  | _ => .none

/-- the decision: no `static mut`, no unlocked interior mutability in a global,
and every occurrence of a lock-shaped global is an acquisition valid for its
lock (so the data inside is reachable through a guard only); for a `Mutex` every
such acquisition is exclusive -/
def StaticFact.disciplined (s : StaticFact) : Bool :=
  !s.isMut && match s.kind with
    | .atomic | .immutable => true
    | .other => false
    | .mutex | .rwlock =>
      !s.uses.isEmpty && s.uses.all (fun u => match u.mode with
        | some m => modeValid s.kind.lockKind m
        | none => false)

def globalsDisciplined (f : GlobalFacts) : Bool := f.statics.all StaticFact.disciplined

/-- where the Roto name of a registered type comes from when a Rust signature is
turned into Roto types -/
inductive NameSource
  | ownList      -- the runtime's own list of registered types (`runtime.get_runtime_type`)
  | foreign      -- anything else: the process-global registry entry, a cache
  | structural   -- the arm builds the type from its parts, no name involved
  deriving DecidableEq, Repr

/-- the decision: every name comes from the runtime's own list (and some arm does
resolve a name, so the fact is about something) -/
def namesPerRuntime (l : List NameSource) : Bool := l.all (fun s => s != .foreign) && l.contains .ownList

/-- a lookup happens before the first insert of a section -/
def lookupBeforeInsert (ops : List TableOp) : Bool :=
  (ops.takeWhile (fun o => o != .insert)).contains .lookup

/-- `looked` = an EARLIER section of the function (the lock was released since)
already looked a key up. A later section that inserts must look up again first
(double-checked get-or-insert): what the earlier lookup found may be stale. -/
def sectionsRecheck : Bool → List GlobalSection → Bool
  | _, [] => true
  | looked, s :: rest =>
    (!(looked && s.ops.contains .insert) || lookupBeforeInsert s.ops)
      && sectionsRecheck (looked || s.ops.contains .lookup) rest

def GlobalFn.rechecks (f : GlobalFn) : Bool := sectionsRecheck false f.sections

/-- the decision about get-or-insert tables: no function inserts on the strength
of a lookup made under an earlier acquisition -/
def globalsRecheck (f : GlobalFacts) : Bool := f.statics.all (fun s => s.fns.all GlobalFn.rechecks)

/-- the decision that makes the inserting section of a get-or-insert ONE atomic
step: every section that inserts was acquired in a mode that excludes everybody else -/
def globalsInsertExclusive (f : GlobalFacts) : Bool :=
  f.statics.all (fun s => s.fns.all (fun fn => fn.sections.all (fun sec =>
    !(sec.ops.contains .insert) || (match sec.use.mode with
      | some m => grantsExcl s.kind.lockKind m
      | none => false))))

/-- the decision about entries: what a process-global table hands out is frozen
once inserted (no cell inside the protected value that a later registration or
compilation could set): one runtime / compilation cannot leave a mark that
another one reads -/
def globalsEntriesFrozen (f : GlobalFacts) : Bool := f.statics.all (fun s => s.entryCells == 0)

/-- the decision about one function: everything it does with the thread's table is
recognised, and if it asks the thread's table it also asks the shared one afterwards -/
def TlFn.fallsThrough (f : TlFn) : Bool :=
  !f.ops.contains .other && (!f.ops.contains .lookup || f.sharedAfterLookup)

/-- the decision about thread-local state: every thread-local table is a PURE CACHE —
no function answers from the running thread's table alone, and nothing asks which thread is running -/
def threadLocalsPureCaches (f : GlobalFacts) : Bool :=
  f.threadIdUses == 0 && f.threadLocalTables.all (fun t => t.fns.all TlFn.fallsThrough)

/-- what a lookup function answers on thread `t` for key `k`: `shared` is the table of
the process (entries are frozen once inserted), `cache t` the table of thread `t` -/
def tlGet (fn : TlFn) (shared : Nat → Option Nat) (cache : Nat → Nat → Option Nat) (t k : Nat) : Option Nat :=
  if fn.ops.contains .lookup then
    match cache t k with
    | some v => some v
    | none => if fn.sharedAfterLookup then shared k else none
  else shared k

/-- a thread's table holds only copies of entries of the shared table (it is filled
from there: `store` inserts into the shared table first) -/
def CacheCoherent (shared : Nat → Option Nat) (cache : Nat → Nat → Option Nat) : Prop :=
  ∀ t k v, cache t k = some v → shared k = some v

end RotoV.Conc.Share
