/-
  MIR as dumped by the hook `roto::verif_hooks::c03` (after dead-code
  elimination), its token-level ownership semantics, and the certificate-based
  ownership checker `ownCheck` (DESIGN.md §4 C03, §10).

  Everything is numbered densely per item: variables, types, labels.  A type
  carries the `needs_drop` bit computed by the real LIR lowerer and its shape
  (opaque leaf / record / enum) so that partially built aggregates can be
  tracked.  Core Lean only; every function is structurally recursive so that
  `decide` can evaluate it on concrete dumps.
-/
namespace RotoV.Mir

/-! ## Syntax -/

inductive Proj where
  | fld (i : Nat)
  | vfld (v i : Nat)
  deriving DecidableEq, Repr, Inhabited

structure Place where
  var : Nat
  proj : List Proj
  deriving DecidableEq, Repr, Inhabited

inductive Shape where
  | opaque
  | record (fs : List Nat)
  | enum (vs : List (List Nat))
  deriving DecidableEq, Repr, Inhabited

structure TyDef where
  nd : Bool
  shape : Shape
  deriving DecidableEq, Repr, Inhabited

inductive Val where
  /-- literal (`String` literals create a value) -/
  | lit
  /-- `load_constant` / `load_context`: clone of an always-initialised source -/
  | global
  | clone (p : Place)
  | move (v : Nat)
  /-- `not`, `negate`, binary operators: operands are read, not consumed -/
  | read (vs : List Nat)
  /-- script or runtime call: `(argument variable, parameter type)` -/
  | call (args : List (Nat × Nat))
  | disc (v : Nat)
  deriving DecidableEq, Repr, Inhabited

inductive Instr where
  | assign (to : Place) (ty : Nat) (v : Val)
  | setDisc (v ty variant : Nat)
  | drop (p : Place) (ty : Nat)
  deriving DecidableEq, Repr, Inhabited

inductive Term where
  | jump (l : Nat)
  | switch (v : Nat) (brs : List (Nat × Nat)) (dflt : Option Nat)
  | ret (v : Nat)
  deriving DecidableEq, Repr, Inhabited

structure Block where
  label : Nat
  instrs : List Instr
  term : Term
  deriving DecidableEq, Repr, Inhabited

structure Item where
  types : List TyDef
  /-- type id of every variable (an out-of-range id = type unknown/conflicting) -/
  vars : List Nat
  params : List Nat
  retTy : Nat
  blocks : List Block
  deriving DecidableEq, Repr, Inhabited

/-! ## Errors -/

inductive Err where
  | doubleDrop
  | dropUninit
  | useAfterDrop
  | useUninit
  | leak
  /-- structurally unexpected MIR (unknown type, missing label, unsupported place) -/
  | malformed
  deriving DecidableEq, Repr, Inhabited

abbrev Res (α : Type) := Except Err α

/-! ## Type-table helpers -/

def Item.nd (it : Item) (ty : Nat) : Res Bool :=
  match it.types[ty]? with
  | some d => .ok d.nd
  | none => .error .malformed

def Item.varTy (it : Item) (v : Nat) : Res Nat :=
  match it.vars[v]? with
  | some t => .ok t
  | none => .error .malformed

def Item.tracked (it : Item) (v : Nat) : Res Bool := do
  let ty ← it.varTy v
  it.nd ty

def Item.ndB (it : Item) (ty : Nat) : Bool :=
  match it.types[ty]? with
  | some d => d.nd
  | none => false

/-- indices of the droppable fields among `fs` -/
def Item.ndIdx (it : Item) (fs : List Nat) : List Nat :=
  (List.range fs.length).filter (fun i => it.ndB (fs.getD i 0))

/-- the droppable children of a record (`d = none`) or of variant `d = some k` -/
def Item.children (it : Item) (ty : Nat) (d : Option Nat) : Res (List Nat) :=
  match it.types[ty]?, d with
  | some ⟨_, .record fs⟩, none => .ok (it.ndIdx fs)
  | some ⟨_, .enum vs⟩, some k =>
    match vs[k]? with
    | some fs => .ok (it.ndIdx fs)
    | none => .error .malformed
  | _, _ => .error .malformed

/-- does a value of type `ty` whose active variant is `k` hold any host value?
    (Always for non-enum droppable types; for enums only if the variant has a
    droppable field.  Out-of-range variants hold nothing.) -/
def Item.hasTok (it : Item) (ty : Nat) (k : Nat) : Bool :=
  match it.types[ty]? with
  | some ⟨_, .enum vs⟩ => !(it.ndIdx (vs.getD k [])).isEmpty
  | _ => true

def Item.nVariants (it : Item) (ty : Nat) : Nat :=
  match it.types[ty]? with
  | some ⟨_, .enum vs⟩ => vs.length
  | _ => 0

/-- a path of record-field projections below type `ty` ending in a droppable type -/
def Item.pathOk (it : Item) : Nat → List Proj → Bool
  | ty, [] => it.ndB ty
  | ty, .fld i :: rest =>
    match it.types[ty]? with
    | some ⟨_, .record fs⟩ =>
      match fs[i]? with
      | some t => it.pathOk t rest
      | none => false
    | _ => false
  | _, .vfld _ _ :: _ => false

def insertSorted (i : Nat) : List Nat → List Nat
  | [] => [i]
  | j :: js => if i ≤ j then i :: j :: js else j :: insertSorted i js

def insertSortedP (i : Nat) (t : Option Nat) : List (Nat × Option Nat) → List (Nat × Option Nat)
  | [] => [(i, t)]
  | (j, u) :: js => if i ≤ j then (i, t) :: (j, u) :: js else (j, u) :: insertSortedP i t js

/-! ## Abstract (static) ownership state: one status per variable -/

inductive ASt where
  | un
  | whole
  /-- holds a value that is known to contain no host value (an enum whose
      active variant has no droppable field): may be dropped, used or forgotten -/
  | empty
  /-- aggregate under construction: record (`d = none`) or variant `d = some k`,
      with the droppable children in `fs` initialised -/
  | part (d : Option Nat) (fs : List Nat)
  /-- whole except for the sub-place `path`, which was dropped and must be
      re-initialised by the next use -/
  | holed (path : List Proj)
  deriving DecidableEq, Repr, Inhabited

abbrev AState := List ASt

def aget (a : AState) (v : Nat) : ASt := a.getD v .un

def aset (a : AState) (v : Nat) (s : ASt) : Res AState :=
  if v < a.length then .ok (a.set v s) else .error .malformed

def useErrA : ASt → Err
  | .un => .useUninit
  | _ => .useUninit

/-- operand read: a tracked variable must be whole -/
def aRead (it : Item) (a : AState) (v : Nat) : Res Unit := do
  if (← it.tracked v) then
    match aget a v with
    | .whole => .ok ()
    | .empty => .ok ()
    | s => .error (useErrA s)
  else .ok ()

def aReads (it : Item) (a : AState) : List Nat → Res Unit
  | [] => .ok ()
  | v :: vs => do aRead it a v; aReads it a vs

/-- consume a tracked variable of type `ty` (move source, call argument) -/
def aTake (it : Item) (a : AState) (v : Nat) (ty : Nat) : Res AState := do
  if (← it.varTy v) ≠ ty then .error .malformed
  else match aget a v with
    | .whole => aset a v .un
    | .empty => aset a v .un
    | s => .error (useErrA s)

def aArgs (it : Item) (a : AState) : List (Nat × Nat) → Res AState
  | [] => .ok a
  | (v, pty) :: rest => do
    if (← it.nd pty) then
      let a' ← aTake it a v pty
      aArgs it a' rest
    else aArgs it a rest

/-- effect of evaluating the right-hand side; `ndt` = the assigned type is droppable -/
def aSource (it : Item) (a : AState) (ty : Nat) (ndt : Bool) : Val → Res AState
  | .lit => .ok a
  | .global => .ok a
  | .clone p =>
    if ndt then do
      if (← it.tracked p.var) then
        match aget a p.var with
        | .whole => .ok a
        | .empty => .ok a
        | s => .error (useErrA s)
      else .error .malformed
    else .ok a
  | .move w => if ndt then aTake it a w ty else .ok a
  | .read vs => if ndt then .error .malformed else do aReads it a vs; .ok a
  | .disc x => if ndt then .error .malformed else do aRead it a x; .ok a
  | .call args => aArgs it a args

/-- add child `i` to an aggregate under construction -/
def aChild (it : Item) (a : AState) (v : Nat) (d : Option Nat) (fs : List Nat) (i : Nat) :
    Res AState := do
  let ch ← it.children (← it.varTy v) d
  if i ∈ ch ∧ i ∉ fs then
    let fs' := insertSorted i fs
    if ch.all (fun j => j ∈ fs') then aset a v .whole else aset a v (.part d fs')
  else .error (if i ∈ fs then .leak else .malformed)

/-- write a droppable value of type `ty` into place `to` -/
def aWrite (it : Item) (a : AState) (to : Place) (ty : Nat) : Res AState :=
  match to.proj with
  | [] => do
    if (← it.varTy to.var) ≠ ty then .error .malformed
    else match aget a to.var with
      | .un => aset a to.var .whole
      | .empty => aset a to.var .whole
      | _ => .error .leak
  | [c] => do
    if !(← it.tracked to.var) then .error .malformed
    else match aget a to.var, c with
      | .holed p, _ => if p = [c] then aset a to.var .whole else .error .malformed
      | .un, .fld i => aChild it a to.var none [] i
      | .part none fs, .fld i => aChild it a to.var none fs i
      | .part (some k) fs, .vfld k' i =>
        if k = k' then aChild it a to.var (some k) fs i else .error .malformed
      | .whole, _ => .error .leak
      | _, _ => .error .malformed
  | p => do
    if !(← it.tracked to.var) then .error .malformed
    else match aget a to.var with
      | .holed q => if q = p then aset a to.var .whole else .error .malformed
      | _ => .error .malformed

def aInstr (it : Item) (a : AState) : Instr → Res AState
  | .assign to ty v => do
    let ndt ← it.nd ty
    let a1 ← aSource it a ty ndt v
    if ndt then aWrite it a1 to ty
    else if to.proj = [] then
      if (← it.tracked to.var) then .error .malformed else .ok a1
    else .ok a1
  | .setDisc v ty k => do
    if (← it.nd ty) then
      if (← it.varTy v) ≠ ty then .error .malformed
      else
        let go : Res AState := do
          let ch ← it.children ty (some k)
          if ch = [] then aset a v .whole else aset a v (.part (some k) [])
        match aget a v with
        | .un => go
        | .empty => go
        | _ => .error .leak
    else .ok a
  | .drop p ty => do
    if (← it.nd ty) then
      match p.proj with
      | [] =>
        if (← it.varTy p.var) ≠ ty then .error .malformed
        else match aget a p.var with
          | .whole => aset a p.var .un
          | .empty => aset a p.var .un
          | _ => .error .dropUninit
      | path => do
        let vt ← it.varTy p.var
        if it.pathOk vt path ∧ it.ndB vt then
          match aget a p.var with
          | .whole => aset a p.var (.holed path)
          | _ => .error .dropUninit
        else .error .malformed
    else .ok a

def aRun (it : Item) (a : AState) : List Instr → Res AState
  | [] => .ok a
  | i :: is => do
    let a' ← aInstr it a i
    aRun it a' is

/-- at `return v` nothing but the returned value may be owned -/
def aLeakFree (a : AState) (v : Option Nat) : Bool :=
  (List.range a.length).all (fun w => some w = v || aget a w == .un || aget a w == .empty)

def aRet (it : Item) (a : AState) (v : Nat) : Res Unit := do
  if (← it.nd it.retTy) then
    if (← it.varTy v) ≠ it.retTy then .error .malformed
    else match aget a v with
      | .whole => if aLeakFree a (some v) then .ok () else .error .leak
      | .empty => if aLeakFree a (some v) then .ok () else .error .leak
      | s => .error (useErrA s)
  else if aLeakFree a none then .ok () else .error .leak

/-- the variable a discriminant switch examines: the block's last instruction
    is `d = discriminant(x)` and the terminator switches on `d` -/
def discOf (is : List Instr) (d : Nat) : Option Nat :=
  match is.getLast? with
  | some (.assign ⟨d', []⟩ _ (.disc x)) => if d' = d then some x else none
  | _ => none

/-- every variant value that no branch lists holds no host value -/
def unlistedTrivial (it : Item) (ty : Nat) (brs : List (Nat × Nat)) : Bool :=
  (List.range (it.nVariants ty)).all
    (fun k => (brs.map (·.1)).contains k || !it.hasTok ty k)

/-- state on the explicit default edge of a switch: an examined enum value all
    of whose remaining variants hold nothing is known to own nothing -/
def aDefaultEdge (it : Item) (a : AState) (is : List Instr) (d : Nat)
    (brs : List (Nat × Nat)) : AState :=
  match discOf is d with
  | some x =>
    match it.tracked x, it.varTy x, aget a x with
    | .ok true, .ok ty, .whole =>
      if it.nVariants ty > 0 ∧ unlistedTrivial it ty brs then a.set x .empty else a
    | _, _, _ => a
  | none => a

/-! ## Certificates and the checker -/

abbrev Cert := List (Nat × AState)

def certAt (cert : Cert) (l : Nat) : Option AState :=
  match cert.find? (fun p => p.1 = l) with
  | some p => some p.2
  | none => none

def Item.findBlock (it : Item) (l : Nat) : Option Block :=
  it.blocks.find? (fun b => b.label = l)

/-- `s ⊑ s'`: `s'` knows less than `s` (an empty value is a whole value, and it
    may also be forgotten) -/
def leSt (s s' : ASt) : Bool :=
  s == s' || (s == .empty && (s' == .whole || s' == .un))

def leA : AState → AState → Bool
  | [], [] => true
  | s :: a, s' :: b => leSt s s' && leA a b
  | _, _ => false

/-- the edge into `l` is justified: `l` exists and its certified entry state is
    implied by `a` -/
def edgeOk (it : Item) (cert : Cert) (a : AState) (l : Nat) : Bool :=
  (it.findBlock l).isSome &&
  match certAt cert l with
  | some a' => leA a a'
  | none => false

def checkTerm (it : Item) (cert : Cert) (b : Block) (a : AState) : Bool :=
  match b.term with
  | .jump l => edgeOk it cert a l
  | .switch d brs dflt =>
    (match it.tracked d with | .ok false => true | _ => false) &&
    brs.all (fun p => edgeOk it cert a p.2) &&
    (match dflt with
     | some l => edgeOk it cert (aDefaultEdge it a b.instrs d brs) l
     | none => !brs.isEmpty)
  | .ret v => match aRet it a v with | .ok _ => true | .error _ => false

def checkBlock (it : Item) (cert : Cert) (b : Block) : Bool :=
  match certAt cert b.label with
  | none => false
  | some a =>
    a.length == it.vars.length &&
    match aRun it a b.instrs with
    | .ok a1 => checkTerm it cert b a1
    | .error _ => false

def Item.isOwnedParam (it : Item) (v : Nat) : Bool :=
  it.params.contains v && (match it.tracked v with | .ok true => true | _ => false)

def initA (it : Item) : AState :=
  (List.range it.vars.length).map (fun v => if it.isOwnedParam v then .whole else .un)

def entryLabel (it : Item) : Nat :=
  match it.blocks with
  | b :: _ => b.label
  | [] => 0

/-- The verified checker: `cert` proposes the ownership state at every block
    entry; every block is validated against it. -/
def ownCheck (it : Item) (cert : Cert) : Bool :=
  !it.blocks.isEmpty &&
  edgeOk it cert (initA it) (entryLabel it) &&
  it.blocks.all (checkBlock it cert)

/-! ## Concrete token-level semantics -/

inductive CSt where
  /-- never written -/
  | un
  /-- moved out or dropped; the bits are stale -/
  | gone
  /-- holds a value whose active variant is `k`; `t` is the token standing for
      the host values inside (`none` if it holds none) -/
  | whole (t : Option Nat) (k : Nat)
  | part (d : Option Nat) (fs : List (Nat × Option Nat))
  | holed (t : Option Nat) (k : Nat) (path : List Proj)
  deriving DecidableEq, Repr, Inhabited

structure CState where
  vs : List CSt
  /-- known scalar values (discriminant temporaries) -/
  sc : List (Nat × Nat)
  /-- next fresh token -/
  next : Nat
  /-- instruction clock, indexes the oracle -/
  clk : Nat
  deriving Repr, Inhabited

/-- the oracle resolves what the ownership semantics does not determine: the
    active variant of values that come from outside, and switch targets on
    unknown scalars -/
abbrev Oracle := Nat → Nat

def cget (c : CState) (v : Nat) : CSt := c.vs.getD v .un

def cset (c : CState) (v : Nat) (s : CSt) : Res CState :=
  if v < c.vs.length then .ok { c with vs := c.vs.set v s } else .error .malformed

def CSt.owns : CSt → Bool
  | .whole (some _) _ => true
  | .part _ fs => fs.any (fun p => p.2.isSome)
  | .holed (some _) _ _ => true
  | _ => false

/-- the variable's storage may not be overwritten: it holds a token, is under
    construction, or has a hole -/
def CSt.busy : CSt → Bool
  | .whole (some _) _ => true
  | .part _ _ => true
  | .holed _ _ _ => true
  | _ => false

def useErrC : CSt → Err
  | .gone => .useAfterDrop
  | _ => .useUninit

def dropErrC : CSt → Err
  | .gone => .doubleDrop
  | _ => .dropUninit

def cRead (it : Item) (c : CState) (v : Nat) : Res Unit := do
  if (← it.tracked v) then
    match cget c v with
    | .whole _ _ => .ok ()
    | s => .error (useErrC s)
  else .ok ()

def cReads (it : Item) (c : CState) : List Nat → Res Unit
  | [] => .ok ()
  | v :: vs => do cRead it c v; cReads it c vs

def cTake (it : Item) (c : CState) (v : Nat) (ty : Nat) : Res (CState × Option Nat × Nat) := do
  if (← it.varTy v) ≠ ty then .error .malformed
  else match cget c v with
    | .whole t k => do let c' ← cset c v .gone; .ok (c', t, k)
    | s => .error (useErrC s)

def cArgs (it : Item) (c : CState) : List (Nat × Nat) → Res CState
  | [] => .ok c
  | (v, pty) :: rest => do
    if (← it.nd pty) then
      let (c', _, _) ← cTake it c v pty
      cArgs it c' rest
    else cArgs it c rest

/-- a freshly created value of type `ty` with variant `k` -/
def cFresh (it : Item) (c : CState) (ty : Nat) (k : Nat) : CState × Option Nat × Nat :=
  if it.hasTok ty k then ({ c with next := c.next + 1 }, some c.next, k) else (c, none, k)

/-- evaluate the right-hand side: new state and, for droppable types, the value -/
def cSource (it : Item) (ω : Oracle) (c : CState) (ty : Nat) (ndt : Bool) :
    Val → Res (CState × Option Nat × Nat)
  | .lit => .ok (if ndt then cFresh it c ty (ω c.clk) else (c, none, 0))
  | .global => .ok (if ndt then cFresh it c ty (ω c.clk) else (c, none, 0))
  | .clone p =>
    if ndt then do
      if (← it.tracked p.var) then
        match cget c p.var with
        | .whole _ k => .ok (cFresh it c ty (if p.proj = [] then k else ω c.clk))
        | s => .error (useErrC s)
      else .error .malformed
    else .ok (c, none, 0)
  | .move w => if ndt then cTake it c w ty else .ok (c, none, 0)
  | .read vs => if ndt then .error .malformed else do cReads it c vs; .ok (c, none, 0)
  | .disc x => if ndt then .error .malformed else do cRead it c x; .ok (c, none, 0)
  | .call args => do
    let c' ← cArgs it c args
    .ok (if ndt then cFresh it c' ty (ω c.clk) else (c', none, 0))

def cChild (it : Item) (c : CState) (v : Nat) (d : Option Nat) (fs : List (Nat × Option Nat))
    (i : Nat) (t : Option Nat) : Res CState := do
  let ch ← it.children (← it.varTy v) d
  if i ∈ ch ∧ i ∉ fs.map (·.1) then
    let fs' := insertSorted i (fs.map (·.1))
    if ch.all (fun j => j ∈ fs') then
      cset { c with next := c.next + 1 } v (.whole (some c.next) (d.getD 0))
    else cset c v (.part d (insertSortedP i t fs))
  else .error (if i ∈ fs.map (·.1) then .leak else .malformed)

def cWrite (it : Item) (c : CState) (to : Place) (ty : Nat) (t : Option Nat) (k : Nat) :
    Res CState :=
  match to.proj with
  | [] => do
    if (← it.varTy to.var) ≠ ty then .error .malformed
    else if (cget c to.var).busy then .error .leak
    else cset c to.var (.whole t k)
  | [pc] => do
    if !(← it.tracked to.var) then .error .malformed
    else match cget c to.var, pc with
      | .holed t0 k0 p, _ => if p = [pc] then cset c to.var (.whole t0 k0) else .error .malformed
      | .un, .fld i => cChild it c to.var none [] i t
      | .gone, .fld i => cChild it c to.var none [] i t
      | .part none fs, .fld i => cChild it c to.var none fs i t
      | .part (some k1) fs, .vfld k' i =>
        if k1 = k' then cChild it c to.var (some k1) fs i t else .error .malformed
      | .whole (some _) _, _ => .error .leak
      | .whole none _, .fld i => cChild it c to.var none [] i t
      | _, _ => .error .malformed
  | p => do
    if !(← it.tracked to.var) then .error .malformed
    else match cget c to.var with
      | .holed t0 k0 q => if q = p then cset c to.var (.whole t0 k0) else .error .malformed
      | _ => .error .malformed

def scErase (sc : List (Nat × Nat)) (v : Nat) : List (Nat × Nat) :=
  sc.filter (fun p => p.1 ≠ v)

def tick (c : CState) : CState := { c with clk := c.clk + 1 }

def cInstr (it : Item) (ω : Oracle) (c : CState) : Instr → Res CState
  | .assign to ty v => do
    let ndt ← it.nd ty
    let (c1, t, k) ← cSource it ω c ty ndt v
    if ndt then do
      let c2 ← cWrite it c1 to ty t k
      .ok (tick c2)
    else if to.proj = [] then
      if (← it.tracked to.var) then .error .malformed
      else
        -- a scalar variable is overwritten; remember discriminants
        let sc' := scErase c1.sc to.var
        match v with
        | .disc x =>
          match cget c1 x with
          | .whole _ kx => .ok (tick { c1 with sc := (to.var, kx) :: sc' })
          | _ => .ok (tick { c1 with sc := sc' })
        | _ => .ok (tick { c1 with sc := sc' })
    else .ok (tick c1)
  | .setDisc v ty k => do
    if (← it.nd ty) then
      if (← it.varTy v) ≠ ty then .error .malformed
      else if (cget c v).busy then .error .leak
      else do
        let ch ← it.children ty (some k)
        let c' ← if ch = [] then cset c v (.whole none k) else cset c v (.part (some k) [])
        .ok (tick c')
    else .ok (tick c)
  | .drop p ty => do
    if (← it.nd ty) then
      match p.proj with
      | [] =>
        if (← it.varTy p.var) ≠ ty then .error .malformed
        else match cget c p.var with
          | .whole _ _ => do let c' ← cset c p.var .gone; .ok (tick c')
          | s => .error (dropErrC s)
      | path => do
        let vt ← it.varTy p.var
        if it.pathOk vt path ∧ it.ndB vt then
          match cget c p.var with
          | .whole t k => do let c' ← cset c p.var (.holed t k path); .ok (tick c')
          | s => .error (dropErrC s)
        else .error .malformed
    else .ok (tick c)

def cRun (it : Item) (ω : Oracle) (c : CState) : List Instr → Res CState
  | [] => .ok c
  | i :: is => do
    let c' ← cInstr it ω c i
    cRun it ω c' is

def cLeakFree (c : CState) (v : Option Nat) : Bool :=
  (List.range c.vs.length).all (fun w => some w = v || !(cget c w).owns)

def cRet (it : Item) (c : CState) (v : Nat) : Res Unit := do
  if (← it.nd it.retTy) then
    if (← it.varTy v) ≠ it.retTy then .error .malformed
    else match cget c v with
      | .whole _ _ => if cLeakFree c (some v) then .ok () else .error .leak
      | s => .error (useErrC s)
  else if cLeakFree c none then .ok () else .error .leak

def scGet (sc : List (Nat × Nat)) (d : Nat) : Option Nat :=
  match sc.find? (fun p => p.1 = d) with
  | some p => some p.2
  | none => none

/-- all targets of a switch, branches first -/
def switchTargets (brs : List (Nat × Nat)) (dflt : Option Nat) : List Nat :=
  brs.map (·.2) ++ dflt.toList

/-- the LIR lowering uses the last branch as default when there is none -/
def defaultTarget (brs : List (Nat × Nat)) (dflt : Option Nat) : Option Nat :=
  match dflt with
  | some l => some l
  | none => (brs.getLast?).map (·.2)

def switchTarget (brs : List (Nat × Nat)) (dflt : Option Nat) (k : Nat) : Option Nat :=
  match brs.find? (fun p => p.1 = k) with
  | some p => some p.2
  | none => defaultTarget brs dflt

inductive Outcome where
  | running (l : Nat) (c : CState)
  | done (c : CState) (v : Nat)
  | fail (e : Err)
  deriving Repr, Inhabited

def cTerm (it : Item) (ω : Oracle) (c : CState) : Term → Outcome
  | .jump l => .running l (tick c)
  | .switch d brs dflt =>
    match it.tracked d with
    | .ok false =>
      let tgt :=
        match scGet c.sc d with
        | some k => switchTarget brs dflt k
        | none =>
          let ts := switchTargets brs dflt
          ts[ω c.clk % ts.length]?
      match tgt with
      | some l => .running l (tick c)
      | none => .fail .malformed
    | _ => .fail .malformed
  | .ret v =>
    match cRet it c v with
    | .ok _ => .done c v
    | .error e => .fail e

def Outcome.failsWith : Outcome → Err → Bool
  | .fail e, e' => e == e'
  | _, _ => false

/-- execute the block labelled `l` -/
def stepBlock (it : Item) (ω : Oracle) (l : Nat) (c : CState) : Outcome :=
  match it.findBlock l with
  | none => .fail .malformed
  | some b =>
    match cRun it ω c b.instrs with
    | .error e => .fail e
    | .ok c1 => cTerm it ω c1 b.term

/-- execute at most `n` blocks -/
def runN (it : Item) (ω : Oracle) : Nat → Nat → CState → Outcome
  | 0, l, c => .running l c
  | n + 1, l, c =>
    match stepBlock it ω l c with
    | .running l' c' => runN it ω n l' c'
    | o => o

/-- the initial concrete state for given variants `ks` of the parameters
    (the token of parameter `v` is `v`) -/
def initC (it : Item) (ks : Nat → Nat) : CState :=
  { vs := (List.range it.vars.length).map (fun v =>
      if it.isOwnedParam v then
        let ty := match it.varTy v with | .ok t => t | .error _ => 0
        .whole (if it.hasTok ty (ks v) then some v else none) (ks v)
      else .un),
    sc := [], next := it.vars.length, clk := 0 }

/-- at the end the only owned tokens are inside the returned value -/
def Balanced (c : CState) (v : Nat) : Prop :=
  ∀ w, w ≠ v → (cget c w).owns = false

/-! ## Untrusted certificate search (forward propagation) -/

inductive Verdict where
  | ok (cert : Cert)
  | reject (block : Nat) (reason : String) (entry : AState) (other : AState)
  deriving Repr, Inhabited

def errName : Err → String
  | .doubleDrop => "doubleDrop"
  | .dropUninit => "dropUninit"
  | .useAfterDrop => "useAfterDrop"
  | .useUninit => "useUninit"
  | .leak => "leak"
  | .malformed => "malformed"

def joinSt (s s' : ASt) : Option ASt :=
  if s = s' then some s
  else match s, s' with
    | .empty, .whole => some .whole
    | .whole, .empty => some .whole
    | .empty, .un => some .un
    | .un, .empty => some .un
    | _, _ => none

def joinA : AState → AState → Option AState
  | [], [] => some []
  | s :: a, s' :: b =>
    match joinSt s s', joinA a b with
    | some j, some r => some (j :: r)
    | _, _ => none
  | _, _ => none

/-- branches ordered by the value they test: the compiler emits them in the
    iteration order of a hash map, so the search visits them in a canonical
    order instead (untrusted search only; `ownCheck` reads the item as dumped) -/
def insertBr (p : Nat × Nat) : List (Nat × Nat) → List (Nat × Nat)
  | [] => [p]
  | q :: qs => if p.1 ≤ q.1 then p :: q :: qs else q :: insertBr p qs

def sortBrs (brs : List (Nat × Nat)) : List (Nat × Nat) :=
  brs.foldr insertBr []

def certSet (cert : Cert) (l : Nat) (a : AState) : Cert :=
  (l, a) :: cert.filter (fun p => p.1 ≠ l)

/-- propagate entry states along the CFG to a fixpoint; `fuel` bounds the
    number of visits -/
def propagate (it : Item) : Nat → List (Nat × AState) → Cert → Verdict
  | 0, _, cert => .ok cert
  | _, [], cert => .ok cert
  | fuel + 1, (l, a) :: work, cert =>
    let next : Option (Option AState) :=
      match certAt cert l with
      | some a' => if leA a a' then none else some (joinA a a')
      | none => some (some a)
    match next with
    | none => propagate it fuel work cert
    | some none => .reject l "join" a ((certAt cert l).getD [])
    | some (some a) =>
      match it.findBlock l with
      | none => .reject l "missing-block" a []
      | some b =>
        match aRun it a b.instrs with
        | .error e => .reject l (errName e) a []
        | .ok a1 =>
          let cert' := certSet cert l a
          match b.term with
          | .jump l' => propagate it fuel ((l', a1) :: work) cert'
          | .switch d brs dflt =>
            let es := (sortBrs brs).map (fun p => (p.2, a1)) ++
              (match dflt with
               | some l' => [(l', aDefaultEdge it a1 b.instrs d brs)]
               | none => [])
            propagate it fuel (es ++ work) cert'
          | .ret v =>
            match aRet it a1 v with
            | .ok _ => propagate it fuel work cert'
            | .error e => .reject l ("return-" ++ errName e) a []

def edgeCount (it : Item) : Nat :=
  it.blocks.foldl (fun n b =>
    n + 2 + (match b.term with | .switch _ brs _ => brs.length + 1 | _ => 1)) 8

def analyse (it : Item) : Verdict :=
  match propagate it (8 * edgeCount it) [(entryLabel it, initA it)] [] with
  | .reject l r a o => .reject l r a o
  | .ok cert =>
    if ownCheck it cert then .ok cert else .reject (entryLabel it) "certificate-rejected" [] []

end RotoV.Mir
