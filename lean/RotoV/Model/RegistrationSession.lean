/-
  Registration (C18): HISTORIES of `Runtime::add` calls on one runtime, rejected
  adds included.

  `Runtime::add` returns a `Result`; a host handles the error and goes on using
  the same runtime.  The property's quantifier runs over *sequences of add
  calls*, so what a rejected add leaves behind is part of it: the next add must
  fail exactly for the four listed defects *of the runtime as the host knows it*
  — the libraries that were accepted — and a script must see exactly those.

  Two ways of running the five passes on a runtime the host keeps:

  * `step` — all or nothing.  The passes run on a copy, the copy replaces the
    runtime only when every pass succeeded (`Rt::add` as it is now: `let mut rt
    = self.clone(); rt.add_items(items)?; *self = rt;`).  A rejected add is the
    identity on the runtime.
  * `stepIP` — in place.  The passes run on `&mut self` and `?` leaves at the
    first error: whatever the earlier passes and the earlier items of the failing
    pass inserted stays (`Rt::add` of the pinned tree).  Every pass is written
    out again below in state-threading form (`…IP`: the state the pass leaves and
    whether it completed); `Lemmas/RegistrationSession.lean` proves that verdict
    and — on success — state are those of the functional passes of
    `Model/Registration.lean`, so the two only differ in what an error leaves.
    The leaf operations themselves are atomic in the model (the dangling
    `RuntimeFunction` that the pinned `declare_function` pushes before the type
    checker rejects the name is outside `St`; the correspondence run sees it
    through `Runtime::functions()`).

  Which of the two the source is, is read from `Rt::add` by the translator
  (`Src.Facts.addAtomic`, `Generated/RegPasses.lean`).

  Core Lean only (linked into the driver).
-/
import RotoV.Model.Registration

namespace RotoV.Reg

/-- what `Runtime::add` hands back to the host -/
inductive Outcome
  | ok
  | err (e : Err)
  | panic (s : Site)
  deriving DecidableEq, Repr

def Res.outcome {α : Type} : Res α → Outcome
  | .ok _ => .ok
  | .err e => .err e
  | .panic s => .panic s

/-- the result of a pass that ran in place: the state it left, and whether it completed -/
abbrev IPRes := St × Res Unit

/-- a leaf operation run in place (the leaves are atomic: an error leaves the state) -/
def ipLeaf (st : St) : Res St → IPRes
  | .ok st' => (st', .ok ())
  | .err e => (st, .err e)
  | .panic s => (st, .panic s)

/-- forget what an error left behind -/
def IPRes.toRes : IPRes → Res St
  | (st, .ok ()) => .ok st
  | (_, .err e) => .err e
  | (_, .panic s) => .panic s

section
variable (cfg : Cfg) (lex : Name → Lex)

/-! ## all or nothing -/

/-- one `Runtime::add` on a runtime the host keeps: outcome and the runtime afterwards -/
def step (st : St) (items : Items) : St × Outcome :=
  match register cfg lex st items with
  | .ok st' => (st', .ok)
  | .err e => (st, .err e)
  | .panic s => (st, .panic s)

/-- a history of adds on one runtime (the host goes on after an error) -/
def session (st : St) : List Items → St × List Outcome
  | [] => (st, [])
  | l :: ls =>
    let r := step cfg lex st l
    let rs := session r.1 ls
    (rs.1, r.2 :: rs.2)

/-! ## in place: the passes on `&mut self` -/

mutual
def declModulesIP (parent : Option ScopeId) : Items → St → IPRes
  | .nil, st => (st, .ok ())
  | .cons i is, st =>
    match declModulesItemIP parent i st with
    | (st', .ok ()) => declModulesIP parent is st'
    | (st', .err e) => (st', .err e)
    | (st', .panic s) => (st', .panic s)
def declModulesItemIP (parent : Option ScopeId) : Item → St → IPRes
  | .module n ch, st =>
    match declareModule (parent.getD []) n st with
    | .ok (st', modScope) => declModulesIP (some modScope) ch st'
    | .err e => (st, .err e)
    | .panic s => (st, .panic s)
  | _, st => (st, .ok ())
end

def declMethodsIP (scope : ScopeId) : Items → St → IPRes
  | .nil, st => (st, .ok ())
  | .cons (.function n ps r tag) is, st =>
    match declareFunction cfg lex scope n ps r tag true st with
    | .ok st' => declMethodsIP scope is st'
    | .err e => (st, .err e)
    | .panic s => (st, .panic s)
  | .cons (.impl _ _) _, st => (st, .err .nestedInImpl)
  | .cons (.type _ _) _, st => (st, .err .nestedInImpl)
  | .cons (.module _ _) _, st => (st, .err .nestedInImpl)
  | .cons (.use _) is, st => declMethodsIP scope is st
  | .cons (.constant _ _ _) is, st => declMethodsIP scope is st

def declImplConstantsIP (scope : ScopeId) : Items → St → IPRes
  | .nil, st => (st, .ok ())
  | .cons (.constant n ty tag) is, st =>
    match declareConstant scope n ty tag st with
    | .ok st' => declImplConstantsIP scope is st'
    | .err e => (st, .err e)
    | .panic s => (st, .panic s)
  | .cons (.module _ _) _, st => (st, .panic .nestedUnreachable)
  | .cons (.impl _ _) _, st => (st, .panic .nestedUnreachable)
  | .cons (.type _ _) is, st => declImplConstantsIP scope is st
  | .cons (.function _ _ _ _) is, st => declImplConstantsIP scope is st
  | .cons (.use _) is, st => declImplConstantsIP scope is st

def passLeafIP (p : Pass) (scope : ScopeId) (i : Item) (st : St) : IPRes :=
  match p, i with
  | .types, .type n id => ipLeaf st (declareType cfg scope n id st)
  | .functions, .function n ps r tag => ipLeaf st (declareFunction cfg lex scope n ps r tag false st)
  | .functions, .impl ty ch =>
    match implScopeC cfg scope ty st with
    | .ok s => declMethodsIP cfg lex s ch st
    | .err e => (st, .err e)
    | .panic s => (st, .panic s)
  | .constants, .constant n ty tag => ipLeaf st (declareConstant scope n ty tag st)
  | .constants, .impl ty ch =>
    match implScopeC cfg scope ty st with
    | .ok s => declImplConstantsIP s ch st
    | .err e => (st, .err e)
    | .panic s => (st, .panic s)
  | _, _ => (st, .ok ())

mutual
def walkIP (p : Pass) (scope : ScopeId) : Items → St → IPRes
  | .nil, st => (st, .ok ())
  | .cons i is, st =>
    match walkItemIP p scope i st with
    | (st', .ok ()) => walkIP p scope is st'
    | (st', .err e) => (st', .err e)
    | (st', .panic s) => (st', .panic s)
def walkItemIP (p : Pass) (scope : ScopeId) : Item → St → IPRes
  | .module n ch, st =>
    match st.getScopeOf scope n with
    | none => (st, .panic .moduleScope)
    | some s => walkIP p s ch st
  | .type n id, st => passLeafIP cfg lex p scope (.type n id) st
  | .function n ps r tag, st => passLeafIP cfg lex p scope (.function n ps r tag) st
  | .constant n ty tag, st => passLeafIP cfg lex p scope (.constant n ty tag) st
  | .impl ty ch, st => passLeafIP cfg lex p scope (.impl ty ch) st
  | .use ps, st => passLeafIP cfg lex p scope (.use ps) st
end

def declareImportListIP (scope : ScopeId) : List (List Name) → St → IPRes
  | [], st => (st, .ok ())
  | p :: ps, st =>
    match declareImport cfg scope p st with
    | .ok st' => declareImportListIP scope ps st'
    | .err e => (st, .err e)
    | .panic s => (st, .panic s)

mutual
def declImportsIP (scope : ScopeId) : Items → St → IPRes
  | .nil, st => (st, .ok ())
  | .cons i is, st =>
    match declImportsItemIP scope i st with
    | (st', .ok ()) => declImportsIP scope is st'
    | (st', .err e) => (st', .err e)
    | (st', .panic s) => (st', .panic s)
def declImportsItemIP (scope : ScopeId) : Item → St → IPRes
  | .use paths, st => declareImportListIP cfg scope paths st
  | .module _ ch, st => declImportsIP scope ch st
  | _, st => (st, .ok ())
end

/-- `Rt::add` on `&mut self`: five passes, `?` after each -/
def addIP (st : St) (items : Items) : IPRes :=
  match declModulesIP none items st with
  | (st1, .ok ()) =>
    match walkIP cfg lex .types [] items st1 with
    | (st2, .ok ()) =>
      match walkIP cfg lex .functions [] items st2 with
      | (st3, .ok ()) =>
        match walkIP cfg lex .constants [] items st3 with
        | (st4, .ok ()) => declImportsIP cfg [] items st4
        | r => r
      | r => r
    | r => r
  | r => r

/-- building the library (the constructors check the names: a library with a
    bad name never reaches the runtime), then `Rt::add` in place -/
def stepIP (st : St) (items : Items) : St × Outcome :=
  if namesOk cfg lex items then
    let r := addIP cfg lex st items
    (r.1, r.2.outcome)
  else (st, .err .invalidName)

def sessionIP (st : St) : List Items → St × List Outcome
  | [] => (st, [])
  | l :: ls =>
    let r := stepIP cfg lex st l
    let rs := sessionIP r.1 ls
    (rs.1, r.2 :: rs.2)

/-- `Rt::add` as the source has it: `atomic` is read from the source -/
def stepSrc (atomic : Bool) (st : St) (items : Items) : St × Outcome :=
  if atomic then step cfg lex st items else stepIP cfg lex st items

def sessionSrc (atomic : Bool) (st : St) (libs : List Items) : St × List Outcome :=
  if atomic then session cfg lex st libs else sessionIP cfg lex st libs

end

end RotoV.Reg
