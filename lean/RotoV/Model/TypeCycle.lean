/-
  TypeCycle: hand-written executable model of `src/typechecker/type_cycle.rs`
  (`detect_type_cycles`, `visit_name`, `visit`) next to the recursion it is
  meant to protect: `TypeInfo::convert` (`src/typechecker/info.rs`), which
  turns a checker type into an interned MIR type by recursing through the
  substituted fields of records and enums and through the element type of
  `List` — `Pool::layout_of` then recurses over the very same tree.

  Names are indices into the table of definitions; `ExplicitVar`s are the
  index of the type parameter they stand for.  Both recursions carry fuel:
  `none` means "did not finish within the fuel" — the Rust functions have no
  bound, so "there is fuel for which the model finishes" is "the Rust
  function returns" and "no fuel suffices" is "it recurses until the stack
  overflows".

  Core Lean only (no Mathlib): linked into the driver executable.
-/

namespace RotoV.TypeCycle

/-- `typechecker::types::Type`, as far as the two recursions look at it. -/
inductive Ty where
  /-- `ExplicitVar`: the `i`-th type parameter of the enclosing definition -/
  | var (i : Nat)
  /-- `Never`, `Unit`, `Function` — `visit` answers `Ok` without looking inside -/
  | leaf
  /-- `Var`, `IntVar`, `FloatVar`, `RecordVar`: must not be left at this point -/
  | unresolved
  /-- anonymous record `Record(fields)` -/
  | record (fields : List Ty)
  /-- `Name(TypeName { name, arguments })` -/
  | name (n : Nat) (args : List Ty)
  deriving Repr, Inhabited

/-- `TypeDefinition` -/
inductive Def where
  /-- `Enum` (all fields of all variants) or `Record`: the field types, over
  the definition's own parameters (`Ty.var i`) -/
  | fields (fs : List Ty)
  /-- `Runtime`, `Primitive` -/
  | opaque
  /-- `List` -/
  | list
  deriving Repr, Inhabited

abbrev Defs := List Def

/-- `HashMap<ResolvedName, bool>`: `false` = temporary mark, `true` = permanent
mark; an insertion shadows earlier ones. -/
abbrev Visited := List (Nat × Bool)

def Visited.get (v : Visited) (n : Nat) : Option Bool :=
  match v with
  | [] => none
  | (m, b) :: rest => if m = n then some b else Visited.get rest n

/-- outcome of the check: `Ok(())` with the marks, or `Err(_)` -/
inductive Chk where
  | ok (v : Visited)
  | err (msg : String)
  deriving Repr

/-- which `visit` is modelled: the one on the unchanged tree ignores the
arguments of a named type; the repaired one follows them. -/
inductive Version where
  | old
  | fixed
  deriving Repr, DecidableEq

mutual
/-- `visit_name` -/
def visitName (ver : Version) (defs : Defs) : Nat → Visited → Nat → Option Chk
  | 0, _, _ => none
  | fuel + 1, v, n =>
    match v.get n with
    | some false => some (.err "cycle detected!")
    | some true => some (.ok v)
    | none =>
      match defs[n]? with
      | none => some (.err "unknown type name")   -- `types[&name]` (cannot happen after name resolution)
      | some (.fields fs) =>
        match visitList ver defs fuel ((n, false) :: v) fs with
        | some (.ok v') => some (.ok ((n, true) :: v'))
        | r => r
      | some _ => some (.ok ((n, true) :: (n, false) :: v))

/-- `visit` -/
def visit (ver : Version) (defs : Defs) : Nat → Visited → Ty → Option Chk
  | 0, _, _ => none
  | fuel + 1, v, ty =>
    match ty with
    | .unresolved => some (.err "there should be no unresolved type variables left")
    | .leaf => some (.ok v)
    | .var _ => some (.ok v)
    | .record fs => visitList ver defs fuel v fs
    | .name n args =>
      match ver with
      | .old => visitName ver defs fuel v n
      | .fixed =>
        match visitName ver defs fuel v n with
        | some (.ok v') => visitList ver defs fuel v' args
        | r => r

/-- the `for … { visit(..)?; }` loops -/
def visitList (ver : Version) (defs : Defs) : Nat → Visited → List Ty → Option Chk
  | 0, _, _ => none
  | _ + 1, v, [] => some (.ok v)
  | fuel + 1, v, t :: ts =>
    match visit ver defs fuel v t with
    | some (.ok v') => visitList ver defs fuel v' ts
    | r => r
end

/-- `detect_type_cycles`: `order` is the iteration order of `types.keys()`
(a `HashMap`: any order). -/
def detect (ver : Version) (defs : Defs) (fuel : Nat) : Visited → List Nat → Option Chk
  | v, [] => some (.ok v)
  | v, n :: rest =>
    match visitName ver defs fuel v n with
    | some (.ok v') => detect ver defs fuel v' rest
    | r => r

/-- the check accepts: for some fuel it returns `Ok(())`. -/
def Accepts (ver : Version) (defs : Defs) (order : List Nat) : Prop :=
  ∃ fuel v, detect ver defs fuel [] order = some (.ok v)

/-! ## The protected recursion: `TypeInfo::convert` -/

mutual
/-- `Type::substitute_many`: parameter `i` ↦ `args[i]` (left alone when there
is no such argument). -/
def subst (args : List Ty) : Ty → Ty
  | .var i => (args[i]?).getD (.var i)
  | .leaf => .leaf
  | .unresolved => .unresolved
  | .record fs => .record (substList args fs)
  | .name n as => .name n (substList args as)
def substList (args : List Ty) : List Ty → List Ty
  | [] => []
  | t :: ts => subst args t :: substList args ts
end

mutual
/-- `TypeInfo::convert` (and with it `layout_of`, which walks the tree
`convert` builds): `some true` = returned, `some false` = stopped at an `ice!`
/ `todo!` / index error, `none` = still recursing when the fuel ran out. -/
def convert (defs : Defs) : Nat → Ty → Option Bool
  | 0, _ => none
  | fuel + 1, ty =>
    match ty with
    | .var _ => some false          -- `ice!("Cannot convert {e}")`
    | .leaf => some true
    | .unresolved => some true      -- defaults (`NEVER`, `I32`, `F64`)
    | .record fs => convertList defs fuel fs
    | .name n args =>
      match defs[n]? with
      | none => some false
      | some .opaque => some true
      | some .list =>
        match args with
        | [] => some false          -- `arguments[0]`
        | a :: _ => convert defs fuel a
      | some (.fields fs) => convertList defs fuel (substList args fs)

def convertList (defs : Defs) : Nat → List Ty → Option Bool
  | 0, _ => none
  | _ + 1, [] => some true
  | fuel + 1, t :: ts =>
    match convert defs fuel t with
    | some true => convertList defs fuel ts
    | r => r
end

/-- the recursion is well-founded on `ty`: some fuel suffices. -/
def Terminates (defs : Defs) (ty : Ty) : Prop := ∃ fuel, convert defs fuel ty ≠ none

mutual
/-- every name mentioned is defined -/
def Ty.closedIn (k : Nat) : Ty → Bool
  | .var _ => true
  | .leaf => true
  | .unresolved => true
  | .record fs => Ty.closedInList k fs
  | .name n args => decide (n < k) && Ty.closedInList k args
def Ty.closedInList (k : Nat) : List Ty → Bool
  | [] => true
  | t :: ts => Ty.closedIn k t && Ty.closedInList k ts
end

end RotoV.TypeCycle
