/-
  C13 — the statement language in which the translator (`extract` target
  `scopeimports`) transliterates the body of `TypeChecker::imports`
  (src/typechecker/mod.rs), and its meaning.

  The body works on three things only: the scope graph (through
  `self.import(scope, p)`), the working vector `paths`, and lengths of that
  vector bound to local variables.  The statements the translator accepts:

    let v = paths.len();                                   letLen v
    paths.retain(|p| self.import(scope, p).is_err());      retainFailed
    for p in &paths { self.import(scope, p)?; }            tryEach
    if c { … } [else { … }]                                ite c … …
    return Ok(()); / tail `Ok(())`                         retOk
    loop { … }                                             loop …
    break;                                                 brk

  Everything else is an extraction failure.  `retainFailed` and `tryEach` mean
  `retainPass` / `importAll` of `Model/Scope.lean`; a `loop` gets as many rounds
  as the model's `imports` allows (`paths.len() + 1` at entry of the function),
  running out of them is `Res.panic .fuel`.

  `Props/C13.lean` proves `imports_loop_as_modelled`: the transliterated body
  means exactly `Scope.imports` — so a changed loop structure (what is retried,
  what counts as progress, when errors are reported) stops a proof.
-/
import RotoV.Model.Scope

namespace RotoV.Scope.Loop
open RotoV.Scope

/-- a length: a bound variable, `paths.len()`, a literal -/
inductive IExpr
  | var (i : Nat)
  | len
  | lit (n : Nat)
  deriving DecidableEq, Repr, Inhabited

inductive ICmp | eq | ne | lt | le | gt | ge
  deriving DecidableEq, Repr, Inhabited

inductive ICond
  | cmp (op : ICmp) (a b : IExpr)
  /-- `paths.is_empty()` -/
  | isEmpty
  | not (c : ICond)
  deriving DecidableEq, Repr, Inhabited

mutual
inductive IStmt
  | letLen (v : Nat)
  | retainFailed
  | tryEach
  | ite (c : ICond) (t e : IBlock)
  | retOk
  | brk
  | loop (body : IBlock)
inductive IBlock
  | done
  | seq (s : IStmt) (rest : IBlock)
end

structure IState where
  g : Graph
  paths : List Path
  vars : List (Nat × Nat)
  deriving Repr

/-- how a statement ends -/
inductive Flow
  | next (st : IState)
  | ret (g : Graph)
  | brk (st : IState)

def evalExpr (st : IState) : IExpr → Nat
  | .var i => (st.vars.lookup i).getD 0
  | .len => st.paths.length
  | .lit n => n

def evalCmp : ICmp → Nat → Nat → Bool
  | .eq, a, b => a == b
  | .ne, a, b => a != b
  | .lt, a, b => decide (a < b)
  | .le, a, b => decide (a ≤ b)
  | .gt, a, b => decide (a > b)
  | .ge, a, b => decide (a ≥ b)

def evalCond (st : IState) : ICond → Bool
  | .cmp op a b => evalCmp op (evalExpr st a) (evalExpr st b)
  | .isEmpty => st.paths.isEmpty
  | .not c => !evalCond st c

/-- `loop { body }`: at most `n` rounds -/
def iterate (step : IState → Res Flow) : Nat → IState → Res Flow
  | 0, _ => .panic .fuel
  | n + 1, st =>
    match step st with
    | .ok (.next st') => iterate step n st'
    | .ok (.brk st') => .ok (.next st')
    | .ok (.ret g) => .ok (.ret g)
    | .err e => .err e
    | .panic x => .panic x

mutual
def execStmt (s : Nat) (fuel : Nat) : IStmt → IState → Res Flow
  | .letLen v, st => .ok (.next { st with vars := (v, st.paths.length) :: st.vars })
  | .retainFailed, st =>
    match retainPass s st.g st.paths with
    | .ok (g', rem) => .ok (.next { st with g := g', paths := rem })
    | .err e => .err e
    | .panic x => .panic x
  | .tryEach, st =>
    match importAll s st.g st.paths with
    | .ok g' => .ok (.next { st with g := g' })
    | .err e => .err e
    | .panic x => .panic x
  | .ite c t e, st => if evalCond st c then execBlock s fuel t st else execBlock s fuel e st
  | .retOk, st => .ok (.ret st.g)
  | .brk, st => .ok (.brk st)
  | .loop body, st => iterate (execBlock s fuel body) fuel st
def execBlock (s : Nat) (fuel : Nat) : IBlock → IState → Res Flow
  | .done, st => .ok (.next st)
  | .seq stmt rest, st =>
    match execStmt s fuel stmt st with
    | .ok (.next st') => execBlock s fuel rest st'
    | .ok (.brk st') => .ok (.brk st')
    | .ok (.ret g) => .ok (.ret g)
    | .err e => .err e
    | .panic x => .panic x
end

/-- the function body: `let mut paths = paths.to_vec();` followed by `body`.
    (A body that neither returns nor diverges does not type-check in Rust; it is
    mapped to the fuel panic so that nothing can be proved about it.) -/
def runImports (body : IBlock) (g : Graph) (s : Nat) (paths : List Path) : Res Graph :=
  match execBlock s (paths.length + 1) body ⟨g, paths, []⟩ with
  | .ok (.ret g') => .ok g'
  | .ok (.next _) => .panic .fuel
  | .ok (.brk _) => .panic .fuel
  | .err e => .err e
  | .panic x => .panic x

/-- one round of the loop of `imports` as the unchanged tree has it -/
def referenceLoopBody : IBlock :=
  .seq (.letLen 0)
  (.seq .retainFailed
  (.seq (.letLen 1)
  (.seq (.ite (.cmp .eq (.var 1) (.lit 0)) (.seq .retOk .done) .done)
  (.seq (.ite (.cmp .eq (.var 1) (.var 0)) (.seq .tryEach .done) .done)
  .done))))

/-- what `extract` generates from the unchanged tree (kept here so that the
    meaning of the language is exercised even without the generated file) -/
def referenceBody : IBlock := .seq (.loop referenceLoopBody) .done

/-- the two-pass variant: one retain pass, then one sequential pass that reports errors -/
def twoPassBody : IBlock :=
  .seq .retainFailed (.seq .tryEach (.seq .retOk .done))

end RotoV.Scope.Loop
