/-
  Model/ValueMir — C02: a verified checker over the REAL lowerer's MIR: every binding extraction
  of a `match` reads the value whose discriminant was switched on.

  The MIR of a compiled script arrives through the structured dump of the hook
  `verif_hooks::c03::dump` (blocks of instructions over densely numbered variables and labels; the
  grammar is repeated at `decodeItem`). `flatten` reads its control flow off as a graph with one node
  per instruction and per terminator; every node carries what it does to variables as far as a
  `match` is concerned:

    * `affects v` — it writes `v` or a part of it (`v.p = …`, `v.$discriminant = …`), or ends the
      life of its value (`drop(v.p)`, `move(v)`, `v` handed to a call);
    * `discr v`   — it reads the discriminant of `v` (`t = discriminant(v)`);
    * `binds v`   — it extracts a variant field of `v` (`y = clone(v.<variant>.i …)`): a pattern binding.

  `matchIsOnCopy` accepts an item when from NO node that affects a variable `v` a node that binds
  from `v` can be reached without passing a node that reads the discriminant of `v`. Soundness
  (`Lemmas/ValueMir`): then on EVERY path through the item — every order of guards saying yes or no,
  every iteration of an enclosing loop — between a discriminant read of `v` and a binding extraction
  from `v` that follows it (no other discriminant read of `v` in between) nothing writes, drops or
  moves `v`: the bindings of every arm, however many guards ran before it, are components of the
  value that was switched on.

  A second checker, `argumentsAreConsumed` (below), reads three more facts off every node — `uses`,
  `defs`, `hands` — and accepts an item when a record / enum / owned value handed to a call is never
  used again before it is assigned anew: a parameter is a copy of its own. Core Lean only.
-/
namespace RotoV.ValueMir

/-! ### the MIR item, as dumped -/

inductive Proj where
  | field (i : Nat)
  | vfield (variant i : Nat)
  deriving Repr, DecidableEq

structure Place where
  var : Nat
  proj : List Proj
  deriving Repr

inductive Val where
  | lit
  | const
  | clone (p : Place)
  | move (v : Nat)
  /-- not / negate / binary operation: the operands are only read -/
  | read (vs : List Nat)
  /-- `owned`: those of `args` whose parameter type is an aggregate (record / enum) or needs a drop —
      the values the callee takes over -/
  | call (args : List Nat) (owned : List Nat)
  | discr (v : Nat)
  deriving Repr

inductive Instr where
  | assign (to : Place) (val : Val)
  | setDiscr (v : Nat) (variant : Nat)
  | drop (p : Place)
  deriving Repr

inductive Term where
  | jump (l : Nat)
  | switch (v : Nat) (branches : List (Nat × Nat)) (default : Option Nat)
  | ret (v : Nat)
  deriving Repr

structure Block where
  label : Nat
  instrs : List Instr
  term : Term
  deriving Repr

structure Item where
  blocks : List Block
  deriving Repr

/-! ### the graph -/

structure Node where
  succ : List Nat := []
  affects : List Nat := []
  discr : List Nat := []
  binds : List Nat := []
  /-- variables it reads, drops, moves, passes or returns, whole or a part (`clone(v.p)`,
      `discriminant(v)`, operand, call argument, `move(v)`, `drop(v.p)`, `switch v`, `return v`) -/
  uses : List Nat := []
  /-- variables it assigns as a whole (`v = …`) -/
  defs : List Nat := []
  /-- variables of an aggregate / owned type it hands to a call -/
  hands : List Nat := []
  deriving Repr

abbrev Graph := Array Node

def node (g : Graph) (i : Nat) : Node := g.getD i {}

def Place.isVariantRead (p : Place) : Bool :=
  p.proj.any fun q => match q with
    | .vfield _ _ => true
    | .field _ => false

def Val.uses : Val → List Nat
  | .lit => []
  | .const => []
  | .clone p => [p.var]
  | .move w => [w]
  | .read vs => vs
  | .call args _ => args
  | .discr w => [w]

def Val.hands : Val → List Nat
  | .call _ owned => owned
  | _ => []

def matchNode (next : Nat) (to : Place) : Val → Node
  | .clone p => { succ := [next], affects := [to.var], binds := if p.isVariantRead then [p.var] else [] }
  | .move w => { succ := [next], affects := [to.var, w] }
  | .call args _ => { succ := [next], affects := to.var :: args }
  | .discr w => { succ := [next], affects := [to.var], discr := [w] }
  | _ => { succ := [next], affects := [to.var] }

def instrNode (next : Nat) : Instr → Node
  | .assign to val =>
    { matchNode next to val with
      uses := val.uses, defs := if to.proj.isEmpty then [to.var] else [], hands := val.hands }
  | .setDiscr v _ => { succ := [next], affects := [v] }
  | .drop p => { succ := [next], affects := [p.var], uses := [p.var] }

/-- index of the first node of the block with label `l` (blocks are laid out one after the other,
    every block = its instructions and then its terminator) -/
def blockStart : List Block → Nat → Nat → Option Nat
  | [], _, _ => none
  | b :: rest, at_, l => if b.label = l then some at_ else blockStart rest (at_ + b.instrs.length + 1) l

def termNode (bs : List Block) : Term → Node
  | .jump l => { succ := (blockStart bs 0 l).toList }
  | .switch v branches default =>
    { succ := (branches.filterMap fun p => blockStart bs 0 p.2) ++
        (match default with
         | some l => (blockStart bs 0 l).toList
         | none => []),
      uses := [v] }
  | .ret v => { uses := [v] }

def instrNodes (at_ : Nat) : List Instr → List Node
  | [] => []
  | i :: rest => instrNode (at_ + 1) i :: instrNodes (at_ + 1) rest

def flattenFrom (all : List Block) : List Block → Nat → List Node
  | [], _ => []
  | b :: rest, at_ =>
    instrNodes at_ b.instrs ++ [termNode all b.term] ++ flattenFrom all rest (at_ + b.instrs.length + 1)

def flatten (it : Item) : Graph := (flattenFrom it.blocks it.blocks 0).toArray

/-! ### paths -/

/-- a path of the control-flow graph: every node is a successor of the one before -/
def IsPath (g : Graph) : List Nat → Prop
  | [] => True
  | [_] => True
  | a :: b :: rest => b ∈ (node g a).succ ∧ IsPath g (b :: rest)

/-! ### the checker -/

/-- a set of nodes as its characteristic vector -/
abbrev NSet := Array Bool
def NSet.has (S : NSet) (i : Nat) : Bool := S.getD i false

/-- the nodes reached from the work list; a node that reads the discriminant of `v` is entered
    but not expanded. (Computed; soundness only relies on the CHECK `closed` below.) -/
def closure (g : Graph) (v : Nat) : Nat → List Nat → NSet → NSet
  | 0, _, S => S
  | _, [], S => S
  | n + 1, x :: work, S =>
    if S.has x || S.size ≤ x then closure g v n work S
    else
      let S' := S.set! x true
      if (node g x).discr.contains v then closure g v n work S'
      else closure g v n ((node g x).succ ++ work) S'

/-- `S` is closed under successors, except through discriminant reads of `v` -/
def closed (g : Graph) (v : Nat) (S : NSet) : Bool :=
  (List.range g.size).all fun s =>
    !S.has s || (node g s).discr.contains v || (node g s).succ.all fun t => S.has t

def fuelFor (g : Graph) : Nat := (g.toList.map fun n => n.succ.length + 1).sum + 8

/-- from the node `a` (which affects `v`) no binding extraction from `v` is reached before the
    discriminant of `v` is read again. The reached set is computed, then CHECKED to be closed: the
    proof of soundness only relies on the check -/
def okFrom (g : Graph) (v a : Nat) : Bool :=
  let S := closure g v (fuelFor g) (node g a).succ (Array.replicate g.size false)
  (node g a).succ.all (fun t => S.has t) && closed g v S &&
    (List.range g.size).all fun s => !S.has s || !(node g s).binds.contains v

/-- the variables some node extracts a binding from (computed once per item) -/
def boundVars (g : Graph) : List Nat := (List.range g.size).flatMap fun i => (node g i).binds

def graphOkWith (g : Graph) (bv : List Nat) : Bool :=
  (List.range g.size).all fun a => (node g a).affects.all fun v => !bv.contains v || okFrom g v a

def graphOk (g : Graph) : Bool := graphOkWith g (boundVars g)

/-- THE CHECKER -/
def matchIsOnCopy (it : Item) : Bool := graphOk (flatten it)

/-- the first offence, for the report: (variable, affecting node) -/
def firstOffence (g : Graph) : Option (Nat × Nat) :=
  let bv := boundVars g
  (List.range g.size).findSome? fun a =>
    ((node g a).affects.find? fun v => bv.contains v && !okFrom g v a).map fun v => (v, a)

/-- what was verified: number of binding extractions and of discriminant reads in the item -/
def countBinds (g : Graph) : Nat := (g.toList.map fun n => n.binds.length).sum
def countDiscr (g : Graph) : Nat := (g.toList.map fun n => n.discr.length).sum

/-! ### the second checker: a value handed to a call is consumed

    `normalized_function_call` copies every argument into a temporary of its own and hands that to
    the callee, which owns (and drops) it. On the MIR this reads: after a node hands `v` to a call,
    NO node reads, drops, moves, passes or returns `v` (or a part of it) before `v` is assigned again
    as a whole. Then nothing the callee does to its parameter can be seen through any name of the
    caller: the parameter is a copy. (A variable the lowerer passed ITSELF — `f(x)` handing over `x` —
    is read again by the next statement that mentions `x`.) The reached set is computed as above and
    CHECKED closed; barrier and offence are parameters. -/

def closureP (g : Graph) (bar : Nat → Bool) : Nat → List Nat → NSet → NSet
  | 0, _, S => S
  | _, [], S => S
  | n + 1, x :: work, S =>
    if S.has x || S.size ≤ x then closureP g bar n work S
    else
      let S' := S.set! x true
      if bar x then closureP g bar n work S'
      else closureP g bar n ((node g x).succ ++ work) S'

/-- `S` is closed under successors, except through barrier nodes -/
def closedP (g : Graph) (bar : Nat → Bool) (S : NSet) : Bool :=
  (List.range g.size).all fun s => !S.has s || bar s || (node g s).succ.all fun t => S.has t

/-- no `bad` node is reached from the successors of `a` except through a barrier node (a barrier
    node itself is entered and examined: `t = f(t)` reads `t` before it assigns it) -/
def okFromP (g : Graph) (bar bad : Nat → Bool) (a : Nat) : Bool :=
  let S := closureP g bar (fuelFor g) (node g a).succ (Array.replicate g.size false)
  (node g a).succ.all (fun t => S.has t) && closedP g bar S &&
    (List.range g.size).all fun s => !S.has s || !bad s

def argOk (g : Graph) (v a : Nat) : Bool :=
  okFromP g (fun s => (node g s).defs.contains v) (fun s => (node g s).uses.contains v) a

def argsOk (g : Graph) : Bool :=
  (List.range g.size).all fun a => (node g a).hands.all fun v => argOk g v a

/-- THE SECOND CHECKER -/
def argumentsAreConsumed (it : Item) : Bool := argsOk (flatten it)

def firstArgOffence (g : Graph) : Option (Nat × Nat) :=
  (List.range g.size).findSome? fun a =>
    ((node g a).hands.find? fun v => !argOk g v a).map fun v => (v, a)

def countHands (g : Graph) : Nat := (g.toList.map fun n => n.hands.length).sum

/-! ### decoding the dump (`verif_hooks::c03`)

    item  := nTypes type* nVars varTy* nParams paramVar* retTy nBlocks block*
    type  := nd 0 | nd 1 nFields fieldTy* | nd 2 nVariants (nFields fieldTy*)*
    block := label nInstr instr* term
    instr := 0 place ty val | 1 var ty variant | 2 place ty
    place := var nProj proj*        proj := 0 fieldIdx | 1 variantIdx fieldIdx
    val   := 0 | 1 | 2 place | 3 var | 4 n var* | 5 n (var paramTy)* | 6 var      (paramTy: index into type*)
    term  := 0 label | 1 var nBranches (value label)* hasDefault [label] | 2 var -/

abbrev D := StateT (List Nat) Option

def num : D Nat := do
  match ← get with
  | [] => failure
  | t :: r => set r; pure t

def times {α} (n : Nat) (p : D α) : D (List α) := do
  let mut out := []
  for _ in [0:n] do
    out := (← p) :: out
  pure out.reverse

/-- a type of the item's table; the answer: values of it are taken over by a callee that receives
    one (it needs a drop, or it is a record / an enum) -/
def dType : D Bool := do
  let nd ← num
  match ← num with
  | 0 => pure (nd != 0)
  | 1 => do
    let n ← num
    let _ ← times n num
    pure true
  | 2 => do
    let n ← num
    let _ ← times n (do let k ← num; let _ ← times k num)
    pure true
  | _ => failure

def dProj : D Proj := do
  match ← num with
  | 0 => pure (.field (← num))
  | 1 => do
    let v ← num
    pure (.vfield v (← num))
  | _ => failure

def dPlace : D Place := do
  let v ← num
  let n ← num
  pure ⟨v, ← times n dProj⟩

def dVal (tys : List Bool) : D Val := do
  match ← num with
  | 0 => pure .lit
  | 1 => pure .const
  | 2 => pure (.clone (← dPlace))
  | 3 => pure (.move (← num))
  | 4 => do
    let n ← num
    pure (.read (← times n num))
  | 5 => do
    let n ← num
    let args ← times n (do let v ← num; let t ← num; pure (v, tys.getD t false))
    pure (.call (args.map (·.1)) ((args.filter (·.2)).map (·.1)))
  | 6 => pure (.discr (← num))
  | _ => failure

def dInstr (tys : List Bool) : D Instr := do
  match ← num with
  | 0 => do
    let p ← dPlace
    let _ ← num
    pure (.assign p (← dVal tys))
  | 1 => do
    let v ← num
    let _ ← num
    pure (.setDiscr v (← num))
  | 2 => do
    let p ← dPlace
    let _ ← num
    pure (.drop p)
  | _ => failure

def dTerm : D Term := do
  match ← num with
  | 0 => pure (.jump (← num))
  | 1 => do
    let v ← num
    let n ← num
    let bs ← times n (do let a ← num; let l ← num; pure (a, l))
    let d ← if (← num) == 1 then some <$> num else pure none
    pure (.switch v bs d)
  | 2 => pure (.ret (← num))
  | _ => failure

def dBlock (tys : List Bool) : D Block := do
  let l ← num
  let n ← num
  let is ← times n (dInstr tys)
  pure ⟨l, is, ← dTerm⟩

def dItem : D Item := do
  let nt ← num
  let tys ← times nt dType
  let nv ← num
  let _ ← times nv num
  let np ← num
  let _ ← times np num
  let _ ← num
  let nb ← num
  pure ⟨← times nb (dBlock tys)⟩

def decodeItem (nums : List Nat) : Option Item :=
  match dItem.run nums with
  | some (it, []) => some it
  | _ => none

end RotoV.ValueMir
