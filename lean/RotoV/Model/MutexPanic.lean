/-
  `std::sync::Mutex` as the list built-ins use it (property C10, contention part).

  A Roto `List[T]` is a `Send + Sync` handle to an `Arc<Mutex<RawList>>`; a
  compiled function may run on several host threads at once and the host may
  hold a list's lock itself (`List::to_vec`, iteration).  A list that another
  thread is using is therefore an ordinary argument of a list built-in, and
  the built-in must still return: a panic inside it (it runs behind an
  `extern "C"` trampoline) aborts the host.

  The translator's `c10locks` target emits, for every function of
  `src/value/list.rs` and every binding body that touches a mutex, the lock
  events as written, as a tree that follows the control flow (`Tree`: one
  `branch` per `if`/`else`, `match` arm, loop body, early `return`; the
  condition is recorded where it compares the addresses of the two lists).
  `Tree.exec` is what a call does on given lists, `Tree.paths` are its
  control-flow paths (`Ev`).  This file gives them their meaning:

  * `.lock()` blocks while another thread holds the mutex and returns
    `Err(PoisonError)` when a thread panicked while holding it;
  * `.try_lock()` never blocks: `Err(WouldBlock)` while *anyone* holds it;
  * `.unwrap()` / `.expect(..)` on an `Err` panic; anything else (`match`, `?`,
    `unwrap_or_else(PoisonError::into_inner)` …) does not;
  * locking a mutex the calling thread already holds is unspecified by std
    ("will not return: might panic or deadlock") — outcome `relock`.

  Core Lean only.
-/
namespace RotoV.MutexPanic

inductive AcqKind where
  | blocking   -- `.lock()`
  | try_       -- `.try_lock()`
  deriving DecidableEq, Repr

/-- what the code does with the `Err` of the lock result -/
inductive OnFail where
  | unwrap | expect | other
  deriving DecidableEq, Repr

/-- which list's mutex, as written: the receiver (`self`/`this`), the second
    list argument (`other`), a list created inside the function
    (`let new = Self::new(..)`), or an expression the translator cannot classify -/
inductive Tgt where
  | self_ | other | fresh | unknown
  deriving DecidableEq, Repr

/-- the condition of a branch, as written: a comparison of the two lists'
    addresses, or anything else (`opaque`: depends on the data, both sides possible) -/
inductive Cond where
  /-- `Arc::ptr_eq(&self.0, &other.0)` -/
  | same
  /-- `Arc::as_ptr(&self.0) < Arc::as_ptr(&other.0)` -/
  | selfLtOther
  /-- `Arc::as_ptr(&other.0) < Arc::as_ptr(&self.0)` -/
  | otherLtSelf
  | opaque
  deriving DecidableEq, Repr

/-- one step of a control-flow path -/
inductive Ev where
  | acq (k : AcqKind) (f : OnFail) (t : Tgt)
  | rel (t : Tgt)
  /-- the path takes the side of a branch on which `c` evaluates to `b` -/
  | assume (c : Cond) (b : Bool)
  deriving DecidableEq, Repr

/-- the lock events of a function body along its control flow -/
inductive Tree where
  /-- the call returns (every guard has been released explicitly before) -/
  | done
  | acq (k : AcqKind) (f : OnFail) (t : Tgt) (rest : Tree)
  | rel (t : Tgt) (rest : Tree)
  | branch (c : Cond) (thn els : Tree)
  deriving Repr

/-- every control-flow path through the tree, with the decisions it takes -/
def Tree.paths : Tree → List (List Ev)
  | .done => [[]]
  | .acq k f t r => r.paths.map (Ev.acq k f t :: ·)
  | .rel t r => r.paths.map (Ev.rel t :: ·)
  | .branch c a b => a.paths.map (Ev.assume c true :: ·) ++ b.paths.map (Ev.assume c false :: ·)

/-- one mutex: the thread holding it, and the poison flag -/
structure Mx where
  holder : Option Nat
  poisoned : Bool
  deriving DecidableEq, Repr

inductive Out where
  | acquired | blocked | relock | err | panic | released | skip
  deriving DecidableEq, Repr

def OnFail.out : OnFail → Out
  | .unwrap | .expect => .panic
  | .other => .err

/-- one acquisition attempt by thread `t` -/
def attempt (k : AcqKind) (f : OnFail) (m : Mx) (t : Nat) : Out × Mx :=
  match k, m.holder with
  | .blocking, some h => if h = t then (.relock, m) else (.blocked, m)
  | .try_, some _ => (f.out, m)                       -- `Err(WouldBlock)`
  | _, none =>
    if m.poisoned then (f.out, m)                      -- `Err(Poisoned)`; the guard inside the error is dropped
    else (.acquired, { m with holder := some t })

/-- an event instantiated with concrete mutexes -/
inductive Act where
  | acq (k : AcqKind) (f : OnFail) (m : Nat)
  | rel (m : Nat)
  deriving DecidableEq, Repr

/-- the state of all mutexes -/
abbrev St := Nat → Mx

def St.set (s : St) (i : Nat) (m : Mx) : St := fun j => if j = i then m else s j

def step (s : St) (t : Nat) : Act → Out × St
  | .acq k f m => ((attempt k f (s m) t).1, s.set m (attempt k f (s m) t).2)
  | .rel m =>
    if (s m).holder = some t then (.released, s.set m { (s m) with holder := none })
    else (.skip, s)

/-- outcomes of a schedule: `(thread, action)` in the order the machine runs them
    (a `blocked` attempt changes nothing; the thread retries later in the schedule) -/
def run (s : St) : List (Nat × Act) → List Out
  | [] => []
  | (t, a) :: rest => (step s t a).1 :: run (step s t a).2 rest

/-- an acquisition that cannot panic on contention: blocking, or its error is handled -/
def Act.safe : Act → Bool
  | .acq .blocking _ _ => true
  | .acq .try_ f _ => f == .other
  | .rel _ => true

def Ev.safe : Ev → Bool
  | .acq .blocking _ _ => true
  | .acq .try_ f _ => f == .other
  | _ => true

/-- instantiate an event (`ρ` maps the written targets to mutexes = their addresses) -/
def Ev.inst (ρ : Tgt → Nat) : Ev → Option Act
  | .acq k f t => some (.acq k f (ρ t))
  | .rel t => some (.rel (ρ t))
  | .assume _ _ => none

def St.unpoisoned (s : St) : Prop := ∀ i, (s i).poisoned = false

/-- all mutexes free and unpoisoned -/
def St.init : St := fun _ => ⟨none, false⟩

/-! ### what a path knows about the two lists' addresses -/

/-- which relations between the addresses of `self` and `other` are still possible -/
structure Rel where
  eq : Bool
  lt : Bool   -- `self` below `other`
  gt : Bool   -- `other` below `self`
  deriving DecidableEq, Repr

/-- nothing known -/
def Rel.top : Rel := ⟨true, true, true⟩

def Rel.assume (K : Rel) : Cond → Bool → Rel
  | .same, true => ⟨K.eq, false, false⟩
  | .same, false => ⟨false, K.lt, K.gt⟩
  | .selfLtOther, true => ⟨false, K.lt, false⟩
  | .selfLtOther, false => ⟨K.eq, false, K.gt⟩
  | .otherLtSelf, true => ⟨false, false, K.gt⟩
  | .otherLtSelf, false => ⟨K.eq, K.lt, false⟩
  | .opaque, _ => K

/-- the knowledge is correct for the assignment `ρ` of targets to mutexes (addresses) -/
def Rel.admits (K : Rel) (ρ : Tgt → Nat) : Prop :=
  (ρ .self_ = ρ .other → K.eq = true) ∧ (ρ .self_ < ρ .other → K.lt = true) ∧ (ρ .other < ρ .self_ → K.gt = true)

/-- the condition evaluates to `b` on the lists `ρ` (an opaque one may go either way) -/
def Cond.holds (ρ : Tgt → Nat) : Cond → Bool → Prop
  | .same, b => (b = true ↔ ρ .self_ = ρ .other)
  | .selfLtOther, b => (b = true ↔ ρ .self_ < ρ .other)
  | .otherLtSelf, b => (b = true ↔ ρ .other < ρ .self_)
  | .opaque, _ => True

/-- the value of an address condition on the lists `ρ`; `none`: depends on the data -/
def Cond.eval (ρ : Tgt → Nat) : Cond → Option Bool
  | .same => some (decide (ρ .self_ = ρ .other))
  | .selfLtOther => some (decide (ρ .self_ < ρ .other))
  | .otherLtSelf => some (decide (ρ .other < ρ .self_))
  | .opaque => none

/-- every decision the path takes is the one the lists `ρ` dictate -/
def pathHolds (ρ : Tgt → Nat) : List Ev → Prop
  | [] => True
  | .assume c b :: r => c.holds ρ b ∧ pathHolds ρ r
  | _ :: r => pathHolds ρ r

/-! ### a thread never locks what it already holds (static check over the paths) -/

/-- may the two written targets be the same mutex, given what the path knows? -/
def mayAlias (K : Rel) : Tgt → Tgt → Bool
  | .unknown, _ => true
  | _, .unknown => true
  | .fresh, .fresh => true
  | .fresh, _ => false
  | _, .fresh => false
  | .self_, .other => K.eq
  | .other, .self_ => K.eq
  | _, _ => true     -- the same written target

/-- no acquisition of a mutex that may already be held by the same call -/
def noRelock : List Ev → List Tgt → Rel → Bool
  | [], _, _ => true
  | .acq _ _ t :: r, held, K => !(held.any (mayAlias K t)) && noRelock r (t :: held) K
  | .rel t :: r, held, K => noRelock r (held.erase t) K
  | .assume c b :: r, held, K => noRelock r held (K.assume c b)

/-- the actions a path performs, in order, under an assignment `ρ` of the
    written targets to mutexes -/
def callActs (ρ : Tgt → Nat) : List Ev → List Act
  | [] => []
  | .acq k f t :: r => .acq k f (ρ t) :: callActs ρ r
  | .rel t :: r => .rel (ρ t) :: callActs ρ r
  | .assume _ _ :: r => callActs ρ r

/-- the actions one call performs on the lists `ρ`: address conditions are
    evaluated on `ρ`; `o` decides the data-dependent branches, in order -/
def Tree.exec (ρ : Tgt → Nat) : Tree → List Bool → List Act
  | .done, _ => []
  | .acq k f t r, o => .acq k f (ρ t) :: r.exec ρ o
  | .rel t r, o => .rel (ρ t) :: r.exec ρ o
  | .branch c a b, o =>
    match c.eval ρ, o with
    | some true, _ => a.exec ρ o
    | some false, _ => b.exec ρ o
    | none, [] => b.exec ρ []
    | none, x :: o' => if x then a.exec ρ o' else b.exec ρ o'

/-- a sequence of actions never acquires a mutex it has acquired and not yet released -/
def heldOk : List Act → List Nat → Bool
  | [], _ => true
  | .acq _ _ m :: r, held => !held.contains m && heldOk r (m :: held)
  | .rel m :: r, held => heldOk r (held.erase m)

/-- admissible assignments: a list created inside the call is no other list -/
structure RhoOk (ρ : Tgt → Nat) : Prop where
  fresh_self : ρ .fresh ≠ ρ .self_
  fresh_other : ρ .fresh ≠ ρ .other

/-! ### lock order: two lists held at once are taken in address order -/

/-- the path knows that `h` lies below `t` -/
def knownBelow (K : Rel) (h t : Tgt) : Bool :=
  (h == .self_ && t == .other && !K.eq && !K.gt) || (h == .other && t == .self_ && !K.eq && !K.lt)

/-- holding `h`, may the call wait for `t` without risking a wait cycle with
    another call?  A list created inside the call is invisible to every other
    thread (nobody else can hold it or wait for it); otherwise `h` must be
    known to lie below `t` (the global order: the address). -/
def orderedPair (K : Rel) (h t : Tgt) : Bool :=
  h == .fresh || t == .fresh || knownBelow K h t

def lockOrderOk : List Ev → List Tgt → Rel → Bool
  | [], _, _ => true
  | .acq _ _ t :: r, held, K => held.all (fun h => orderedPair K h t) && lockOrderOk r (t :: held) K
  | .rel t :: r, held, K => lockOrderOk r (held.erase t) K
  | .assume c b :: r, held, K => lockOrderOk r held (K.assume c b)

/-! ### configurations of threads: what "no deadlock" means -/

/-- the action a thread is about to perform can proceed in state `s` -/
def enabled (s : St) : Act → Prop
  | .acq .blocking _ m => (s m).holder = none
  | .acq .try_ _ _ => True
  | .rel _ => True

/-- a configuration: the mutexes, the threads of interest, what each still has to do,
    and which mutexes are private to a thread (a list created inside a call) -/
structure Cfg where
  s : St
  ts : List Nat
  prog : Nat → List Act
  priv : Nat → Nat → Prop        -- `priv t m`: only thread `t` ever touches `m`

/-- what the lock discipline guarantees in every reachable configuration -/
structure Inv (c : Cfg) : Prop where
  /-- a mutex is only ever held by a thread that still has something to do (calls release what they take) -/
  holders : ∀ m t, (c.s m).holder = some t → t ∈ c.ts ∧ c.prog t ≠ []
  /-- a thread about to lock `m` does not hold `m`, and `m` is private to it or it holds only
      lower-addressed and private mutexes -/
  ordered : ∀ t f m r, c.prog t = .acq .blocking f m :: r → ∀ m', (c.s m').holder = some t →
    m' ≠ m ∧ (c.priv t m ∨ m' < m ∨ c.priv t m')
  /-- nobody else waits for a private mutex -/
  private_ : ∀ t m, c.priv t m → ∀ t' f r, t' ≠ t → c.prog t' ≠ .acq .blocking f m :: r
  /-- …or holds one -/
  priv_holder : ∀ t m, c.priv t m → ∀ t', (c.s m).holder = some t' → t' = t

/-! ### the system of threads, the per-thread lock discipline, and the static discipline of a call -/

def Act.mutex : Act → Nat
  | .acq _ _ m => m
  | .rel m => m

/-- the thread-local lock discipline of a program, given what the thread holds:
    only blocking locks; never a mutex already held; a shared mutex only while
    holding lower-addressed or private ones; releases only what is held;
    everything released at the end -/
def disc (privs : Nat → Prop) [DecidablePred privs] : List Act → List Nat → Bool
  | [], held => held.isEmpty
  | .acq .blocking _ m :: r, held =>
    !held.contains m && (decide (privs m) || held.all (fun h => decide (h < m) || decide (privs h))) && disc privs r (m :: held)
  | .acq .try_ _ _ :: _, _ => false
  | .rel m :: r, held => held.contains m && disc privs r (held.erase m)

def upd {α} (f : Nat → α) (i : Nat) (v : α) : Nat → α := fun j => if j = i then v else f j

def heldAfter : Act → List Nat → List Nat
  | .acq _ _ m, h => m :: h
  | .rel m, h => h.erase m

/-- the whole system: mutexes, each thread's remaining actions, each thread's own record of what it holds -/
structure Sys where
  s : St
  prog : Nat → List Act
  held : Nat → List Nat

/-- thread `t` performs its next action (which can proceed) -/
def Step (c c' : Sys) : Prop :=
  ∃ t a r, c.prog t = a :: r ∧ enabled c.s a ∧
    c' = ⟨(MutexPanic.step c.s t a).2, upd c.prog t r, upd c.held t (heldAfter a (c.held t))⟩

inductive Reach (c0 : Sys) : Sys → Prop
  | refl : Reach c0 c0
  | step {c c'} : Reach c0 c → Step c c' → Reach c0 c'

structure WF (ts : List Nat) (priv : Nat → Nat → Prop) [∀ t, DecidablePred (priv t)] (c : Sys) : Prop where
  unpoisoned : c.s.unpoisoned
  holder_iff : ∀ m t, (c.s m).holder = some t ↔ m ∈ c.held t
  outside : ∀ t, t ∉ ts → c.prog t = []
  disc_ : ∀ t, disc (priv t) (c.prog t) (c.held t) = true
  nodup : ∀ t, (c.held t).Nodup
  private_ : ∀ t m, priv t m → ∀ t', t' ≠ t → ∀ a ∈ c.prog t', Act.mutex a ≠ m
  priv_holder : ∀ t m, priv t m → ∀ t', (c.s m).holder = some t' → t' = t

/-- the static discipline of one path, as written: only blocking locks, never a
    list that may already be held, a second shared list only when the held one
    is known to have the lower address (or one of the two is the call's own new
    list), releases only of what is held, nothing held at the end -/
def callOk : List Ev → List Tgt → Rel → Bool
  | [], held, _ => held.isEmpty
  | .acq k _ t :: r, held, K =>
    k == .blocking && !(held.any (mayAlias K t)) &&
    (t == .fresh || held.all (fun h => h == .fresh || knownBelow K h t)) && callOk r (t :: held) K
  | .rel t :: r, held, K => held.contains t && callOk r (held.erase t) K
  | .assume c b :: r, held, K => callOk r held (K.assume c b)

/-- admissible assignments with the privacy of the call's own new list -/
structure RhoOrd (ρ : Tgt → Nat) (privs : Nat → Prop) : Prop extends RhoOk ρ where
  fresh_priv : privs (ρ .fresh)

/-- one call: the function's tree, the lists it runs on, the outcomes of its data-dependent branches -/
structure Call where
  tree : Tree
  ρ : Tgt → Nat
  o : List Bool

/-- a thread's program: the calls it makes, one after the other -/
def progOf : List Call → List Act
  | [] => []
  | c :: r => c.tree.exec c.ρ c.o ++ progOf r

end RotoV.MutexPanic
