/-
  `std::sync::Mutex` as the list built-ins use it (property C10, contention part).

  A Roto `List[T]` is a `Send + Sync` handle to an `Arc<Mutex<RawList>>`; a
  compiled function may run on several host threads at once and the host may
  hold a list's lock itself (`List::to_vec`, iteration).  A list that another
  thread is using is therefore an ordinary argument of a list built-in, and
  the built-in must still return: a panic inside it (it runs behind an
  `extern "C"` trampoline) aborts the host.

  The translator's `c10locks` target emits, for every function of
  `src/value/list.rs` and every binding body that touches a mutex, the lock
  events as written (`Ev`).  This file gives them their meaning:

  * `.lock()` blocks while another thread holds the mutex and returns
    `Err(PoisonError)` when a thread panicked while holding it;
  * `.try_lock()` never blocks: `Err(WouldBlock)` while *anyone* holds it;
  * `.unwrap()` / `.expect(..)` on an `Err` panic; anything else (`match`, `?`,
    `unwrap_or_else(PoisonError::into_inner)` …) does not;
  * locking a mutex the calling thread already holds is unspecified by std
    ("will not return: might panic or deadlock") — outcome `relock`.

  Core Lean only.
-/
namespace RotoV.MutexPanic

inductive AcqKind where
  | blocking   -- `.lock()`
  | try_       -- `.try_lock()`
  deriving DecidableEq, Repr

/-- what the code does with the `Err` of the lock result -/
inductive OnFail where
  | unwrap | expect | other
  deriving DecidableEq, Repr

/-- which list's mutex, as written: the receiver (`self`/`this`), the second
    list argument (`other`), a list created inside the function (`new`), the
    lower- / higher-addressed of `self` and `other` (bound by
    `let (a, b) = if Arc::as_ptr(&self.0) > Arc::as_ptr(&other.0) { (other, self) } else { (self, other) }`),
    or an expression the translator cannot classify -/
inductive Tgt where
  | self_ | other | fresh | lo | hi | unknown
  deriving DecidableEq, Repr

inductive Ev where
  | acq (k : AcqKind) (f : OnFail) (t : Tgt)
  | rel (t : Tgt)
  /-- `if Arc::ptr_eq(&self.0, &other.0) { return … }` -/
  | distinctOrReturn
  deriving DecidableEq, Repr

/-- one mutex: the thread holding it, and the poison flag -/
structure Mx where
  holder : Option Nat
  poisoned : Bool
  deriving DecidableEq, Repr

inductive Out where
  | acquired | blocked | relock | err | panic | released | skip
  deriving DecidableEq, Repr

def OnFail.out : OnFail → Out
  | .unwrap | .expect => .panic
  | .other => .err

/-- one acquisition attempt by thread `t` -/
def attempt (k : AcqKind) (f : OnFail) (m : Mx) (t : Nat) : Out × Mx :=
  match k, m.holder with
  | .blocking, some h => if h = t then (.relock, m) else (.blocked, m)
  | .try_, some _ => (f.out, m)                       -- `Err(WouldBlock)`
  | _, none =>
    if m.poisoned then (f.out, m)                      -- `Err(Poisoned)`; the guard inside the error is dropped
    else (.acquired, { m with holder := some t })

/-- an event instantiated with concrete mutexes -/
inductive Act where
  | acq (k : AcqKind) (f : OnFail) (m : Nat)
  | rel (m : Nat)
  deriving DecidableEq, Repr

/-- the state of all mutexes -/
abbrev St := Nat → Mx

def St.set (s : St) (i : Nat) (m : Mx) : St := fun j => if j = i then m else s j

def step (s : St) (t : Nat) : Act → Out × St
  | .acq k f m => ((attempt k f (s m) t).1, s.set m (attempt k f (s m) t).2)
  | .rel m =>
    if (s m).holder = some t then (.released, s.set m { (s m) with holder := none })
    else (.skip, s)

/-- outcomes of a schedule: `(thread, action)` in the order the machine runs them
    (a `blocked` attempt changes nothing; the thread retries later in the schedule) -/
def run (s : St) : List (Nat × Act) → List Out
  | [] => []
  | (t, a) :: rest => (step s t a).1 :: run (step s t a).2 rest

/-- an acquisition that cannot panic on contention: blocking, or its error is handled -/
def Act.safe : Act → Bool
  | .acq .blocking _ _ => true
  | .acq .try_ f _ => f == .other
  | .rel _ => true

def Ev.safe : Ev → Bool
  | .acq .blocking _ _ => true
  | .acq .try_ f _ => f == .other
  | _ => true

/-- instantiate an event (`ρ` maps the written targets to mutexes) -/
def Ev.inst (ρ : Tgt → Nat) : Ev → Option Act
  | .acq k f t => some (.acq k f (ρ t))
  | .rel t => some (.rel (ρ t))
  | .distinctOrReturn => none

def St.unpoisoned (s : St) : Prop := ∀ i, (s i).poisoned = false

/-- all mutexes free and unpoisoned -/
def St.init : St := fun _ => ⟨none, false⟩

/-! ### a thread never locks what it already holds (static check over the events) -/

/-- may the two written targets be the same mutex?  (`distinct`: the function
    has returned already if `self` and `other` are the same list) -/
def mayAlias (distinct : Bool) : Tgt → Tgt → Bool
  | .unknown, _ => true
  | _, .unknown => true
  | .fresh, .fresh => true
  | .fresh, _ => false
  | _, .fresh => false
  | .self_, .other => !distinct
  | .other, .self_ => !distinct
  | .lo, .hi => !distinct
  | .hi, .lo => !distinct
  | _, _ => true     -- the same written target, or `lo`/`hi` against `self`/`other` (each is one of them)

/-- no acquisition of a mutex that may already be held by the same call -/
def noRelock : List Ev → List Tgt → Bool → Bool
  | [], _, _ => true
  | .acq _ _ t :: r, held, d => !(held.any (mayAlias d t)) && noRelock r (t :: held) d
  | .rel t :: r, held, d => noRelock r (held.erase t) d
  | .distinctOrReturn :: r, held, _ => noRelock r held true

/-- the actions one call performs, in order, under an assignment `ρ` of the
    written targets to mutexes; at `if Arc::ptr_eq(..) { return }` the call
    ends when `self` and `other` are the same list -/
def callActs (ρ : Tgt → Nat) : List Ev → List Act
  | [] => []
  | .acq k f t :: r => .acq k f (ρ t) :: callActs ρ r
  | .rel t :: r => .rel (ρ t) :: callActs ρ r
  | .distinctOrReturn :: r => if ρ .self_ = ρ .other then [] else callActs ρ r

/-- a sequence of actions never acquires a mutex it has acquired and not yet released -/
def heldOk : List Act → List Nat → Bool
  | [], _ => true
  | .acq _ _ m :: r, held => !held.contains m && heldOk r (m :: held)
  | .rel m :: r, held => heldOk r (held.erase m)

/-- admissible assignments: a list created inside the call is no other list;
    `lo`/`hi` are `self`/`other` in one of the two orders -/
structure RhoOk (ρ : Tgt → Nat) : Prop where
  fresh_self : ρ .fresh ≠ ρ .self_
  fresh_other : ρ .fresh ≠ ρ .other
  fresh_lo : ρ .fresh ≠ ρ .lo
  fresh_hi : ρ .fresh ≠ ρ .hi
  lohi : (ρ .lo = ρ .self_ ∧ ρ .hi = ρ .other) ∨ (ρ .lo = ρ .other ∧ ρ .hi = ρ .self_)

/-! ### lock order: two lists held at once are taken in address order -/

/-- holding `h`, may the call wait for `t` without risking a wait cycle with
    another call?  A list created inside the call is invisible to every other
    thread (nobody else can hold it or wait for it); otherwise only the
    address-ordered pair is allowed. -/
def orderedPair (h t : Tgt) : Bool :=
  h == .fresh || t == .fresh || (h == .lo && t == .hi)

def lockOrderOk : List Ev → List Tgt → Bool
  | [], _ => true
  | .acq _ _ t :: r, held => held.all (fun h => orderedPair h t) && lockOrderOk r (t :: held)
  | .rel t :: r, held => lockOrderOk r (held.erase t)
  | .distinctOrReturn :: r, held => lockOrderOk r held

/-! ### configurations of threads: what "no deadlock" means -/

/-- the action a thread is about to perform can proceed in state `s` -/
def enabled (s : St) : Act → Prop
  | .acq .blocking _ m => (s m).holder = none
  | .acq .try_ _ _ => True
  | .rel _ => True

/-- a configuration: the mutexes, the threads of interest, what each still has to do,
    and which mutexes are private to a thread (a list created inside a call) -/
structure Cfg where
  s : St
  ts : List Nat
  prog : Nat → List Act
  priv : Nat → Nat → Prop        -- `priv t m`: only thread `t` ever touches `m`

/-- what the lock discipline guarantees in every reachable configuration -/
structure Inv (c : Cfg) : Prop where
  /-- a mutex is only ever held by a thread that still has something to do (calls release what they take) -/
  holders : ∀ m t, (c.s m).holder = some t → t ∈ c.ts ∧ c.prog t ≠ []
  /-- a thread about to lock `m` does not hold `m`, and `m` is private to it or it holds only
      lower-addressed and private mutexes -/
  ordered : ∀ t f m r, c.prog t = .acq .blocking f m :: r → ∀ m', (c.s m').holder = some t →
    m' ≠ m ∧ (c.priv t m ∨ m' < m ∨ c.priv t m')
  /-- nobody else waits for a private mutex -/
  private_ : ∀ t m, c.priv t m → ∀ t' f r, t' ≠ t → c.prog t' ≠ .acq .blocking f m :: r
  /-- …or holds one -/
  priv_holder : ∀ t m, c.priv t m → ∀ t', (c.s m).holder = some t' → t' = t

/-! ### the system of threads, the per-thread lock discipline, and the static discipline of a call -/

def Act.mutex : Act → Nat
  | .acq _ _ m => m
  | .rel m => m

/-- the thread-local lock discipline of a program, given what the thread holds:
    only blocking locks; never a mutex already held; a shared mutex only while
    holding lower-addressed or private ones; releases only what is held;
    everything released at the end -/
def disc (privs : Nat → Prop) [DecidablePred privs] : List Act → List Nat → Bool
  | [], held => held.isEmpty
  | .acq .blocking _ m :: r, held =>
    !held.contains m && (decide (privs m) || held.all (fun h => decide (h < m) || decide (privs h))) && disc privs r (m :: held)
  | .acq .try_ _ _ :: _, _ => false
  | .rel m :: r, held => held.contains m && disc privs r (held.erase m)

def upd {α} (f : Nat → α) (i : Nat) (v : α) : Nat → α := fun j => if j = i then v else f j

def heldAfter : Act → List Nat → List Nat
  | .acq _ _ m, h => m :: h
  | .rel m, h => h.erase m

/-- the whole system: mutexes, each thread's remaining actions, each thread's own record of what it holds -/
structure Sys where
  s : St
  prog : Nat → List Act
  held : Nat → List Nat

/-- thread `t` performs its next action (which can proceed) -/
def Step (c c' : Sys) : Prop :=
  ∃ t a r, c.prog t = a :: r ∧ enabled c.s a ∧
    c' = ⟨(MutexPanic.step c.s t a).2, upd c.prog t r, upd c.held t (heldAfter a (c.held t))⟩

inductive Reach (c0 : Sys) : Sys → Prop
  | refl : Reach c0 c0
  | step {c c'} : Reach c0 c → Step c c' → Reach c0 c'

structure WF (ts : List Nat) (priv : Nat → Nat → Prop) [∀ t, DecidablePred (priv t)] (c : Sys) : Prop where
  unpoisoned : c.s.unpoisoned
  holder_iff : ∀ m t, (c.s m).holder = some t ↔ m ∈ c.held t
  outside : ∀ t, t ∉ ts → c.prog t = []
  disc_ : ∀ t, disc (priv t) (c.prog t) (c.held t) = true
  nodup : ∀ t, (c.held t).Nodup
  private_ : ∀ t m, priv t m → ∀ t', t' ≠ t → ∀ a ∈ c.prog t', Act.mutex a ≠ m
  priv_holder : ∀ t m, priv t m → ∀ t', (c.s m).holder = some t' → t' = t

/-- the static discipline of one call, as written: only blocking locks, never a
    list that may already be held, a second shared list only in address order
    (or one of the two is the call's own new list), releases only of what is
    held, nothing held at an early return or at the end -/
def callOk : List Ev → List Tgt → Bool → Bool
  | [], held, _ => held.isEmpty
  | .acq k _ t :: r, held, d =>
    k == .blocking && !(held.any (mayAlias d t)) &&
    (t == .fresh || held.all (fun h => h == .fresh || (h == .lo && t == .hi))) && callOk r (t :: held) d
  | .rel t :: r, held, d => held.contains t && callOk r (held.erase t) d
  | .distinctOrReturn :: r, held, _ => held.isEmpty && callOk r held true

/-- admissible assignments with the address order and the privacy of the call's own new list -/
structure RhoOrd (ρ : Tgt → Nat) (privs : Nat → Prop) : Prop extends RhoOk ρ where
  lo_le_hi : ρ .lo ≤ ρ .hi
  fresh_priv : privs (ρ .fresh)

/-- a thread's program: the calls it makes, one after the other -/
def progOf : List (List Ev × (Tgt → Nat)) → List Act
  | [] => []
  | (evs, ρ) :: r => callActs ρ evs ++ progOf r

end RotoV.MutexPanic
