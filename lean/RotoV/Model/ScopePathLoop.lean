/-
  C13 — the statement language in which the translator (`extract` target
  `scopepath`) transliterates `TypeChecker::resolve_module_part_of_path`
  (src/typechecker/expr.rs), and its meaning.

  The function has the shape

      let mut ident = idents.next().unwrap();
      let mut recurse = true;
      while ident.node == "super".into() { W }
      S
      loop { L }

  over the mutable state `scope`, `ident`, `recurse` and the iterator `idents`.
  The statements the translator accepts in `W`, `S` and `L`:

    let Some(v) = e else { … };                         letElse e … …
    if ident.node == "super".into() { … }               ifSuper … …
    if recurse && ident.node == "pkg".into() { … }      ifRecurseAndPkg … …
    scope = v; / scope = ScopeRef::GLOBAL;              setScope v … / setScopeGlobal …
    ident = v; / recurse = b;                           setIdent v … / setRecurse b …
    return Ok((ident, v));                              retOk v
    return Err(self.error_simple("… too many leading `super` keywords" …))   retTooManySuper
    return Err(self.error_not_defined(ident));          retNotDefined
    unreachable!();                                     unreachable

  with the `Option`-valued expressions

    self.type_info.scope_graph.parent_module(scope)               parentModule
    self.type_info.scope_graph.resolve_name(scope, ident, recurse) resolveName
    v.scope                                                        declScope v
    idents.next()                                                  nextIdent

  Everything else is an extraction failure.  `parent_module` / `resolve_name`
  mean `Graph.parentModule` / `Graph.resolve` of `Model/Scope.lean` (the latter is
  itself tied to the source by `resolve_name_as_modelled`).

  `Props/C13.lean` proves `resolve_module_part_as_modelled`: the transliterated
  function means exactly `Scope.resolveModulePart` on every graph, scope and
  path — so a changed value of `recurse`, a dropped guard on the `pkg` rule, a
  swapped test or a different order of the two `let … else` in the loop stops a
  proof, while a renaming does not.

  Core Lean only.
-/
import RotoV.Model.Scope

namespace RotoV.Scope.PLoop
open RotoV.Scope

/-- what an immutable local holds -/
inductive Val
  | decl (d : Decl)
  | scope (s : Nat)
  | ident (x : Name)
  deriving DecidableEq, Repr, Inhabited

inductive PExpr
  | var (i : Nat)
  | parentModule
  | resolveName
  | declScope (e : PExpr)
  | nextIdent
  deriving DecidableEq, Repr, Inhabited

inductive PBlock
  | done
  | letElse (e : PExpr) (els k : PBlock)
  | ifSuper (t k : PBlock)
  | ifRecurseAndPkg (t k : PBlock)
  | setScope (e : PExpr) (k : PBlock)
  | setScopeGlobal (k : PBlock)
  | setIdent (e : PExpr) (k : PBlock)
  | setRecurse (b : Bool) (k : PBlock)
  | retOk (e : PExpr)
  | retTooManySuper
  | retNotDefined
  | unreachable
  deriving DecidableEq, Repr, Inhabited

/-- the mutable state -/
structure St where
  scope : Nat
  ident : Name
  recurse : Bool
  idents : List Name
  deriving DecidableEq, Repr, Inhabited

inductive Out (α : Type) where
  | ok (a : α)
  | err (e : Err)
  | panic (s : Site)
  /-- ill-typed, an unbound local, an `else` branch that does not diverge -/
  | stuck
  deriving Repr, DecidableEq

def Out.ofRes {α} : Res α → Out α
  | .ok a => .ok a
  | .err e => .err e
  | .panic s => .panic s

inductive Flow
  | ret (r : PathRes)
  | fall (st : St)
  deriving Repr, DecidableEq

/-- `Option`-valued expressions (`idents.next()` advances the iterator) -/
def evalOpt (g : Graph) (st : St) (env : List Val) : PExpr → Out (Option Val × St)
  | .parentModule =>
    match g.parentModule st.scope with
    | .ok d => .ok (d.map .decl, st)
    | .err e => .err e
    | .panic p => .panic p
  | .resolveName =>
    match g.resolve st.scope st.ident st.recurse with
    | .ok d => .ok (d.map .decl, st)
    | .err e => .err e
    | .panic p => .panic p
  | .declScope (.var i) =>
    match env[i]? with
    | some (.decl d) => .ok (d.scope.map .scope, st)
    | _ => .stuck
  | .nextIdent =>
    match st.idents with
    | [] => .ok (none, st)
    | i :: r => .ok (some (.ident i), { st with idents := r })
  | _ => .stuck

/-- one pass through a block -/
def exec (g : Graph) : PBlock → St → List Val → Out Flow
  | .done, st, _ => .ok (.fall st)
  | .letElse e els k, st, env =>
    match evalOpt g st env e with
    | .ok (some v, st') => exec g k st' (env ++ [v])
    | .ok (none, st') =>
      (match exec g els st' env with
       | .ok (.fall _) => .stuck
       | o => o)
    | .err e => .err e
    | .panic p => .panic p
    | .stuck => .stuck
  | .ifSuper t k, st, env =>
    if st.ident = SUPER then
      (match exec g t st env with
       | .ok (.fall st') => exec g k st' env
       | o => o)
    else exec g k st env
  | .ifRecurseAndPkg t k, st, env =>
    if st.recurse && st.ident = PKG then
      (match exec g t st env with
       | .ok (.fall st') => exec g k st' env
       | o => o)
    else exec g k st env
  | .setScope (.var i) k, st, env =>
    (match env[i]? with
     | some (.scope s) => exec g k { st with scope := s } env
     | _ => .stuck)
  | .setScope _ _, _, _ => .stuck
  | .setScopeGlobal k, st, env => exec g k { st with scope := 0 } env
  | .setIdent (.var i) k, st, env =>
    (match env[i]? with
     | some (.ident x) => exec g k { st with ident := x } env
     | _ => .stuck)
  | .setIdent _ _, _, _ => .stuck
  | .setRecurse b k, st, env => exec g k { st with recurse := b } env
  | .retOk (.var i), st, env =>
    (match env[i]? with
     | some (.decl d) => .ok (.ret ⟨st.ident, d, st.idents⟩)
     | _ => .stuck)
  | .retOk _, _, _ => .stuck
  | .retTooManySuper, _, _ => .err .tooManySuper
  | .retNotDefined, _, _ => .err .notDefined
  | .unreachable, _, _ => .panic .superNoScope

/-- `while ident.node == "super".into() { W }` -/
def whileSuper (g : Graph) (W : PBlock) : Nat → St → Out Flow
  | 0, _ => .panic .fuel
  | fuel + 1, st =>
    if st.ident = SUPER then
      match exec g W st [] with
      | .ok (.fall st') => whileSuper g W fuel st'
      | o => o
    else .ok (.fall st)

/-- `loop { L }` -/
def loopSegments (g : Graph) (L : PBlock) : Nat → St → Out Flow
  | 0, _ => .panic .fuel
  | fuel + 1, st =>
    match exec g L st [] with
    | .ok (.fall st') => loopSegments g L fuel st'
    | o => o

/-- a `Flow` at the end of the function: falling out of `loop { }` cannot happen -/
def outOfFlow : Out Flow → Out PathRes
  | .ok (.ret r) => .ok r
  | .ok (.fall _) => .stuck
  | .err e => .err e
  | .panic p => .panic p
  | .stuck => .stuck

/-- `while … { W }  S  loop { L }` from a given state; each loop consumes an
    identifier per iteration that falls through, so `n > idents.length`
    iterations suffice -/
def tail (g : Graph) (W S L : PBlock) (n : Nat) (st : St) : Out PathRes :=
  match whileSuper g W n st with
  | .ok (.fall st1) =>
    (match exec g S st1 [] with
     | .ok (.fall st2) => outOfFlow (loopSegments g L (st2.idents.length + 1) st2)
     | .ok (.ret r) => .ok r
     | .err e => .err e
     | .panic p => .panic p
     | .stuck => .stuck)
  | .ok (.ret r) => .ok r
  | .err e => .err e
  | .panic p => .panic p
  | .stuck => .stuck

/-- the whole function: `let mut ident = idents.next().unwrap(); let mut recurse = recurse0;` first -/
def runPath (recurse0 : Bool) (W S L : PBlock) (g : Graph) (s : Nat) : Path → Out PathRes
  | [] => .panic .emptyPath
  | id :: rest => tail g W S L (rest.length + 1) ⟨s, id, recurse0, rest⟩

/-- what `extract` generates from the unchanged tree -/
def referenceWhile : PBlock :=
  .letElse .parentModule .retTooManySuper
  (.letElse (.declScope (.var 0)) .unreachable
  (.setScope (.var 1)
  (.setRecurse false
  (.letElse .nextIdent (.retOk (.var 0))
  (.setIdent (.var 2) .done)))))

def referenceBetween : PBlock := .ifRecurseAndPkg (.setScopeGlobal .done) .done

def referenceLoop : PBlock :=
  .ifSuper .retTooManySuper
  (.letElse .resolveName .retNotDefined
  (.letElse (.declScope (.var 0)) (.retOk (.var 0))
  (.letElse .nextIdent (.retOk (.var 0))
  (.setScope (.var 1)
  (.setIdent (.var 2)
  (.setRecurse false .done))))))

/-- Appendix-B mutant: later segments looked up recursively -/
def recursiveSegmentsLoop : PBlock :=
  .ifSuper .retTooManySuper
  (.letElse .resolveName .retNotDefined
  (.letElse (.declScope (.var 0)) (.retOk (.var 0))
  (.letElse .nextIdent (.retOk (.var 0))
  (.setScope (.var 1)
  (.setIdent (.var 2)
  (.setRecurse true .done))))))

end RotoV.Scope.PLoop
