/-
  C16 — the lock skeleton of a list operation, *derived* from the raw lock
  trace of its source.

  /verif/extract (target `c16facts`) reduces every modelled function of
  src/value/list.rs, along every path through its `Arc::ptr_eq` / address
  comparison, to a sequence of tokens (`RTok`): the schedule points (the
  `verif-hooks` calls before a lock acquisition and between lookup and use),
  lock acquisitions, releases (end of the statement for a temporary guard,
  `drop(g)`, end of the block, end of the function) and accesses to a list's
  buffer. `skeleton` cuts such a trace into its atomic steps — a step runs
  from one schedule point to the next — and records for every step which lock
  it waits for, which guards are alive when it ends, whether a buffer was
  touched outside its list's guard, and whether a lock was taken that the
  step's schedule point does not announce.

  Props/C16 proves that the skeleton of the *generated* traces is, for every
  operation, argument and step, the lock structure of the model's `opStep`
  (`NeedsOp`, `HoldsOp` of Lemmas/ListConc). What a step *computes* (the
  `RawList` call) stays hand-modelled.
-/
import RotoV.Model.ListConc
namespace RotoV.ListConc

/-- a token of the raw trace of one path through one function -/
inductive RTok
  /-- schedule point before the acquisition of `w`'s lock -/
  | point (w : Who)
  /-- schedule point between an element lookup in `w` and its use -/
  | usePoint (w : Who)
  | lock (w : Who)
  | unlock (w : Who)
  /-- the buffer of `w` is read or written -/
  | access (w : Who)
  deriving DecidableEq, Repr

/-- one atomic step of an operation, as far as locks are concerned -/
structure SkStep where
  /-- the lock the step waits for (`none`: it starts at a use point, or the
      operation has no schedule point at all) -/
  needs : Option Who
  /-- guards alive when the step ends (latest first) -/
  holdsAfter : List Who
  /-- a buffer was touched in this step while its list's guard was not held -/
  unguarded : Bool
  /-- a lock was taken in this step that its schedule point does not announce
      (another list's, a second one, or no schedule point at all) -/
  unhooked : Bool
  deriving DecidableEq, Repr

structure SkState where
  held : List Who := []
  needs : Option Who := none
  unguarded : Bool := false
  unhooked : Bool := false
  /-- the step's announced lock has been taken -/
  locked : Bool := false
  /-- a schedule point has been seen (the current step has a beginning) -/
  started : Bool := false
  /-- completed steps, latest first -/
  steps : List SkStep := []

def SkState.close (st : SkState) : List SkStep :=
  ⟨st.needs, st.held, st.unguarded, st.unhooked⟩ :: st.steps

/-- a schedule point ends the current step (if there is one) and begins the next -/
def SkState.begin (st : SkState) (needs : Option Who) : SkState :=
  { held := st.held, needs := needs, started := true
    steps := if st.started then st.close else st.steps }

def skTok (st : SkState) : RTok → SkState
  | .point w => st.begin (some w)
  | .usePoint _ => st.begin none
  | .lock w =>
    { st with held := w :: st.held
              unhooked := st.unhooked || !(st.needs == some w && !st.locked)
              locked := true }
  | .unlock w => { st with held := st.held.erase w }
  | .access w => { st with unguarded := st.unguarded || !st.held.contains w }

/-- the atomic steps of a raw trace -/
def skeleton (toks : List RTok) : List SkStep :=
  (toks.foldl skTok {}).close.reverse

/-! ### the skeletons of the model's operations -/

/-- how the two operands of `==` / `concat` lie: the same list, `self` at the
    lower address, `self` at the higher (list indices are in address order) -/
inductive Path | same | lt | ge
  deriving DecidableEq, Repr

def pathOf (a b : Nat) : Path := if a = b then .same else if a < b then .lt else .ge

/-- one critical section around one `RawList` call -/
def skSingle : List SkStep := [⟨some .self, [], false, false⟩]

/-- lookup under the guard | clone under the same guard -/
def skGet : List SkStep := [⟨some .self, [.self], false, false⟩, ⟨none, [], false, false⟩]

/-- no lock at all (`l == l`, handle clone / drop) -/
def skNone : List SkStep := [⟨none, [], false, false⟩]

def skEq : Path → List SkStep
  | .same => skNone
  | .lt => [⟨some .self, [.self], false, false⟩, ⟨some .other, [], false, false⟩]
  | .ge => [⟨some .other, [.other], false, false⟩, ⟨some .self, [], false, false⟩]

def skConcat : Path → List SkStep
  | .same => [⟨some .self, [.self], false, false⟩, ⟨some .new, [], false, false⟩]
  | .lt => [⟨some .self, [.self], false, false⟩, ⟨some .other, [.other, .self], false, false⟩,
            ⟨some .new, [], false, false⟩]
  | .ge => [⟨some .other, [.other], false, false⟩, ⟨some .self, [.self, .other], false, false⟩,
            ⟨some .new, [], false, false⟩]

/-- the lock skeleton of an operation of the model -/
def opSkel : Op → List SkStep
  | .get _ _ | .ffiGet _ _ => skGet
  | .push _ _ | .contains _ _ | .swap _ _ _ | .len _ | .index _ _ | .isEmpty _ | .toVec _ => skSingle
  | .clone _ | .drop _ => skNone
  | .eq a b => skEq (pathOf a b)
  | .concat a b => skConcat (pathOf a b)

/-- which list of the store a trace's `self` / `other` is; `new` is the
    private result of `concat`, a lock nobody else can want -/
def whoIdx : Op → Who → Option Nat
  | .eq a _, .self | .concat a _, .self => some a
  | .eq _ b, .other | .concat _ b, .other => some b
  | .get l _, .self | .ffiGet l _, .self | .push l _, .self | .contains l _, .self
  | .swap l _ _, .self | .len l, .self | .index l _, .self | .isEmpty l, .self | .toVec l, .self => some l
  | _, _ => none

end RotoV.ListConc
