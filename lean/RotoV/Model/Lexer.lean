/-
  Lexer: hand-written executable model of `src/parser/lexer.rs` (and of
  `Span::character_range`, `src/parser/meta.rs`) for property C06.

  The input is the list of decoded characters of a `&str`; byte offsets are
  recomputed from the UTF-8 length of each character (`sz` = `char::len_utf8`).
  Every place where the Rust code slices a `&str` at a byte offset
  (`split_at`, `&s[a..]`, `&s[..b]`, `&s[a..b]`) or subtracts `usize`s is an
  explicit `Res.panic` when the offset is not a character boundary / the
  subtraction underflows — nothing is totalised away, so "the lexer cannot
  panic" is a statement one can prove (`Props/C06.lean`) or refute.

  `is_xid_start`, `is_xid_continue` (crate `unicode-ident`) and
  `char::is_whitespace` are PARAMETERS (`Preds`): the theorems hold for every
  instantiation; the driver instantiates them per request from a table the
  harness computes with the real functions.

  Tables (keywords, punctuation, recogniser order of `next_token`) come from
  `Generated/LexTables.lean`, regenerated from the Rust source on every run.

  Core Lean only (no Mathlib): linked into the driver executable.
-/
import RotoV.Model.RustStd
import RotoV.Model.LexerBase
import RotoV.Generated.LexTables

namespace RotoV.Lex
open RotoV

/-- The Unicode predicates the lexer consults (parameters of every theorem). -/
structure Preds where
  xidStart : Char → Bool
  xidContinue : Char → Bool
  whitespace : Char → Bool

/-! ## UTF-8 -/

/-- `char::len_utf8` -/
def sz (c : Char) : Nat :=
  if c.toNat < 0x80 then 1 else if c.toNat < 0x800 then 2 else if c.toNat < 0x10000 then 3 else 4

/-- UTF-8 encoding of one character (bytes as `Nat`s). -/
def enc (c : Char) : List Nat :=
  let v := c.toNat
  if v < 0x80 then [v]
  else if v < 0x800 then [0xC0 + v / 64, 0x80 + v % 64]
  else if v < 0x10000 then [0xE0 + v / 4096, 0x80 + (v / 64) % 64, 0x80 + v % 64]
  else [0xF0 + v / 262144, 0x80 + (v / 4096) % 64, 0x80 + (v / 64) % 64, 0x80 + v % 64]

/-- `str::as_bytes` -/
def bytes (s : List Char) : List Nat := s.flatMap enc

/-- `str::len` (in bytes) -/
def blen : List Char → Nat
  | [] => 0
  | c :: cs => sz c + blen cs

/-! ## Rust operations that can panic -/

/-- `a - b` on `usize` (debug profile: underflow panics). -/
def usub (a b : Nat) : Res Nat := if b ≤ a then .ok (a - b) else .panic

/-- `str::split_at(n)`: panics unless `n` is a character boundary `≤ len`. -/
def splitAt : List Char → Nat → Res (List Char × List Char)
  | s, 0 => .ok ([], s)
  | [], _ + 1 => .panic
  | c :: cs, n + 1 =>
    if sz c ≤ n + 1 then
      match splitAt cs (n + 1 - sz c) with
      | .ok p => .ok (c :: p.1, p.2)
      | .panic => .panic
    else .panic

/-- `&s[n..]` -/
def sliceFrom (s : List Char) (n : Nat) : Res (List Char) :=
  match splitAt s n with
  | .ok p => .ok p.2
  | .panic => .panic

/-- `&s[..n]` -/
def sliceTo (s : List Char) (n : Nat) : Res (List Char) :=
  match splitAt s n with
  | .ok p => .ok p.1
  | .panic => .panic

/-- `&s[a..b]`: panics if `a > b` or either is not a boundary inside `s`. -/
def slice (s : List Char) (a b : Nat) : Res (List Char) :=
  match splitAt s a with
  | .panic => .panic
  | .ok p =>
    match usub b a with
    | .panic => .panic
    | .ok n => sliceTo p.2 n

/-! ## ASCII character classes (`char::is_ascii_digit` …) -/

def isAsciiDigit (c : Char) : Bool := 48 ≤ c.toNat && c.toNat ≤ 57
def isAsciiHexDigit (c : Char) : Bool :=
  isAsciiDigit c || (65 ≤ c.toNat && c.toNat ≤ 70) || (97 ≤ c.toNat && c.toNat ≤ 102)
/-- `is_roto_digit` -/
def isRotoDigit (c : Char) : Bool := isAsciiDigit c || c == '_'

/-! ## `StrExt` (all of them return a suffix of their argument) -/

/-- `eat_char` / `strip_prefix(char)`: (matched, rest) -/
def eatChar (c : Char) : List Char → Bool × List Char
  | [] => (false, [])
  | x :: xs => if x = c then (true, xs) else (false, x :: xs)

/-- `strip_prefix(&str)` -/
def stripPrefix : List Char → List Char → Option (List Char)
  | [], s => some s
  | _ :: _, [] => none
  | p :: ps, x :: xs => if p = x then stripPrefix ps xs else none

/-- `eat_str` -/
def eatStr (p : List Char) (s : List Char) : Bool × List Char :=
  match stripPrefix p s with
  | some r => (true, r)
  | none => (false, s)

/-- `eat_one_of` -/
def eatOneOf (opts : List Char) : List Char → Bool × List Char
  | [] => (false, [])
  | x :: xs => if opts.contains x then (true, xs) else (false, x :: xs)

/-- `eat_until(c)`: `split_once(c)` — the rest after the first `c`, or `""`. -/
def eatUntil (c : Char) : List Char → List Char
  | [] => []
  | x :: xs => if x = c then xs else eatUntil c xs

/-- `eat_while`: `trim_start_matches(pat)`; the flag is `self.len() != new.len()`. -/
def eatWhile (p : Char → Bool) (s : List Char) : Bool × List Char :=
  let t := s.dropWhile p
  (blen s != blen t, t)

/-- `eat_until_fn` with the stateful closure of `Lexer::string` / `Lexer::char`
(`last_is_backslash`): the rest after the first unescaped `q`, or `""`. -/
def eatUntilQuote (q : Char) : Bool → List Char → List Char
  | _, [] => []
  | last, c :: cs =>
    if last then eatUntilQuote q false cs
    else if c = q then cs
    else if c = '\\' then eatUntilQuote q true cs
    else eatUntilQuote q false cs

/-- `str::starts_with(|c| p c)` -/
def startsWith (p : Char → Bool) : List Char → Bool
  | [] => false
  | c :: _ => p c

/-! ## The lexer state -/

/-- `struct Lexer { input, original_length, .. }` (the `peeked` queue only
buffers results of `next_inner`; `almost_keyword` is a diagnostic note). -/
structure Lexer where
  input : List Char
  origLen : Nat
  deriving Repr, DecidableEq

/-- `Lexer::new` -/
def Lexer.new (src : List Char) : Lexer := ⟨src, blen src⟩

/-- byte range `start..end` -/
abbrev Span := Nat × Nat

/-- `Lexer::bump(n)`: `(a, start..end)` and the advanced lexer. -/
def Lexer.bump (L : Lexer) (n : Nat) : Res (List Char × Span × Lexer) :=
  match usub L.origLen (blen L.input) with
  | .panic => .panic
  | .ok start =>
    match splitAt L.input n with
    | .panic => .panic
    | .ok p =>
      match usub L.origLen (blen p.2) with
      | .panic => .panic
      | .ok stop => .ok (p.1, (start, stop), { L with input := p.2 })

/-- `Lexer::bump_to(tail)` = `bump(self.input.len() - tail.len())` -/
def Lexer.bumpTo (L : Lexer) (tail : List Char) : Res (List Char × Span × Lexer) :=
  match usub (blen L.input) (blen tail) with
  | .panic => .panic
  | .ok n => L.bump n

/-- `ControlFlow<(Token, Range<usize>)>` of a recogniser, with the new state:
`none` = `Continue(())` (lexer unchanged), `some` = `Break`. -/
abbrev Step := Res (Option (TokKind × Span × Lexer))

/-- bump to `tail` and break with `kind`. -/
def breakAt (L : Lexer) (tail : List Char) (kind : TokKind) : Step :=
  match L.bumpTo tail with
  | .panic => .panic
  | .ok r => .ok (some (kind, r.2.1, r.2.2))

/-! ## Whitespace, comments, shebang -/

/-- the loop of `skip_whitespace` on `tail`; `fuel` bounds the number of
comments (each iteration that continues consumes `//`, so `s.length + 1`
always suffices). -/
def skipWsTail (P : Preds) : Nat → List Char → List Char
  | 0, s => s
  | fuel + 1, s =>
    let t := s.dropWhile P.whitespace
    match eatStr ['/', '/'] t with
    | (true, r) => skipWsTail P fuel (eatUntil '\n' r)
    | (false, _) => t

/-- `Lexer::skip_whitespace` -/
def skipWhitespace (P : Preds) (L : Lexer) : Res Lexer :=
  let tail := skipWsTail P (L.input.length + 1) L.input
  if blen tail < blen L.input then
    match L.bumpTo tail with
    | .panic => .panic
    | .ok r => .ok r.2.2
  else .ok L

/-- `Lexer::skip_shebang` -/
def skipShebang (P : Preds) (L : Lexer) : Res Lexer :=
  match eatStr ['#', '!'] L.input with
  | (true, t) =>
    match L.bumpTo (eatUntil '\n' t) with
    | .panic => .panic
    | .ok r => .ok r.2.2
  | (false, _) => .ok L

/-! ## Recognisers -/

open RotoV.Gen.LexTables in
/-- `two_char_punctuation`: looks at the first two BYTES (`first_chunk::<2>`),
then `bump(2)`. -/
def twoCharPunctuation (L : Lexer) : Step :=
  match bytes (L.input.take 2) with
  | a :: b :: _ =>
    match twoChar.find? (fun e => e.1 = a && e.2.1 = b) with
    | none => .ok none
    | some e =>
      match L.bump 2 with
      | .panic => .panic
      | .ok r => .ok (some (.punct e.2.2, r.2.1, r.2.2))
  | _ => .ok none

open RotoV.Gen.LexTables in
/-- `one_char_punctuation`: looks at the first BYTE, then `bump(1)`. -/
def oneCharPunctuation (L : Lexer) : Step :=
  match bytes (L.input.take 1) with
  | a :: _ =>
    match oneChar.find? (fun e => e.1 = a) with
    | none => .ok none
    | some e =>
      match L.bump 1 with
      | .panic => .panic
      | .ok r => .ok (some (.punct e.2, r.2.1, r.2.2))
  | _ => .ok none

/-- `ipv6`: two rounds of `hex* ':'`, then `(hex | ':')*`. -/
def ipv6 (L : Lexer) : Step :=
  let t := (eatWhile isAsciiHexDigit L.input).2
  match eatChar ':' t with
  | (false, _) => .ok none
  | (true, t) =>
    let t := (eatWhile isAsciiHexDigit t).2
    match eatChar ':' t with
    | (false, _) => .ok none
    | (true, t) =>
      breakAt L (eatWhile (fun c => isAsciiHexDigit c || c == ':') t).2 .ipv6

/-- one round of `ipv4`'s loop: `digit+ '.'` -/
def ipv4Group (t : List Char) : Option (List Char) :=
  match eatWhile isAsciiDigit t with
  | (false, _) => none
  | (true, t) =>
    match eatChar '.' t with
    | (false, _) => none
    | (true, t) => some t

/-- `ipv4`: three rounds of `digit+ '.'`, then `digit*`. -/
def ipv4 (L : Lexer) : Step :=
  match ipv4Group L.input with
  | none => .ok none
  | some t =>
    match ipv4Group t with
    | none => .ok none
    | some t =>
      match ipv4Group t with
      | none => .ok none
      | some t => breakAt L (eatWhile isAsciiDigit t).2 .ipv4

/-- `as_number`: `"AS" digit+` -/
def asNumber (L : Lexer) : Step :=
  match eatStr ['A', 'S'] L.input with
  | (false, _) => .ok none
  | (true, t) =>
    match eatWhile isAsciiDigit t with
    | (false, _) => .ok none
    | (true, t) => breakAt L t .asn

/-- `hex_number`: `"0x" hex*` -/
def hexNumber (L : Lexer) : Step :=
  match eatStr ['0', 'x'] L.input with
  | (false, _) => .ok none
  | (true, t) => breakAt L (eatWhile isAsciiHexDigit t).2 .hex

/-- the edge case of `number`: `10..`, `10.x`, `10._x` are an integer followed
by something else (`tail.chars().nth(1)` after a `.`). -/
def numberEdge (P : Preds) (t : List Char) : Bool :=
  match t with
  | '.' :: c :: _ => P.xidStart c || c == '.' || c == '_'
  | _ => false

/-- the fraction: `'.' digit*` -/
def numberDot (t : List Char) : Bool × List Char :=
  match eatChar '.' t with
  | (true, u) => (true, (eatWhile isRotoDigit u).2)
  | (false, u) => (false, u)

/-- the exponent: `('e' | 'E') ('+' | '-')? digit*` -/
def numberExp (r : Bool × List Char) : Bool × List Char :=
  match eatOneOf ['e', 'E'] r.2 with
  | (true, v) => (true, (eatWhile isRotoDigit (eatOneOf ['+', '-'] v).2).2)
  | (false, _) => r

/-- the `'float:` block of `number`: (is_float, tail) from the tail after the
leading digits. `break 'float` (the edge case) skips the exponent as well. -/
def numberFloatPart (P : Preds) (t : List Char) : Bool × List Char :=
  if numberEdge P t then (false, t) else numberExp (numberDot t)

/-- `number`: integer or float literal with optional type suffix. -/
def number (P : Preds) (L : Lexer) : Step :=
  if !startsWith isAsciiDigit L.input then .ok none
  else
    let t := (eatWhile isRotoDigit L.input).2
    let fp := numberFloatPart P t
    match usub (blen L.input) (blen fp.2) with
    | .panic => .panic
    | .ok length =>
      let t := (eatWhile (fun c => P.xidContinue c || c == '_') fp.2).2
      match L.bumpTo t with
      | .panic => .panic
      | .ok r =>
        -- `tok.split_at(length)`
        match splitAt r.1 length with
        | .panic => .panic
        | .ok _ => .ok (some (if fp.1 then .float length else .integer length, r.2.1, r.2.2))

/-- `f_string`: the start token `f"` -/
def fString (L : Lexer) : Step :=
  match eatStr ['f', '"'] L.input with
  | (false, _) => .ok none
  | (true, t) => breakAt L t .fStringStart

/-- `string` / `char`: from the quote to the first unescaped closing quote.
A literal whose closing quote is the very last character of the input is NOT
recognised (`if tail.is_empty() { return Continue }`). -/
def quoted (q : Char) (kind : TokKind) (L : Lexer) : Step :=
  match eatChar q L.input with
  | (false, _) => .ok none
  | (true, t) =>
    let t := eatUntilQuote q false t
    if t.isEmpty then .ok none else breakAt L t kind

open RotoV.Gen.LexTables in
/-- `keyword_or_ident` (after f49b6c9: `tail = &tail[c.len_utf8()..]`). -/
def keywordOrIdent (P : Preds) (L : Lexer) : Step :=
  match L.input with
  | [] => .ok none
  | c :: _ =>
    if !(P.xidStart c || c == '_') then .ok none
    else
      match sliceFrom L.input (sz c) with
      | .panic => .panic
      | .ok t =>
        match L.bumpTo (eatWhile P.xidContinue t).2 with
        | .panic => .panic
        | .ok r =>
          let kind := match keywords.find? (fun e => e.1 = r.1) with
            | some e => e.2
            | none => .ident
          .ok (some (kind, r.2.1, r.2.2))

/-- dispatch a recogniser name to its model -/
def runRecogniser (P : Preds) : Recogniser → Lexer → Step
  | .ipv6 => ipv6
  | .ipv4 => ipv4
  | .twoCharPunctuation => twoCharPunctuation
  | .oneCharPunctuation => oneCharPunctuation
  | .asNumber => asNumber
  | .hexNumber => hexNumber
  | .number => number P
  | .fString => fString
  | .string => quoted '"' .string
  | .char => quoted '\'' .char
  | .keywordOrIdent => keywordOrIdent P

/-- the `self.x()?; self.y()?; …` chain of `next_token` -/
def tryAll (P : Preds) : List Recogniser → Lexer → Step
  | [], _ => .ok none
  | r :: rs, L =>
    match runRecogniser P r L with
    | .panic => .panic
    | .ok (some x) => .ok (some x)
    | .ok none => tryAll P rs L

/-- `Lexer::next_token`: `none` = `Continue(())`. The lexer state changes in
both cases (whitespace is skipped first). -/
def nextToken (P : Preds) (L : Lexer) : Res (Option (TokKind × Span) × Lexer) :=
  match skipWhitespace P L with
  | .panic => .panic
  | .ok L1 =>
    if L1.input.isEmpty then .ok (none, L1)
    else
      match tryAll P RotoV.Gen.LexTables.recognisers L1 with
      | .panic => .panic
      | .ok none => .ok (none, L1)
      | .ok (some x) => .ok (some (x.1, x.2.1), x.2.2)

/-- item of `Lexer::next_inner` -/
inductive Item where
  | eof
  | invalid (span : Span)
  | tok (kind : TokKind) (span : Span)
  deriving Repr, DecidableEq

/-- `Lexer::next_inner`. On an unrecognised character the span covers that one
character (`end = start + c.len_utf8()`; before the fix of this property it was
`start + 1`, see `invalidSpanOld`); the lexer does not advance. -/
def nextInner (P : Preds) (L : Lexer) : Res (Item × Lexer) :=
  match nextToken P L with
  | .panic => .panic
  | .ok (some t, L1) => .ok (.tok t.1 t.2, L1)
  | .ok (none, L1) =>
    match L1.input with
    | [] => .ok (.eof, L1)
    | c :: _ =>
      match usub L1.origLen (blen L1.input) with
      | .panic => .panic
      | .ok start => .ok (.invalid (start, start + sz c), L1)

/-- the span `next_inner` produced for an unrecognised character on the
unchanged tree (`start..start + 1`). -/
def invalidSpanOld (start : Nat) : Span := (start, start + 1)

/-! ## f-string parts -/

/-- where the scanner of `f_string_part` is inside the `'outer` loop -/
inductive FMode where
  /-- at the top of `'outer` -/
  | normal
  /-- just read `\` -/
  | esc
  /-- just read `\u` / `\U` -/
  | escU
  /-- inside `\u{…`, looking for `}` -/
  | uni
  /-- just read `{` -/
  | brace
  deriving Repr, DecidableEq

/-- the scan of `f_string_part` over `char_indices()`: `i` is the byte index of
the head of the list. `none` = the function returns `None`; `some (true, i)` =
closing quote at `i`; `some (false, i)` = an interpolation starts and `i` is
the index of the character AFTER the `{` (the code bumps to `i - 1`). -/
def fspScan : FMode → Nat → List Char → Option (Bool × Nat)
  | _, _, [] => none
  | .normal, i, c :: cs =>
    if c = '\\' then fspScan .esc (i + sz c) cs
    else if c = '{' then fspScan .brace (i + sz c) cs
    else if c = '"' then some (true, i)
    else fspScan .normal (i + sz c) cs
  | .esc, i, c :: cs =>
    if c = 'u' || c = 'U' then fspScan .escU (i + sz c) cs else fspScan .normal (i + sz c) cs
  | .escU, i, c :: cs =>
    if c = '{' then fspScan .uni (i + sz c) cs else none
  | .uni, i, c :: cs =>
    if c = '}' then fspScan .normal (i + sz c) cs else fspScan .uni (i + sz c) cs
  | .brace, i, c :: cs =>
    if c = '{' then fspScan .normal (i + sz c) cs else some (false, i)

/-- result of `Lexer::f_string_part` -/
inductive FPart where
  /-- `None`: input ended inside the f-string (or a malformed `\u`) -/
  | none
  /-- `StringEnd`, span excludes the closing quote (which is consumed) -/
  | strEnd (span : Span)
  /-- `StringIntermediate`, the lexer stands before the `{` -/
  | strMid (span : Span)
  deriving Repr, DecidableEq

/-- `Lexer::f_string_part` -/
def fStringPart (L : Lexer) : Res (FPart × Lexer) :=
  match fspScan .normal 0 L.input with
  | none => .ok (.none, L)
  | some (true, i) =>
    match L.bump i with
    | .panic => .panic
    | .ok r =>
      match r.2.2.bump 1 with
      | .panic => .panic
      | .ok r2 => .ok (.strEnd r.2.1, r2.2.2)
  | some (false, i) =>
    match usub i 1 with
    | .panic => .panic
    | .ok j =>
      match L.bump j with
      | .panic => .panic
      | .ok r => .ok (.strMid r.2.1, r.2.2)

/-! ## A whole-input driver (the protocol of the token hook)

`roto::verif_hooks::c06::lex_all` drives the real lexer the way the parser's
`f_string` does: after `FStringStart` it asks for an f-string part; after a
`StringIntermediate` it lexes ordinary tokens, counting braces, and when the
brace that opened the interpolation closes it asks for the next part. The same
protocol is modelled here, so the two token streams can be diffed. -/

/-- kind of a record of the token stream -/
inductive OutKind where
  /-- a token of `next_inner` -/
  | tok (k : TokKind)
  /-- `Err(())`: unrecognised character (the stream ends here) -/
  | invalid
  /-- `f_string_part` returned `None` (the stream ends here; span is `0..0`) -/
  | fNone
  /-- `StringEnd` -/
  | fEnd
  /-- `StringIntermediate` -/
  | fMid
  deriving Repr, DecidableEq

/-- one record of the token stream: kind and byte span -/
structure OutTok where
  kind : OutKind
  start : Nat
  stop : Nat
  deriving Repr, DecidableEq

/-- the name the hook prints for a token kind -/
def kindName : TokKind → String
  | .ident => "Ident"
  | .punct n => n
  | .keyword n => "Keyword(" ++ n ++ ")"
  | .bool b => if b then "Bool(true)" else "Bool(false)"
  | .string => "String"
  | .char => "Char"
  | .integer n => "Integer:" ++ toString n
  | .float n => "Float:" ++ toString n
  | .hex => "Hex"
  | .asn => "Asn"
  | .ipv4 => "IpV4"
  | .ipv6 => "IpV6"
  | .fStringStart => "FStringStart"

def OutKind.name : OutKind → String
  | .tok k => kindName k
  | .invalid => "Invalid"
  | .fNone => "FStringNone"
  | .fEnd => "FStringEnd"
  | .fMid => "FStringMid"

/-- outcome of a driver loop: the model distinguishes running out of fuel
(`hang`, proved impossible) from a panic. -/
inductive Run (α : Type) where
  | done (a : α)
  | panic
  | hang
  deriving Repr, DecidableEq

/-- ask for an f-string part; `(continue?, stack, acc)` -/
def fPartStep (L : Lexer) (stack : List Nat) (acc : List OutTok) :
    Res (Bool × Lexer × List Nat × List OutTok) :=
  match fStringPart L with
  | .panic => .panic
  | .ok (.none, L1) => .ok (false, L1, stack, ⟨.fNone, 0, 0⟩ :: acc)
  | .ok (.strEnd sp, L1) => .ok (true, L1, stack, ⟨.fEnd, sp.1, sp.2⟩ :: acc)
  | .ok (.strMid sp, L1) => .ok (true, L1, 0 :: stack, ⟨.fMid, sp.1, sp.2⟩ :: acc)

/-- the driver loop (`acc` is reversed). `stack` holds, per open
interpolation, the current brace depth. -/
def tokLoop (P : Preds) : Nat → Lexer → List Nat → List OutTok → Run (List OutTok)
  | 0, _, _, _ => .hang
  | fuel + 1, L, stack, acc =>
    match nextInner P L with
    | .panic => .panic
    | .ok (.eof, _) => .done acc.reverse
    | .ok (.invalid sp, _) => .done (⟨.invalid, sp.1, sp.2⟩ :: acc).reverse
    | .ok (.tok kind sp, L1) =>
      let acc := ⟨.tok kind, sp.1, sp.2⟩ :: acc
      if kind = .fStringStart then
        match fPartStep L1 stack acc with
        | .panic => .panic
        | .ok (false, _, _, acc) => .done acc.reverse
        | .ok (true, L2, stack, acc) => tokLoop P fuel L2 stack acc
      else if kind = .punct "CurlyLeft" then
        match stack with
        | [] => tokLoop P fuel L1 [] acc
        | d :: ds => tokLoop P fuel L1 ((d + 1) :: ds) acc
      else if kind = .punct "CurlyRight" then
        match stack with
        | [] => tokLoop P fuel L1 [] acc
        | d :: ds =>
          if d ≤ 1 then
            match fPartStep L1 ds acc with
            | .panic => .panic
            | .ok (false, _, _, acc) => .done acc.reverse
            | .ok (true, L2, stack, acc) => tokLoop P fuel L2 stack acc
          else tokLoop P fuel L1 ((d - 1) :: ds) acc
      else tokLoop P fuel L1 stack acc

/-- lex a whole source text: `Lexer::new`, `skip_shebang`, then the driver
loop with fuel `len + 2` (every iteration consumes at least one byte). -/
def tokenize (P : Preds) (src : List Char) : Run (List OutTok) :=
  match skipShebang P (Lexer.new src) with
  | .panic => .panic
  | .ok L => tokLoop P (blen src + 2) L [] []

/-! ## `Span::character_range` (`parser/meta.rs`) -/

/-- `character_range`: `file[..start].chars().count()` and
`file[start..end].chars().count()`. -/
def characterRange (file : List Char) (sp : Span) : Res (Nat × Nat) :=
  match sliceTo file sp.1 with
  | .panic => .panic
  | .ok p =>
    match slice file sp.1 sp.2 with
    | .panic => .panic
    | .ok m => .ok (p.length, p.length + m.length)

/-- `n` is a character boundary of `s` (`str::is_char_boundary`, `n ≤ len`). -/
def IsBoundary (s : List Char) (n : Nat) : Prop :=
  ∃ pre post, s = pre ++ post ∧ blen pre = n

end RotoV.Lex
