/-
  UnifyBase: the types shared by the hand-written model of unification
  (`Model/Unify.lean`) and the facts the translator regenerates from
  `src/typechecker/mod.rs` and `src/typechecker/unionfind.rs` on every run
  (`Generated/UnifyFacts.lean`).

  Core Lean only (no Mathlib).
-/

namespace RotoV.Unify

/-- `typechecker::types::Type`. A `Vec<(Meta<Identifier>, Type)>` of fields is
the pair of lists (`names`, `tys`) — names are numbers, the `i`-th name belongs
to the `i`-th type. Type names (`TypeName.name`) are numbers as well. -/
inductive Ty where
  /-- `Var(x)` -/
  | var (x : Nat)
  /-- `IntVar(x, MustBeSigned)` (`signed = true` for `MustBeSigned::Yes`) -/
  | intVar (x : Nat) (signed : Bool)
  /-- `FloatVar(x)` -/
  | floatVar (x : Nat)
  /-- `RecordVar(x, fields)`: a record literal whose type is still open -/
  | recordVar (x : Nat) (names : List Nat) (tys : List Ty)
  /-- `Record(fields)` -/
  | record (names : List Nat) (tys : List Ty)
  /-- `Function(params, ret)` -/
  | func (params : List Ty) (ret : Ty)
  /-- `Name(TypeName { name, arguments })` -/
  | name (n : Nat) (args : List Ty)
  /-- `ExplicitVar(_)` -/
  | explicitVar (n : Nat)
  | unit
  | never
  deriving Repr, Inhabited

/-- `UnionFind.inner : Vec<Type>`; entry `i` holding a variable with index `i`
means "not set". -/
abbrev Store := List Ty

/-- What one arm of `TypeChecker::occurs` does with the (resolved) type. -/
inductive OccArm where
  /-- `x == var` -/
  | isVar (x : Nat)
  /-- `x == var || cs.iter().any(|t| self.occurs(var, t))` -/
  | varOr (x : Nat) (cs : List Ty)
  /-- `cs.iter().any(|t| self.occurs(var, t))` (several `||`-ed together are
  concatenated in source order) -/
  | children (cs : List Ty)
  /-- `false` -/
  | no
  deriving Repr, Inhabited

/-- What stands between the pattern of an arm of `unify_inner` and its
`unionfind.set(v, t)`. -/
inductive Guard where
  /-- `if self.occurs(v, &t) { return None; }` directly in front of the `set` -/
  | occursCheck
  /-- no check, and `t` is a variable of the same kind as `v` or a `Name` whose
  `arguments.is_empty()` was tested: nothing to look into -/
  | atomic
  /-- no check in front of a `set` of a compound type -/
  | unguarded
  deriving Repr, DecidableEq, Inhabited

/-- the arms of `unify_inner` that bind a variable -/
inductive SetArm where
  | intInt | intName | floatFloat | floatName
  | varLeft | varRight
  | recRec | recRecord | recordRec | recName
  deriving Repr, DecidableEq, Inhabited

end RotoV.Unify
