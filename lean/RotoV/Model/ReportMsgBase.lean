/-
  ReportMsgBase: what the translator records about the code that builds the
  MESSAGES of parse errors (`Generated/MsgOps.lean`, target `msgops`): every
  operation in the bodies of the functions of `src/parser/error.rs` (the
  constructors of `ParseError`, `label`, `hint`, the `Display` impls) and of
  `src/parser/token.rs` (`Display for Token`: the text of the offending token as
  it is quoted), and — per constructor of `ParseError` — what is done to each
  `impl Display` parameter before it is stored.

  The classification (`Meth.total`, `Mac.total`, `Callee.total`) lives HERE;
  the translator only maps a name it reads to the constructor of the same name
  (a name without a constructor is `other`, which is never total).

  Core Lean only (no Mathlib).
-/

namespace RotoV.ReportMsg

/-- a method call `x.m(..)`, by the name of the method -/
inductive Meth where
  -- return for every receiver and argument (std's `str` / `String` / `Option` / iterator / formatter API)
  | k_to_string | k_into | k_clone | k_to_owned | k_as_str | k_as_ref | k_write_str | k_write_fmt | k_fmt
  | k_len | k_is_empty | k_chars | k_char_indices | k_bytes | k_count | k_push | k_push_str | k_iter | k_map | k_filter
  | k_collect | k_join | k_starts_with | k_ends_with | k_contains | k_trim | k_get | k_first | k_last | k_next
  | k_take | k_skip | k_rev | k_pop | k_find | k_lines | k_is_some | k_is_none | k_ok
  | k_unwrap_or | k_unwrap_or_default | k_unwrap_or_else | k_is_char_boundary
  -- panic for some receiver / argument
  | k_unwrap | k_expect | k_unwrap_err | k_expect_err
  | k_truncate | k_split_at | k_split_at_mut | k_drain | k_split_off | k_insert | k_insert_str | k_replace_range
  | k_remove | k_swap_remove | k_repeat | k_step_by | k_chunks | k_copy_from_slice
  | k_get_unchecked | k_get_unchecked_mut | k_slice_unchecked | k_unwrap_unchecked
  /-- a method the classification does not know -/
  | other (name : String)
  deriving Repr, DecidableEq

/-- the method returns for EVERY receiver and argument -/
def Meth.total : Meth → Bool
  | .k_to_string | .k_into | .k_clone | .k_to_owned | .k_as_str | .k_as_ref | .k_write_str | .k_write_fmt | .k_fmt
  | .k_len | .k_is_empty | .k_chars | .k_char_indices | .k_bytes | .k_count | .k_push | .k_push_str | .k_iter | .k_map | .k_filter
  | .k_collect | .k_join | .k_starts_with | .k_ends_with | .k_contains | .k_trim | .k_get | .k_first | .k_last | .k_next
  | .k_take | .k_skip | .k_rev | .k_pop | .k_find | .k_lines | .k_is_some | .k_is_none | .k_ok
  | .k_unwrap_or | .k_unwrap_or_default | .k_unwrap_or_else | .k_is_char_boundary => true
  | _ => false

/-- the method hands the text on unchanged (`got.to_string()`, `note.into()`, `label.clone()`) -/
def Meth.verbatim : Meth → Bool
  | .k_to_string | .k_into | .k_clone | .k_to_owned | .k_as_str | .k_as_ref => true
  | _ => false

/-- a macro invocation `m!(..)` -/
inductive Mac where
  | m_format | m_write | m_writeln
  | m_panic | m_unreachable | m_todo | m_unimplemented
  | m_assert | m_assert_eq | m_assert_ne | m_debug_assert | m_debug_assert_eq | m_debug_assert_ne
  /-- a macro the classification does not know, or one whose arguments are not a list of expressions -/
  | other (name : String)
  deriving Repr, DecidableEq

def Mac.total : Mac → Bool
  | .m_format | .m_write | .m_writeln => true
  | _ => false

/-- a call `f(..)` -/
inductive Callee where
  /-- `Vec::new`, `String::new`, `String::from`, `Some`, `Ok`, `Err` -/
  | c_vec_new | c_string_new | c_string_from | c_some | c_ok | c_err
  /-- a function of the audited files themselves: its body is in the list -/
  | localFn (name : String)
  | other (path : String)
  deriving Repr, DecidableEq

def Callee.total : Callee → Bool
  | .other _ => false
  | _ => true

/-- one operation in a function body -/
inductive Op where
  | meth (m : Meth)
  | mac (m : Mac)
  | call (c : Callee)
  /-- `x[..]`: the whole of it -/
  | fullRange
  /-- `x[k]`, `x[a..b]`: panics when out of range / off a character boundary -/
  | index (text : String)
  /-- `+ - * / % << >>` and their assignments, unary `-`: overflow, underflow, division by zero -/
  | arith (op : String)
  /-- `while` / `loop` (may not return), `unsafe` -/
  | hazard (what : String)
  deriving Repr, DecidableEq

def Op.total : Op → Bool
  | .meth m => m.total
  | .mac m => m.total
  | .call c => c.total
  | .fullRange => true
  | .index _ => false
  | .arith _ => false
  | .hazard _ => false

/-- an operation where it stands -/
structure Site where
  file : String
  function : String
  op : Op
  deriving Repr

/-- what a constructor of `ParseError` stores in a field of the error's kind: the `impl Display` parameter and the
methods applied to it, innermost first. Anything that is not `param.m1().m2()…` is the single step `other <text>`. -/
structure Field where
  constructor : String
  field : String
  param : String
  chain : List Meth
  deriving Repr

/-- what a caller in the parser hands to a text parameter of a constructor of `ParseError` -/
inductive Arg where
  /-- a string literal -/
  | lit
  /-- a variable (the token, a piece of its text, the decoder's error), possibly behind `&`: handed over as it is -/
  | var (name : String)
  /-- `format!("…", x, y)` / `format!("…{x}…")` over variables only -/
  | fmt
  /-- anything computed at the call: a slice, a method chain, a helper -/
  | other (text : String)
  deriving Repr, DecidableEq

/-- nothing is computed on the text at the call -/
def Arg.plain : Arg → Bool
  | .other _ => false
  | _ => true

structure CallArg where
  file : String
  constructor : String
  arg : Arg
  deriving Repr

/-! ## model: a text through a chain of methods -/

/-- the text after one method: modelled for the verbatim ones only -/
def applyMeth (m : Meth) (text : List Char) : Option (List Char) :=
  if m.verbatim then some text else none

/-- the text a field receives: `none` = not shown to return -/
def runChain : List Meth → List Char → Option (List Char)
  | [], text => some text
  | m :: ms, text => (applyMeth m text).bind (runChain ms)

theorem runChain_verbatim : ∀ (chain : List Meth) (text : List Char),
    chain.all Meth.verbatim = true → runChain chain text = some text := by
  intro chain
  induction chain with
  | nil => intro text _; rfl
  | cons m ms ih =>
    intro text h
    simp only [List.all_cons, Bool.and_eq_true] at h
    simp only [runChain, applyMeth, h.1, if_true, Option.bind_some]
    exact ih text h.2

/-- std's `String::truncate(n)` on a text as its characters with their UTF-8 widths: `none` = panic
(`assertion failed: self.is_char_boundary(new_len)`), the reason `truncate` is not `total` -/
def truncateBytes (width : Char → Nat) : List Char → Nat → Option (List Char)
  | _, 0 => some []
  | [], _ => some []
  | c :: cs, n => if width c ≤ n then (truncateBytes width cs (n - width c)).map (c :: ·) else none

end RotoV.ReportMsg
