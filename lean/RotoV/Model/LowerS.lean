/-
  LowerS: a structured model of `Lowerer::expr` (src/mir/lower.rs) — the MIR
  lowering as a function from the core AST (`Model/TraceSpec.lean`) to
  *structured* MIR: straight-line assignments of (lazy) `Value`s to
  temporaries, `switch` as a two-way branch, `while` as a loop, `return`.

  What is modelled, following the Rust code function by function:

  * `Lowerer::expr` returns a **lazy** `Value` (`Value::Const`, `Clone(place)`,
    `Move(tmp)`, `BinOp{left,right}` over already materialised variables,
    `Not`, `Negate`, `CallRuntime{args}` over already materialised argument
    temporaries). Nothing is emitted for it until somebody assigns it
    (`assign_to_var`, `do_assign`). Evaluation order therefore hangs on *when*
    each caller materialises the value it got — that is what the model keeps:
      - `binop`: left lowered, **materialised**, right lowered, materialised;
      - `normalized_function_call`: receiver and arguments, each lowered and
        stored in its own fresh temporary before the next is lowered;
      - `shortcircuit_binop`: result temporary allocated first; left lowered
        and stored; `switch`; right lowered and stored in the other branch;
      - `if_else`: condition materialised; then-block; result temporary
        allocated *after* the then-block; else-block;
      - `block` / `block_expr` / `stmt`; `assign` (value → fresh temporary →
        variable); `compound_assign` (desugared to `x = x op e`, i.e. the
        target is cloned into a temporary *before* `e` is lowered); both also with a
        field `x.f` as the target (a `Place` with a projection);
      - `return`; `while` (examinee temporary allocated first, condition
        re-evaluated on every iteration).
      - `Option.Some(e)` (`enum_constructor` + `make_enum`), `Option.None`,
        `accept e` / `reject e` (the operand stays lazy until `make_enum` stores
        it), `e?` (`question_mark`); record literals (`record`: fields lowered, stored and
        moved in in WRITTEN order, each to the field it names) and field access (`access`);
      - script-function calls (`Value::Call`; the callee's structured MIR runs from a store
        holding its parameters);
      - list literals (`list`; lists are shared handles and this model has no heap: the `push`
        through the cloned handle carries the temporary it was cloned from as a ghost
        annotation) and `for` (`r#for`: `get(index)` per iteration, increment block);
      - string concatenation `l + r` (`desugared_binop`);
      - f-strings (`f_string`: parts converted and appended one after the other — the conversion of
        a part, a `CallRuntime` of its type's `to_string` which for a registered host type is a
        logged host call, is materialised before the next part is lowered);
      - enum constructors `E.V(args…)` (`enum_constructor` + `make_enum`);
      - `match` (`r#match` / `match_case`): guard chains per discriminant with the `_` arms
        woven in, in source order; shared arm blocks.
  * the temporary counter `tmp_idx` (both `tmp()` and `undropped_tmp()` bump it).

  Not modelled in this version (`lowerE` returns `none`): a `match` with a pattern naming a variant the examinee's type does not have; the `stack_slots` bookkeeping and the `drop` instructions (they
  have no effect on the order of host calls).

  The semantics of structured MIR is the relation `ExecC` below (big-step, the
  store is a total map from variables to values); `Props/C08.lean` proves that
  the structured MIR of an expression makes exactly the host calls of the
  order specification, in the same order, with the same argument values.

  Core Lean only.
-/
import RotoV.Model.TraceSpec

namespace RotoV.LowerS
open RotoV.TraceSpec

/-- A MIR variable: an explicit (source) variable or a temporary. -/
inductive Var
  | x (n : Nat)
  | t (n : Nat)
  deriving DecidableEq, Repr, Inhabited

/-- `mir::Value`, the operand of an assignment. -/
inductive Value
  | const (v : Val)
  | clone (x : Var)
  | move (x : Var)
  | binop (l : Var) (op : BinOp) (r : Var)
  | eqHost (l : Var) (ne : Bool) (r : Var)   -- `BinOp Eq/Ne` at a registered host type: stands for a call of the type's equality
  | not (x : Var)
  | neg (x : Var)
  | callRt (f : Nat) (args : List Var)
  | listNew                          -- `CallRuntime` of `List.new` (pure)
  | listGet (l i : Var)              -- `CallRuntime` of `List.get` (pure)
  | idxAdd (a b : Var)               -- `BinOp Add` on the `u64` loop index (no `i32` wrap)
  | toStr (x : Var)                  -- `CallRuntime` of the type's `to_string` (for a primitive type: pure; for the host type: a logged host call)
  | append (a b : Var)               -- `CallRuntime` of `String.append` / of `List.concat` (`desugared_binop`; pure)
  | call (f : Nat) (args : List Var) -- `Value::Call`: a script function (run by `EvalV`, not by `evalValue`)
  | disc (x : Var)                   -- `Value::Discriminant`
  | cloneProj (x : Var) (i : Nat) (tag : Nat)   -- `Clone` of `x.Variant#i` (`tag` names the variant when printed)
  | cloneField (x : Var) (i : Nat)   -- `Clone` of `x.field_i` of a record
  deriving Repr, Inhabited

mutual
/-- Structured MIR. -/
inductive Stm
  | assign (to : Var) (v : Value)
  /-- `switch x [(k, thn)] default els`, both falling through to what follows -/
  | ite (x : Var) (k : Bool) (thn els : List Stm)
  /-- `cond; switch ex [(1, body; jump cond)] default cont` -/
  | whl (cond : List Stm) (ex : Var) (body : List Stm)
  | ret (x : Var)
  /-- `SetDiscriminant`: `to` becomes the given variant with blank fields
      (also used, with an empty record, where a record temporary starts to be filled) -/
  | setDisc (to : Var) (blank : Val)
  /-- assignment to `to.field_i` / `to.Variant#i` -/
  | assignField (to : Var) (i : Nat) (v : Value)
  /-- `switch x [(k, thn)] default els` on a discriminant -/
  | iteD (x : Var) (k : Nat) (thn els : List Stm)
  /-- `unit = push(alias, elem)`: lists are shared handles and this model has no heap, so the
      push through the cloned handle `alias` carries, as a ghost annotation, the temporary
      `orig` it was cloned from, and appends there -/
  | push (alias orig elem unitTmp : Var)
  /-- `for`: `cond; switch d [(0, body; incr; jump cond)] default cont` -/
  | forL (cond : List Stm) (d : Var) (body incr : List Stm)
  /-- `match`: `switch d [(k, chain_k)…] default dflt`; every chain ends by jumping to one of
      the shared arm blocks `arms[i]` (an empty `dflt` stands for "no default") -/
  | mtch (d : Var) (chains : List GChain) (dflt : List GStep) (arms : List (List Stm))
/-- One link of a guard chain (`match_case`): bind the pattern's fields, then either jump
    to the arm, or evaluate the guard and `switch g [(1, arm)] default next link`. -/
inductive GStep
  | plain (binds : List Stm) (arm : Nat)
  | guarded (binds : List Stm) (gcode : List Stm) (g : Var) (arm : Nat)
/-- the guard chain of one discriminant -/
inductive GChain
  | mk (disc : Nat) (steps : List GStep)
end

instance : Inhabited Stm := ⟨.ret (.t 0)⟩

abbrev Code := List Stm

abbrev Store := Var → Val

def Store.set (σ : Store) (x : Var) (v : Val) : Store := fun y => if y = x then v else σ y

/-- Field `i` of an aggregate value. -/
def payload : Val → Nat → Option Int
  | .opt (some v), 0 => some v
  | .verdict _ v, 0 => some v
  | .enm _ fs, i => fs[i]?
  | .recd fs, i => fs[i]?
  | _, _ => none

/-- Store `n` into field `i` (an aggregate temporary starts with blank fields). -/
def setPayload : Val → Nat → Int → Option Val
  | .opt (some _), 0, n => some (.opt (some n))
  | .verdict b _, 0, n => some (.verdict b n)
  | .enm k fs, i, n => if i < fs.length then some (.enm k (fs.set i n)) else none
  | .recd fs, i, n => if i < fs.length then some (.recd (fs.set i n)) else none
  | _, _, _ => none

/-- Evaluate an assignment's operand: the calls it makes and its value. -/
def evalValue (σ : Store) : Value → Option (Trace × Val)
  | .const v => some ([], v)
  | .clone x => some ([], σ x)
  | .move x => some ([], σ x)
  | .binop l op r => (TraceSpec.binop op (σ l) (σ r)).map (fun v => ([], v))
  | .eqHost l ne r => TraceSpec.hostEq ne (σ l) (σ r)   -- the type's equality: a logged host call
  | .not x => match σ x with
    | .bool b => some ([], .bool (!b))
    | _ => none
  | .neg x => match σ x with
    | .int n => some ([], .int (wrap32 (-n)))
    | _ => none
  | .callRt f args =>
    let vs := args.map σ
    (hostSem f vs).map (fun v => ([⟨f, vs⟩], v))
  | .listNew => some ([], .list [])
  | .listGet l i => match σ l, σ i with
    | .list xs, .int j => if 0 ≤ j then some ([], .opt (xs[j.toNat]?)) else none
    | _, _ => none
  | .idxAdd a b => match σ a, σ b with
    | .int x, .int y => some ([], .int (x + y))
    | _, _ => none
  | .toStr x => (render (σ x)).map (fun p => (p.1, .str p.2))   -- a host type's `to_string` is a logged host call
  | .append a b => match σ a, σ b with
    | .str s, .str t => some ([], .str (s ++ t))
    | .list s, .list t => some ([], .list (s ++ t))   -- `List.concat`: a fresh list
    | _, _ => none
  | .call _ _ => none   -- needs the program: see `EvalV`
  | .disc x => (discOf (σ x)).map (fun d => ([], .int d))
  | .cloneProj x i _ => (payload (σ x) i).map (fun v => ([], .int v))
  | .cloneField x i => (payload (σ x) i).map (fun v => ([], .int v))

inductive Outcome
  | normal (σ : Store)
  | returned (v : Val)

/-- A lowered program: parameters and structured MIR of every function. -/
abbrev Prog := List (List Nat × Code)

/-- the callee's store at entry: its parameters -/
def storeOfEnv (cenv : Env) : Store := fun y =>
  match y with
  | .x p => (lookup cenv p).getD .unit
  | .t _ => .unit

/-- how a guard chain ends: an arm is selected, or a guard left the function -/
inductive GOut
  | selected (arm : Nat) (σ : Store)
  | returned (v : Val)

/-- the chain the switch selects for discriminant `k` (the default otherwise) -/
def findChain : List GChain → List GStep → Nat → List GStep
  | [], dflt, _ => dflt
  | .mk d steps :: rest, dflt, k => if d = k then steps else findChain rest dflt k

mutual
/-- Evaluation of an assignment's operand: a pure operand or host call (`evalValue`), or a
    script-function call: the callee's structured MIR runs from a store holding its parameters. -/
inductive EvalV (P : Prog) : Store → Value → Trace → Val → Prop
  | pure {σ v t val} : evalValue σ v = some (t, val) → EvalV P σ v t val
  | call {σ f args params code cenv t v} : P[f]? = some (params, code) →
      bindParams params (args.map σ) [] = some cenv → ExecC P (storeOfEnv cenv) code t (.returned v) →
      EvalV P σ (.call f args) t v
/-- Big-step execution of one structured statement. -/
inductive ExecS (P : Prog) : Store → Stm → Trace → Outcome → Prop
  | assign {σ x v t val} : EvalV P σ v t val → ExecS P σ (.assign x v) t (.normal (σ.set x val))
  | ret {σ x} : ExecS P σ (.ret x) [] (.returned (σ x))
  | iteThen {σ x k thn els t o} : σ x = .bool k → ExecC P σ thn t o → ExecS P σ (.ite x k thn els) t o
  | iteElse {σ x k thn els t o} : σ x = .bool (!k) → ExecC P σ els t o → ExecS P σ (.ite x k thn els) t o
  | whlDone {σ cond ex body t σ1} :
      ExecC P σ cond t (.normal σ1) → σ1 ex = .bool false → ExecS P σ (.whl cond ex body) t (.normal σ1)
  | whlCondRet {σ cond ex body t v} :
      ExecC P σ cond t (.returned v) → ExecS P σ (.whl cond ex body) t (.returned v)
  | whlBodyRet {σ cond ex body t1 σ1 t2 v} :
      ExecC P σ cond t1 (.normal σ1) → σ1 ex = .bool true → ExecC P σ1 body t2 (.returned v) →
      ExecS P σ (.whl cond ex body) (t1 ++ t2) (.returned v)
  | whlStep {σ cond ex body t1 σ1 t2 σ2 t3 o} :
      ExecC P σ cond t1 (.normal σ1) → σ1 ex = .bool true → ExecC P σ1 body t2 (.normal σ2) →
      ExecS P σ2 (.whl cond ex body) t3 o → ExecS P σ (.whl cond ex body) (t1 ++ t2 ++ t3) o
  | setDisc {σ x blank} : ExecS P σ (.setDisc x blank) [] (.normal (σ.set x blank))
  | assignField {σ x i v t n val} : EvalV P σ v t (.int n) → setPayload (σ x) i n = some val →
      ExecS P σ (.assignField x i v) t (.normal (σ.set x val))
  | iteDThen {σ x k thn els t o} : σ x = .int k → ExecC P σ thn t o → ExecS P σ (.iteD x k thn els) t o
  | iteDElse {σ x k d thn els t o} : σ x = .int d → d ≠ k → ExecC P σ els t o → ExecS P σ (.iteD x k thn els) t o
  | push {σ alias orig elem u xs n} : σ orig = .list xs → σ elem = .int n →
      ExecS P σ (.push alias orig elem u) [] (.normal (σ.set orig (.list (xs ++ [n]))))
  | forDone {σ cond d body incr t σ1 k} :
      ExecC P σ cond t (.normal σ1) → σ1 d = .int k → k ≠ 0 → ExecS P σ (.forL cond d body incr) t (.normal σ1)
  | forBodyRet {σ cond d body incr t1 σ1 t2 v} :
      ExecC P σ cond t1 (.normal σ1) → σ1 d = .int 0 → ExecC P σ1 body t2 (.returned v) →
      ExecS P σ (.forL cond d body incr) (t1 ++ t2) (.returned v)
  | forStep {σ cond d body incr t1 σ1 t2 σ2 t3 σ3 t4 o} :
      ExecC P σ cond t1 (.normal σ1) → σ1 d = .int 0 → ExecC P σ1 body t2 (.normal σ2) →
      ExecC P σ2 incr t3 (.normal σ3) → ExecS P σ3 (.forL cond d body incr) t4 o →
      ExecS P σ (.forL cond d body incr) (t1 ++ t2 ++ t3 ++ t4) o
  | mtchArm {σ d k chains dflt arms t1 a σ1 code t2 o} :
      σ d = .int (k : Nat) → ExecG P σ (findChain chains dflt k) t1 (.selected a σ1) → arms[a]? = some code →
      ExecC P σ1 code t2 o → ExecS P σ (.mtch d chains dflt arms) (t1 ++ t2) o
  | mtchGuardRet {σ d k chains dflt arms t v} :
      σ d = .int (k : Nat) → ExecG P σ (findChain chains dflt k) t (.returned v) →
      ExecS P σ (.mtch d chains dflt arms) t (.returned v)
/-- … of a guard chain -/
inductive ExecG (P : Prog) : Store → List GStep → Trace → GOut → Prop
  | plain {σ binds a rest t σ1} : ExecC P σ binds t (.normal σ1) → ExecG P σ (.plain binds a :: rest) t (.selected a σ1)
  | guardTrue {σ binds gcode g a rest tb σ1 tg σ2} :
      ExecC P σ binds tb (.normal σ1) → ExecC P σ1 gcode tg (.normal σ2) → σ2 g = .bool true →
      ExecG P σ (.guarded binds gcode g a :: rest) (tb ++ tg) (.selected a σ2)
  | guardFalse {σ binds gcode g a rest tb σ1 tg σ2 t3 o} :
      ExecC P σ binds tb (.normal σ1) → ExecC P σ1 gcode tg (.normal σ2) → σ2 g = .bool false →
      ExecG P σ2 rest t3 o → ExecG P σ (.guarded binds gcode g a :: rest) (tb ++ tg ++ t3) o
  | guardRet {σ binds gcode g a rest tb σ1 tg v} :
      ExecC P σ binds tb (.normal σ1) → ExecC P σ1 gcode tg (.returned v) →
      ExecG P σ (.guarded binds gcode g a :: rest) (tb ++ tg) (.returned v)
/-- … of a sequence: a `return` ends it. -/
inductive ExecC (P : Prog) : Store → Code → Trace → Outcome → Prop
  | nil {σ} : ExecC P σ [] [] (.normal σ)
  | consRet {σ s rest t v} : ExecS P σ s t (.returned v) → ExecC P σ (s :: rest) t (.returned v)
  | cons {σ s rest t1 σ1 t2 o} : ExecS P σ s t1 (.normal σ1) → ExecC P σ1 rest t2 o → ExecC P σ (s :: rest) (t1 ++ t2) o
end

/-- `Lowerer::assign_to_var`: a `Move` is used as is; anything else is stored
    in a fresh temporary. The code it emits … -/
def atvCode (v : Value) (c : Nat) : List Stm :=
  match v with
  | .move _ => []
  | v => [.assign (.t c) v]

/-- … the variable that holds the value afterwards … -/
def atvVar (v : Value) (c : Nat) : Var :=
  match v with
  | .move x => x
  | _ => .t c

/-- … and the temporary counter afterwards. -/
def atvNext (v : Value) (c : Nat) : Nat :=
  match v with
  | .move _ => c
  | _ => c + 1

/-- the variant indices the arms' patterns name (`all_discriminants`) -/
def discsOf : Arms → List Nat
  | .nil => []
  | .arm (.variant k _) _ rest => k :: discsOf rest
  | .arm .wild _ rest => discsOf rest
  | .armG (.variant k _) _ _ rest => k :: discsOf rest
  | .armG .wild _ _ rest => discsOf rest

def hasWild : Arms → Bool
  | .nil => false
  | .arm .wild _ _ => true
  | .arm _ _ rest => hasWild rest
  | .armG .wild _ _ _ => true
  | .armG _ _ _ rest => hasWild rest

/-- which arms a guard chain contains -/
inductive Sel
  | off                 -- no chain is built
  | wildOnly            -- the default chain: `_` arms only
  | variant (k : Nat)   -- the chain of discriminant `k`: its arms and the `_` arms
  deriving DecidableEq, Repr

/-- Does an arm belong to the chain? -/
def selects : Sel → Pat → Bool
  | .off, _ => false
  | _, .wild => true
  | .variant k, .variant k' _ => k == k'
  | .wildOnly, .variant _ _ => false

/-- `x_b := clone(examinee.Variant#j)` for the pattern's binders -/
def bindsCode : List Nat → Var → Nat → Nat → List Stm
  | [], _, _, _ => []
  | b :: bs, xe, tag, j => .assign (.x b) (.cloneProj xe j tag) :: bindsCode bs xe tag (j + 1)

def patBinds (p : Pat) (xe : Var) (tagBase : Nat) : List Stm :=
  match p with
  | .wild => []
  | .variant k bs => bindsCode bs xe (tagBase + k) 0

/-- `make_enum`: the already materialised arguments moved into the variant's fields, in order -/
def storeFields (to : Var) : Nat → List Var → List Stm
  | _, [] => []
  | i, x :: xs => .assignField to i (.move x) :: storeFields to (i + 1) xs

/-- `record`: the already materialised field values moved into the record, in the order in
    which they were WRITTEN, each into the field it was written for (`Projection::Field(name)`:
    `perm[i]` is the position of that field in the record type) -/
def storeFieldsAt (to : Var) : List Nat → List Var → List Stm
  | p :: ps, x :: xs => .assignField to p (.move x) :: storeFieldsAt to ps xs
  | _, _ => []

/-- `shortcircuit_binop`: left stored in `tmp`; `switch tmp [(other_if, other)] default cont`;
    in `other` the right operand is evaluated and stored in `tmp`
    (`&&`: the right operand runs when the left is `true`; `||`: when it is `false`). -/
def shortCircuit (tmp : Var) (otherIf : Bool) (cl : Code) (vl : Value) (cr : Code) (vr : Value) : Code :=
  cl ++ [.assign tmp vl] ++ [.ite tmp otherIf (cr ++ [.assign tmp vr]) []]

mutual
/-- `Lowerer::expr` at temporary counter `c`: the emitted code, the (lazy)
    value, and the new counter. `none`: a construct outside this model. -/
def lowerE : Expr → Nat → Option (Code × Value × Nat)
  | .lit v, c => some ([], .const v, c)
  | .var x, c => some ([], .clone (.x x), c)
  | .host f args, c => do
    -- `normalized_function_call`: receiver (argument 0 of a method), then the arguments
    let (code, tmps, c) ← lowerArgs args c
    pure (code, .callRt f tmps, c)
  | .call f args, c => do
    -- a script function: same `normalized_function_call`, `Value::Call`
    let (code, tmps, c) ← lowerArgs args c
    pure (code, .call f tmps, c)
  | .bin op l r, c => do
    let (cl, vl, c) ← lowerE l c
    let ml := atvCode vl c
    let xl := atvVar vl c
    let c := atvNext vl c
    let (cr, vr, c) ← lowerE r c
    let mr := atvCode vr c
    let xr := atvVar vr c
    let c := atvNext vr c
    pure (cl ++ ml ++ (cr ++ mr), .binop xl op xr, c)
  | .eqH ne l r, c => do
    -- `binop`, the `==` / `!=` paths: the same steps as the general path; the lazy `Value::BinOp` at a
    -- host type stands for the call of the type's equality, made where the value is materialised
    let (cl, vl, c) ← lowerE l c
    let ml := atvCode vl c
    let xl := atvVar vl c
    let c := atvNext vl c
    let (cr, vr, c) ← lowerE r c
    let mr := atvCode vr c
    let xr := atvVar vr c
    let c := atvNext vr c
    pure (cl ++ ml ++ (cr ++ mr), .eqHost xl ne xr, c)
  | .and l r, c => do
    -- `shortcircuit_binop`: the result temporary is allocated first
    let (cl, vl, c') ← lowerE l (c + 1)
    let (cr, vr, c') ← lowerE r c'
    pure (shortCircuit (.t c) true cl vl cr vr, .move (.t c), c')
  | .or l r, c => do
    let (cl, vl, c') ← lowerE l (c + 1)
    let (cr, vr, c') ← lowerE r c'
    pure (shortCircuit (.t c) false cl vl cr vr, .move (.t c), c')
  | .not e, c => do
    let (ce, ve, c) ← lowerE e c
    let me := atvCode ve c
    let xe := atvVar ve c
    let c := atvNext ve c
    pure (ce ++ me, .not xe, c)
  | .neg e, c => do
    let (ce, ve, c) ← lowerE e c
    let me := atvCode ve c
    let xe := atvVar ve c
    let c := atvNext ve c
    pure (ce ++ me, .neg xe, c)
  | .ite cnd th el, c => do
    let (cc, vc, c) ← lowerE cnd c
    let mc := atvCode vc c
    let xc := atvVar vc c
    let c := atvNext vc c
    let (ct, xt, c) ← lowerBlock th c
    let res := Var.t c
    let (ce, xe, c) ← lowerBlock el (c + 1)
    pure (cc ++ mc ++ [.ite xc true (ct ++ [.assign res (.move xt)]) (ce ++ [.assign res (.move xe)])],
          .move res, c)
  | .if1 cnd th, c => do
    let (cc, vc, c) ← lowerE cnd c
    let mc := atvCode vc c
    let xc := atvVar vc c
    let c := atvNext vc c
    let (ct, xt, c) ← lowerBlock th c
    let res := Var.t c
    -- the result has type `()`: the real MIR leaves `res` unassigned on the false path (fine for
    -- a zero-sized type); this model has no types, so it initialises `res` with `()` first
    pure (cc ++ mc ++ [.assign res (.const .unit), .ite xc true (ct ++ [.assign res (.move xt)]) []],
          .move res, c + 1)
  | .while cnd b, c => do
    -- the examinee temporary is allocated before the condition is lowered
    let ex := Var.t c
    let (cc, vc, c) ← lowerE cnd (c + 1)
    let (cb, xb, c) ← lowerBlock b c
    -- `let _ = self.assign_to_var(val, UNIT)`: `block` returned a `Move`, nothing is emitted
    let _ := xb
    pure ([.whl (cc ++ [.assign ex vc]) ex cb], .const .unit, c)
  | .block b, c => do
    -- `block_expr`
    let (cb, xb, c) ← lowerBlock b c
    pure (cb ++ [.assign (.t c) (.move xb)], .move (.t c), c + 1)
  | .assign x e, c => do
    let (ce, ve, c) ← lowerE e c
    pure (ce ++ [.assign (.t c) ve, .assign (.x x) (.move (.t c))], .const .unit, c + 1)
  | .cassign op x e, c =>
    -- `compound_assign`: `x = x op e` — `binop` clones the target into a temporary first
    if op.isArith then do
      let xl := Var.t c
      let (cr, vr, c) ← lowerE e (c + 1)
      let mr := atvCode vr c
      let xr := atvVar vr c
      let c := atvNext vr c
      pure ([.assign xl (.clone (.x x))] ++ (cr ++ mr)
              ++ [.assign (.t c) (.binop xl op xr), .assign (.x x) (.move (.t c))],
            .const .unit, c + 1)
    else none
  | .assignF x i e, c => do
    -- `assign` with a projection: the value goes to a temporary, then into the place `x.f`
    let (ce, ve, c) ← lowerE e c
    pure (ce ++ [.assign (.t c) ve, .assignField (.x x) i (.move (.t c))], .const .unit, c + 1)
  | .cassignF op x i e, c =>
    -- `compound_assign`: `x.f = x.f op e` — `binop` clones the target path into a temporary first
    if op.isArith then do
      let xl := Var.t c
      let (cr, vr, c) ← lowerE e (c + 1)
      let mr := atvCode vr c
      let xr := atvVar vr c
      let c := atvNext vr c
      pure ([.assign xl (.cloneField (.x x) i)] ++ (cr ++ mr)
              ++ [.assign (.t c) (.binop xl op xr), .assignField (.x x) i (.move (.t c))],
            .const .unit, c + 1)
    else none
  | .ret e, c => do
    let (ce, ve, c) ← lowerE e c
    let me := atvCode ve c
    let xe := atvVar ve c
    let c := atvNext ve c
    pure (ce ++ me ++ [.ret xe], .const .unit, c)
  | .some e, c => do
    -- `enum_constructor`: the argument is lowered and materialised, then `make_enum`
    let (ce, ve, c) ← lowerE e c
    let me := atvCode ve c
    let xe := atvVar ve c
    let c := atvNext ve c
    pure (ce ++ me ++ [.setDisc (.t c) (.opt (some 0)), .assignField (.t c) 0 (.move xe)], .move (.t c), c + 1)
  | .none, c => some ([.setDisc (.t c) (.opt none)], .move (.t c), c + 1)
  | .accept e, c => do
    -- `return`: the operand stays lazy until `make_enum` stores it in the variant's field
    let (ce, ve, c) ← lowerE e c
    pure (ce ++ [.setDisc (.t c) (.verdict true 0), .assignField (.t c) 0 ve, .ret (.t c)], .const .unit, c + 1)
  | .reject e, c => do
    let (ce, ve, c) ← lowerE e c
    pure (ce ++ [.setDisc (.t c) (.verdict false 0), .assignField (.t c) 0 ve, .ret (.t c)], .const .unit, c + 1)
  | .try e, c => do
    -- `question_mark`: examinee materialised, discriminant read, `switch d [0 => continue] else return-none`
    let (ce, ve, c) ← lowerE e c
    let me := atvCode ve c
    let xe := atvVar ve c
    let c := atvNext ve c
    pure (ce ++ me ++ [.assign (.t c) (.disc xe),
                       .iteD (.t c) 0 [] [.setDisc (.t (c + 1)) (.opt none), .ret (.t (c + 1))]],
          .cloneProj xe 0 0, c + 2)
  | .record perm fs, c => do
    -- `record`: every field, in the order in which the literal WRITES them (`record.fields`,
    -- not the order of the record type), lowered and materialised (`assign_to_var`) before the
    -- next one, like the arguments of an enum constructor (fix bb2b488: an early exit in a later
    -- field must not find a half-built record among the live variables); then the result
    -- temporary is allocated and the fields are moved in, in the same written order, each to the
    -- field it names. The real MIR has no instruction that creates the blank record; this
    -- untyped model starts from a record of blank fields explicitly.
    let (ca, xs, c) ← lowerCtorArgs fs c
    if permOk perm xs.length then
      pure (ca ++ [.setDisc (.t c) (.recd (List.replicate xs.length 0))] ++ storeFieldsAt (.t c) perm xs, .move (.t c), c + 1)
    else none
  | .field (.var x) i, c =>
    -- `x.f` is one path (`path_value` with a projection): a lazy read, like a variable
    some ([], .cloneField (.x x) i, c)
  | .field e i, c => do
    -- `access`: the record is materialised, the field is read lazily
    let (ce, ve, c) ← lowerE e c
    let me := atvCode ve c
    let xe := atvVar ve c
    let c := atvNext ve c
    pure (ce ++ me, .cloneField xe i, c)
  | .mtch s isOpt arms, c =>
    -- `r#match`: examinee materialised, discriminant read, one guard chain per discriminant
    -- (here in ascending order; the compiler iterates a HashSet), the default chain, the
    -- result temporary, then the arm bodies in source order
    let nV := if isOpt then 2 else 3
    let tagBase := if isOpt then 0 else 10
    let ds := discsOf arms
    if ds.any (fun k => decide (nV ≤ k)) then none else do
    let (ce, ve, c) ← lowerE s c
    let me := atvCode ve c
    let xe := atvVar ve c
    let c := atvNext ve c
    let d := Var.t c
    let (ch0, c0) ← lowerChain arms (if ds.contains 0 then .variant 0 else .off) xe tagBase 0 (c + 1)
    let (ch1, c1) ← lowerChain arms (if ds.contains 1 then .variant 1 else .off) xe tagBase 0 c0
    let (ch2, c2) ← lowerChain arms (if ds.contains 2 then .variant 2 else .off) xe tagBase 0 c1
    -- the default case exists only if some variant has no case of its own
    let covered := (List.range nV).all (fun k => ds.contains k)
    let (dflt, c3) ← lowerChain arms (if hasWild arms && !covered then .wildOnly else .off) xe tagBase 0 c2
    let out := Var.t c3
    let (codes, c4) ← lowerArms arms out (c3 + 1)
    let chains := (if ds.contains 0 then [GChain.mk 0 ch0] else [])
      ++ (if ds.contains 1 then [GChain.mk 1 ch1] else []) ++ (if ds.contains 2 then [GChain.mk 2 ch2] else [])
    pure (ce ++ me ++ [.assign d (.disc xe), .mtch d chains dflt codes], .move out, c4)
  | .ctor k args, c => do
    -- `enum_constructor`: every argument lowered and materialised before the next one (fix
    -- 6df857b); then `make_enum`: result temporary, discriminant, fields
    let (ca, xs, c) ← lowerCtorArgs args c
    pure (ca ++ [.setDisc (.t c) (.enm k (List.replicate xs.length 0))] ++ storeFields (.t c) 0 xs, .move (.t c), c + 1)
  | .list es, c => do
    -- `list`: `tmp = List.new()`, a unit temporary for the results of `push`; every element, in
    -- source order: the handle cloned, the element lowered and stored, pushed
    let (ce, c') ← lowerElems es (.t c) (.t (c + 1)) (c + 2)
    pure ([.assign (.t c) .listNew] ++ ce, .move (.t c), c')
  | .for x l b, c => do
    -- `for`: option temporary first; the list lowered once and materialised; index := 0;
    -- increment block (`one := 1; index += one`), condition block (`get`, discriminant,
    -- switch), body (`x := clone(opt.Some#0)`, the block)
    let opt := Var.t c
    let (cl, vl, c1) ← lowerE l (c + 1)
    let ml := atvCode vl c1
    let xl := atvVar vl c1
    let c2 := atvNext vl c1
    let idx := Var.t c2
    let one := Var.t (c2 + 1)
    let newl := Var.t (c2 + 2)
    let d := Var.t (c2 + 3)
    let (cb, _, c3) ← lowerBlock b (c2 + 4)
    pure (cl ++ ml ++ [.assign idx (.const (.int 0)),
            .forL [.assign newl (.clone xl), .assign opt (.listGet newl idx), .assign d (.disc opt)] d
              ([.assign (.x x) (.cloneProj opt 0 0)] ++ cb)
              [.assign one (.const (.int 1)), .assign idx (.idxAdd idx one)]],
          .const .unit, c3)
  | .concat l r, c => do
    -- `binop_str` → `desugared_binop`: left lowered and materialised, right lowered and
    -- materialised, result temporary, `append`
    let (cl, vl, c) ← lowerE l c
    let ml := atvCode vl c
    let xl := atvVar vl c
    let c := atvNext vl c
    let (cr, vr, c) ← lowerE r c
    let mr := atvCode vr c
    let xr := atvVar vr c
    let c := atvNext vr c
    pure (cl ++ ml ++ (cr ++ mr) ++ [.assign (.t c) (.append xl xr)], .move (.t c), c + 1)
  | .fstr ps, c => do
    -- `f_string`: `string = ""`; every part, in source order, becomes a string (a literal, or
    -- the value stored in a receiver temporary and passed to `to_string`), is materialised and
    -- appended
    let (cp, c') ← lowerParts ps (.t c) (c + 1)
    pure ([.assign (.t c) (.const (.str ""))] ++ cp, .move (.t c), c')

/-- the elements of a list literal -/
def lowerElems : Exprs → Var → Var → Nat → Option (Code × Nat)
  | .nil, _, _, c => some ([], c)
  | .cons e es, lst, u, c => do
    let (ce, ve, c1) ← lowerE e (c + 1)
    let (cs, c') ← lowerElems es lst u (c1 + 1)
    pure ([.assign (.t c) (.clone lst)] ++ ce ++ [.assign (.t c1) ve, .push (.t c) lst (.t c1) u] ++ cs, c')

/-- the parts of an f-string, appended to `acc` one after the other -/
def lowerParts : Parts → Var → Nat → Option (Code × Nat)
  | .nil, _, c => some ([], c)
  | .str s rest, acc, c => do
    let (cr, c') ← lowerParts rest acc (c + 1)
    pure ([.assign (.t c) (.const (.str s)), .assign acc (.append acc (.t c))] ++ cr, c')
  | .expr e rest, acc, c => do
    let (ce, ve, c) ← lowerE e c
    -- receiver temporary of `to_string`, then the materialised result
    let (cr, c') ← lowerParts rest acc (c + 2)
    pure (ce ++ [.assign (.t c) ve, .assign (.t (c + 1)) (.toStr (.t c)), .assign acc (.append acc (.t (c + 1)))] ++ cr, c')

/-- the arguments of an enum constructor / the fields of a record literal, in source order:
    each lowered, then materialised (`assign_to_var`) -/
def lowerCtorArgs : Exprs → Nat → Option (Code × List Var × Nat)
  | .nil, c => some ([], [], c)
  | .cons e es, c => do
    let (ce, ve, c) ← lowerE e c
    let me := atvCode ve c
    let xe := atvVar ve c
    let c := atvNext ve c
    let (cs, xs, c) ← lowerCtorArgs es c
    pure (ce ++ me ++ cs, xe :: xs, c)

/-- `match_case`: the guard chain of one discriminant — for every arm of the chain, in source
    order: bind the fields; then jump to the arm, or lower and materialise the guard and
    `switch`. Arms after an unguarded one are still lowered (dead blocks, but they take
    temporaries). -/
def lowerChain : Arms → Sel → Var → Nat → Nat → Nat → Option (List GStep × Nat)
  | .nil, _, _, _, _, c => some ([], c)
  | .arm p _ rest, sel, xe, tb, idx, c =>
    if selects sel p then do
      let (steps, c) ← lowerChain rest sel xe tb (idx + 1) c
      pure (.plain (patBinds p xe tb) idx :: steps, c)
    else lowerChain rest sel xe tb (idx + 1) c
  | .armG p g _ rest, sel, xe, tb, idx, c =>
    if selects sel p then do
      let (cg, vg, c) ← lowerE g c
      let mg := atvCode vg c
      let xg := atvVar vg c
      let c := atvNext vg c
      let (steps, c) ← lowerChain rest sel xe tb (idx + 1) c
      pure (.guarded (patBinds p xe tb) (cg ++ mg) xg idx :: steps, c)
    else lowerChain rest sel xe tb (idx + 1) c

/-- the arm bodies, in source order, each storing its value in the result temporary -/
def lowerArms : Arms → Var → Nat → Option (List Code × Nat)
  | .nil, _, c => some ([], c)
  | .arm _ body rest, out, c => do
    let (cb, xb, c) ← lowerBlock body c
    let (codes, c) ← lowerArms rest out c
    pure ((cb ++ [.assign out (.move xb)]) :: codes, c)
  | .armG _ _ body rest, out, c => do
    let (cb, xb, c) ← lowerBlock body c
    let (codes, c) ← lowerArms rest out c
    pure ((cb ++ [.assign out (.move xb)]) :: codes, c)

/-- receiver and arguments: each one lowered, then stored in a fresh temporary -/
def lowerArgs : Exprs → Nat → Option (Code × List Var × Nat)
  | .nil, c => some ([], [], c)
  | .cons e es, c => do
    let (ce, ve, c) ← lowerE e c
    let tmp := Var.t c
    let (cs, tmps, c) ← lowerArgs es (c + 1)
    pure (ce ++ [.assign tmp ve] ++ cs, tmp :: tmps, c)

/-- `Lowerer::block`: statements, then the final expression materialised in a variable. -/
def lowerBlock : Block → Nat → Option (Code × Var × Nat)
  | .nil, c => some ([.assign (.t c) (.const .unit)], .t c, c + 1)
  | .last e, c => do
    let (ce, ve, c) ← lowerE e c
    let me := atvCode ve c
    let xe := atvVar ve c
    let c := atvNext ve c
    pure (ce ++ me, xe, c)
  | .let_ x e rest, c => do
    let (ce, ve, c) ← lowerE e c
    let (cr, xr, c) ← lowerBlock rest c
    pure (ce ++ [.assign (.x x) ve] ++ cr, xr, c)
  | .stmt e rest, c => do
    -- `Stmt::Expr`: the value is materialised (and dropped)
    let (ce, ve, c) ← lowerE e c
    let me := atvCode ve c
    let _ := atvVar ve c
    let c := atvNext ve c
    let (cr, xr, c) ← lowerBlock rest c
    pure (ce ++ me ++ cr, xr, c)
end

/-- `function_like`: the body block, its value materialised, `return`. -/
def lowerFn (fd : FnDef) : Option Code := do
  let (cb, xb, _) ← lowerBlock fd.body 0
  pure (cb ++ [.ret xb])

/-- every function of the program -/
def lowerProg : List FnDef → Option Prog
  | [] => some []
  | fd :: rest => do
    let code ← lowerFn fd
    let more ← lowerProg rest
    pure ((fd.params, code) :: more)

end RotoV.LowerS
