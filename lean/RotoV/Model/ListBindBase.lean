/-
  ListBindBase: vocabulary of the table `Generated/ListBind` — what each script
  binding of `impl ErasedList` in `library! { … }` (src/runtime/basic.rs) does:
  which list function it calls, which of its own parameters it passes in which
  position (through which `as` cast), and how it converts the result
  (property C15). Enumerations only: everything is decided by the kernel.

  Core Lean only.
-/
import RotoV.Model.ListBase

namespace RotoV.ListM

/-- the script-visible name of a binding (`l.push(x)`, `List.new()`, …);
    `join` has a target of its own (`Generated/ListJoin`) -/
inductive BName
  | new | push | contains | index | concat | get | swap | len | capacity | isEmpty
  /-- a binding the property does not name -/
  | other
  deriving DecidableEq, Repr, Inhabited

/-- the Rust function a binding's body calls -/
inductive Callee
  /-- `Self::new(vtable)` -/
  | new
  /-- `self.push(ptr)` -/
  | push
  /-- `self.contains_owned(ptr)` (the item is handed over by value) -/
  | containsOwned
  /-- `self.index_owned(ptr)` -/
  | indexOwned
  /-- `self.concat(&other)` -/
  | concat
  /-- `ffi::list_get(out, this, idx)` -/
  | listGet
  | swap | len | capacity | isEmpty
  /-- any other function -/
  | other
  deriving DecidableEq, Repr, Inhabited

/-- what happens to the value the called function returns -/
inductive RetConv
  /-- returned (or ignored, for `()`) as it is -/
  | asIs
  /-- `<call> as T` -/
  | cast (t : CastTy)
  /-- `<call>.map(|i| i as T)` -/
  | mapCast (t : CastTy)
  deriving DecidableEq, Repr, Inhabited

/-- one binding. `args`: the arguments of the call in order — for a method call
    the receiver first — each the position of a parameter of the binding
    (`self` / `out` included, counted from 0) and the `as` cast applied to it;
    a parameter re-wrapped as a pointer (`NonNull::new_unchecked(p.0)`), borrowed
    (`&p`) or an `out.ptr.cast()` is that parameter -/
structure Binding where
  name : BName
  nparams : Nat
  callee : Callee
  args : List (Nat × Option CastTy)
  ret : RetConv
  deriving DecidableEq, Repr, Inhabited

/-- the low bits an `as` cast keeps (the value of an unsigned target; for a
    signed target its two's-complement bits) -/
def CastTy.bits : CastTy → Nat
  | .u8 | .i8 => 8
  | .u16 | .i16 => 16
  | .u32 | .i32 => 32
  | .u64 | .i64 | .usize | .isize => 64
  | .other => 0

def castTo (t : CastTy) (v : Nat) : Nat := v % 2 ^ t.bits

def castArg : Option CastTy → Nat → Nat
  | none, v => v
  | some t, v => castTo t v

end RotoV.ListM
