/-
  Model/LayoutListEq — C02: the runtime side of `==` / `!=` on lists and of
  `list.contains` / `list.index`, executed over the byte memory of
  `Model/LayoutMem`: the steps regenerated from src/value/list.rs
  (`Generated/LayoutListEq`: `erasedEqSteps`, `containsSteps`, `indexSteps`,
  `rawGet`, `offsetOf`) interpreted with `unwrap()` on `None` and locking one
  mutex twice as explicit `Res.panic`.

  A list is its `Arc` identity, the address of its element buffer and its
  length; the element type's `eq_fn` is a parameter (the generated function
  `eqTy` in the theorems of Props/C02).

  Core Lean only.
-/
import RotoV.Model.LayoutMem
import RotoV.Generated.LayoutListEq

namespace RotoV.Layout
open RotoV
open RotoV.Gen.LayoutListEq

/-- a `RawList` behind its `Arc<Mutex<..>>` -/
structure RawBuf where
  /-- identity of the `Arc` (what `Arc::ptr_eq` compares) -/
  handle : Nat
  /-- address of the element buffer -/
  ptr : Nat
  len : Nat

/-- `self.get(i)` -/
def RawBuf.get (size : Nat) (l : RawBuf) (i : Nat) : Option Nat := rawGet size l.ptr l.len i

/-- the loop of `ErasedList::eq`: `n` iterations left, at index `i`;
    `ok none` = the loop ran to its end -/
def pairLoop (eqFn : Nat → Nat → Bool) (size : Nat) (a b : RawBuf) (exitWhen v : Bool) : Nat → Nat → Res (Option Bool)
  | 0, _ => .ok none
  | n + 1, i =>
    match a.get size i, b.get size i with
    | some x, some y => if eqFn x y = exitWhen then .ok (some v) else pairLoop eqFn size a b exitWhen v n (i + 1)
    | _, _ => .panic

/-- `impl PartialEq for ErasedList`, run; a body that ends without a value
    does not exist in Rust (`panic` here) -/
def runListEq (eqFn : Nat → Nat → Bool) (size : Nat) (a b : RawBuf) : List ListStep → Res Bool
  | [] => .panic
  | .ptrEqReturn v :: r => if a.handle = b.handle then .ok v else runListEq eqFn size a b r
  | .lockBoth :: r => if a.handle = b.handle then .panic else runListEq eqFn size a b r
  | .lenMismatchReturn v :: r => if a.len ≠ b.len then .ok v else runListEq eqFn size a b r
  | .forEachPair w v :: r =>
    match pairLoop eqFn size a b w v a.len 0 with
    | .panic => .panic
    | .ok (some x) => .ok x
    | .ok none => runListEq eqFn size a b r
  | .ret v :: _ => .ok v

/-- the loop of `RawList::contains` / `index` -/
def scanLoop (eqFn : Nat → Nat → Bool) (size : Nat) (a : RawBuf) (item : Nat) (h : ScanHit) : Nat → Nat → Res (Option ScanRes)
  | 0, _ => .ok none
  | n + 1, i =>
    match a.get size i with
    | some x => if eqFn x item then .ok (some (h.res i)) else scanLoop eqFn size a item h n (i + 1)
    | none => .panic

def runScan (eqFn : Nat → Nat → Bool) (size : Nat) (a : RawBuf) (item : Nat) : List ScanStep → Res ScanRes
  | [] => .panic
  | .forEachItem h :: r =>
    match scanLoop eqFn size a item h a.len 0 with
    | .panic => .panic
    | .ok (some x) => .ok x
    | .ok none => runScan eqFn size a item r
  | .ret e :: _ => .ok e.res

/-- `a == b` on two Roto lists -/
def listEq (eqFn : Nat → Nat → Bool) (size : Nat) (a b : RawBuf) : Res Bool :=
  runListEq eqFn size a b erasedEqSteps

/-- `a.contains(item)` -/
def listContains (eqFn : Nat → Nat → Bool) (size : Nat) (a : RawBuf) (item : Nat) : Res ScanRes :=
  runScan eqFn size a item containsSteps

/-- `a.index(item)` -/
def listIndex (eqFn : Nat → Nat → Bool) (size : Nat) (a : RawBuf) (item : Nat) : Res ScanRes :=
  runScan eqFn size a item indexSteps

end RotoV.Layout
