/-
  Unify: executable model of the type checker's unification
  (src/typechecker/mod.rs `unify_inner`, `unify_intvars`, `unify_fields`,
  `occurs`, `resolve_type`; src/typechecker/unionfind.rs `find`/`set`/`fresh`),
  arm by arm and in the source's order of arms.

  * the union-find store is a list of types; slot `i` holding a variable-like
    type with another index is a pointer, holding its own index it is an
    unbound root (`find` follows pointers; path compression is not modelled —
    it only caches what `find` returns);
  * failures keep the store as it is at that moment (the real code does not
    undo the `set`s made before a mismatch was found);
  * `ice!` (explicit type variables) and running out of fuel are explicit
    outcomes, never totalised away;
  * names are numbers; the named types the arms ask about (`is_int`,
    `is_signed_int`, `is_float`, `record_fields`) come from `Defs`.
  Type names take no type parameters in record definitions here (the generic
  substitution of `record_fields` is not modelled; generic *arguments* of
  names such as `Option[T]`/`List[T]` are).

  Core Lean only (linked into the driver executable).
-/
import RotoV.Generated.C07Facts

namespace RotoV.Unify
open RotoV.Gen

/-- model of `typechecker::types::Type` -/
inductive MTy
  | var (n : Nat)
  | explicitVar (n : Nat)
  | intVar (n : Nat) (signed : Bool)
  | floatVar (n : Nat)
  | recordVar (n : Nat) (fields : List (Nat × MTy))
  | unit
  | never
  | record (fields : List (Nat × MTy))
  | func (params : List MTy) (ret : MTy)
  | name (n : Nat) (args : List MTy)
  deriving Repr, Inhabited

mutual
def MTy.beq : MTy → MTy → Bool
  | .var a, .var b => a == b
  | .explicitVar a, .explicitVar b => a == b
  | .intVar a s, .intVar b t => a == b && s == t
  | .floatVar a, .floatVar b => a == b
  | .recordVar a fs, .recordVar b gs => a == b && beqFields fs gs
  | .unit, .unit => true
  | .never, .never => true
  | .record fs, .record gs => beqFields fs gs
  | .func ps r, .func qs s => beqList ps qs && MTy.beq r s
  | .name a xs, .name b ys => a == b && beqList xs ys
  | _, _ => false
def beqList : List MTy → List MTy → Bool
  | [], [] => true
  | x :: xs, y :: ys => MTy.beq x y && beqList xs ys
  | _, _ => false
def beqFields : List (Nat × MTy) → List (Nat × MTy) → Bool
  | [], [] => true
  | (a, x) :: xs, (b, y) :: ys => a == b && MTy.beq x y && beqFields xs ys
  | _, _ => false
end

instance : BEq MTy := ⟨MTy.beq⟩

/-- what the arms need to know about a named type -/
inductive TDef
  | int (signed : Bool)
  | float
  | record (fields : List (Nat × MTy))
  | other
  deriving Repr, Inhabited

abbrev Defs := Nat → TDef

def Defs.isInt (d : Defs) (n : Nat) : Bool := match d n with | .int _ => true | _ => false
def Defs.isSignedInt (d : Defs) (n : Nat) : Bool := match d n with | .int s => s | _ => false
def Defs.isFloat (d : Defs) (n : Nat) : Bool := match d n with | .float => true | _ => false
def Defs.recordFields (d : Defs) (n : Nat) : Option (List (Nat × MTy)) :=
  match d n with | .record fs => some fs | _ => none

/-- a predicate of `TypeDefinition` named by the generated facts -/
def Defs.eval (d : Defs) (p : C07Facts.Pred) (n : Nat) : Bool :=
  match p with
  | .isInt => d.isInt n
  | .isSignedInt => d.isSignedInt n
  | .isFloat => d.isFloat n

abbrev Store := List MTy

/-- index a variable-like type points to -/
def MTy.varIndex : MTy → Option Nat
  | .var i | .intVar i _ | .floatVar i | .recordVar i _ => some i
  | _ => none

/-- `UnionFind::find` (fuel bounds the pointer chain; `none` = a pointer
    cycle or an index outside the store, where the real code would loop or panic) -/
def find (s : Store) : Nat → Nat → Option MTy
  | 0, _ => none
  | fuel + 1, i =>
    match s[i]? with
    | none => none
    | some t =>
      match t.varIndex with
      | some j => if j != i then find s fuel j else some t
      | none => some t

/-- `TypeChecker::resolve_type` -/
def resolve (s : Store) (t : MTy) : Option MTy :=
  match t.varIndex with
  | some i => find s (s.length + 1) i
  | none => some t

/-- `UnionFind::set` -/
def setSlot (s : Store) (i : Nat) (t : MTy) : Store := s.set i t

/-- `UnionFind::fresh` -/
def fresh (s : Store) (f : Nat → MTy) : MTy × Store :=
  let t := f s.length
  (t, s ++ [t])

inductive Res (α : Type)
  | ok (v : α) (s : Store)
  /-- the types do not unify (`None`); the store is left as it was at that moment -/
  | fail (s : Store)
  /-- `ice!`: an explicit type variable reached unification -/
  | ice
  /-- out of fuel / dangling index (the real code would not return) -/
  | stuck
  deriving Inhabited

/-- `any` over a list of three-valued answers, left to right, stopping at the
    first `true` (as `Iterator::any` does); `none` = that call does not return -/
def anyM {α : Type} (f : α → Option Bool) : List α → Option Bool
  | [] => some false
  | x :: xs => match f x with
    | none => none
    | some true => some true
    | some false => anyM f xs

/-- `TypeChecker::occurs`. `none`: out of fuel — the real function does not
    return (a cyclic record type makes it recurse until the stack overflows). -/
def occurs (s : Store) (v : Nat) : Nat → MTy → Option Bool
  | 0, _ => none
  | fuel + 1, t =>
    match resolve s t with
    | none => none
    | some (.var x) | some (.intVar x _) | some (.floatVar x) => some (x == v)
    | some (.recordVar x fs) =>
      if x == v then some true else anyM (fun f => occurs s v fuel f.2) fs
    | some (.record fs) => anyM (fun f => occurs s v fuel f.2) fs
    | some (.func ps r) =>
      match anyM (occurs s v fuel) ps with
      | none => none
      | some true => some true
      | some false => occurs s v fuel r
    | some (.name _ args) => anyM (occurs s v fuel) args
    | some (.explicitVar _) | some .unit | some .never => some false

/-- position of the first field called `n` and the list without it
    (`b_fields.iter().position(..)` + `remove`) -/
def takeField (n : Nat) : List (Nat × MTy) → Option (MTy × List (Nat × MTy))
  | [] => none
  | (m, t) :: rest =>
    if m == n then some (t, rest)
    else match takeField n rest with
      | some (u, rest') => some (u, (m, t) :: rest')
      | none => none

/-- What the `match (a, b)` of `unify_inner` decides for two resolved types
    (the arms in source order); the recursive work it asks for is data. -/
inductive Plan
  /-- unify without touching the store (`a == b`, `Never`) -/
  | same (t : MTy)
  /-- `unionfind.set(v, t)`, result `t` -/
  | bind (v : Nat) (t : MTy)
  | fail
  | ice
  | stuck
  /-- `unify_fields(afs, bfs)?`, then `set(v, t)`, result `t` -/
  | fieldsThenBind (afs bfs : List (Nat × MTy)) (v : Nat) (t : MTy)
  /-- unify the arguments pairwise, result `t` -/
  | zip (xs ys : List MTy) (t : MTy)
  /-- parameters pairwise, then the return types, result `t` -/
  | zipThen (xs ys : List MTy) (x y : MTy) (t : MTy)

/-- the arms of `match (a, b)` after the explicit-variable and never arms -/
def planCore (d : Defs) (s : Store) (occFuel : Nat) : MTy → MTy → Plan
  | .intVar a sa, .intVar b sb =>
    -- unify_intvars: `Yes` has priority over `No` (if the source still says so)
    if !C07Facts.intVarsYesPriority then .stuck
    else if sa && !sb then .bind b (.intVar a sa)
    else .bind a (.intVar b sb)
  | .intVar v sg, .name n args | .name n args, .intVar v sg =>
    if C07Facts.intVarRejectsArgs && !args.isEmpty then .fail
    else if !(d.eval (if sg then C07Facts.intVarYesPred else C07Facts.intVarNoPred) n) then .fail
    else .bind v (.name n args)
  | .floatVar a, .floatVar b => .bind a (.floatVar b)
  | .floatVar v, .name n args | .name n args, .floatVar v =>
    if C07Facts.floatVarRejectsArgs && !args.isEmpty then .fail
    else if !d.eval C07Facts.floatVarPred n then .fail
    else .bind v (.name n args)
  | .var v, t =>
    match occurs s v occFuel t with
    | none => .stuck
    | some true => .fail
    | some false => .bind v t
  | t, .var v =>
    match occurs s v occFuel t with
    | none => .stuck
    | some true => .fail
    | some false => .bind v t
  | .recordVar av afs, .recordVar bv bfs => .fieldsThenBind afs bfs av (.recordVar bv bfs)
  | .recordVar av afs, .record bfs => .fieldsThenBind afs bfs av (.record bfs)
  | .record afs, .recordVar bv bfs => .fieldsThenBind afs bfs bv (.record afs)
  | .recordVar v fs, .name n args | .name n args, .recordVar v fs =>
    match d.recordFields n with
    | none => .fail
    | some nfs => .fieldsThenBind fs nfs v (.name n args)
  | .name an aargs, .name bn bargs =>
    if an != bn then .fail else .zip aargs bargs (.name bn bargs)
  | .func aps ar, .func bps br => .zipThen aps bps ar br (.func bps br)
  | _, _ => .fail

/-- the arms of `match (a, b)` (after `a == b`), non-recursive part: explicit
    variables are an internal error; the arm `(Never, x) | (x, Never) => x` is
    there iff the source has it (regenerated fact; the repaired checker lets a
    found `!` fit any expected type in `unify` itself, not in `unify_inner`) -/
def planArmsWith (neverArm : Bool) (d : Defs) (s : Store) (occFuel : Nat) (a b : MTy) : Plan :=
  match a, b with
  | .explicitVar _, _ => .ice
  | _, .explicitVar _ => .ice
  | a, b =>
    if neverArm then
      match a, b with
      | .never, x => .same x
      | x, .never => .same x
      | a, b => planCore d s occFuel a b
    else planCore d s occFuel a b

def planArms (d : Defs) (s : Store) (occFuel : Nat) (a b : MTy) : Plan :=
  planArmsWith C07Facts.unifyInnerNeverArm d s occFuel a b

/-- `(a, b) if a == b => a`, then the arms -/
def plan (d : Defs) (s : Store) (occFuel : Nat) (a b : MTy) : Plan :=
  if a == b then .same a else planArms d s occFuel a b

mutual
/-- `TypeChecker::unify_inner` -/
def unify (d : Defs) : Nat → Store → MTy → MTy → Res MTy
  | 0, _, _, _ => .stuck
  | fuel + 1, s, a, b =>
    match resolve s a, resolve s b with
    | none, _ | _, none => .stuck
    | some a, some b =>
      match plan d s (fuel + 1) a b with
      | .same t => .ok t s
      | .bind v t => .ok t (setSlot s v t)
      | .fail => .fail s
      | .ice => .ice
      | .stuck => .stuck
      | .fieldsThenBind afs bfs v t =>
        match unifyFields d fuel s afs bfs with
        | .ok _ s' => .ok t (setSlot s' v t)
        | .fail s' => .fail s' | .ice => .ice | .stuck => .stuck
      | .zip xs ys t =>
        match unifyZip d fuel s xs ys with
        | .ok _ s' => .ok t s'
        | .fail s' => .fail s' | .ice => .ice | .stuck => .stuck
      | .zipThen xs ys x y t =>
        match unifyZip d fuel s xs ys with
        | .ok _ s' =>
          match unify d fuel s' x y with
          | .ok _ s'' => .ok t s''
          | .fail s'' => .fail s'' | .ice => .ice | .stuck => .stuck
        | .fail s' => .fail s' | .ice => .ice | .stuck => .stuck

/-- `for (a, b) in xs.iter().zip(ys) { unify_inner(a, b)? }` -/
def unifyZip (d : Defs) : Nat → Store → List MTy → List MTy → Res Unit
  | 0, _, _, _ => .stuck
  | fuel + 1, s, x :: xs, y :: ys =>
    match unify d fuel s x y with
    | .ok _ s' => unifyZip d fuel s' xs ys
    | .fail s' => .fail s' | .ice => .ice | .stuck => .stuck
  | _ + 1, s, _, _ => .ok () s

/-- `TypeChecker::unify_fields`: the length test, then the loop -/
def unifyFields (d : Defs) : Nat → Store → List (Nat × MTy) → List (Nat × MTy) → Res Unit
  | 0, _, _, _ => .stuck
  | fuel + 1, s, afs, bfs =>
    if afs.length != bfs.length then .fail s else unifyFieldsRest d fuel s afs bfs

/-- the loop of `unify_fields`: find the field of the same name in what is left
    of `b_fields`, remove it, unify the types -/
def unifyFieldsRest (d : Defs) : Nat → Store → List (Nat × MTy) → List (Nat × MTy) → Res Unit
  | 0, _, _, _ => .stuck
  | _ + 1, s, [], _ => .ok () s
  | fuel + 1, s, (n, at_) :: arest, bfs =>
    match takeField n bfs with
    | none => .fail s
    | some (bt, brest) =>
      match unify d fuel s at_ bt with
      | .ok _ s' => unifyFieldsRest d fuel s' arest brest
      | .fail s' => .fail s' | .ice => .ice | .stuck => .stuck
end

/-- `TypeChecker::unify(expected, found)`: a found `!` (a diverging expression)
    fits any expected type — if the source says so —, everything else is
    `unify_inner` -/
def unifyTop (d : Defs) (fuel : Nat) (s : Store) (expected found : MTy) : Res MTy :=
  match C07Facts.unifyFoundNeverFitsAll, resolve s found with
  | true, some .never =>
    (match resolve s expected with
     | some e => .ok e s
     | none => .stuck)
  | _, _ => unify d fuel s expected found

/-- what `Negate` does to an operand that resolved to `IntVar(i, No)`:
    `unionfind.set(i, IntVar(i, Yes))` -/
def markSigned (s : Store) (t : MTy) : Store :=
  match resolve s t with
  | some (.intVar i false) => setSlot s i (.intVar i true)
  | _ => s

/-- default fuel: generous for the sizes the harness sends -/
def defaultFuel : Nat := 64

end RotoV.Unify
