/-
C12 — process-global tables of the compiler under concurrent use.

(1) A GET-OR-INSERT TABLE behind a read/write lock (the identifier interner
    behind `ast::Identifier`, the `TypeId` registry): `names[i]` is the text with
    index `i`. A thread that interns `key t`
      * `start`:  looks the key up in one section (under the shared lock, or the
                  exclusive one — the section sees one state of the table: lock
                  machine, `no_foreign_write_while_held`); a hit ends the
                  operation with the index found, a miss releases the lock and
                  goes on to
      * `missed`: an EXCLUSIVE section (`exclusive_section_alone`) that — when
                  `recheck` — looks the key up again and only appends on a second
                  miss; without `recheck` it appends on the strength of the stale
                  lookup.
    Each section is one atomic step; a schedule is the list of thread ids in the
    order their sections run — any number of threads, any interleaving.

(2) A table keyed by Rust type whose entries CACHE something that belongs to one
    runtime (the Roto name a runtime gives the type): first registration wins.
-/
import RotoV.Model.ConcShare

namespace RotoV.Conc.Intern

inductive Pc
  | start
  | missed
  | done (idx : Nat)
  deriving DecidableEq, Repr

structure St where
  table : List Nat
  pc : Nat → Pc

/-- the index a lookup of `k` gives (first occurrence; `l.length` when absent) -/
def idx (k : Nat) : List Nat → Nat
  | [] => 0
  | a :: l => if a = k then 0 else idx k l + 1

def St.set (s : St) (t : Nat) (p : Pc) : St :=
  { s with pc := fun u => if u = t then p else s.pc u }

def init (table : List Nat) : St := { table := table, pc := fun _ => .start }

/-- one section of thread `t` -/
def step (recheck : Bool) (key : Nat → Nat) (s : St) (t : Nat) : St :=
  match s.pc t with
  | .start =>
    if key t ∈ s.table then s.set t (.done (idx (key t) s.table)) else s.set t .missed
  | .missed =>
    if recheck && decide (key t ∈ s.table) then s.set t (.done (idx (key t) s.table))
    else { table := s.table ++ [key t], pc := fun u => if u = t then .done s.table.length else s.pc u }
  | .done _ => s

def run (recheck : Bool) (key : Nat → Nat) (s : St) : List Nat → St
  | [] => s
  | t :: rest => run recheck key (step recheck key s t) rest

/-- the sequential specification, as a state predicate: the table holds every
text once, and a finished operation holds the index of ITS text -/
def Good (key : Nat → Nat) (s : St) : Prop :=
  s.table.Nodup ∧ ∀ t i, s.pc t = .done i → s.table[i]? = some (key t)

/-! ## checker for observations made on the REAL interner (hook `verif_hooks::c12::intern`) -/

/-- observations `(text, identifier)`: equal texts ↔ equal identifiers -/
def consistent (obs : List (Nat × Nat)) : Bool :=
  obs.all (fun p => obs.all (fun q => decide (p.1 = q.1) == decide (p.2 = q.2)))

/-- what a state of the machine hands out: `(key t, i)` for every finished thread of `ts` -/
def observations (key : Nat → Nat) (s : St) (ts : List Nat) : List (Nat × Nat) :=
  ts.filterMap (fun t => match s.pc t with | .done i => some (key t, i) | _ => none)

/-! ## (2) per-type cache of a per-runtime fact -/

/-- `declare rt ty name`: runtime `rt` registers Rust type `ty` under `name`;
`resolve rt ty`: runtime `rt` turns a signature that mentions `ty` into a Roto name -/
inductive RegEv
  | declare (rt ty name : Nat)
  deriving DecidableEq, Repr

/-- the name cache inside the process-global entry: first `set` wins (`OnceLock`) -/
def cacheRun : List (Nat × Nat) → List RegEv → List (Nat × Nat)
  | c, [] => c
  | c, .declare _ ty name :: rest =>
    cacheRun (if (c.lookup ty).isSome then c else c ++ [(ty, name)]) rest

/-- the runtimes' own lists of registered types (`Rt::types`, searched by
`get_runtime_type`), here as one list tagged with the runtime -/
def ownTable (evs : List RegEv) : List (Nat × Nat × Nat) :=
  evs.map (fun e => match e with | .declare rt ty name => (rt, ty, name))

def resolveCached (c : List (Nat × Nat)) (ty : Nat) : Option Nat := c.lookup ty

def resolveOwn (c : List (Nat × Nat × Nat)) (rt ty : Nat) : Option Nat :=
  (c.find? (fun e => e.1 == rt && e.2.1 == ty)).map (fun e => e.2.2)

/-- what runtime `rt` resolves `ty` to when it is ALONE in a fresh process: the
events of the other runtimes removed -/
def alone (rt : Nat) (evs : List RegEv) : List RegEv :=
  evs.filter (fun e => match e with | .declare r _ _ => r == rt)

/-- what runtime `rt` resolves Rust type `ty` to after the registrations `evs`,
by the source of the name (generated per arm of `rust_type_to_roto_type`) -/
def resolveBy (src : Share.NameSource) (evs : List RegEv) (rt ty : Nat) : Option Nat :=
  match src with
  | .ownList => resolveOwn (ownTable evs) rt ty
  | .foreign => resolveCached (cacheRun [] evs) ty
  | .structural => none

end RotoV.Conc.Intern
