/-
  C13 — name resolution in script module trees.

  Executable model of
    * `ScopeGraph` (`src/typechecker/scope.rs`): `wrap`, `resolve_name` (with the
      `recurse` flag), `insert_declaration`, `insert_import`, `parent_module`,
      `module_name`, `print_scope`;
    * `resolve_module_part_of_path` (`src/typechecker/expr.rs`): leading
      `super`s, first segment with recursion unless it follows a `super` — from the
      global scope when it is `pkg` —, later segments without;
    * `TypeChecker::import` / `imports` (`src/typechecker/mod.rs`): the
      retain-until-no-progress loop;
    * the passes of `check_module_tree` as far as names are concerned:
      `declare_modules`, `declare_imports`, `declare_functions` (signature
      types), `tree` (function scopes, block scopes, block-level imports, `let`);
    * `full_name` (`src/typechecker/info.rs`) and `Module::get_function`'s
      `pkg.`-prefixed lookup (`src/codegen/mod.rs`);
    * file discovery (`src/file_tree.rs`: `directory`, `find_files`,
      `process_subdir`) and `FileTree::file_spec`.

  Conventions
    * identifiers are `Nat`; `SUPER = 0` is the identifier the parser produces
      for the keyword `super`, `PKG = 1` the name of the root module (`pkg` is
      *not* special to the type checker: it is the root module's declaration in
      the global scope).
    * scopes are numbered in allocation order exactly like `ScopeRef`
      (`wrap` returns `scopes.len()`); the `TypeParams` / second `Type` scopes
      that `declare_types` allocates carry no names and are not allocated here
      (numbering is compared through `print_scope`, never raw).
    * every `unwrap` / index / `unreachable!` / `ice!` on the path is an explicit
      `Res.panic site`; a loop that would not terminate is `Res.panic .fuel`
      (fuel is always the exact bound that suffices on well-formed graphs —
      `RotoV.Lemmas.Scope` proves it is never hit there).
    * stub declarations (`Function(None)` …) and their later update are merged:
      the declaration is inserted with its final kind in `declare_modules`
      (imports store only names, so no lookup can observe the difference).

  Core Lean only (linked into the driver).
-/
namespace RotoV.Scope

abbrev Name := Nat
/-- the identifier of the keyword `super` -/
def SUPER : Name := 0
/-- the name of the root module -/
def PKG : Name := 1

/-- `ResolvedName` -/
structure RName where
  scope : Nat
  ident : Name
  deriving DecidableEq, Repr, Inhabited

/-- `DeclarationKind`, with the identity tag of the item. -/
inductive DKind
  | module
  | ty (tag : Nat)
  | fn (tag : Nat)
  | const (tag : Nat)
  | localv (tag : Nat)
  deriving DecidableEq, Repr, Inhabited

/-- `Declaration` -/
structure Decl where
  name : RName
  kind : DKind
  scope : Option Nat
  deriving DecidableEq, Repr, Inhabited

/-- `ScopeType` (only what lookup and printing look at) -/
inductive SKind
  | root
  | module (name : RName) (parentModule : Option Nat)
  | function (name : Name)
  | type (name : Name)
  | block (idx : Nat)
  deriving DecidableEq, Repr, Inhabited

structure Scope where
  kind : SKind
  parent : Option Nat
  imports : List (Name × RName)
  deriving DecidableEq, Repr, Inhabited

structure Graph where
  decls : List Decl
  scopes : List Scope
  deriving DecidableEq, Repr, Inhabited

inductive Err
  | notDefined | declaredTwice | tooManySuper | expectedModule
  | expectedValue | expectedFunction | expectedType | noField
  deriving DecidableEq, Repr, Inhabited

inductive Site
  | fuel             -- a loop of the Rust code that does not terminate
  | scopeIndex       -- `self.scopes[scope.0]`
  | importTarget     -- `declarations.get(&x.1).unwrap()` in `resolve_name`
  | getDeclaration   -- `ice!("Could not get declaration")`
  | parentNotModule  -- `unreachable!()` in `parent_module`
  | superNoScope     -- `unreachable!()` in `resolve_module_part_of_path`
  | emptyPath        -- `idents.next().unwrap()`
  | moduleOrder      -- `modules[p.0]` in `declare_modules`
  deriving DecidableEq, Repr, Inhabited

inductive Res (α : Type) where
  | ok (a : α)
  | err (e : Err)
  | panic (s : Site)
  deriving Repr, DecidableEq

namespace Res
@[simp] def bind {α β} (r : Res α) (f : α → Res β) : Res β :=
  match r with
  | ok a => f a
  | err e => err e
  | panic s => panic s
instance : Monad Res where
  pure := ok
  bind := bind
@[simp] theorem bind_ok {α β} (a : α) (f : α → Res β) : (ok a >>= f) = f a := rfl
@[simp] theorem bind_err {α β} (e : Err) (f : α → Res β) : ((err e : Res α) >>= f) = err e := rfl
@[simp] theorem bind_panic {α β} (s : Site) (f : α → Res β) : ((panic s : Res α) >>= f) = panic s := rfl
@[simp] theorem pure_eq {α} (a : α) : (pure a : Res α) = ok a := rfl
def isOk {α} : Res α → Bool | ok _ => true | _ => false
end Res

/-! ## the scope graph -/

namespace Graph

/-- `ScopeGraph::new()` -/
def new : Graph := ⟨[], [⟨.root, none, []⟩]⟩

/-- `declarations.get(&name)` -/
def decl (g : Graph) (n : RName) : Option Decl :=
  g.decls.find? (fun d => d.name = n)

/-- `ScopeGraph::wrap` -/
def wrap (g : Graph) (parent : Nat) (kind : SKind) : Graph × Nat :=
  ({ g with scopes := g.scopes ++ [⟨kind, some parent, []⟩] }, g.scopes.length)

/-- `ScopeGraph::parent` (indexing panics when out of range) -/
def parent (g : Graph) (s : Nat) : Res (Option Nat) :=
  match g.scopes[s]? with
  | none => .panic .scopeIndex
  | some sc => .ok sc.parent

/-- `ScopeGraph::resolve_name`, fuel = number of loop iterations left. -/
def resolveName (g : Graph) : Nat → Nat → Name → Bool → Res (Option Decl)
  | 0, _, _, _ => .panic .fuel
  | fuel + 1, s, x, recurse =>
    match g.decl ⟨s, x⟩ with
    | some d => .ok (some d)
    | none =>
      if !recurse then .ok none else
      match g.scopes[s]? with
      | none => .panic .scopeIndex
      | some sc =>
        match sc.imports.lookup x with
        | some t =>
          match g.decl t with
          | some d => .ok (some d)
          | none => .panic .importTarget
        | none =>
          match sc.parent with
          | none => .ok none
          | some p => resolveName g fuel p x recurse

/-- `resolve_name` with the fuel that suffices whenever parents have smaller
    indices (the invariant of `wrap`). -/
def resolve (g : Graph) (s : Nat) (x : Name) (recurse : Bool) : Res (Option Decl) :=
  resolveName g (s + 1) s x recurse

/-- `ScopeGraph::insert_declaration` with `update_if = |_| false`, followed by
    the `dec.scope = …` assignment its callers make. -/
def insertDecl (g : Graph) (n : RName) (kind : DKind) (scope : Option Nat) : Res Graph :=
  match g.decl n with
  | some _ => .err .declaredTwice
  | none => .ok { g with decls := g.decls ++ [⟨n, kind, scope⟩] }

/-- `ScopeGraph::insert_import` -/
def insertImport (g : Graph) (s : Nat) (tgt : RName) : Res Graph :=
  match g.scopes[s]? with
  | none => .panic .scopeIndex
  | some sc =>
    match sc.imports.lookup tgt.ident with
    | some _ => .err .declaredTwice
    | none => .ok { g with scopes := g.scopes.set s { sc with imports := sc.imports ++ [(tgt.ident, tgt)] } }

/-- `ScopeGraph::parent_module`, fuel = loop iterations left. -/
def parentModuleF (g : Graph) : Nat → Nat → Res (Option Decl)
  | 0, _ => .panic .fuel
  | fuel + 1, s =>
    match g.scopes[s]? with
    | none => .panic .scopeIndex
    | some sc =>
      match sc.kind with
      | .module _ pm =>
        match pm with
        | none => .ok none
        | some p =>
          match g.scopes[p]? with
          | none => .panic .scopeIndex
          | some psc =>
            match psc.kind with
            | .module pname _ =>
              match g.decl pname with
              | some d => .ok (some d)
              | none => .panic .getDeclaration
            | _ => .panic .parentNotModule
      | _ =>
        match sc.parent with
        | none => .ok none
        | some p => parentModuleF g fuel p

def parentModule (g : Graph) (s : Nat) : Res (Option Decl) := parentModuleF g (s + 1) s

end Graph

/-! ## paths -/

abbrev Path := List Name

/-- what `resolve_module_part_of_path` returns: the last identifier it
    consumed, the declaration it stands for, and the identifiers left over. -/
structure PathRes where
  ident : Name
  decl : Decl
  rest : List Name
  deriving DecidableEq, Repr

/-- the second loop of `resolve_module_part_of_path` -/
def segments (g : Graph) : Nat → Name → List Name → Bool → Res PathRes
  | s, id, rest, recurse =>
    if id = SUPER then .err .tooManySuper else
    match g.resolve s id recurse with
    | .panic p => .panic p
    | .err e => .err e
    | .ok none => .err .notDefined
    | .ok (some stub) =>
      match stub.scope with
      | none => .ok ⟨id, stub, rest⟩
      | some s' =>
        match rest with
        | [] => .ok ⟨id, stub, []⟩
        | i :: rest' => segments g s' i rest' false

/-- the first loop (`while ident == "super"`), then the second; `after` = at
    least one `super` has been consumed, so the next identifier names a member
    of that module (`recurse = false`) -/
def supers (g : Graph) : Nat → Name → List Name → Bool → Res PathRes
  | s, id, rest, after =>
    if id = SUPER then
      match g.parentModule s with
      | .panic p => .panic p
      | .err e => .err e
      | .ok none => .err .tooManySuper
      | .ok (some dec) =>
        match dec.scope with
        | none => .panic .superNoScope
        | some s' =>
          match rest with
          | [] => .ok ⟨id, dec, []⟩
          | id' :: rest' => supers g s' id' rest' true
    else
      -- `pkg` at the start of a path is looked up in the global scope
      segments g (if !after && id = PKG then 0 else s) id rest (!after)

/-- `TypeChecker::resolve_module_part_of_path` -/
def resolveModulePart (g : Graph) (s : Nat) : Path → Res PathRes
  | [] => .panic .emptyPath
  | id :: rest => supers g s id rest false

/-- `TypeChecker::import` -/
def importOne (g : Graph) (s : Nat) (p : Path) : Res Graph :=
  match resolveModulePart g s p with
  | .panic x => .panic x
  | .err e => .err e
  | .ok r =>
    match r.rest with
    | _ :: _ => .err .expectedModule
    | [] => g.insertImport s r.decl.name

/-- one `paths.retain(|p| self.import(scope, p).is_err())` -/
def retainPass (s : Nat) : Graph → List Path → Res (Graph × List Path)
  | g, [] => .ok (g, [])
  | g, p :: ps =>
    match importOne g s p with
    | .panic x => .panic x
    | .ok g' =>
      match retainPass s g' ps with
      | .ok (g'', rem) => .ok (g'', rem)
      | .err e => .err e
      | .panic x => .panic x
    | .err _ =>
      match retainPass s g ps with
      | .ok (g'', rem) => .ok (g'', p :: rem)
      | .err e => .err e
      | .panic x => .panic x

/-- the `for p in &paths { self.import(scope, p)?; }` of the no-progress case -/
def importAll (s : Nat) : Graph → List Path → Res Graph
  | g, [] => .ok g
  | g, p :: ps =>
    match importOne g s p with
    | .ok g' => importAll s g' ps
    | .err e => .err e
    | .panic x => .panic x

/-- `TypeChecker::imports`; fuel = iterations of the outer `loop`. -/
def importsF (s : Nat) : Nat → Graph → List Path → Res Graph
  | 0, _, _ => .panic .fuel
  | fuel + 1, g, paths =>
    match retainPass s g paths with
    | .panic x => .panic x
    | .err e => .err e
    | .ok (g', rem) =>
      if rem.length = 0 then .ok g'
      else if rem.length = paths.length then
        match importAll s g' rem with
        | .ok g'' => importsF s fuel g'' rem
        | .err e => .err e
        | .panic x => .panic x
      else importsF s fuel g' rem

def imports (g : Graph) (s : Nat) (paths : List Path) : Res Graph :=
  importsF s (paths.length + 1) g paths

/-! ## programs (what the generator produces) -/

inductive PKind | fn | const | ty
  deriving DecidableEq, Repr, Inhabited

mutual
inductive Stmt
  /-- `let x = tag;` -/
  | letv (x : Name) (tag : Nat)
  /-- a nested block expression (or `if`/`while` body: same scope shape) -/
  | block (b : Block)
  /-- a reference whose resolution is observed -/
  | probe (id : Nat) (k : PKind) (p : Path)
  /-- a parameter of the enclosing function (only at the head of a function
      body): declared in the function scope *before* the body's imports -/
  | param (x : Name) (tag : Nat)
inductive Block
  | mk (imports : List Path) (stmts : List Stmt)
end

inductive Item
  | fn (name : Name) (tag : Nat) (body : Block)
  | const (name : Name) (tag : Nat)
  | ty (name : Name) (tag : Nat)
  | imports (paths : List Path)
  /-- a reference at module level: a type path in a function signature or a
      record field, a value / call in a constant's initialiser (the items that
      carry it have names outside the identifier pool) -/
  | sigProbe (id : Nat) (k : PKind) (p : Path)

structure Module where
  ident : Name
  parent : Option Nat
  items : List Item

/-- the result of one reference: the tag of the item it resolved to -/
abbrev ProbeRes := Nat × Res Nat

/-- kind check after `resolve_module_part_of_path`
    (`resolve_expression_path` + `path_function_call` / `Expr::Path` / `resolve_type_path`) -/
def classify (k : PKind) (r : PathRes) : Res Nat :=
  match k, r.decl.kind with
  | .fn, .module => .err .expectedValue
  | .fn, .ty _ => .err .expectedValue
  | .fn, .fn tag => if r.rest = [] then .ok tag else .err .noField
  | .fn, .const _ => if r.rest = [] then .err .expectedFunction else .err .noField
  | .fn, .localv _ => if r.rest = [] then .err .expectedFunction else .err .noField
  | .const, .module => .err .expectedValue
  | .const, .ty _ => .err .expectedValue
  | .const, .fn _ => if r.rest = [] then .err .expectedValue else .err .noField
  | .const, .const tag => if r.rest = [] then .ok tag else .err .noField
  | .const, .localv tag => if r.rest = [] then .ok tag else .err .noField
  | .ty, .ty tag => .ok tag
  | .ty, _ => .err .expectedType

def probe (g : Graph) (s : Nat) (k : PKind) (p : Path) : Res Nat :=
  match resolveModulePart g s p with
  | .ok r => classify k r
  | .err e => .err e
  | .panic x => .panic x

structure St where
  g : Graph
  blockCounter : Nat
  probes : List ProbeRes

mutual
/-- `TypeChecker::block`: imports first, then the statements in order -/
def checkBlock (s : Nat) : Block → St → Res St
  | .mk imps stmts, st =>
    match imports st.g s imps with
    | .ok g' => checkStmts s stmts { st with g := g' }
    | .err e => .err e
    | .panic x => .panic x
def checkStmts (s : Nat) : List Stmt → St → Res St
  | [], st => .ok st
  | stmt :: rest, st =>
    match checkStmt s stmt st with
    | .ok st' => checkStmts s rest st'
    | .err e => .err e
    | .panic x => .panic x
def checkStmt (s : Nat) : Stmt → St → Res St
  | .letv x tag, st =>
    match st.g.insertDecl ⟨s, x⟩ (.localv tag) none with
    | .ok g' => .ok { st with g := g' }
    | .err e => .err e
    | .panic x => .panic x
  | .block b, st =>
    let (g', bs) := st.g.wrap s (.block st.blockCounter)
    checkBlock bs b { st with g := g', blockCounter := st.blockCounter + 1 }
  | .probe id k p, st =>
    -- collect mode: a reference that does not resolve is recorded, not fatal
    .ok { st with probes := st.probes ++ [(id, probe st.g s k p)] }
  | .param _ _, st => .ok st   -- declared by `checkItems` before the body is checked
end

/-- the parameters of a function: the leading `param` statements of its body -/
def leadingParams : List Stmt → List (Name × Nat)
  | .param x tag :: rest => (x, tag) :: leadingParams rest
  | _ => []

def paramsOf : Block → List (Name × Nat)
  | .mk _ stmts => leadingParams stmts

/-- `for (v, t) in &params { self.insert_var(scope, v, t)?; }` -/
def declareParams (s : Nat) : List (Name × Nat) → Graph → Res Graph
  | [], g => .ok g
  | (x, tag) :: rest, g =>
    match g.insertDecl ⟨s, x⟩ (.localv tag) none with
    | .ok g' => declareParams s rest g'
    | .err e => .err e
    | .panic p => .panic p

/-- `declare_modules` for one module (scope creation, `insert_module`, one
    declaration per item). `mods` = scopes of the modules declared so far. -/
def declareItems (s : Nat) : List Item → Graph → Res Graph
  | [], g => .ok g
  | .fn n tag _ :: rest, g =>
    match g.insertDecl ⟨s, n⟩ (.fn tag) none with
    | .ok g' => declareItems s rest g'
    | .err e => .err e
    | .panic x => .panic x
  | .const n tag :: rest, g =>
    match g.insertDecl ⟨s, n⟩ (.const tag) none with
    | .ok g' => declareItems s rest g'
    | .err e => .err e
    | .panic x => .panic x
  | .ty n tag :: rest, g =>
    -- the type's own scope is wrapped before the insertion is attempted
    let (g1, ts) := g.wrap s (.type n)
    match g1.insertDecl ⟨s, n⟩ (.ty tag) (some ts) with
    | .ok g' => declareItems s rest g'
    | .err e => .err e
    | .panic x => .panic x
  | .imports _ :: rest, g => declareItems s rest g
  | .sigProbe _ _ _ :: rest, g => declareItems s rest g

/-- `parent.map(|p| modules[p.0].0)` -/
def parentScopeOf (mods : List Nat) : Option Nat → Res (Option Nat)
  | none => .ok none
  | some p =>
    match mods[p]? with
    | some ps => .ok (some ps)
    | none => .panic .moduleOrder

def declareModules : List Module → List Nat → Graph → Res (Graph × List Nat)
  | [], mods, g => .ok (g, mods)
  | m :: rest, mods, g =>
    match parentScopeOf mods m.parent with
    | .panic x => .panic x
    | .err e => .err e
    | .ok parentModule =>
      let inScope := parentModule.getD 0
      let (g1, s) := g.wrap 0 (.module ⟨inScope, m.ident⟩ parentModule)
      match g1.insertDecl ⟨inScope, m.ident⟩ .module (some s) with
      | .panic x => .panic x
      | .err e => .err e
      | .ok g2 =>
        match declareItems s m.items g2 with
        | .panic x => .panic x
        | .err e => .err e
        | .ok g3 => declareModules rest (mods ++ [s]) g3

def importPathsOf : List Item → List Path
  | [] => []
  | .imports ps :: rest => ps ++ importPathsOf rest
  | _ :: rest => importPathsOf rest

/-- `declare_imports` -/
def declareImports : List (Nat × Module) → Graph → Res Graph
  | [], g => .ok g
  | (s, m) :: rest, g =>
    match imports g s (importPathsOf m.items) with
    | .ok g' => declareImports rest g'
    | .err e => .err e
    | .panic x => .panic x

/-- `declare_types` / `declare_functions` / `constant`: module-level references
    are resolved from the module scope or an empty scope directly below it,
    after `declare_imports` -/
def sigProbes (g : Graph) : List (Nat × Module) → List ProbeRes
  | [] => []
  | (s, m) :: rest =>
    (m.items.filterMap fun
      | .sigProbe id k p => some (id, probe g s k p)
      | _ => none) ++ sigProbes g rest

def checkItems (s : Nat) : List Item → St → Res St
  | [], st => .ok st
  | .fn n _ body :: rest, st =>
    let (g', fs) := st.g.wrap s (.function n)
    match declareParams fs (paramsOf body) g' with
    | .err e => .err e
    | .panic x => .panic x
    | .ok g'' =>
      match checkBlock fs body { st with g := g'' } with
      | .ok st' => checkItems s rest st'
      | .err e => .err e
      | .panic x => .panic x
  | .const n _ :: rest, st =>
    let (g', _) := st.g.wrap s (.function n)
    checkItems s rest { st with g := g' }
  | .sigProbe id _ _ :: rest, st =>
    -- the extra function `sp<id>` gets its function scope like any other
    let (g', _) := st.g.wrap s (.function (1000 + id))
    checkItems s rest { st with g := g' }
  | _ :: rest, st => checkItems s rest st

/-- `TypeChecker::tree` -/
def checkTree : List (Nat × Module) → St → Res St
  | [], st => .ok st
  | (s, m) :: rest, st =>
    match checkItems s m.items st with
    | .ok st' => checkTree rest st'
    | .err e => .err e
    | .panic x => .panic x

structure Outcome where
  g : Graph
  mods : List Nat
  probes : List ProbeRes

/-- `check_module_tree` as far as names are concerned, from an initial graph
    (the runtime's: global declarations). -/
def checkModuleTree (g0 : Graph) (ms : List Module) : Res Outcome :=
  match declareModules ms [] g0 with
  | .panic x => .panic x
  | .err e => .err e
  | .ok (g1, mods) =>
    let zipped := mods.zip ms
    match declareImports zipped g1 with
    | .panic x => .panic x
    | .err e => .err e
    | .ok g2 =>
      let sp := sigProbes g2 zipped
      match checkTree zipped ⟨g2, 0, sp⟩ with
      | .panic x => .panic x
      | .err e => .err e
      | .ok st => .ok ⟨st.g, mods, st.probes⟩

/-- `FileTree::file_spec` / `single_file` / `directory`: the first file of a
    tree is the package root, its module is called `pkg` whatever the file is
    called -/
def packageRoot : List Module → List Module
  | [] => []
  | m :: rest => { m with ident := PKG } :: rest

/-! ## exported names -/

/-- `ScopeGraph::module_name`: identifiers from the root module down. -/
def moduleNameF (g : Graph) : Nat → RName → Option Nat → Res (List Name)
  | 0, _, _ => .panic .fuel
  | fuel + 1, name, pm =>
    match pm with
    | none => .ok [name.ident]
    | some p =>
      match g.scopes[p]? with
      | none => .panic .scopeIndex
      | some sc =>
        match sc.kind with
        | .module pname ppm =>
          match moduleNameF g fuel pname ppm with
          | .ok l => .ok (l ++ [name.ident])
          | .err e => .err e
          | .panic x => .panic x
        | _ => .panic .parentNotModule

/-- one component of `print_scope` -/
inductive Seg
  | id (n : Name)
  | fnScope (n : Name)
  | tyScope (n : Name)
  | block (idx : Nat)
  deriving DecidableEq, Repr

/-- `ScopeGraph::print_scope` (a module contributes its whole dotted name, then
    the walk continues at the scope's `parent`). -/
def printScopeF (g : Graph) : Nat → Nat → Res (List Seg)
  | 0, _ => .panic .fuel
  | fuel + 1, s =>
    match g.scopes[s]? with
    | none => .panic .scopeIndex
    | some sc =>
      let here : Res (Option (List Seg)) := match sc.kind with
        | .root => .ok none
        | .module name pm =>
          match moduleNameF g (s + 1) name pm with
          | .ok l => .ok (some (l.map Seg.id))
          | .err e => .err e
          | .panic x => .panic x
        | .function n => .ok (some [.fnScope n])
        | .type n => .ok (some [.tyScope n])
        | .block i => .ok (some [.block i])
      match here with
      | .panic x => .panic x
      | .err e => .err e
      | .ok none => .ok []
      | .ok (some segs) =>
        match sc.parent with
        | none => .ok segs
        | some p =>
          match printScopeF g fuel p with
          | .ok outer => .ok (outer ++ segs)
          | .err e => .err e
          | .panic x => .panic x

def printScope (g : Graph) (s : Nat) : Res (List Seg) := printScopeF g (s + 1) s

/-- `TypeInfo::full_name` -/
def fullName (g : Graph) (n : RName) : Res (List Seg) :=
  match printScope g n.scope with
  | .ok l => .ok (l ++ [.id n.ident])
  | .err e => .err e
  | .panic x => .panic x

/-- the functions of the compiled module, keyed by `full_name` (script
    functions only; first writer wins is irrelevant: see `export_injective`). -/
def exportTable (g : Graph) : List (List Seg × Nat) :=
  g.decls.filterMap fun d =>
    match d.kind with
    | .fn tag =>
      match fullName g d.name with
      | .ok l => some (l, tag)
      | _ => none
    | _ => none

/-- `Module::get_function(name)`: `format!("pkg.{name}")`, with `name` split at dots. -/
def getFunction (g : Graph) (path : List Name) : Option Nat :=
  (exportTable g).lookup ((PKG :: path).map Seg.id)

/-! ## file discovery -/

/-- a directory listing in `read_dir` order -/
inductive Entry
  /-- a file `stem.ext`; `roto` = the extension is `roto` -/
  | file (stem : Name) (roto : Bool)
  | dir (name : Name) (entries : List Entry)

/-- the stems `pkg` and `mod` -/
def MOD : Name := 2

/-- `SourceFile` as far as the module tree is concerned -/
structure SrcFile where
  moduleName : Name
  children : List Nat
  deriving DecidableEq, Repr

def hasMod : List Entry → Bool
  | [] => false
  | .file stem roto :: rest => (stem = MOD && roto) || hasMod rest
  | .dir _ _ :: rest => hasMod rest

def pushChild (files : List SrcFile) (parent : Nat) (f : SrcFile) : List SrcFile :=
  let idx := files.length
  (files ++ [f]).modify parent (fun pf => { pf with children := pf.children ++ [idx] })

mutual
/-- `FileTree::find_files` -/
def findFiles (parent : Nat) : List Entry → List SrcFile → List SrcFile
  | [], files => files
  | .dir name sub :: rest, files =>
    -- `process_subdir`
    let files' :=
      if hasMod sub then
        let idx := files.length
        findFiles idx sub (pushChild files parent ⟨name, []⟩)
      else files
    findFiles parent rest files'
  | .file stem roto :: rest, files =>
    if !roto then findFiles parent rest files
    else if stem = PKG || stem = MOD then findFiles parent rest files
    else findFiles parent rest (pushChild files parent ⟨stem, []⟩)
end

/-- the names `find_files` / `process_subdir` turn into module names are
    identifier-shaped (`valid`); otherwise discovery is a read error ("file name
    is not a valid Roto identifier") -/
def namesOk (valid : Name → Bool) : List Entry → Bool
  | [] => true
  | .file stem roto :: rest =>
    (!roto || stem = PKG || stem = MOD || valid stem) && namesOk valid rest
  | .dir name sub :: rest =>
    (!hasMod sub || (valid name && namesOk valid sub)) && namesOk valid rest

/-- `FileTree::directory` (the root must contain `pkg.roto`, every module name
    must be identifier-shaped; `none` = read error) -/
def directory (valid : Name → Bool) (root : List Entry) : Option (List SrcFile) :=
  if root.any (fun e => match e with | .file stem roto => stem = PKG && roto | _ => false)
      && namesOk valid root
  then some (findFiles 0 root [⟨PKG, []⟩])
  else none

/-- `Parsed::from_files`: wire parents from the children lists -/
def parentOf (files : List SrcFile) (i : Nat) : Option Nat :=
  (List.range files.length).foldl
    (fun acc p => if (files.getD p ⟨0, []⟩).children.contains i then some p else acc) none

def modulesOfFiles (files : List SrcFile) : List (Name × Option Nat) :=
  (List.range files.length).map fun i => ((files.getD i ⟨0, []⟩).moduleName, parentOf files i)

end RotoV.Scope
