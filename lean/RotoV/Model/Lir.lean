/-
  Data types of the scalar core shared by C01 / C10 / C20: the AST operators,
  the checker's primitive types, LIR values and the scalar LIR instructions.
  Hand-written mirrors of Rust enums; the *variant lists* are re-checked against
  the source by the translator (`Generated/Enums.lean` + `Props/Enums.lean`).
-/
import RotoV.Model.RustStd

namespace RotoV

inductive BinOp | And | Or | Eq | Ne | Lt | Le | Gt | Ge | Add | Sub | Mul | Div | Mod
  deriving DecidableEq, Repr, Inhabited
inductive IntKind | Unsigned | Signed deriving DecidableEq, Repr, Inhabited
inductive IntSize | I8 | I16 | I32 | I64 deriving DecidableEq, Repr, Inhabited
inductive FloatSize | F32 | F64 deriving DecidableEq, Repr, Inhabited
inductive Primitive
  | Int (k : IntKind) (s : IntSize) | Float (s : FloatSize)
  | String | Char | Bool | Asn | IpAddr | Prefix
  deriving DecidableEq, Repr, Inhabited
/-- What `ty_pool.get(ty)` can return, as far as the scalar core looks. -/
inductive Ty | Primitive (p : Primitive) | List | Runtime | Other
  deriving DecidableEq, Repr, Inhabited

inductive IntCmp | Eq | Ne | ULt | ULe | UGt | UGe | SLt | SLe | SGt | SGe
  deriving DecidableEq, Repr, Inhabited
inductive FloatCmp | Eq | Ne | Lt | Le | Gt | Ge deriving DecidableEq, Repr, Inhabited

inductive IrType | Bool | U8 | U16 | U32 | U64 | I8 | I16 | I32 | I64 | F32 | F64 | Char | Asn | Pointer
  deriving DecidableEq, Repr, Inhabited

/-- `lir::IrValue`.  `Char` carries its scalar value, `Asn` its `u32`. -/
inductive IrValue
  | Bool (b : Bool)
  | U8 (x : U8) | U16 (x : U16) | U32 (x : U32) | U64 (x : U64)
  | I8 (x : I8) | I16 (x : I16) | I32 (x : I32) | I64 (x : I64)
  | F32 (x : F32) | F64 (x : F64)
  | Char (c : U32) | Asn (a : U32) | Pointer (p : Usize)
  deriving DecidableEq, Repr, Inhabited

instance : REq BinOp := ⟨fun a b => .ok (decide (a = b))⟩
instance : REq IntKind := ⟨fun a b => .ok (decide (a = b))⟩

/-- Which MIR operand an LIR operand was built from (detects operand swaps). -/
inductive Side | lhs | rhs deriving DecidableEq, Repr, Inhabited

/-- The scalar instructions `Lowerer::binop` can emit (`to` is the fresh
    temporary, identified by its type only). -/
inductive Instruction
  | IntCmp (to_ : IrType) (cmp : IntCmp) (left right : Side)
  | FloatCmp (to_ : IrType) (cmp : FloatCmp) (left right : Side)
  | Add (to_ : IrType) (left right : Side)
  | Sub (to_ : IrType) (left right : Side)
  | Mul (to_ : IrType) (left right : Side)
  | Div (to_ : IrType) (left right : Side) (signed : Bool)
  | Mod (to_ : IrType) (left right : Side) (signed : Bool)
  | FDiv (to_ : IrType) (left right : Side)
  | CallEq (negate : Bool) (left right : Side)
  deriving DecidableEq, Repr, Inhabited

end RotoV
