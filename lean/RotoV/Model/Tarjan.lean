/-
  Model of `src/typechecker/value_cycle.rs` (compilation order of constants and
  functions) and of the item loop of `src/codegen/mod.rs` (constants are
  evaluated as soon as they are defined).

  Written as the Rust is written:
  * `BTreeMap<V, BTreeSet<V>>` is a key-sorted association list whose values are
    sorted lists; nodes are `Nat`s numbered by the `Ord` rank of their
    `ResolvedName` (the hook dumps them that way), so iterating the list is
    iterating the map.
  * `tarjan` / `strongly_connect` thread `State { stack, vertices, next_index,
    components }` through a fuel-indexed recursion (fuel bounds the recursion
    *depth*; node count suffices since every nested call is on a new vertex).
    `state.vertices[w]` and `.unwrap()` are explicit `Fail.panic`s.
  * `determine_uses_context` keeps its two pieces of state (`uses_context`,
    `visited`) and its "on the stack ⇒ answer false, do not cache" rule.
  * `codegen`: items are declared, then defined in order; defining an item
    whose body mentions a script constant that is not yet in `roto_constants`
    is the `ice!("Constant not defined")`; a constant is finalised and its
    initialiser run right after it is defined.

  Core Lean only (linked into the driver).
-/

namespace RotoV.Tarjan

/-- What a node of the reference graph is (`DeclarationKind` of its name). -/
inductive Kind where
  | const   -- `Value(ValueKind::Constant, _)`
  | func    -- `Function(_)` / `Method(_)`
  | ctx     -- `Value(ValueKind::Context(_), _)`
  | other
  deriving DecidableEq, Repr, Inhabited

/-- How a modelled Rust computation can fail to return. -/
inductive Fail where
  | panic       -- an `unwrap`/index/`ice!` fired
  | outOfFuel   -- the model's recursion bound was hit (never with fuel = node count)
  deriving DecidableEq, Repr, Inhabited

abbrev M := Except Fail

instance exceptDecEq {ε α} [DecidableEq ε] [DecidableEq α] : DecidableEq (Except ε α)
  | .ok a, .ok b => if h : a = b then isTrue (by rw [h]) else isFalse (fun e => h (Except.ok.inj e))
  | .error a, .error b =>
    if h : a = b then isTrue (by rw [h]) else isFalse (fun e => h (Except.error.inj e))
  | .ok _, .error _ => isFalse (fun e => by cases e)
  | .error _, .ok _ => isFalse (fun e => by cases e)

/-- `RefGraph` plus the declaration kind of every name. -/
structure Graph where
  /-- `references.references`: keys ascending, targets ascending -/
  edges : List (Nat × List Nat)
  kind : Nat → Kind

namespace Graph
def keys (g : Graph) : List Nat := g.edges.map Prod.fst

/-- `references.get(&v).into_iter().flatten()` -/
def refs (g : Graph) (v : Nat) : List Nat :=
  match g.edges.lookup v with
  | some l => l
  | none => []

/-- every name occurring in the graph (with repetitions) -/
def nodes (g : Graph) : List Nat := g.keys ++ g.edges.flatMap Prod.snd

def nodeCount (g : Graph) : Nat := g.nodes.eraseDups.length

def isConst (g : Graph) (n : Nat) : Bool := g.kind n == .const
end Graph

/-! ## `tarjan` / `strongly_connect` -/

structure VertexState where
  index : Nat
  lowlink : Nat
  deriving Repr, DecidableEq

structure State where
  /-- `Vec<V>`, top of the stack first -/
  stack : List Nat
  /-- `BTreeMap<V, VertexState>` (only looked up, never iterated) -/
  vertices : List (Nat × VertexState)
  nextIndex : Nat
  /-- `Vec<Vec<V>>` in push order -/
  components : List (List Nat)
  deriving Repr

def State.new : State := ⟨[], [], 0, []⟩

/-- `BTreeMap::insert` -/
def amInsert {β} (k : Nat) (v : β) : List (Nat × β) → List (Nat × β)
  | [] => [(k, v)]
  | (k', v') :: rest => if k' == k then (k, v) :: rest else (k', v') :: amInsert k v rest

/-- `state.vertices[&w]` -/
def State.vertex (st : State) (w : Nat) : M VertexState :=
  match st.vertices.lookup w with
  | some vs => .ok vs
  | none => .error .panic

/-- `update_lowlink`: `self.vertices.get_mut(&v).unwrap().lowlink.min(new)` -/
def State.updateLowlink (st : State) (v new : Nat) : M State :=
  match st.vertices.lookup v with
  | some vs => .ok { st with vertices := amInsert v { vs with lowlink := min vs.lowlink new } st.vertices }
  | none => .error .panic

/-- `while let Some(w) = stack.pop() { component.push(w); if w == v { break } }` -/
def popUntil (v : Nat) : List Nat → List Nat → List Nat × List Nat
  | [], acc => (acc.reverse, [])
  | w :: rest, acc => if w == v then ((w :: acc).reverse, rest) else popUntil v rest (w :: acc)

/-- the `for w in references.get(&v)…` loop of `strongly_connect`, with the
recursive call abstracted -/
def visitRefs (sc : State → Nat → M State) (v : Nat) : List Nat → State → M State
  | [], st => .ok st
  | w :: ws, st =>
    if !(st.vertices.lookup w).isSome then do
      let st ← sc st w
      let new := (← st.vertex w).lowlink
      let st ← st.updateLowlink v new
      visitRefs sc v ws st
    else if st.stack.contains w then do
      let new := (← st.vertex w).index
      let st ← st.updateLowlink v new
      visitRefs sc v ws st
    else visitRefs sc v ws st

def strongConnect (g : Graph) : Nat → State → Nat → M State
  | 0, _, _ => .error .outOfFuel
  | fuel + 1, st, v => do
    let index := st.nextIndex
    let st : State :=
      { st with nextIndex := index + 1,
                vertices := amInsert v ⟨index, index⟩ st.vertices,
                stack := v :: st.stack }
    let st ← visitRefs (strongConnect g fuel) v (g.refs v) st
    let vs ← st.vertex v
    if vs.index == vs.lowlink then
      let (component, rest) := popUntil v st.stack []
      .ok { st with stack := rest, components := st.components ++ [component] }
    else .ok st

/-- the `for v in edges.keys()` loop of `tarjan` -/
def tarjanLoop (g : Graph) (fuel : Nat) : List Nat → State → M State
  | [], st => .ok st
  | v :: vs, st =>
    if !(st.vertices.lookup v).isSome then do
      let st ← strongConnect g fuel st v
      tarjanLoop g fuel vs st
    else tarjanLoop g fuel vs st

def tarjanFuel (g : Graph) (fuel : Nat) : M (List (List Nat)) := do
  let st ← tarjanLoop g fuel g.keys State.new
  .ok st.components

def tarjan (g : Graph) : M (List (List Nat)) := tarjanFuel g g.nodeCount

/-! ## `context_check` / `determine_uses_context` -/

structure CState where
  /-- `BTreeMap<ResolvedName, bool>` (only looked up) -/
  usesContext : List (Nat × Bool)
  /-- `BTreeSet<ResolvedName>` (only membership) -/
  visited : List Nat
  deriving Repr

/-- the `for reference in …` loop of `determine_uses_context` and its tail -/
def detLoop (rec : CState → Nat → M (Bool × CState)) (name : Nat) :
    List Nat → CState → M (Bool × CState)
  | [], st => .ok (false, { st with usesContext := (name, false) :: st.usesContext })
  | r :: rs, st =>
    match rec st r with
    | .error e => .error e
    | .ok (true, st) => .ok (true, { st with usesContext := (name, true) :: st.usesContext })
    | .ok (false, st) => detLoop rec name rs st

def determine (g : Graph) : Nat → CState → Nat → M (Bool × CState)
  | fuel, st, name =>
    match st.usesContext.lookup name with
    | some b => .ok (b, st)
    | none =>
      -- "we've hit a cycle, assume there isn't a use of context, but don't store that"
      if st.visited.contains name then .ok (false, st)
      else if g.kind name = .ctx then
        .ok (true, { st with usesContext := (name, true) :: st.usesContext })
      else
        match fuel with
        | 0 => .error .outOfFuel
        | fuel + 1 =>
          detLoop (determine g fuel) name (g.refs name)
            { st with visited := name :: st.visited }

/-- the `for name in self.references.references.keys()` loop of `context_check`;
`some c` is `Err(error_constant_uses_context(c))` -/
def contextLoop (g : Graph) (fuel : Nat) : List Nat → CState → M (Option Nat)
  | [], _ => .ok none
  | name :: rest, st =>
    if g.kind name = .const then
      match determine g fuel st name with
      | .error e => .error e
      | .ok (true, _) => .ok (some name)
      | .ok (false, st) => contextLoop g fuel rest st
    else contextLoop g fuel rest st

def contextCheckFuel (g : Graph) (fuel : Nat) : M (Option Nat) :=
  contextLoop g fuel g.keys ⟨[], []⟩

def contextCheck (g : Graph) : M (Option Nat) := contextCheckFuel g g.nodeCount

/-! ## `find_compilation_order` -/

inductive Outcome where
  | order (o : List Nat)
  | recursive (c : Nat)      -- `error_recursive_constant`
  | usesContext (c : Nat)    -- `error_constant_uses_context`
  deriving DecidableEq, Repr

/-- first loop: a constant whose reference set contains itself -/
def selfEdge (g : Graph) : List (Nat × List Nat) → Option Nat
  | [] => none
  | (name, refs) :: rest =>
    if g.kind name = .const && refs.contains name then some name else selfEdge g rest

/-- the inner `for name in component` of the second loop -/
def firstConst (g : Graph) : List Nat → Option Nat
  | [] => none
  | name :: rest => if g.kind name = .const then some name else firstConst g rest

/-- second loop: a component of more than one item that contains a constant -/
def mixedComponent (g : Graph) : List (List Nat) → Option Nat
  | [] => none
  | c :: rest =>
    if c.length > 1 then
      match firstConst g c with
      | some n => some n
      | none => mixedComponent g rest
    else mixedComponent g rest

def findCompilationOrder (g : Graph) : M Outcome :=
  match selfEdge g g.edges with
  | some c => .ok (.recursive c)
  | none => do
    let components ← tarjan g
    match mixedComponent g components with
    | some c => .ok (.recursive c)
    | none =>
      match ← contextCheck g with
      | some c => .ok (.usesContext c)
      | none => .ok (.order components.flatten)

/-! ## the item loop of `codegen` (after `mir::lower`) -/

/-- `order.iter().flat_map(|n| items.remove(n))`: only names that are script
items (they have a node in the graph: `add_node`) yield an item. -/
def mirItems (g : Graph) (order : List Nat) : List Nat :=
  order.filter (fun n => g.keys.contains n && (g.kind n == .const || g.kind n == .func))

structure CgState where
  /-- functions whose body has been defined (`define_function`) -/
  defined : List Nat
  /-- functions defined since the last `finalize_definitions` -/
  pending : List Nat
  /-- `roto_constants`: constants whose initialiser has run (oldest first) -/
  store : List Nat
  /-- every run of an initialiser, in time order -/
  log : List Nat
  deriving Repr, DecidableEq

def CgState.new : CgState := ⟨[], [], [], []⟩

/-- script constants an item's body mentions -/
def constRefs (g : Graph) (items : List Nat) (n : Nat) : List Nat :=
  (g.refs n).filter (fun r => g.kind r == .const && items.contains r)

/-- script functions an item's body mentions -/
def funcRefs (g : Graph) (items : List Nat) (n : Nat) : List Nat :=
  (g.refs n).filter (fun r => g.kind r == .func && items.contains r)

/-- `define_function`: `ConstantAddress` of a script constant that is not yet in
`roto_constants` is `ice!("Constant not defined")`. -/
def defineFunction (g : Graph) (items : List Nat) (st : CgState) (n : Nat) : M CgState :=
  if (constRefs g items n).all st.store.contains then
    .ok { st with defined := n :: st.defined, pending := n :: st.pending }
  else .error .panic

/-- `finalize_definitions`: every function a pending definition calls must have
been defined (cranelift-jit cannot resolve the symbol otherwise). -/
def finalizeDefinitions (g : Graph) (items : List Nat) (st : CgState) : M CgState :=
  if st.pending.all (fun f => (funcRefs g items f).all st.defined.contains) then
    .ok { st with pending := [] }
  else .error .panic

/-- one iteration of `for item in ir` -/
def cgStep (g : Graph) (items : List Nat) (st : CgState) (n : Nat) : M CgState :=
  if g.kind n = .const then do
    let st ← defineFunction g items st n
    let st ← finalizeDefinitions g items st
    -- `(func_ptr)(constant.ptr)`; `roto_constants.insert(name, constant)`
    .ok { st with store := st.store ++ [n], log := st.log ++ [n] }
  else defineFunction g items st n

def cgLoop (g : Graph) (items : List Nat) : List Nat → CgState → M CgState
  | [], st => .ok st
  | n :: rest, st => do
    let st ← cgStep g items st n
    cgLoop g items rest st

/-- `codegen` from a compilation order: the loop, then `module.finalize()`. -/
def codegen (g : Graph) (order : List Nat) : M CgState := do
  let items := mirItems g order
  let st ← cgLoop g items items CgState.new
  finalizeDefinitions g items st

/-- after `compile`: a read of constant `c` clones the stored value; it never
runs an initialiser (the log is not touched). -/
def readConstant (st : CgState) (c : Nat) : M CgState :=
  if st.store.contains c then .ok st else .error .panic

/-- The whole of `compile` as far as C14 is concerned. -/
inductive Compiled where
  | rejected (o : Outcome) (log : List Nat)
  | compiled (order : List Nat) (st : CgState)
  deriving Repr, DecidableEq

def compile (g : Graph) : M Compiled := do
  match ← findCompilationOrder g with
  | .order o => do
    let st ← codegen g o
    .ok (.compiled o st)
  | e => .ok (.rejected e [])

/-! ## the verified certificate checker -/

/-- every edge out of component `c` goes into `c` or into an earlier component -/
def compOk (g : Graph) (seen c : List Nat) : Bool :=
  c.all fun u => (g.refs u).all fun v => seen.contains v || c.contains v

def compsOk (g : Graph) : List Nat → List (List Nat) → Bool
  | _, [] => true
  | seen, c :: rest => compOk g seen c && compsOk g (seen ++ c) rest

def nodupB : List Nat → Bool
  | [] => true
  | x :: xs => !xs.contains x && nodupB xs

/-- `components` is a partition of the graph's names into groups listed in
reverse topological order: complete, duplicate-free, no foreign names, and no
edge from a group into a later one. -/
def validOrder (g : Graph) (components : List (List Nat)) : Bool :=
  nodupB components.flatten
    && g.nodes.all components.flatten.contains
    && components.flatten.all g.nodes.contains
    && compsOk g [] components

/-- names of `comp` reachable from `x` by at most `n` edges that stay inside `comp` -/
def reachSet (g : Graph) (comp : List Nat) (x : Nat) : Nat → List Nat
  | 0 => [x]
  | n + 1 =>
    let s := reachSet g comp x n
    (s ++ (s.flatMap g.refs).filter comp.contains).eraseDups

/-- every member of `comp` is reachable from its first member and reaches it -/
def sccOk (g : Graph) (comp : List Nat) : Bool :=
  match comp with
  | [] => true
  | x :: rest =>
    rest.all fun y =>
      (reachSet g comp x comp.length).contains y && (reachSet g comp y comp.length).contains x

/-- `validOrder`, and every component is strongly connected: the components
are exactly the strongly connected components. -/
def validScc (g : Graph) (components : List (List Nat)) : Bool :=
  validOrder g components && components.all (sccOk g)

end RotoV.Tarjan
