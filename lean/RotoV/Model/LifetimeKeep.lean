/-
  C11 — the keep-alive collection of registered functions of a compiled module
  (`ModuleData::_registered_fns`, filled by `codegen` with the `Arc` of every
  registered function the script calls, src/codegen/mod.rs).

  A runtime may hold any number of registered functions with captured state.
  Each is its own `Arc<Box<dyn Any>>`; its *Rust type* is a property of the
  closure EXPRESSION that made it: two closures made by one expression (a
  factory function, a loop registering one getter per entry) share their type
  but not their state.  The machine code has each called function's data
  pointer baked in, so the module must hold EVERY called function's `Arc`.
  How the collection identifies its entries is a generated fact
  (`Facts.fnsKeep`): a `Vec` that is pushed to holds every `Arc`; a map keyed
  by `TypeId` with insert-if-absent holds the first `Arc` of each type only.

  `Closure r` of Model/Lifetime.lean is one such function per runtime, with
  explicit counts; the functions here (`Sib`: the further registered functions
  of a runtime) are modelled by reachability: the state of a function is there
  while its runtime is alive or a module that is still allocated holds it.
-/
import RotoV.Model.Lifetime

namespace RotoV.Lifetime

/-- a further registered function of runtime `r`: its identity `j` among them and
    the class `ty` of its Rust type -/
structure Sib where
  r : Nat
  j : Nat
  ty : Nat
  deriving DecidableEq, Repr

/-- `codegen` hands the `Arc` of a called registered function to the collection -/
def keepInsert (key : KeepKey) (held : List Sib) (f : Sib) : List Sib :=
  match key with
  | .perArc => held ++ [f]                                                  -- `Vec::push(arc)`
  | .perRustType => if held.any (fun g => g.ty == f.ty) then held else held ++ [f]  -- `entry(type).or_insert(arc)`

/-- what the collection holds after `codegen` went through the called functions -/
def keep (key : KeepKey) (called : List Sib) : List Sib := called.foldl (keepInsert key) []

/-- what a compiled version has to do with the further functions: which ones its
    script calls, and which ones its keep-alive collection holds -/
structure ModSibs where
  k : Nat
  called : List Sib
  kept : List Sib
  deriving Repr

/-- the side state of a history: on which runtimes the further functions were
    registered, and the compiled versions -/
structure KeepSt where
  regd : List Nat := []
  mods : List ModSibs := []

/-- the state captured by `x` has not been released: its runtime is alive, or a
    module that is still allocated holds its `Arc` -/
def sibLive (s : St) (ks : KeepSt) (x : Sib) : Bool :=
  s.rts.contains x.r || ks.mods.any (fun m => s.alive.contains m.k && m.kept.contains x)

/-- a call of version k reaches the state of every function its script calls -/
def sibCallOk (s : St) (ks : KeepSt) (k : Nat) : Bool :=
  ks.mods.all (fun m => m.k != k || m.called.all (sibLive s ks))

/-- the further functions the harness registers with `rs:<r>`: two closures made
    by ONE closure expression (same Rust type, separate captured state) and a
    zero-sized closure of another type (its only capture is a zero-sized guard
    with a `Drop`) -/
def family (r : Nat) : List Sib := [⟨r, 0, 0⟩, ⟨r, 1, 0⟩, ⟨r, 2, 1⟩]

/-- members of the family selected by a bit mask (bit j = the script calls member j) -/
def familyMask (r mask : Nat) : List Sib := (family r).filter (fun x => (mask / 2 ^ x.j) % 2 == 1)

/-- operations of a history with further registered functions: an operation of
    the main model (a compilation also says which of the runtime's further
    functions the script calls), or the registration of those functions -/
inductive KOp
  | main (op : Op) (called : List Sib)
  | regSibs (r : Nat)
  deriving Repr

def kvalid (s : St) (ks : KeepSt) : KOp → Bool
  | .regSibs r => s.rts.contains r && !ks.regd.contains r
  | .main op called =>
    valid s op && (called.isEmpty || match op with
      | .compile r .. => ks.regd.contains r && called.all (fun x => x.r == r)
      | _ => false)

def kstep (F : Facts) (s : St) (ks : KeepSt) : KOp → St × KeepSt
  | .regSibs r => (s, { ks with regd := r :: ks.regd })
  | .main op called =>
    (step F s op,
      match op with
      | .compile _ k .. => { ks with mods := { k, called, kept := keep F.fnsKeep called } :: ks.mods }
      | _ => ks)

def kstepV (F : Facts) (p : St × KeepSt) (op : KOp) : St × KeepSt :=
  if kvalid p.1 p.2 op then kstep F p.1 p.2 op else p

def krun (F : Facts) (ops : List KOp) : St × KeepSt := ops.foldl (kstepV F) ({}, {})

end RotoV.Lifetime
