/-
  LookAheadBase: vocabulary shared by the hand-written model of the parser's
  token look-ahead (`Model/LookAhead.lean`) and the facts the translator
  regenerates from `src/parser/lexer.rs` / `src/parser/expr.rs` on every run
  (`Generated/LookAhead.lean`), property C09.

  Core Lean only: linked into the driver executable.
-/

namespace RotoV.LookAhead

/-- Token classes of the normal lexer mode, as far as the bracketed constructs
of `Parser::atom` / `access` / `block` / `record` / `separated` / `f_string`
tell them apart. `lit` is any one-token literal (string, char, number, …),
`binop` any binary operator, `fstart` is `f"` — the one token after which the
text has to be lexed in another mode (`Lexer::f_string_part`). `junk` is
whatever the normal-mode lexer makes of f-string text (including "invalid
token"): it is produced only when the lexer runs in the wrong mode. -/
inductive Tok where
  | lcurly | rcurly | lparen | rparen | lsquare | rsquare
  | comma | colon | semi | eq | period | kwLet
  | ident | lit | fstart | binop | junk
  deriving DecidableEq, Repr, Inhabited

/-- Token kinds by their `Token::` / `Keyword::` variant names, for the one-token
decisions the translator extracts (`Parser::can_start_expression`). -/
inductive Start where
  | roundLeft | curlyLeft | squareLeft | ident | bang | hyphen
  | bool | integer | float | hex | ipV4 | ipV6 | asn | string | char | fStringStart
  | kwIf | kwMatch | kwSuper | kwPkg | kwDep | kwStd
  | kwWhile | kwFor | kwReturn | kwAccept | kwReject
  deriving DecidableEq, Repr, Inhabited

end RotoV.LookAhead
