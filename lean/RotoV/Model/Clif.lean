/-
  The Cranelift side: types, values, condition codes, and the *documented*
  semantics of the instructions roto emits (cranelift-codegen `ir::instructions`
  docs).  Trusted, not verified: this file is our reading of Cranelift.
  A trap is `Res.panic` (the host process dies either way).
-/
import RotoV.Model.RustStd

namespace RotoV

inductive CTy | I8 | I16 | I32 | I64 | F32 | F64 deriving DecidableEq, Repr, Inhabited

def CTy.bits : CTy → Nat
  | .I8 => 8 | .I16 => 16 | .I32 => 32 | .I64 => 64 | .F32 => 32 | .F64 => 64

def CTy.isFloat : CTy → Bool
  | .F32 | .F64 => true
  | _ => false

/-- An SSA value: its type and its bit pattern (as a natural below 2^bits). -/
structure CVal where
  ty : CTy
  bits : Nat
  deriving DecidableEq, Repr, Inhabited

def CVal.mk' (ty : CTy) (n : Nat) : CVal := ⟨ty, n % 2 ^ ty.bits⟩
def CVal.bv (v : CVal) (w : Nat) : BitVec w := BitVec.ofNat w v.bits

inductive IntCC
  | Equal | NotEqual
  | SignedLessThan | SignedGreaterThanOrEqual | SignedGreaterThan | SignedLessThanOrEqual
  | UnsignedLessThan | UnsignedGreaterThanOrEqual | UnsignedGreaterThan | UnsignedLessThanOrEqual
  deriving DecidableEq, Repr, Inhabited

/-- All of Cranelift's floating-point condition codes (so that a changed code in
    the source is a changed, still well-typed, Lean definition). -/
inductive FloatCC
  | Ordered | Unordered | Equal | NotEqual | OrderedNotEqual | UnorderedOrEqual
  | LessThan | LessThanOrEqual | GreaterThan | GreaterThanOrEqual
  | UnorderedOrLessThan | UnorderedOrLessThanOrEqual
  | UnorderedOrGreaterThan | UnorderedOrGreaterThanOrEqual
  deriving DecidableEq, Repr, Inhabited

namespace Clif

/-- integer binary op on equal-typed operands; a type mismatch is rejected by
    Cranelift's verifier at compile time, modelled as `panic`. -/
def intBin (f : (w : Nat) → BitVec w → BitVec w → Res (BitVec w)) (a b : CVal) : Res CVal :=
  if a.ty ≠ b.ty || a.ty.isFloat then .panic
  else match f a.ty.bits (a.bv _) (b.bv _) with
    | .ok r => .ok ⟨a.ty, r.toNat⟩
    | .panic => .panic

def iadd := intBin (fun _ x y => .ok (x + y))
def isub := intBin (fun _ x y => .ok (x - y))
def imul := intBin (fun _ x y => .ok (x * y))
/-- `sdiv`: traps on a zero divisor and on `MIN / -1` (result not representable). -/
def sdiv := intBin (fun w x y =>
  if y = 0 then .panic else if x = BitVec.intMin w ∧ y = BitVec.allOnes w then .panic
  else .ok (BitVec.sdiv x y))
def udiv := intBin (fun _ x y => if y = 0 then .panic else .ok (BitVec.udiv x y))
/-- `srem`: traps on a zero divisor; `MIN % -1 = 0` without trap. -/
def srem := intBin (fun _ x y => if y = 0 then .panic else .ok (BitVec.srem x y))
def urem := intBin (fun _ x y => if y = 0 then .panic else .ok (BitVec.umod x y))

def ineg (a : CVal) : Res CVal :=
  if a.ty.isFloat then .panic else .ok ⟨a.ty, (- (a.bv a.ty.bits)).toNat⟩

def iccHolds (cc : IntCC) {w : Nat} (x y : BitVec w) : Bool :=
  match cc with
  | .Equal => x == y
  | .NotEqual => x != y
  | .SignedLessThan => x.slt y
  | .SignedGreaterThanOrEqual => !(x.slt y)
  | .SignedGreaterThan => y.slt x
  | .SignedLessThanOrEqual => !(y.slt x)
  | .UnsignedLessThan => x.ult y
  | .UnsignedGreaterThanOrEqual => !(x.ult y)
  | .UnsignedGreaterThan => y.ult x
  | .UnsignedLessThanOrEqual => !(y.ult x)

/-- `icmp`: result is an `i8` holding 1 or 0. -/
def icmp (cc : IntCC) (a b : CVal) : Res CVal :=
  if a.ty ≠ b.ty || a.ty.isFloat then .panic
  else .ok ⟨.I8, if iccHolds cc (a.bv a.ty.bits) (b.bv a.ty.bits) then 1 else 0⟩

/-- `icmp_imm`: the immediate is sign-extended / truncated to the operand type. -/
def icmp_imm (cc : IntCC) (a : CVal) (imm : Int) : Res CVal :=
  if a.ty.isFloat then .panic
  else .ok ⟨.I8, if iccHolds cc (a.bv a.ty.bits) (BitVec.ofInt a.ty.bits imm) then 1 else 0⟩

section floats
variable [F : FloatOps]

def floatBin (f32 : BitVec 32 → BitVec 32 → BitVec 32) (f64 : BitVec 64 → BitVec 64 → BitVec 64)
    (a b : CVal) : Res CVal :=
  match a.ty, b.ty with
  | .F32, .F32 => .ok ⟨.F32, (f32 (a.bv 32) (b.bv 32)).toNat⟩
  | .F64, .F64 => .ok ⟨.F64, (f64 (a.bv 64) (b.bv 64)).toNat⟩
  | _, _ => .panic

def fadd := floatBin F.add32 F.add64
def fsub := floatBin F.sub32 F.sub64
def fmul := floatBin F.mul32 F.mul64
def fdiv := floatBin F.div32 F.div64
def fneg (a : CVal) : Res CVal :=
  match a.ty with
  | .F32 => .ok ⟨.F32, (F.neg32 (a.bv 32)).toNat⟩
  | .F64 => .ok ⟨.F64, (F.neg64 (a.bv 64)).toNat⟩
  | _ => .panic

/-- "unordered": at least one operand is NaN (a NaN is the only value not equal to itself). -/
def unord32 (x y : BitVec 32) : Bool := !(F.eq32 x x) || !(F.eq32 y y)
def unord64 (x y : BitVec 64) : Bool := !(F.eq64 x x) || !(F.eq64 y y)

def fccHolds32 (cc : FloatCC) (x y : BitVec 32) : Bool :=
  match cc with
  | .Equal => F.eq32 x y | .NotEqual => !(F.eq32 x y)
  | .LessThan => F.lt32 x y | .LessThanOrEqual => F.le32 x y
  | .GreaterThan => F.lt32 y x | .GreaterThanOrEqual => F.le32 y x
  | .Ordered => !(unord32 x y) | .Unordered => unord32 x y
  | .OrderedNotEqual => !(unord32 x y) && !(F.eq32 x y)
  | .UnorderedOrEqual => unord32 x y || F.eq32 x y
  | .UnorderedOrLessThan => unord32 x y || F.lt32 x y
  | .UnorderedOrLessThanOrEqual => unord32 x y || F.le32 x y
  | .UnorderedOrGreaterThan => unord32 x y || F.lt32 y x
  | .UnorderedOrGreaterThanOrEqual => unord32 x y || F.le32 y x
def fccHolds64 (cc : FloatCC) (x y : BitVec 64) : Bool :=
  match cc with
  | .Equal => F.eq64 x y | .NotEqual => !(F.eq64 x y)
  | .LessThan => F.lt64 x y | .LessThanOrEqual => F.le64 x y
  | .GreaterThan => F.lt64 y x | .GreaterThanOrEqual => F.le64 y x
  | .Ordered => !(unord64 x y) | .Unordered => unord64 x y
  | .OrderedNotEqual => !(unord64 x y) && !(F.eq64 x y)
  | .UnorderedOrEqual => unord64 x y || F.eq64 x y
  | .UnorderedOrLessThan => unord64 x y || F.lt64 x y
  | .UnorderedOrLessThanOrEqual => unord64 x y || F.le64 x y
  | .UnorderedOrGreaterThan => unord64 x y || F.lt64 y x
  | .UnorderedOrGreaterThanOrEqual => unord64 x y || F.le64 y x

def fcmp (cc : FloatCC) (a b : CVal) : Res CVal :=
  match a.ty, b.ty with
  | .F32, .F32 => .ok ⟨.I8, if fccHolds32 cc (a.bv 32) (b.bv 32) then 1 else 0⟩
  | .F64, .F64 => .ok ⟨.I8, if fccHolds64 cc (a.bv 64) (b.bv 64) then 1 else 0⟩
  | _, _ => .panic
end floats

end Clif

namespace Cg
/-- `self.operand(x)`: the SSA value and its Cranelift type. -/
def operand (v : CVal) : CVal × CTy := (v, v.ty)
/-- `self.variable(to, ty)`: the declared type of the destination. -/
def variable_ (_to : Unit) (ty : CTy) : CTy := ty
/-- `self.def(var, val)`: Cranelift's verifier demands `val.ty = var's type`. -/
def def_ (var : CTy) (val : CVal) : Res CVal := if var = val.ty then .ok val else .panic
end Cg

end RotoV
