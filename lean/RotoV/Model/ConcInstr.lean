/-
  C12: classification of every `lir::Instruction` kind (the list of kinds, their
  fields and the operations the machine-code generator emits for them are
  GENERATED from src/lir/mod.rs and src/codegen/mod.rs, target `c12instr`).

  `shapeOf` and `roles` are table lookups that send every kind the tables do not
  list to `unclassified` / `[]`:
  a new instruction kind, a new or renamed field, or a changed field type
  breaks `instr_kinds_classified` (Props/C12.lean), and the driver answers
  `bad-kind` for every real instruction of such a kind; a codegen arm that starts to store / copy / call breaks
  `codegen_ops_match_model`.

  Core Lean only.
-/
import RotoV.Model.Conc
import RotoV.Generated.C12Instr

namespace RotoV.Conc.Classify
open RotoV.Conc.Lir RotoV.Gen.C12Instr

/-- the constructors of the model's `Lir.Instr` -/
inductive Shape
  | nop | ret | assign | constAddr | funcAddr | initString | call | callRt | arith | offset
  | initBytes | write | read | copy | clone | eq | drop
  | unclassified   -- a kind of the generated list that nobody has classified yet
  deriving DecidableEq, Repr

def Shape.of : Instr → Shape
  | .assign .. => .assign
  | .constAddr .. => .constAddr
  | .funcAddr .. => .funcAddr
  | .initString .. => .initString
  | .call .. => .call
  | .callRt .. => .callRt
  | .arith .. => .arith
  | .offset .. => .offset
  | .initBytes .. => .initBytes
  | .write .. => .write
  | .read .. => .read
  | .copy .. => .copy
  | .clone .. => .clone
  | .drop .. => .drop
  | .eq .. => .eq
  | .ret .. => .ret
  | .nop => .nop

/-- which model instruction a source instruction kind is checked as (a table,
not a `match`: a kind the table does not list is `unclassified`) -/
def shapeTable : List (Kind × Shape) :=
  [(.kJump, .nop), (.kSwitch, .nop), (.kReturn, .ret), (.kAssign, .assign),
   (.kConstantAddress, .constAddr), (.kFunctionAddress, .funcAddr), (.kInitString, .initString),
   (.kCall, .call), (.kCallRuntime, .callRt),
   (.kIntCmp, .arith), (.kFloatCmp, .arith), (.kAdd, .arith), (.kSub, .arith), (.kMul, .arith),
   (.kDiv, .arith), (.kMod, .arith), (.kFDiv, .arith), (.kNot, .arith), (.kNegate, .arith),
   (.kOffset, .offset), (.kInitialize, .initBytes), (.kWrite, .write), (.kRead, .read),
   (.kCopy, .copy), (.kClone, .clone), (.kEq, .eq), (.kDrop, .drop)]

def shapeOf (k : Kind) : Shape := (shapeTable.lookup k).getD .unclassified

/-- the role of a field of an instruction for the provenance checker -/
inductive Role
  | defines        -- the variable receives a value
  | writesThrough  -- memory behind this address is written: class must be `loc`
  | retPtr         -- return pointer handed to a Roto callee: class must be `loc`
  | handed         -- handed to a callee that may write through it: class must not be `any`
  | readOnly       -- read, compared, switched on, or passed by shared reference
  | immediate      -- not a variable: type, label, name, function pointer, size, literal bytes
  deriving DecidableEq, Repr

def roleTable : List (Kind × List (Field × Role)) :=
  [
   (.kJump, [(.f_0, .immediate)]),
   (.kSwitch, [(.f_examinee, .readOnly), (.f_branches, .immediate), (.f_default, .immediate)]),
   (.kAssign, [(.f_to, .defines), (.f_val, .readOnly), (.f_ty, .immediate)]),
   (.kConstantAddress, [(.f_to, .defines), (.f_name, .immediate)]),
   (.kFunctionAddress, [(.f_to, .defines), (.f_name, .immediate)]),
   (.kInitString, [(.f_to, .writesThrough), (.f_string, .immediate), (.f_init_func, .immediate)]),
   (.kCall, [(.f_to, .defines), (.f_ctx, .readOnly), (.f_func, .immediate), (.f_args, .handed), (.f_return_ptr, .retPtr)]),
   (.kCallRuntime, [(.f_func, .immediate), (.f_args, .handed)]),
   (.kReturn, [(.f_0, .readOnly)]),
   (.kIntCmp, [(.f_to, .defines), (.f_cmp, .immediate), (.f_left, .readOnly), (.f_right, .readOnly)]),
   (.kFloatCmp, [(.f_to, .defines), (.f_cmp, .immediate), (.f_left, .readOnly), (.f_right, .readOnly)]),
   (.kAdd, [(.f_to, .defines), (.f_left, .readOnly), (.f_right, .readOnly)]),
   (.kSub, [(.f_to, .defines), (.f_left, .readOnly), (.f_right, .readOnly)]),
   (.kMul, [(.f_to, .defines), (.f_left, .readOnly), (.f_right, .readOnly)]),
   (.kFDiv, [(.f_to, .defines), (.f_left, .readOnly), (.f_right, .readOnly)]),
   (.kDiv, [(.f_to, .defines), (.f_signed, .immediate), (.f_left, .readOnly), (.f_right, .readOnly)]),
   (.kMod, [(.f_to, .defines), (.f_signed, .immediate), (.f_left, .readOnly), (.f_right, .readOnly)]),
   (.kNot, [(.f_to, .defines), (.f_val, .readOnly)]),
   (.kNegate, [(.f_to, .defines), (.f_val, .readOnly)]),
   (.kOffset, [(.f_to, .defines), (.f_from, .readOnly), (.f_offset, .immediate)]),
   (.kInitialize, [(.f_to, .writesThrough), (.f_bytes, .immediate), (.f_layout, .immediate)]),
   (.kWrite, [(.f_to, .writesThrough), (.f_val, .readOnly)]),
   (.kRead, [(.f_to, .defines), (.f_from, .readOnly), (.f_ty, .immediate)]),
   (.kCopy, [(.f_to, .writesThrough), (.f_from, .readOnly), (.f_size, .immediate)]),
   (.kClone, [(.f_to, .writesThrough), (.f_from, .readOnly), (.f_clone_fn, .immediate)]),
   (.kEq, [(.f_to, .defines), (.f_left, .readOnly), (.f_right, .readOnly), (.f_eq_fn, .immediate)]),
   (.kDrop, [(.f_var, .writesThrough), (.f_drop, .immediate)])]

def roles (k : Kind) : List (Field × Role) := (roleTable.lookup k).getD []

/-- a role fits the type class of the field it is given to -/
def roleFits : Role → FieldTy → Bool
  | .immediate, .other => true
  | .immediate, _ => false
  | _, .other => false
  | .defines, t => t == .var || t == .optVarTy
  | .writesThrough, t => t == .var || t == .operand
  | .retPtr, t => t == .optVar
  | .handed, t => t == .operands
  | .readOnly, t => t == .operand || t == .optOperand

/-- the generated field list of a kind is exactly the classified one: same
names in the same order, and every field that can carry a variable has a
non-immediate role of a fitting type -/
def kindClassified (k : Kind) : Bool :=
  shapeOf k != .unclassified
  && (roles k).map (·.1) == (fields k).map (·.1)
  && ((roles k).zip (fields k)).all (fun p => roleFits p.1.2 p.2.2)

/-- what the checker demands of an instruction, by roles -/
structure Summary where
  defines : Bool
  writes : Nat     -- operands written through (`writesThrough` + `retPtr`)
  handed : Bool
  deriving DecidableEq, Repr

def roleSummary (rs : List (Field × Role)) : Summary where
  defines := rs.any (·.2 == .defines)
  writes := (rs.filter (fun r => r.2 == .writesThrough || r.2 == .retPtr)).length
  handed := rs.any (·.2 == .handed)

def shapeSummary : Shape → Summary
  | .nop | .ret => ⟨false, 0, false⟩
  | .assign | .constAddr | .funcAddr | .arith | .offset | .read | .eq => ⟨true, 0, false⟩
  | .initString | .initBytes | .write | .copy | .clone | .drop => ⟨false, 1, false⟩
  | .call => ⟨true, 1, true⟩
  | .callRt => ⟨false, 0, true⟩
  | .unclassified => ⟨true, 1, true⟩

/-! the same three notions on the model's instructions -/

def defVar : Instr → Option Var
  | .assign to _ | .constAddr to _ | .funcAddr to | .arith to _ | .offset to _ _ | .read to _ _
  | .eq to _ _ => some to
  | .call _ to _ _ _ _ => to
  | _ => none

/-- operands whose memory the instruction (or the callee, for a return
pointer) writes -/
def writeOps : Instr → List Operand
  | .initString to | .initBytes to => [.var to]
  | .write to _ | .copy to _ _ | .clone to _ => [to]
  | .drop v true => [v]
  | .call _ _ _ _ (some r) _ => [.var r]
  | _ => []

/-- operands handed to a callee that may write through them -/
def handedOps : Instr → List Operand
  | .call _ _ _ _ _ args | .callRt args => args
  | _ => []

/-- memory-relevant operations of the machine-code generator -/
def isMemOp : CgOp → Bool
  | .store | .load | .memcpy | .call | .callIndirect => true
  | _ => false

/-- what the model assumes the machine code of a shape does to memory and other
code: a store only for `write`, a block copy only for `copy` and literal
initialisation, a load only for `read`, a direct call only for the two call
instructions, an indirect call (Rust glue) only for the string initialiser,
clone, eq and drop; nothing for every other kind -/
def expectedMemOps : Shape → List CgOp
  | .write => [.store]
  | .read => [.load]
  | .copy | .initBytes => [.memcpy]
  | .call | .callRt => [.call]
  | .initString | .clone | .eq | .drop => [.callIndirect]
  | _ => []

def codegenMatches (k : Kind) : Bool := (codegenOps k).filter isMemOp == expectedMemOps (shapeOf k)

/-- effectful operations of the reference interpreter (obtaining a raw pointer,
offsetting one and interning a constant's address change no memory) -/
def isEvalEffect : EvOp → Bool
  | .rawPtr | .offsetBy | .newPointer => false
  | _ => true

/-- what the model's machine (`Exec.stepInstr`) does for a shape, in the
interpreter's vocabulary: `Call` pushes a frame and allocates FRESH stack slots
for the callee, `Return` pops it; the string and literal initialisers write
into fresh call-local memory; `Write` / `Read` / `Copy` are one store / load /
block copy; clone, eq and drop glue and runtime functions are calls into Rust
code; every other kind touches no memory at all -/
def expectedEvalOps : Shape → List EvOp
  | .ret => [.popFrame]
  | .call => [.pushFrame, .alloc]
  | .callRt => [.callRt]
  | .initString => [.alloc, .ptrWrite]
  | .initBytes => [.alloc, .write]
  | .write => [.write]
  | .read => [.read]
  | .copy => [.copy]
  | .clone | .eq | .drop => [.callFnPtr]
  | _ => []

def evalMatches (k : Kind) : Bool := (evalOps k).filter isEvalEffect == expectedEvalOps (shapeOf k)

end RotoV.Conc.Classify
