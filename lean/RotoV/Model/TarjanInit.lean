/-
  C14, fourth layer of the model: *what* the item loop of `codegen` does for a
  constant, as a function of the constant's type, and what the host observes of
  it — the trace of host calls made while the package is compiled.

  `codegen` (src/codegen/mod.rs), arm `ItemKind::Constant { layout, type_id, name, .. }`:
      define_function(item)                 -- compile the initialiser
      finalize_definitions()
      functions.get("::generated::drop_<type_id>"); get_finalized_function(drop)
      RotoConstant::new(layout.size(), layout.align(), drop)
      get_finalized_function(func_id); (func_ptr)(constant.ptr)     -- run it
      roto_constants.insert(name, constant)
  The arm is the same for every type: nothing in it looks at the layout.  The
  translator (target `c14emit`) regenerates the arm as a list of actions *with
  the condition each one is executed under* (`constantArmG`), so that a test of
  the layout size — "a value of a zero-sized type has no storage to fill, so
  there is nothing to compile or run" — is visible: `armActs` gives the actions
  executed for a constant whose layout has `sz` bytes.

  An initialiser is an expression; the only thing of it the host can observe
  during `compile` is the sequence of host calls it makes (`emit(k)` logs `k`).
  `Init` is the effect skeleton of an initialiser: a host call, a value without
  effect (`()`, `N {}`, a literal), one part after the other (a block
  `{ emit(k); () }`, an operator, a record literal), a call of a script function
  (whose body is an effect skeleton again), a read of another constant (no
  effect: it clones what the loop stored; compiling it needs the constant to be
  there already — `ice!("Constant not defined")` otherwise).

  Core Lean only (linked into the driver).
-/
import RotoV.Model.TarjanLir

namespace RotoV.Tarjan

/-- the condition an action of an arm of the define loop is executed under -/
inductive CgGuard where
  | always         -- straight-line code of the arm
  | sizePositive   -- only when the constant's layout has more than zero bytes
  | sizeZero       -- only when it has zero bytes
  | unknown        -- under a condition the translator cannot read
  deriving DecidableEq, Repr

/-- does the guard hold for a layout of `sz` bytes? (`none`: not known) -/
def CgGuard.holds : CgGuard → Nat → Option Bool
  | .always, _ => some true
  | .sizePositive, sz => some (decide (0 < sz))
  | .sizeZero, sz => some (decide (sz = 0))
  | .unknown, _ => none

/-- the actions of a guarded arm that are executed for a layout of `sz` bytes -/
def armActs : List (CgGuard × CgAct) → Nat → Option (List CgAct)
  | [], _ => some []
  | (g, a) :: rest, sz =>
    match g.holds sz, armActs rest sz with
    | some true, some r => some (a :: r)
    | some false, some r => some r
    | _, _ => none

/-- every action is straight-line code -/
def allAlways (arm : List (CgGuard × CgAct)) : Bool := arm.all fun p => p.1 == .always

/-- The type of a constant as far as its layout goes (only "zero bytes or not"
matters to anything below; the sizes are the ones of a 64-bit target, records
without padding). -/
inductive CTy where
  | unit                      -- `()`
  | emptyRecord               -- `record N {}`
  | record1 (f : CTy)         -- a record with one field
  | record2 (f g : CTy)       -- a record with two fields
  | option (t : CTy)          -- `T?`: a tag and the payload
  | registered (size : Nat)   -- a registered Rust type of that size (`struct Z;` has 0)
  | u64
  | string
  deriving DecidableEq, Repr

def CTy.size : CTy → Nat
  | .unit => 0
  | .emptyRecord => 0
  | .record1 f => f.size
  | .record2 f g => f.size + g.size
  | .option t => 1 + t.size
  | .registered n => n
  | .u64 => 8
  | .string => 24

/-- the effect skeleton of an initialiser (or of a function body) -/
inductive Init where
  | host (k : Nat)                -- a host call that logs `k`
  | value                         -- a value without effect
  | seq (a b : Init)              -- `a` then `b`
  | call (f : Nat) (body : Init)  -- a call of script function `f`, whose body is `body`
  | read (c : Nat)                -- a read of the constant at position `c`
  deriving DecidableEq, Repr

/-- the host calls evaluating it makes, in order -/
def Init.effs : Init → List Nat
  | .host k => [k]
  | .value => []
  | .seq a b => a.effs ++ b.effs
  | .call _ body => body.effs
  | .read _ => []

/-- the constants its code refers to (directly or in the functions it calls) -/
def Init.reads : Init → List Nat
  | .host _ => []
  | .value => []
  | .seq a b => a.reads ++ b.reads
  | .call _ body => body.reads
  | .read c => [c]

/-- a script constant: its type and its initialiser -/
structure CDecl where
  ty : CTy
  init : Init
  deriving DecidableEq, Repr

structure IState where
  /-- every host call made so far, in time order -/
  trace : List Nat
  /-- `roto_constants`: positions of the constants stored (oldest first) -/
  store : List Nat
  /-- positions of the constants whose initialiser has been compiled -/
  defined : List Nat
  deriving DecidableEq, Repr

def IState.new : IState := ⟨[], [], []⟩

/-- one action of the arm, for the constant at position `i` -/
def iAct (i : Nat) (d : CDecl) (st : IState) : CgAct → M IState
  | .define =>
    -- `ConstantAddress` of a script constant that is not stored yet: `ice!("Constant not defined")`
    if d.init.reads.all st.store.contains then .ok { st with defined := st.defined ++ [i] }
    else .error .panic
  | .finalize => .ok st
  | .lookupDrop => .ok st
  | .getFinalized => .ok st
  | .run =>
    -- the call through the function pointer of the compiled initialiser
    if st.defined.contains i then .ok { st with trace := st.trace ++ d.init.effs }
    else .error .panic
  | .store => .ok { st with store := st.store ++ [i] }

def iArm (i : Nat) (d : CDecl) : List CgAct → IState → M IState
  | [], st => .ok st
  | a :: rest, st => do
    let st ← iAct i d st a
    iArm i d rest st

/-- `for item in ir` restricted to the constants, `arm sz` = what the arm does
for a layout of `sz` bytes -/
def iLoop (arm : Nat → Option (List CgAct)) : Nat → List CDecl → IState → M IState
  | _, [], st => .ok st
  | i, d :: rest, st =>
    match arm d.ty.size with
    | none => .error .panic
    | some acts => do
      let st ← iArm i d acts st
      iLoop arm (i + 1) rest st

/-- the constants of a package compiled by a define loop whose constant arm is `armG` -/
def compileInit (armG : List (CgGuard × CgAct)) (ds : List CDecl) : M IState :=
  iLoop (armActs armG) 0 ds IState.new

/-- a read of constant `c` after `compile`: clones the stored value; nothing is traced -/
def readStored (st : IState) (c : Nat) : M IState :=
  if st.store.contains c then .ok st else .error .panic

/-- every initialiser only reads constants that stand earlier in the list (what
the compilation order provides: `evaluated_once_after_deps`) -/
def depsEarlier : Nat → List CDecl → Bool
  | _, [] => true
  | i, d :: rest => d.init.reads.all (fun c => decide (c < i)) && depsEarlier (i + 1) rest

/-- the trace the property demands: every initialiser's host calls, once, in list order -/
def wantTrace (ds : List CDecl) : List Nat := ds.flatMap fun d => d.init.effs

/-- (for the non-vacuity examples) an arm that compiles and runs the initialiser
only when the layout has bytes, the other actions as before -/
def skipZeroSizedArm : List (CgGuard × CgAct) :=
  [(.sizePositive, .define), (.always, .finalize), (.always, .lookupDrop), (.always, .getFinalized),
   (.sizePositive, .getFinalized), (.sizePositive, .run), (.always, .store)]

end RotoV.Tarjan
