/-
  Registration (C18): the NAME under which `library!` (`to_tokens` of
  `macros/src/lib.rs`) hands a named item — `type`, `let` closure, `fn`, `mod`,
  `const` — to its item constructor (`roto::Type::…`, `Function::new`,
  `Module::new`, `Constant::new`): in every arm a string `ident_str` computed
  from the item's own identifier.

  The property: an item is usable from scripts at exactly the path where it was
  *declared* — so the registered name must be the identifier that was written
  (two identifiers `step` and `step_` are two names).  The translator
  (`extract/src/targets/c18.rs`, target `itemnames`) reads the expression bound
  to `ident_str` in each arm — through the arm's `let`s and through helper
  functions of the file — into the vocabulary below; `Props/C18Names.lean`
  proves, over the regenerated facts, that every one of them is the identity on
  identifiers (apart from the `r#` of a raw identifier).

  Core Lean only.
-/
namespace RotoV.Reg.MacroNames

/-- a Rust identifier as the macro receives it (`syn::Ident`): written with an
    `r#` prefix or not, and its characters (code points) without that prefix -/
structure Ident where
  raw : Bool
  chars : List Nat
  deriving DecidableEq, Repr

/-- `Ident::to_string()` (`Display` of `proc_macro2::Ident`): the identifier as
    written — a raw identifier keeps its `r#` -/
def Ident.written (i : Ident) : List Nat :=
  if i.raw then [114, 35] ++ i.chars else i.chars

def stripSuffix (c : Nat) (s : List Nat) : List Nat :=
  match s.getLast? with
  | some l => if l = c then s.dropLast else s
  | none => s

def stripPrefix (c : Nat) : List Nat → List Nat
  | [] => []
  | x :: xs => if x = c then xs else x :: xs

def trimStart (c : Nat) : List Nat → List Nat
  | [] => []
  | x :: xs => if x = c then trimStart c xs else x :: xs

def trimEnd (c : Nat) (s : List Nat) : List Nat := (trimStart c s.reverse).reverse

def lowerC (c : Nat) : Nat := if 65 ≤ c ∧ c ≤ 90 then c + 32 else c
def upperC (c : Nat) : Nat := if 97 ≤ c ∧ c ≤ 122 then c - 32 else c

/-- a string computed from the item's identifier -/
inductive NameExpr
  /-- `<ident>.to_string()` / `format!("{}", <ident>)` -/
  | written
  /-- `<ident>.unraw().to_string()` -/
  | unraw
  /-- `match s.strip_suffix(c) { Some(p) => p.to_string(), None => s }` and its spellings -/
  | stripSuffix (c : Nat) (e : NameExpr)
  | stripPrefix (c : Nat) (e : NameExpr)
  /-- `s.trim_end_matches(c)` -/
  | trimEnd (c : Nat) (e : NameExpr)
  | trimStart (c : Nat) (e : NameExpr)
  /-- `s.to_lowercase()` (ASCII part) -/
  | lower (e : NameExpr)
  | upper (e : NameExpr)
  deriving DecidableEq, Repr

def NameExpr.eval : NameExpr → Ident → List Nat
  | .written, i => i.written
  | .unraw, i => i.chars
  | .stripSuffix c e, i => MacroNames.stripSuffix c (e.eval i)
  | .stripPrefix c e, i => MacroNames.stripPrefix c (e.eval i)
  | .trimEnd c e, i => MacroNames.trimEnd c (e.eval i)
  | .trimStart c e, i => MacroNames.trimStart c (e.eval i)
  | .lower e, i => (e.eval i).map lowerC
  | .upper e, i => (e.eval i).map upperC

/-- the named item kinds of `library!` (`Item::Type / Let / Fn / Mod / Const`) -/
inductive ItemK | type | letFn | fn | module | const
  deriving DecidableEq, Repr

structure Facts where
  /-- per arm of `to_tokens`, in source order: what `ident_str` is -/
  names : List (ItemK × NameExpr)
  deriving DecidableEq, Repr

/-- the expression is the identifier itself, as written or without its raw prefix -/
def NameExpr.isIdentity : NameExpr → Bool
  | .written => true
  | .unraw => true
  | _ => false

end RotoV.Reg.MacroNames
