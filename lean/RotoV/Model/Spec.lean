/-
  Spec: the *language-defined* meaning of the scalar core of Roto (C01's oracle).

  A typed core-language AST and a fuel-indexed big-step reference interpreter.
  It is written from the manual (docs/source/reference/language_reference.md),
  over mathematical integers — it shares nothing with the compiler's operator
  tables (`Generated/OpTables`), so agreeing with the JIT is evidence, not a
  tautology.

  * the 8 integer types hold an `Int` in the type's range; `+ - *` and unary `-`
    are the exact `Int` result wrapped mod 2^w (two's complement);
    `/` is `Int.tdiv`, `%` is `Int.tmod` (truncation toward zero);
    comparisons compare the mathematical values (so signedness is respected
    by construction);
  * division / remainder by zero and `MIN / -1` (quotient not representable)
    are an explicit `trap` outcome — never totalised (`MIN % -1 = 0` is
    representable and is a value);
  * f32 / f64 are bit patterns operated on through the opaque `FloatOps`
    (IEEE-754; the driver instantiates it with native floats);
  * `&&` / `||` short-circuit; operands are evaluated left to right;
  * `let` binds in the current block scope; a nested block may shadow; leaving
    a block discards its bindings but keeps assignments to outer variables;
  * `return e` leaves the *function*; a call evaluates its arguments left to
    right, runs the callee in a fresh environment; recursion is allowed;
  * a value of a user-defined `enum` type is a constructor name with the values of
    its arguments; `match` evaluates its examinee once and runs the first arm whose
    pattern names the value's constructor (or is `_`) and whose guard, if any, is
    `true`; a constructor pattern binds one variable per argument, local to the arm;
  * running out of fuel is the outcome `fuel` (not a value);
    an ill-typed program is `stuck` (the generator never produces one; if it
    happens the harness reports a broken tie, not a compiler defect).

  Core Lean only (linked into the driver executable).
-/
import RotoV.Model.RustStd

namespace RotoV.Spec

/-- The eight integer types. -/
inductive ITy | u8 | u16 | u32 | u64 | i8 | i16 | i32 | i64
  deriving DecidableEq, Repr, Inhabited

def ITy.bits : ITy → Nat
  | .u8 | .i8 => 8 | .u16 | .i16 => 16 | .u32 | .i32 => 32 | .u64 | .i64 => 64

def ITy.signed : ITy → Bool
  | .i8 | .i16 | .i32 | .i64 => true
  | _ => false

def ITy.min (t : ITy) : Int := if t.signed then -(2 ^ (t.bits - 1) : Int) else 0
def ITy.max (t : ITy) : Int := if t.signed then (2 ^ (t.bits - 1) : Int) - 1 else (2 ^ t.bits : Int) - 1
def ITy.inRange (t : ITy) (x : Int) : Bool := decide (t.min ≤ x) && decide (x ≤ t.max)

/-- Reduce an exact result into the type's range modulo 2^w. -/
def wrap (t : ITy) (x : Int) : Int :=
  let m : Int := 2 ^ t.bits
  let r := x % m
  if t.signed && decide (r ≥ m / 2) then r - m else r

/-- The value denoted by a w-bit pattern at this type. -/
def ITy.ofBits (t : ITy) (n : Nat) : Int := wrap t (n : Int)
/-- The w-bit pattern of a value of this type. -/
def ITy.toBits (t : ITy) (x : Int) : Nat := (x % (2 ^ t.bits : Int)).toNat

inductive Ty
  | int (t : ITy) | f32 | f64 | bool | unit
  | enum (name : String)
  deriving DecidableEq, Repr, Inhabited

/-- A value. A value of a user-defined `enum` type is the name of its constructor
    (variant) and the values of the constructor's arguments. -/
inductive Val
  | int (t : ITy) (v : Int)
  | f32 (b : BitVec 32)
  | f64 (b : BitVec 64)
  | bool (b : Bool)
  | unit
  | enum (ty : String) (variant : String) (fields : List Val)
  deriving Repr, Inhabited

def Val.ty : Val → Ty
  | .int t _ => .int t | .f32 _ => .f32 | .f64 _ => .f64 | .bool _ => .bool | .unit => .unit
  | .enum t _ _ => .enum t

/-- A `match` pattern: `_`, or a constructor name with one variable per argument
    (the language matches on the constructor only, never on its contents). -/
inductive Pat
  | wild
  | ctor (name : String) (binds : List String)
  deriving DecidableEq, Repr, Inhabited

/-- Does the pattern select a value built with constructor `variant`? -/
def Pat.selects : Pat → String → Bool
  | .wild, _ => true
  | .ctor name _, variant => decide (name = variant)

inductive BinOp
  | add | sub | mul | div | mod
  | eq | ne | lt | le | gt | ge
  | and | or
  deriving DecidableEq, Repr, Inhabited

/-- The five arithmetic operators that have a compound-assignment form
    (`+= -= *= /= %=`, parser/expr.rs `assign_expr`). -/
def BinOp.isArith : BinOp → Bool
  | .add | .sub | .mul | .div | .mod => true
  | _ => false

mutual
inductive Expr
  | lit (v : Val)
  | var (x : String)
  | neg (e : Expr)
  | not (e : Expr)
  | bin (op : BinOp) (l r : Expr)
  | ite (c : Expr) (t : Block) (e : Option Block)
  | while (c : Expr) (b : Block)
  | block (b : Block)
  | call (f : String) (args : List Expr)
  | assign (x : String) (e : Expr)
  | cassign (op : BinOp) (x : String) (e : Expr)
  | ret (e : Option Expr)
  /-- `Ty.Variant(args…)`: a value of a user-defined enum type -/
  | ctor (ty : String) (variant : String) (args : List Expr)
  /-- `match e { arm… }` -/
  | match_ (scrut : Expr) (arms : List Arm)
/-- `pattern [if guard] => body` -/
inductive Arm
  | mk (pat : Pat) (guard : Option Expr) (body : Block)
inductive Stmt
  | let_ (x : String) (e : Expr)
  | expr (e : Expr)
inductive Block
  | mk (stmts : List Stmt) (last : Option Expr)
end

instance : Inhabited Expr := ⟨.lit .unit⟩
instance : Inhabited Block := ⟨.mk [] none⟩
instance : Inhabited Stmt := ⟨.expr default⟩
instance : Inhabited Arm := ⟨.mk .wild none default⟩

structure FnDef where
  name : String
  params : List (String × Ty)
  ret : Ty
  body : Block

/-- Outcome of evaluating a piece of program. `ret` is the in-flight early
    return (caught at the call boundary). -/
inductive R (α : Type)
  | ok (a : α)
  | ret (v : Val)
  | trap
  | fuel
  | stuck (why : String)
  deriving Repr, Inhabited

namespace R
@[inline] def bind {α β} (r : R α) (f : α → R β) : R β :=
  match r with
  | .ok a => f a
  | .ret v => .ret v
  | .trap => .trap
  | .fuel => .fuel
  | .stuck w => .stuck w
instance : Monad R where
  pure := .ok
  bind := bind
end R

abbrev Env := List (String × Val)

def lookup (env : Env) (x : String) : Option Val :=
  match env with
  | [] => none
  | (y, v) :: rest => if x = y then some v else lookup rest x

/-- Overwrite the innermost binding of `x`. -/
def update (env : Env) (x : String) (v : Val) : Option Env :=
  match env with
  | [] => none
  | (y, w) :: rest =>
    if x = y then some ((y, v) :: rest)
    else (update rest x v).map ((y, w) :: ·)

section ops
variable [F : FloatOps]

def intArith (op : BinOp) (t : ITy) (a b : Int) : R Val :=
  match op with
  | .add => .ok (.int t (wrap t (a + b)))
  | .sub => .ok (.int t (wrap t (a - b)))
  | .mul => .ok (.int t (wrap t (a * b)))
  | .div =>
    if b = 0 then .trap
    else if !t.inRange (Int.tdiv a b) then .trap   -- only MIN / -1
    else .ok (.int t (Int.tdiv a b))
  | .mod =>
    if b = 0 then .trap else .ok (.int t (Int.tmod a b))
  | .eq => .ok (.bool (decide (a = b)))
  | .ne => .ok (.bool (decide (a ≠ b)))
  | .lt => .ok (.bool (decide (a < b)))
  | .le => .ok (.bool (decide (a ≤ b)))
  | .gt => .ok (.bool (decide (a > b)))
  | .ge => .ok (.bool (decide (a ≥ b)))
  | .and | .or => .stuck "&&/|| on integers"

def f32Arith (op : BinOp) (a b : BitVec 32) : R Val :=
  match op with
  | .add => .ok (.f32 (F.add32 a b))
  | .sub => .ok (.f32 (F.sub32 a b))
  | .mul => .ok (.f32 (F.mul32 a b))
  | .div => .ok (.f32 (F.div32 a b))
  | .mod => .stuck "% on floats"
  | .eq => .ok (.bool (F.eq32 a b))
  | .ne => .ok (.bool (!F.eq32 a b))
  | .lt => .ok (.bool (F.lt32 a b))
  | .le => .ok (.bool (F.le32 a b))
  | .gt => .ok (.bool (F.lt32 b a))
  | .ge => .ok (.bool (F.le32 b a))
  | .and | .or => .stuck "&&/|| on floats"

def f64Arith (op : BinOp) (a b : BitVec 64) : R Val :=
  match op with
  | .add => .ok (.f64 (F.add64 a b))
  | .sub => .ok (.f64 (F.sub64 a b))
  | .mul => .ok (.f64 (F.mul64 a b))
  | .div => .ok (.f64 (F.div64 a b))
  | .mod => .stuck "% on floats"
  | .eq => .ok (.bool (F.eq64 a b))
  | .ne => .ok (.bool (!F.eq64 a b))
  | .lt => .ok (.bool (F.lt64 a b))
  | .le => .ok (.bool (F.le64 a b))
  | .gt => .ok (.bool (F.lt64 b a))
  | .ge => .ok (.bool (F.le64 b a))
  | .and | .or => .stuck "&&/|| on floats"

/-- A strict binary operator on two evaluated operands (everything except
    `&&` / `||`, whose right operand may not be evaluated at all). -/
def binop (op : BinOp) (a b : Val) : R Val :=
  match a, b with
  | .int t x, .int t' y => if t = t' then intArith op t x y else .stuck "operand types differ"
  | .f32 x, .f32 y => f32Arith op x y
  | .f64 x, .f64 y => f64Arith op x y
  | .bool x, .bool y =>
    match op with
    | .eq => .ok (.bool (x == y))
    | .ne => .ok (.bool (x != y))
    | _ => .stuck "arithmetic/ordering on bool"
  | _, _ => .stuck "operand types differ"

def negate (a : Val) : R Val :=
  match a with
  | .int t x => if t.signed then .ok (.int t (wrap t (-x))) else .stuck "- on unsigned"
  | .f32 x => .ok (.f32 (F.neg32 x))
  | .f64 x => .ok (.f64 (F.neg64 x))
  | _ => .stuck "- on non-number"

def lnot (a : Val) : R Val :=
  match a with
  | .bool b => .ok (.bool (!b))
  | _ => .stuck "! on non-bool"

def bindParams : List (String × Ty) → List Val → Env → R Env
  | [], [], acc => .ok acc
  | (x, t) :: ps, v :: vs, acc =>
    if v.ty = t then bindParams ps vs ((x, v) :: acc) else .stuck s!"argument type of {x}"
  | _, _, _ => .stuck "arity"

/-- The variables of a constructor pattern bound to the constructor's arguments, in
    order (the last one is the innermost binding). -/
def bindFields : List String → List Val → Env → Option Env
  | [], [], env => some env
  | x :: xs, v :: vs, env => bindFields xs vs ((x, v) :: env)
  | _, _, _ => none

/-- The environment an arm's guard and body run in: a constructor pattern binds its
    variables, `_` binds nothing. `none`: the number of variables is not the number of
    arguments (ill-typed). -/
def Pat.bind : Pat → List Val → Env → Option Env
  | .wild, _, env => some env
  | .ctor _ binds, fields, env => bindFields binds fields env

def findFn (fns : List FnDef) (f : String) : Option FnDef := fns.find? (·.name = f)

mutual
/-- `evalExpr fns fuel env e`: the new environment and the value, an in-flight
    `return`, a trap, or out of fuel. Fuel bounds the *depth* of the evaluation
    (every recursive call, loop iteration and function call spends one). -/
def evalExpr (fns : List FnDef) : Nat → Env → Expr → R (Env × Val)
  | 0, _, _ => .fuel
  | n + 1, env, e =>
    match e with
    | .lit v => .ok (env, v)
    | .var x =>
      match lookup env x with
      | some v => .ok (env, v)
      | none => .stuck s!"unbound {x}"
    | .neg e => do
      let (env, v) ← evalExpr fns n env e
      let r ← negate v
      pure (env, r)
    | .not e => do
      let (env, v) ← evalExpr fns n env e
      let r ← lnot v
      pure (env, r)
    | .bin .and l r => do
      let (env, a) ← evalExpr fns n env l
      match a with
      | .bool false => pure (env, .bool false)
      | .bool true => do
        let (env, b) ← evalExpr fns n env r
        match b with
        | .bool _ => pure (env, b)
        | _ => .stuck "&& on non-bool"
      | _ => .stuck "&& on non-bool"
    | .bin .or l r => do
      let (env, a) ← evalExpr fns n env l
      match a with
      | .bool true => pure (env, .bool true)
      | .bool false => do
        let (env, b) ← evalExpr fns n env r
        match b with
        | .bool _ => pure (env, b)
        | _ => .stuck "|| on non-bool"
      | _ => .stuck "|| on non-bool"
    | .bin op l r => do
      let (env, a) ← evalExpr fns n env l
      let (env, b) ← evalExpr fns n env r
      let v ← binop op a b
      pure (env, v)
    | .ite c t none => do
      let (env, cv) ← evalExpr fns n env c
      match cv with
      | .bool true => do
        let (env, _) ← evalBlock fns n env t
        pure (env, .unit)
      | .bool false => pure (env, .unit)
      | _ => .stuck "if on non-bool"
    | .ite c t (some e) => do
      let (env, cv) ← evalExpr fns n env c
      match cv with
      | .bool true => evalBlock fns n env t
      | .bool false => evalBlock fns n env e
      | _ => .stuck "if on non-bool"
    | .while c b => evalWhile fns n env c b
    | .block b => evalBlock fns n env b
    | .call f args => do
      let (env, vs) ← evalArgs fns n env args
      match findFn fns f with
      | none => .stuck s!"unknown function {f}"
      | some fd => do
        let cenv ← bindParams fd.params vs []
        match evalBlock fns n cenv fd.body with
        | .ok (_, v) => if v.ty = fd.ret then .ok (env, v) else .stuck s!"result type of {f}"
        | .ret v => if v.ty = fd.ret then .ok (env, v) else .stuck s!"return type in {f}"
        | .trap => .trap
        | .fuel => .fuel
        | .stuck w => .stuck w
    | .assign x e => do
      let (env, v) ← evalExpr fns n env e
      match lookup env x with
      | none => .stuck s!"assignment to unbound {x}"
      | some old =>
        if old.ty ≠ v.ty then .stuck s!"assignment changes the type of {x}" else
        match update env x v with
        | some env => pure (env, .unit)
        | none => .stuck s!"assignment to unbound {x}"
    | .cassign op x e => do
      -- `x op= e` is `x = x op e` (mir/lower.rs `compound_assign`): `x` is read first
      if !op.isArith then .stuck "compound assignment with a non-arithmetic operator" else
      match lookup env x with
      | none => .stuck s!"assignment to unbound {x}"
      | some a => do
        let (env, b) ← evalExpr fns n env e
        let v ← binop op a b
        match update env x v with
        | some env => pure (env, .unit)
        | none => .stuck s!"assignment to unbound {x}"
    | .ret none => .ret .unit
    | .ret (some e) => do
      let (_, v) ← evalExpr fns n env e
      .ret v
    | .ctor ty variant args => do
      let (env, vs) ← evalArgs fns n env args
      pure (env, .enum ty variant vs)
    | .match_ scrut arms => do
      -- the examinee is evaluated once, then the arms are tried in the order written
      let (env, v) ← evalExpr fns n env scrut
      match v with
      | .enum _ variant fields => evalArms fns n env variant fields arms
      | _ => .stuck "match on a value that is not of an enum type"

/-- The arms of a `match` on a value built with constructor `variant` from `fields`:
    the FIRST arm whose pattern selects the constructor and whose guard (if it has one)
    evaluates to `true` is the one that runs, and the value of its body is the value of
    the `match`. A guard is evaluated only when its pattern selects the value and no
    earlier arm was taken; it sees the pattern's variables; its effects on outer
    variables stay when it is `false`. The pattern's variables are local to the arm. -/
def evalArms (fns : List FnDef) : Nat → Env → String → List Val → List Arm → R (Env × Val)
  | 0, _, _, _, _ => .fuel
  | _ + 1, _, _, _, [] => .stuck "no arm of the match applies"
  | n + 1, env, variant, fields, .mk pat guard body :: rest =>
    if !pat.selects variant then evalArms fns n env variant fields rest else
    match pat.bind fields env with
    | none => .stuck "pattern variables do not fit the constructor"
    | some envB =>
      match guard with
      | none => do
        let (env', v) ← evalBlock fns n envB body
        pure (env'.drop (env'.length - env.length), v)
      | some g => do
        let (env1, gv) ← evalExpr fns n envB g
        match gv with
        | .bool true => do
          let (env', v) ← evalBlock fns n env1 body
          pure (env'.drop (env'.length - env.length), v)
        | .bool false => evalArms fns n (env1.drop (env1.length - env.length)) variant fields rest
        | _ => .stuck "guard on non-bool"

def evalArgs (fns : List FnDef) : Nat → Env → List Expr → R (Env × List Val)
  | 0, _, _ => .fuel
  | _ + 1, env, [] => .ok (env, [])
  | n + 1, env, e :: es => do
    let (env, v) ← evalExpr fns n env e
    let (env, vs) ← evalArgs fns n env es
    pure (env, v :: vs)

def evalStmts (fns : List FnDef) : Nat → Env → List Stmt → R Env
  | 0, _, _ => .fuel
  | _ + 1, env, [] => .ok env
  | n + 1, env, .let_ x e :: rest => do
    let (env, v) ← evalExpr fns n env e
    evalStmts fns n ((x, v) :: env) rest
  | n + 1, env, .expr e :: rest => do
    let (env, _) ← evalExpr fns n env e
    evalStmts fns n env rest

/-- A block opens a scope: bindings made inside are discarded at its end,
    updates of outer variables stay. -/
def evalBlock (fns : List FnDef) : Nat → Env → Block → R (Env × Val)
  | 0, _, _ => .fuel
  | n + 1, env, .mk stmts last => do
    let depth := env.length
    let env ← evalStmts fns n env stmts
    let (env, v) ← match last with
      | some e => evalExpr fns n env e
      | none => .ok (env, .unit)
    pure (env.drop (env.length - depth), v)

def evalWhile (fns : List FnDef) : Nat → Env → Expr → Block → R (Env × Val)
  | 0, _, _, _ => .fuel
  | n + 1, env, c, b => do
    let (env, cv) ← evalExpr fns n env c
    match cv with
    | .bool false => pure (env, .unit)
    | .bool true => do
      let (env, _) ← evalBlock fns n env b
      evalWhile fns n env c b
    | _ => .stuck "while on non-bool"
end

/-- Call `main` with the given arguments. -/
def run (fns : List FnDef) (fuel : Nat) (args : List Val) : R Val :=
  match findFn fns "main" with
  | none => .stuck "no main"
  | some fd =>
    match bindParams fd.params args [] with
    | .ok cenv =>
      match evalBlock fns fuel cenv fd.body with
      | .ok (_, v) => if v.ty = fd.ret then .ok v else .stuck "result type of main"
      | .ret v => if v.ty = fd.ret then .ok v else .stuck "return type in main"
      | .trap => .trap
      | .fuel => .fuel
      | .stuck w => .stuck w
    | .stuck w => .stuck w
    | _ => .stuck "bindParams"

end ops

end RotoV.Spec
