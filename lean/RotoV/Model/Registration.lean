/-
  Registration (C18): `Rt::add` — the five registration passes of
  `src/runtime/mod.rs` over the declaration table of the type checker's scope
  graph (`src/typechecker/scope.rs`, `declare_runtime_*` in
  `src/typechecker/mod.rs`), the item constructors of `src/runtime/items.rs`
  (which run `check_name`), and the path lookup a script performs.

  Conventions
  * Every `unwrap` / index / `len() - 1` of the Rust code is an explicit
    `Res.panic site`; a `RegistrationError` is `Res.err kind`.
  * Names are abstract (`Nat`); the lexer's verdict on a name is a parameter
    (`Lex`), see `checkName` (= `check_name_internal`).
  * Scope numbering.  The Rust code numbers scopes in allocation order
    (`ScopeGraph::wrap` returns `scopes.len()`).  A scope is only ever created
    together with the declaration that owns it (a module or a type), at most
    once per `(enclosing scope, identifier)` on a successful run, so the model
    names a scope by that path (`ScopeId = List Name`, root = `[]`); this *is*
    the quotient "up to scope numbering" of the property.  The declaration
    still stores its scope (`Decl.scope`) and every navigation goes through it
    (`getScopeOf`), exactly like the Rust code.
  * `Vec<RuntimeType>` is kept as its two indexes (`types` by `TypeId`,
    `typeNames` by name); `Vec<RuntimeFunction>` indices are not modelled (a
    function is identified by its `tag`, i.e. which Rust closure it is).
  * `Cfg` switches the four defects of the pinned tree that have been repaired
    (`Cfg.pinned` = as pinned, `Cfg.fixed` = the source as it is now; the
    correspondence run ties `Cfg.fixed` to the working tree).
  * `Function::new_generic` (explicit signature strings, `vtables`) is
    `pub(crate)` and not reachable through the public item API: not modelled.
    `Type::new` rejecting non-`Val` Rust types is outside the model (`Item.type`
    carries a registrable type id).

  Core Lean only (linked into the driver).
-/

namespace RotoV.Reg

abbrev Name := Nat
abbrev TyId := Nat
/-- A scope, named by the path of the declarations that own it (root = `[]`). -/
abbrev ScopeId := List Name

/-- `ResolvedName` -/
structure RName where
  scope : ScopeId
  ident : Name
  deriving DecidableEq, Repr

/-- What `check_name_internal` can observe of the lexer run on a name. -/
inductive Tok | ident | keyword | other
  deriving DecidableEq, Repr

structure Lex where
  /-- `lexer.next()`: `none` = end of input, `some none` = `Some((Err(()), _))` -/
  first : Option (Option Tok)
  /-- a second `lexer.next()` is `Some(_)` -/
  more : Bool
  /-- the first token spans the whole name (nothing skipped around it) -/
  whole : Bool
  deriving DecidableEq, Repr

inductive Err
  | invalidName | nameTaken | typeTwice | unregistered | nestedInImpl
  | noScope | emptyPath
  deriving DecidableEq, Repr

inductive Site
  | moduleScope      -- `get_scope_of(scope, module.ident).unwrap()` (passes 2–4)
  | implScope        -- `get_scope_of(ty.name.scope, ty.name.ident).unwrap()`
  | emptyPath        -- `import.len() - 1` (pinned tree)
  | importTarget     -- `declarations.get(&x.1).unwrap()` in `resolve_name`
  | nestedUnreachable -- pass 4 descending into a module / impl inside an impl (pass 3 rejects these first)
  deriving DecidableEq, Repr

inductive Res (α : Type) where
  | ok (a : α)
  | err (e : Err)
  | panic (s : Site)
  deriving Repr

namespace Res
@[simp] def bind {α β} (r : Res α) (f : α → Res β) : Res β :=
  match r with
  | ok a => f a
  | err e => err e
  | panic s => panic s
instance : Monad Res where
  pure := ok
  bind := bind
@[simp] theorem bind_ok {α β} (a : α) (f : α → Res β) : (ok a >>= f) = f a := rfl
@[simp] theorem bind_err {α β} (e : Err) (f : α → Res β) : ((err e : Res α) >>= f) = err e := rfl
@[simp] theorem bind_panic {α β} (s : Site) (f : α → Res β) : ((panic s : Res α) >>= f) = panic s := rfl
def isOk {α} : Res α → Bool | ok _ => true | _ => false
def isErr {α} : Res α → Bool | err _ => true | _ => false
def isPanic {α} : Res α → Bool | panic _ => true | _ => false
end Res

/-- Rust types as `TypeRegistry` describes them (`TypeDescription`). `reg` is a
    `Leaf` or `Val` type: it must be found in `Rt::types`. -/
inductive RustTy
  | unit
  | reg (id : TyId)
  | option (t : RustTy)
  | list (t : RustTy)
  | verdict (a r : RustTy)
  | result (a r : RustTy)
  deriving DecidableEq, Repr

inductive RotoTy
  | unit
  | name (n : RName)
  | option (t : RotoTy)
  | list (t : RotoTy)
  | verdict (a r : RotoTy)
  | result (a r : RotoTy)
  deriving DecidableEq, Repr

mutual
/-- `runtime::items::Item` (names, type ids and the identity `tag` of the Rust
    function / constant value only). -/
inductive Item
  | module (n : Name) (ch : Items)
  | type (n : Name) (id : TyId)
  | function (n : Name) (ps : List RustTy) (r : RustTy) (tag : Nat)
  | constant (n : Name) (ty : RustTy) (tag : Nat)
  | impl (ty : TyId) (ch : Items)
  | use (paths : List (List Name))
inductive Items
  | nil
  | cons (i : Item) (is : Items)
end

inductive Kind
  | module
  | type (id : TyId)
  | prim                      -- `TypeDefinition::Primitive(_) | List(_)`, declared by `TypeChecker::new`
  | function (ps : List RotoTy) (r : RotoTy) (tag : Nat)
  | method (ps : List RotoTy) (r : RotoTy) (tag : Nat)
  | const (ty : RotoTy) (tag : Nat)
  | other                     -- anything else in the initial table (enum types, variants, …)
  deriving DecidableEq, Repr

/-- `scope::Declaration` (kind and the scope it owns). -/
structure Decl where
  kind : Kind
  scope : Option ScopeId
  deriving DecidableEq, Repr

/-- The parts of `Rt` / `TypeChecker` that registration reads and writes. -/
structure St where
  decls : RName → Option Decl
  imports : ScopeId → Name → Option RName
  types : TyId → Option RName
  typeNames : RName → Bool

structure Cfg where
  /-- `declare_import` looks every segment up from the starting scope -/
  walkFromStart : Bool
  /-- `import.len() - 1` on an empty path -/
  emptyPathPanics : Bool
  /-- `check_name_internal` ignores the span of the token -/
  ignoreSpan : Bool
  /-- `declare_runtime_type` resolves the name through all enclosing scopes
      before taking the primitive shortcut, and `declare_type` does not look
      for a registered type of the same name -/
  primRecursive : Bool
  /-- an impl block's scope is looked up by the type's *name in the scope where
      the impl block stands* (`get_scope_of(scope, ty.name.ident)`) instead of
      in the scope where the type was declared (`get_scope_of(ty.name.scope,
      ty.name.ident)`).  Never so on the pinned or the current tree; the switch
      exists so that the decision is a parameter the translator reads from the
      source (`Generated/RegPasses.lean`, seeded change C18-1). -/
  implAtSite : Bool := false
  deriving DecidableEq, Repr

def Cfg.pinned : Cfg := ⟨true, true, true, true, false⟩
def Cfg.fixed : Cfg := ⟨false, false, false, false, false⟩

/-! ## check_name -/

/-- `Rt::check_name_internal` -/
def checkName (cfg : Cfg) (l : Lex) : Bool :=
  match l.first with
  | some (some tok) =>
    if !cfg.ignoreSpan && !l.whole then false
    else if l.more then false
    else match tok with
      | .ident => true
      | _ => false
  | _ => false

/-- The specification: the name is exactly one identifier token that is not a
    keyword (the lexer's verdict on token shapes is taken as given). -/
def ValidName (l : Lex) : Prop :=
  l.first = some (some .ident) ∧ l.more = false ∧ l.whole = true

instance (l : Lex) : Decidable (ValidName l) := by unfold ValidName; infer_instance

/-! ## scope graph primitives -/

namespace St

def insertDecl (st : St) (k : RName) (d : Decl) : St :=
  { st with decls := fun k' => if k' = k then some d else st.decls k' }

def insertType (st : St) (id : TyId) (nm : RName) : St :=
  { st with types := fun i => if i = id then some nm else st.types i,
            typeNames := fun n => if n = nm then true else st.typeNames n }

def insertImport (st : St) (scope : ScopeId) (n : Name) (tgt : RName) : St :=
  { st with imports := fun s m => if s = scope ∧ m = n then some tgt else st.imports s m }

/-- `TypeChecker::get_scope_of`: non-recursive lookup, then the scope the declaration owns -/
def getScopeOf (st : St) (scope : ScopeId) (n : Name) : Option ScopeId :=
  match st.decls ⟨scope, n⟩ with
  | some d => d.scope
  | none => none

/-- `resolve_name(scope, ident, recurse = true)` from a module scope or the
    root (every runtime module scope is a child of the root:
    `wrap(ScopeRef::GLOBAL, ScopeType::Module(..))`). -/
def resolveRec (st : St) (scope : ScopeId) (n : Name) : Res (Option Decl) :=
  let at1 (s : ScopeId) : Res (Option (Option Decl)) :=
    match st.decls ⟨s, n⟩ with
    | some d => .ok (some (some d))
    | none =>
      match st.imports s n with
      | some tgt =>
        match st.decls tgt with
        | some d => .ok (some (some d))
        | none => .panic .importTarget
      | none => .ok none
  match at1 scope with
  | .ok (some r) => .ok r
  | .ok none => if scope = [] then .ok none else
      match at1 [] with
      | .ok (some r) => .ok r
      | .ok none => .ok none
      | .err e => .err e
      | .panic s => .panic s
  | .err e => .err e
  | .panic s => .panic s

end St

/-- `TypeChecker::rust_type_to_roto_type` -/
def convTy (st : St) : RustTy → Res RotoTy
  | .unit => .ok .unit
  | .reg id =>
    match st.types id with
    | some nm => .ok (.name nm)
    | none => .err .unregistered
  | .option t => do let t' ← convTy st t; pure (.option t')
  | .list t => do let t' ← convTy st t; pure (.list t')
  | .verdict a r => do let a' ← convTy st a; let r' ← convTy st r; pure (.verdict a' r')
  | .result a r => do let a' ← convTy st a; let r' ← convTy st r; pure (.result a' r')

def convTys (st : St) : List RustTy → Res (List RotoTy)
  | [] => .ok []
  | t :: ts => do let t' ← convTy st t; let ts' ← convTys st ts; pure (t' :: ts')

/-! ## leaf operations of the passes -/

section
variable (cfg : Cfg) (lex : Name → Lex)

/-- `declare_runtime_module` (the scope is wrapped, then `insert_module`) -/
def declareModule (scope : ScopeId) (n : Name) (st : St) : Res (St × ScopeId) :=
  let modScope := scope ++ [n]
  match st.decls ⟨scope, n⟩ with
  | some _ => .err .nameTaken
  | none => .ok (st.insertDecl ⟨scope, n⟩ ⟨.module, some modScope⟩, modScope)

/-- `Rt::declare_type` + `declare_runtime_type` -/
def declareType (scope : ScopeId) (n : Name) (id : TyId) (st : St) : Res St :=
  match st.types id with
  | some _ => .err .typeTwice
  | none =>
    let nm : RName := ⟨scope, n⟩
    if !cfg.primRecursive && st.typeNames nm then .err .nameTaken else
    let found : Res (Option Decl) :=
      if cfg.primRecursive then st.resolveRec scope n else .ok (st.decls nm)
    match found with
    | .panic s => .panic s
    | .err e => .err e
    | .ok other =>
      let shortcut : Bool := match other with
        | some d => decide (d.kind = .prim)
        | none => false
      if shortcut then .ok (st.insertType id nm)
      else
        match st.decls nm with
        | some _ => .err .nameTaken
        | none => .ok ((st.insertDecl nm ⟨.type id, some (scope ++ [n])⟩).insertType id nm)

/-- `Rt::declare_function` for the public `Function::new` items -/
def declareFunction (scope : ScopeId) (n : Name) (ps : List RustTy) (r : RustTy) (tag : Nat)
    (method : Bool) (st : St) : Res St :=
  if !checkName cfg (lex n) then .err .invalidName else
  match convTys st ps with
  | .panic s => .panic s
  | .err e => .err e
  | .ok ps' =>
    match convTy st r with
    | .panic s => .panic s
    | .err e => .err e
    | .ok r' =>
      match st.decls ⟨scope, n⟩ with
      | some _ => .err .nameTaken
      | none =>
        .ok (st.insertDecl ⟨scope, n⟩
          ⟨if method then .method ps' r' tag else .function ps' r' tag, none⟩)

/-- `Rt::declare_constant` -/
def declareConstant (scope : ScopeId) (n : Name) (ty : RustTy) (tag : Nat) (st : St) : Res St :=
  match convTy st ty with
  | .panic s => .panic s
  | .err e => .err e
  | .ok ty' =>
    match st.decls ⟨scope, n⟩ with
    | some _ => .err .nameTaken
    | none => .ok (st.insertDecl ⟨scope, n⟩ ⟨.const ty' tag, none⟩)

/-- the scope of the type an impl block is for -/
def implScope (ty : TyId) (st : St) : Res ScopeId :=
  match st.types ty with
  | none => .err .unregistered
  | some nm =>
    match st.getScopeOf nm.scope nm.ident with
    | none => .panic .implScope
    | some s => .ok s

/-- the scope of an impl block that stands in `site` (see `Cfg.implAtSite`) -/
def implScopeC (cfg : Cfg) (site : ScopeId) (ty : TyId) (st : St) : Res ScopeId :=
  if cfg.implAtSite then
    match st.types ty with
    | none => .err .unregistered
    | some nm =>
      match st.getScopeOf site nm.ident with
      | none => .panic .implScope
      | some s => .ok s
  else implScope ty st

@[simp] theorem implScopeC_fixed (site : ScopeId) (ty : TyId) (st : St) :
    implScopeC Cfg.fixed site ty st = implScope ty st := rfl

/-- the path walk of `declare_import` -/
def walkPath (start : ScopeId) (st : St) : ScopeId → List Name → Res ScopeId
  | cur, [] => .ok cur
  | cur, part :: rest =>
    match st.getScopeOf (if cfg.walkFromStart then start else cur) part with
    | none => .err .noScope
    | some s => walkPath start st s rest

/-- one path of `declare_import` -/
def declareImport (scope : ScopeId) (path : List Name) (st : St) : Res St :=
  match path.getLast? with
  | none => if cfg.emptyPathPanics then .panic .emptyPath else .err .emptyPath
  | some last =>
    match walkPath cfg scope st scope path.dropLast with
    | .panic s => .panic s
    | .err e => .err e
    | .ok newScope =>
      match st.imports scope last with
      | some _ => .err .nameTaken
      | none => .ok (st.insertImport scope last ⟨newScope, last⟩)

def declareImportList (scope : ScopeId) : List (List Name) → St → Res St
  | [], st => .ok st
  | p :: ps, st =>
    match declareImport cfg scope p st with
    | .ok st' => declareImportList scope ps st'
    | .err e => .err e
    | .panic s => .panic s

/-! ## the five passes -/

mutual
/-- pass 1: `declare_modules` -/
def declModules (parent : Option ScopeId) : Items → St → Res St
  | .nil, st => .ok st
  | .cons i is, st =>
    match declModulesItem parent i st with
    | .ok st' => declModules parent is st'
    | .err e => .err e
    | .panic s => .panic s
def declModulesItem (parent : Option ScopeId) : Item → St → Res St
  | .module n ch, st =>
    match declareModule (parent.getD []) n st with
    | .ok (st', modScope) => declModules (some modScope) ch st'
    | .err e => .err e
    | .panic s => .panic s
  | _, st => .ok st
end

/-- the methods of an impl block: `declare_methods` -/
def declMethods (scope : ScopeId) : Items → St → Res St
  | .nil, st => .ok st
  | .cons (.function n ps r tag) is, st =>
    match declareFunction cfg lex scope n ps r tag true st with
    | .ok st' => declMethods scope is st'
    | .err e => .err e
    | .panic s => .panic s
  | .cons (.impl _ _) _, _ => .err .nestedInImpl
  | .cons (.type _ _) _, _ => .err .nestedInImpl
  | .cons (.module _ _) _, _ => .err .nestedInImpl
  | .cons (.use _) is, st => declMethods scope is st
  | .cons (.constant _ _ _) is, st => declMethods scope is st

/-- the constants of an impl block: `declare_constants` on the children of an
    impl.  A module or impl among them would make the Rust code descend; pass 3
    has rejected such a library before (`nestedUnreachable`). -/
def declImplConstants (scope : ScopeId) : Items → St → Res St
  | .nil, st => .ok st
  | .cons (.constant n ty tag) is, st =>
    match declareConstant scope n ty tag st with
    | .ok st' => declImplConstants scope is st'
    | .err e => .err e
    | .panic s => .panic s
  | .cons (.module _ _) _, _ => .panic .nestedUnreachable
  | .cons (.impl _ _) _, _ => .panic .nestedUnreachable
  | .cons _ is, st => declImplConstants scope is st

/-- what a pass does with an item that is not a module -/
inductive Pass | types | functions | constants
  deriving DecidableEq, Repr

def passLeaf (p : Pass) (scope : ScopeId) (i : Item) (st : St) : Res St :=
  match p, i with
  | .types, .type n id => declareType cfg scope n id st
  | .functions, .function n ps r tag => declareFunction cfg lex scope n ps r tag false st
  | .functions, .impl ty ch =>
    match implScopeC cfg scope ty st with
    | .ok s => declMethods cfg lex s ch st
    | .err e => .err e
    | .panic s => .panic s
  | .constants, .constant n ty tag => declareConstant scope n ty tag st
  | .constants, .impl ty ch =>
    match implScopeC cfg scope ty st with
    | .ok s => declImplConstants s ch st
    | .err e => .err e
    | .panic s => .panic s
  | _, _ => .ok st

mutual
/-- passes 2–4: `declare_types`, `declare_functions`, `declare_constants` all
    have this shape: descend into a module through
    `get_scope_of(scope, module.ident).unwrap()`, handle the other items. -/
def walk (p : Pass) (scope : ScopeId) : Items → St → Res St
  | .nil, st => .ok st
  | .cons i is, st =>
    match walkItem p scope i st with
    | .ok st' => walk p scope is st'
    | .err e => .err e
    | .panic s => .panic s
def walkItem (p : Pass) (scope : ScopeId) : Item → St → Res St
  | .module n ch, st =>
    match st.getScopeOf scope n with
    | none => .panic .moduleScope
    | some s => walk p s ch st
  | .type n id, st => passLeaf cfg lex p scope (.type n id) st
  | .function n ps r tag, st => passLeaf cfg lex p scope (.function n ps r tag) st
  | .constant n ty tag, st => passLeaf cfg lex p scope (.constant n ty tag) st
  | .impl ty ch, st => passLeaf cfg lex p scope (.impl ty ch) st
  | .use ps, st => passLeaf cfg lex p scope (.use ps) st
end

mutual
/-- pass 5: `declare_imports` — a module's children are processed with the
    *same* scope (as written). -/
def declImports (scope : ScopeId) : Items → St → Res St
  | .nil, st => .ok st
  | .cons i is, st =>
    match declImportsItem scope i st with
    | .ok st' => declImports scope is st'
    | .err e => .err e
    | .panic s => .panic s
def declImportsItem (scope : ScopeId) : Item → St → Res St
  | .use paths, st => declareImportList cfg scope paths st
  | .module _ ch, st => declImports scope ch st
  | _, st => .ok st
end

/-- `Rt::add` -/
def add (st : St) (items : Items) : Res St :=
  match declModules none items st with
  | .ok st1 =>
    match walk cfg lex .types [] items st1 with
    | .ok st2 =>
      match walk cfg lex .functions [] items st2 with
      | .ok st3 =>
        match walk cfg lex .constants [] items st3 with
        | .ok st4 => declImports cfg [] items st4
        | .err e => .err e
        | .panic s => .panic s
      | .err e => .err e
      | .panic s => .panic s
    | .err e => .err e
    | .panic s => .panic s
  | .err e => .err e
  | .panic s => .panic s

mutual
/-- The item constructors (`Module::new`, `Type::new`, `Function::new`,
    `Constant::new`) run `check_name`; a library with a bad name is never built. -/
def namesOk : Items → Bool
  | .nil => true
  | .cons i is => nameOkItem i && namesOk is
def nameOkItem : Item → Bool
  | .module n ch => checkName cfg (lex n) && namesOk ch
  | .type n _ => checkName cfg (lex n)
  | .function n _ _ _ => checkName cfg (lex n)
  | .constant n _ _ => checkName cfg (lex n)
  | .impl _ ch => namesOk ch
  | .use _ => true
end

/-- building the library through the public constructors, then `Runtime::add` -/
def register (st : St) (items : Items) : Res St :=
  if namesOk cfg lex items then add cfg lex st items else .err .invalidName

end

/-! ## what a script sees -/

/-- `resolve_module_part_of_path` from a script's top level: the first segment
    is looked up recursively (the script's own scope adds nothing for a fresh
    script, its parent is the root: root declarations, then root imports), every
    further segment non-recursively in the scope the previous declaration owns. -/
def resolveFirst (st : St) (n : Name) : Option Decl :=
  match st.decls ⟨[], n⟩ with
  | some d => some d
  | none =>
    match st.imports [] n with
    | some tgt => st.decls tgt
    | none => none

def resolveRest (st : St) : Decl → List Name → Option Decl
  | d, [] => some d
  | d, n :: rest =>
    match d.scope with
    | none => none
    | some s =>
      match st.decls ⟨s, n⟩ with
      | some d' => resolveRest st d' rest
      | none => none

def resolvePath (st : St) : List Name → Option Decl
  | [] => none
  | n :: rest =>
    match resolveFirst st n with
    | some d => resolveRest st d rest
    | none => none

/-- the initial table: primitives (`prims`: name and type id, declared at the
    root with a scope of their own and registered as types by the built-in
    library) and other root names that are taken (`others`). -/
def St.init (prims : List (Name × TyId)) (others : List Name) : St :=
  { decls := fun k =>
      if k.scope = [] then
        match prims.find? (fun p => p.1 = k.ident) with
        | some _ => some ⟨.prim, some [k.ident]⟩
        | none => if others.contains k.ident then some ⟨.other, none⟩ else none
      else none,
    imports := fun _ _ => none,
    types := fun id =>
      match prims.find? (fun p => p.2 = id) with
      | some p => some ⟨[], p.1⟩
      | none => none,
    typeNames := fun nm => nm.scope = [] && (prims.find? (fun p => p.1 = nm.ident)).isSome }

end RotoV.Reg
