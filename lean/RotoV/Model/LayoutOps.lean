/-
  Model/LayoutOps — C02: the memory operations of the clone / drop / eq
  functions the LIR lowerer generates per type (`generate_clone_body*`,
  `generate_drop_body*`, `generate_eq_body*`, `call_clone_function`,
  `call_drop_of`, `call_eq_by_ptr`, `call_eq_of`), as written, on top of the
  offset loops of `Model/Layout`.  Compared op by op with the real lowerer's
  output on every run (hook `verif_hooks::c02`).

  Core Lean only (linked into the driver).
-/
import RotoV.Model.Layout

namespace RotoV.Layout
open RotoV
open RotoV.Gen.LayoutGen

/-- parameters of a generated function -/
inductive Base where
  | val | ret | left | right
  deriving DecidableEq, Repr, Inhabited

/-- one memory operation (or comparison) of a generated function; pointers
    are `base + byte offset` -/
inductive Op where
  | read (b : Base) (off size : Nat)
  /-- write of a previously read temporary -/
  | write (b : Base) (off : Nat)
  /-- `memcpy(ret+off, val+off, size)` -/
  | copy (off size : Nat)
  /-- runtime clone function `ret+off ← val+off` -/
  | clone (off : Nat)
  /-- `::generated::clone_T(val+off) → ret+off` -/
  | callClone (off : Nat) (t : Ty)
  /-- runtime drop function on `val+off` -/
  | drop (off : Nat)
  | callDrop (off : Nat) (t : Ty)
  /-- runtime eq function on `left+off`, `right+off` -/
  | eq (off : Nat)
  | callEq (off : Nat) (t : Ty)
  | icmp
  | fcmp
  | ret (b : Bool)

/-- `get_runtime_clone` / `get_runtime_drop` is `Some`: String, List, and
    registered `Clone` types -/
def hasRuntimeClone : Ty → Bool
  | .leaf k _ _ => k == .string || k == .list || k == .rtClone
  | _ => false

/-- `get_runtime_eq` is `Some` -/
def hasRuntimeEq : Ty → Bool
  | .leaf k _ _ => k != .int && k != .float
  | _ => false

/-- `IrType` as far as the generated functions care: a scalar of `n` bytes
    compared by `IntCmp` / `FloatCmp`, or `Pointer` -/
inductive IrT where
  | int (bytes : Nat)
  | float (bytes : Nat)
  | pointer
  deriving DecidableEq, Repr, Inhabited

/-- `self.layout_of(ty).is_some_and(|l| l.size() == 0)` -/
def sizeZero (t : Ty) : Bool :=
  match layoutOf t with
  | some l => l.get_size == 0
  | none => false

/-- bytes of a scalar leaf (its `IrType` has the size of the primitive) -/
def scalarBytes : Ty → Nat
  | .leaf _ s _ => s
  | _ => 0

/-- `Lowerer::lower_type` (lower.rs): the GENERATED function
    (`RotoV.Gen.LayoutDecide.lower_type`, re-translated from the source on
    every run) applied to this type's kind, its `layout_of` and its
    `is_reference_type`; the class of the scalar `IrType` is completed with
    the primitive's size. `panic` = the final `ice!`. -/
def lowerType (t : Ty) : Res (Option IrT) :=
  match Gen.LayoutDecide.lower_type t.kind (layoutOf t) (isReferenceType t) with
  | .panic => .panic
  | .ok none => .ok none
  | .ok (some .int) => .ok (some (.int (scalarBytes t)))
  | .ok (some .float) => .ok (some (.float (scalarBytes t)))
  | .ok (some .pointer) => .ok (some .pointer)

/-- the type has no IR value (`lower_type` returns `None` at its first
    statement): zero-sized and not a registered type -/
def noIrValue (t : Ty) : Bool := t.kind != .runtime && sizeZero t

/-- `call_clone_function(from = val+off, to = ret+off, ty)`; a 0-byte
    `memcpy` is not emitted -/
def fieldCloneOps (off : Nat) (t : Ty) : Res (List Op) :=
  if !needsClone t then
    match layoutOf t with
    | none => .panic
    | some l => if l.get_size > 0 then .ok [.copy off l.get_size] else .ok []
  else if hasRuntimeClone t then .ok [.clone off]
  else .ok [.callClone off t]

def mapVisits (f : Nat → Ty → Res (List Op)) : List Visit → Res (List Op)
  | [] => .ok []
  | (_, off, t) :: r =>
    match f off t with
    | .panic => .panic
    | .ok a =>
      match mapVisits f r with
      | .panic => .panic
      | .ok b => .ok (a ++ b)

def cloneVisitOps (vs : List Visit) : Res (List Op) := mapVisits fieldCloneOps vs

def cloneVariantsOps : Vars → Res (List Op)
  | .nil => .ok []
  | .cons v vs =>
    match cloneVisitOps (cloneVariantVisits v) with
    | .panic => .panic
    | .ok a =>
      match cloneVariantsOps vs with
      | .panic => .panic
      | .ok b => .ok (a ++ b)

/-- `generate_clone_body` -/
def cloneOps (t : Ty) : Res (List Op) :=
  if hasRuntimeClone t then .ok [.clone 0]
  else match t with
    | .unit | .never => .ok []
    | .record fs => cloneVisitOps (cloneRecordVisits fs)
    | .enum vs =>
      match cloneVariantsOps vs with
      | .panic => .panic
      | .ok r => .ok (.read .val 0 1 :: .write .ret 0 :: r)
    | .leaf .rtCopy s _ => .ok [.copy 0 s]
    | .leaf _ _ _ => .ok []

/-- `call_drop_of(val+off, ty)` -/
def fieldDropOps (off : Nat) (t : Ty) : Res (List Op) :=
  if !needsDrop t then .ok []
  else if hasRuntimeClone t then .ok [.drop off]
  else .ok [.callDrop off t]

def dropVariantsOps : Vars → Res (List Op)
  | .nil => .ok []
  | .cons v vs =>
    match mapVisits fieldDropOps (dropVariantVisits v) with
    | .panic => .panic
    | .ok a =>
      match dropVariantsOps vs with
      | .panic => .panic
      | .ok b => .ok (a ++ b)

/-- `generate_drop_body` -/
def dropOps (t : Ty) : Res (List Op) :=
  if hasRuntimeClone t then .ok [.drop 0]
  else match t with
    | .record fs => mapVisits fieldDropOps (dropRecordVisits fs)
    | .enum vs =>
      match dropVariantsOps vs with
      | .panic => .panic
      | .ok r => .ok (.read .val 0 1 :: r)
    | _ => .ok []

/-- `call_eq_of(false, l, r, ty)` on already loaded scalars / pointers.
    `fixed` = the tree carries the repair of `call_eq_by_ptr`. -/
def eqOfOps (off : Nat) (t : Ty) (byPtr : Bool) : Res (List Op) :=
  match lowerType t with
  | .panic => .panic
  | .ok none => .ok []
  | .ok (some (.int _)) => .ok [.icmp]
  | .ok (some (.float _)) => .ok [.fcmp]
  | .ok (some .pointer) =>
    if !byPtr then .panic
    else if hasRuntimeEq t then .ok [.eq off]
    else .ok [.callEq off t]

/-- `call_eq_by_ptr(left+off, right+off, ty)`; `fixed = false` is the code
    before the repair (`lower_type(ty).unwrap()`). -/
def fieldEqOps (fixed : Bool) (off : Nat) (t : Ty) : Res (List Op) :=
  match isReferenceType t with
  | none => .ok []
  | some true => eqOfOps off t true
  | some false =>
    match lowerType t with
    | .panic => .panic
    | .ok none => if fixed then .ok [] else .panic
    | .ok (some .pointer) => .panic
    | .ok (some (.int s)) => .ok [.read .left off s, .read .right off s, .icmp]
    | .ok (some (.float s)) => .ok [.read .left off s, .read .right off s, .fcmp]

def eqVariantsOps (fixed : Bool) : Vars → Res (List Op)
  | .nil => .ok []
  | .cons v vs =>
    match collectLayouts v with
    | none =>
      match eqVariantsOps fixed vs with
      | .panic => .panic
      | .ok b => .ok (.ret true :: b)
    | some _ =>
      match mapVisits (fieldEqOps fixed) (eqVariantVisits v) with
      | .panic => .panic
      | .ok a =>
        match eqVariantsOps fixed vs with
        | .panic => .panic
        | .ok b => .ok (a ++ .ret true :: b)

/-- `generate_eq_body` -/
def eqOps (fixed : Bool) (t : Ty) : Res (List Op) :=
  match t with
  | .unit | .never => .ok [.ret true]
  | .record fs =>
    match mapVisits (fieldEqOps fixed) (eqRecordVisits fs) with
    | .panic => .panic
    | .ok a => .ok (a ++ [.ret true, .ret false])
  | .enum vs =>
    match eqVariantsOps fixed vs with
    | .panic => .panic
    | .ok a => .ok (.read .left 0 1 :: .read .right 0 1 :: .icmp :: a ++ [.ret false])
  | .leaf .int s _ => .ok [.read .left 0 s, .read .right 0 s, .icmp]
  | .leaf .float s _ => .ok [.read .left 0 s, .read .right 0 s, .fcmp]
  | .leaf _ _ _ => .ok [.eq 0]

end RotoV.Layout
