/-
  Model for C12, growth round: the step semantics of LIR items on ONE global
  store, at the granularity the verified checker `Lir.check` reasons about.

  * The global store maps addresses to cells. An address is either the private
    machine state of a call (`priv i`: its stack of frames — item index,
    program counter, registers — its allocation counter, its result, its
    host-value counter), a memory cell of a region that call `i` can name as
    its own (`loc i r off` with `r` a stack slot, the memory behind the host's
    return pointer or behind a by-reference argument of the host), or a memory
    cell of a region every call names the same way (`shared r off`: constants,
    the context, code, literal pointers, integers used as addresses).
  * A pointer value is `Val.ptr region offset`; call `i` resolves it with
    `resolve i`. THE TRUSTED LINK TO MACHINE CODE IS HERE: a stack slot / host
    buffer region named by call `i` is memory of call `i` (Cranelift stack
    slots live in the frame of the running thread; the host passes buffers of
    its own frame), so `resolve i (.slot v)` is `loc i …` for every `i`.
    Nothing else prevents a step from writing anywhere: a write through a
    pointer into a constant goes to `shared (.const n) off`.
  * One machine step of call `i` (`mstep`) = fetch the instruction at the
    program counter of the running frame, compute its `Effect` from the
    private state and the memory the call can address (`decideStep`), apply
    it. Loads, stores, block copies, pointer arithmetic, frame push / pop with
    FRESH stack slots per activation are defined concretely. Three things are
    parameters (`Sem`), so that every theorem holds for all of them:
      - `alu`:  results of arithmetic / comparison instructions and the
                successor of `Jump` / `Switch` — any function of the running
                frame's registers;
      - `rt`:   behaviour of Rust code called from generated code (runtime
                functions, `clone_fn`, `drop` glue, `eq_fn`, the string
                initialiser, literal-bytes initialisation): any function of the
                operand values and of the memory the call can address, returning
                a result, a list of memory writes and a host-value delta.
    `RtConfined` is the stated assumption about such code: it writes only
    through the pointers it is handed for writing.

  Core Lean only; everything here is a total computable function.
-/
import RotoV.Model.Conc

namespace RotoV.Conc.Exec
open RotoV.Conc RotoV.Conc.Lir

/-! ## private state of a call -/

structure Frame where
  fn : Nat          -- index of the item in the program
  pc : Nat
  env : Env

structure CallState where
  stack : List Frame          -- head = running frame; `[]` = the call has returned
  next : Nat                  -- next fresh stack-slot id
  result : Option Val         -- what the outermost frame returned
  acct : Int                  -- host values created minus host values released by this call

/-- what call `i` can read: memory by (region, offset), already resolved for `i` -/
abbrev View := Region → Nat → Val

/-- a memory write, relative to the call that performs it -/
abbrev MemWrite := Region × Nat × Val

structure RtOut where
  res : Val
  writes : List MemWrite
  delta : Int

/-- the parameters of the semantics (see the header) -/
structure Sem where
  alu : Nat → Nat → Env → Val
  next : Nat → Nat → Env → Nat
  /-- `rt fn pc handed readonly view`: `(fn, pc)` is the call site (the function
  pointer is an immediate of the instruction) -/
  rt : Nat → Nat → List Val → List Val → View → RtOut

/-- **The assumption about Rust code called from generated code**: it writes only
through pointers it is handed for writing (out-pointer and argument slots of a
runtime function, `to` of `Clone` / `InitString` / `Initialize`, the operand of
a drop-in-place; nothing for `eq_fn(&T, &T)`). What it READS is restricted by
construction: it is given the operand values and the caller's view. -/
def RtConfined (sem : Sem) : Prop :=
  ∀ fn pc handed ro view, ∀ w ∈ (sem.rt fn pc handed ro view).writes,
    w.1 ∈ handed.flatMap atarget

/-! ## one step, as a pure function of private state and view -/

structure Effect where
  state : CallState
  writes : List MemWrite

def loadV (view : View) : Val → Val
  | .ptr r off => view r off
  | .scalar n => view .wild n.toNat
  | .undef => .undef

/-- a store of one value through an address value -/
def storeW (addr : Val) (x : Val) : List MemWrite :=
  match addr with
  | .ptr r off => [(r, off, x)]
  | .scalar n => [(.wild, n.toNat, x)]
  | .undef => []

/-- a block copy of `n` cells (source read from the state before the copy) -/
def copyW (view : View) (dst src : Val) : Nat → List MemWrite
  | 0 => []
  | n + 1 => copyW view dst src n ++ storeW (offsetVal dst n) (loadV view (offsetVal src n))

/-- argument passing: a value received in a parameter that is not pointer-typed
is not an address -/
def paramVal : List (Var × Bool) → List Val → Var → Val
  | (p, isPtr) :: ps, a :: as, v => if p = v then coerce isPtr a else paramVal ps as v
  | _, _, _ => .undef

/-- registers of a fresh activation of `callee`: its stack slots are FRESH
regions `base, base+1, …`; return pointer, context and arguments are the values
the caller (or the host) passes -/
def entryEnv (callee : Item) (base : Nat) (retv ctxv : Val) (argv : List Val) : Env := fun v =>
  if v ∈ callee.slots then .ptr (.slot (base + callee.slots.idxOf v)) 0
  else if callee.ret = some v then retv
  else if callee.ctx = some v then ctxv
  else paramVal callee.params argv v

def optVal (env : Env) : Option Operand → Val
  | none => .undef
  | some o => evalOp env o

def optVarVal (env : Env) : Option Var → Val
  | none => .undef
  | some v => env v

/-- operands handed to Rust code for writing / read-only -/
def rtOperands (env : Env) : Instr → List Val × List Val
  | .initString to => ([env to], [])
  | .initBytes to => ([env to], [])
  | .callRt args => (args.map (evalOp env), [])
  | .clone to src => ([evalOp env to], [evalOp env src])
  | .drop v true => ([evalOp env v], [])
  | .eq _ l r => ([], [evalOp env l, evalOp env r])
  | _ => ([], [])

def isRtInstr : Instr → Bool
  | .initString _ | .initBytes _ | .callRt _ | .clone .. | .drop _ true | .eq .. => true
  | _ => false

/-- the running frame executes `ins`; `rest` are the frames below it -/
def stepInstr (prog : List Item) (sem : Sem) (view : View) (s : CallState)
    (fr : Frame) (rest : List Frame) (ins : Instr) : Effect :=
  let adv (env : Env) : Frame := { fr with pc := fr.pc + 1, env := env }
  match ins with
  | .nop => ⟨{ s with stack := { fr with pc := sem.next fr.fn fr.pc fr.env } :: rest }, []⟩
  | .write to val =>
      ⟨{ s with stack := adv fr.env :: rest }, storeW (evalOp fr.env to) (evalOp fr.env val)⟩
  | .copy to src n =>
      ⟨{ s with stack := adv fr.env :: rest }, copyW view (evalOp fr.env to) (evalOp fr.env src) n⟩
  | .read _ _ src =>
      ⟨{ s with stack := adv (step fr.env (loadV view (evalOp fr.env src)) ins).1 :: rest }, []⟩
  | .arith _ _ =>
      ⟨{ s with stack := adv (step fr.env (sem.alu fr.fn fr.pc fr.env) ins).1 :: rest }, []⟩
  | .call f _ _ ctx retPtr args =>
      match prog[f]? with
      | none => ⟨{ s with stack := [] }, []⟩      -- unknown callee: the call is over (no result)
      | some callee =>
        let env' := entryEnv callee s.next (optVarVal fr.env retPtr) (optVal fr.env ctx)
          (args.map (evalOp fr.env))
        ⟨{ s with stack := { fn := f, pc := 0, env := env' } :: fr :: rest,
                  next := s.next + callee.slots.length }, []⟩
  | .ret v =>
      let x := optVal fr.env v
      match rest with
      | [] => ⟨{ s with stack := [], result := some x }, []⟩
      | caller :: below =>
        let cins := ((prog[caller.fn]?).bind (fun it => it.instrs[caller.pc]?)).getD .nop
        let env' := match cins with
          | .call .. => (step caller.env x cins).1
          | _ => caller.env
        ⟨{ s with stack := { caller with pc := caller.pc + 1, env := env' } :: below }, []⟩
  | _ =>
      if isRtInstr ins then
        let ops := rtOperands fr.env ins
        let out := sem.rt fr.fn fr.pc ops.1 ops.2 view
        ⟨{ s with stack := adv (step fr.env out.res ins).1 :: rest, acct := s.acct + out.delta },
         out.writes⟩
      else
        -- assign, constAddr, funcAddr, offset, drop without glue: registers only
        ⟨{ s with stack := adv (step fr.env .undef ins).1 :: rest }, []⟩

/-- one step of a call, as a function of its private state and its view. A call
whose stack is empty has returned; a program counter outside the item ends the
call without a result (cannot happen in well-formed LIR, every block ends in a
jump or a return). -/
def decideStep (prog : List Item) (sem : Sem) (view : View) (s : CallState) : Effect :=
  match s.stack with
  | [] => ⟨s, []⟩
  | fr :: rest =>
    match (prog[fr.fn]?).bind (fun it => it.instrs[fr.pc]?) with
    | none => ⟨{ s with stack := [] }, []⟩
    | some ins => stepInstr prog sem view s fr rest ins

/-! ## the global store -/

inductive Addr (ι : Type)
  | priv (i : ι)
  | loc (i : ι) (r : Region) (off : Nat)
  | shared (r : Region) (off : Nat)
  deriving DecidableEq

inductive Cell
  | priv (s : CallState)
  | val (v : Val)

abbrev Store (ι : Type) := Addr ι → Cell

/-- which call owns an address (`none` = shared by all) -/
def owner {ι : Type} : Addr ι → Option ι
  | .priv i => some i
  | .loc i _ _ => some i
  | .shared _ _ => none

/-- THE TRUSTED LINK (see the header): how call `i` resolves a pointer -/
def resolve {ι : Type} (i : ι) (r : Region) (off : Nat) : Addr ι :=
  if r.isLocal then .loc i r off else .shared r off

def cellVal : Cell → Val
  | .val v => v
  | .priv _ => .undef

def viewOf {ι : Type} (i : ι) (m : Store ι) : View := fun r off => cellVal (m (resolve i r off))

section
variable {ι : Type} [DecidableEq ι]

def applyWrites (i : ι) (m : Store ι) : List MemWrite → Store ι
  | [] => m
  | (r, off, x) :: ws => applyWrites i (fun a => if a = resolve i r off then .val x else m a) ws

def applyEffect (i : ι) (m : Store ι) (e : Effect) : Store ι :=
  fun a => if a = .priv i then .priv e.state else applyWrites i m e.writes a

/-- **one atomic step of call `i` on the global store** -/
def mstep (prog : List Item) (sem : Sem) (i : ι) : Step (Addr ι) Cell := fun m =>
  match m (.priv i) with
  | .priv s => applyEffect i m (decideStep prog sem (viewOf i m) s)
  | .val _ => m

end

/-! ## the program-level check run by the driver -/

/-- an argument that lands in a pointer-typed parameter must be a call-local
address in the caller (then the callee's certificate holds at entry) -/
def okArgs (cert : Var → Cls) : List (Var × Bool) → List Operand → Bool
  | (_, isPtr) :: ps, a :: as => (!isPtr || clsOp cert a == .loc) && okArgs cert ps as
  | _, _ => true

def okCallSite (prog : List Item) (cert : Var → Cls) : Instr → Bool
  | .call f _ _ _ _ args =>
      match prog[f]? with
      | none => false
      | some callee => okArgs cert callee.params args
  | _ => true

/-- every item is accepted by the verified checker and every call site passes
arguments its callee's certificate was inferred for -/
def acceptProg (prog : List Item) : Bool :=
  prog.all (fun it => accept it && it.instrs.all (okCallSite prog (infer it)))

/-- the state in which the host starts call: item `f`, by-reference arguments in
host buffers `.param v`, scalar arguments arbitrary, fresh slots from 0 -/
def hostArgs (args : Var → Int) : List (Var × Bool) → List Val
  | [] => []
  | (v, true) :: ps => .ptr (.param v) 0 :: hostArgs args ps
  | (v, false) :: ps => .scalar (args v) :: hostArgs args ps

def initState (prog : List Item) (f : Nat) (args : Var → Int) : CallState :=
  match prog[f]? with
  | none => { stack := [], next := 0, result := none, acct := 0 }
  | some it =>
    { stack := [{ fn := f, pc := 0,
                  env := entryEnv it 0 (.ptr .ret 0) (.ptr .ctx 0) (hostArgs args it.params) }],
      next := it.slots.length, result := none, acct := 0 }

end RotoV.Conc.Exec
