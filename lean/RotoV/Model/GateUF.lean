/-
  C04 — the one piece of package state a retrieval writes to.

  `Module::get_function` hands `&mut self.type_info` to the checkers, and the
  only thing they do with the `mut` is `TypeInfo::resolve`, i.e.
  `UnionFind::find` (src/typechecker/unionfind.rs): a lookup that *compresses
  the path it walked* (`self.inner[index] = new_t.clone()`). The signature of a
  filtermap reaches the gate with its accept/reject payloads still
  `Type::Var(n)`, so every retrieval of a filtermap runs `find` and rewrites
  slots of the table. `Model/Gate` abstracts this to `resolve = id`; here the
  table itself is modelled and the abstraction is justified
  (`Props/C04UF`): what every variable resolves to is the same before and after
  any number of lookups.

  * `Slot α` — an entry of `UnionFind::inner` as far as `find` looks at it: a
    type-variable-like `Type` (`Var(i)`, `IntVar(i, _)`, `FloatVar(i)`,
    `RecordVar(i, _)`, `ExplicitVar(_)`: kind and index) or any other `Type`
    (payload `α`; `find` never looks inside).
  * `find follows fuel inner index` — `UnionFind::find`, statement by
    statement; `follows` says which kinds the `match` arm lists (generated:
    `Gen.GateUF.findFollows`). `none` is a panic of the real code: index out
    of bounds, or a recursion deeper than the table is long (a cycle: stack
    overflow).
  * `findRef` — `UnionFind::find_ref` (no write).
  * `Resolves follows inner i t` — the specification: following the chain of
    followed variables from slot `i` ends at `t`.
-/
namespace RotoV.GateUF

/-- the variable-like constructors of `typechecker::types::Type` -/
inductive VarKind
  | var | intVar | floatVar | recordVar | explicitVar
  deriving DecidableEq, Repr

/-- the constructor's name, as code points (what the translator lists) -/
def VarKind.name : VarKind → List Nat
  | .var => [86, 97, 114]
  | .intVar => [73, 110, 116, 86, 97, 114]
  | .floatVar => [70, 108, 111, 97, 116, 86, 97, 114]
  | .recordVar => [82, 101, 99, 111, 114, 100, 86, 97, 114]
  | .explicitVar => [69, 120, 112, 108, 105, 99, 105, 116, 86, 97, 114]

/-- an entry of `UnionFind::inner` -/
inductive Slot (α : Type)
  /-- `Type::Var(i)` / `IntVar(i, _)` / `FloatVar(i)` / `RecordVar(i, _)` -/
  | var (k : VarKind) (i : Nat)
  /-- any other `Type` -/
  | ty (t : α)
  deriving DecidableEq, Repr

/-- the guard of `find`'s first arm at slot `index`: one of the listed
    patterns `Type::K(i)` matches and `*i != index`; the index to go on with -/
def Slot.next {α} (follows : VarKind → Bool) (index : Nat) : Slot α → Option Nat
  | .var k i => if follows k && i != index then some i else none
  | .ty _ => none

/-- `UnionFind::find(&mut self, index)`: the type found and the table afterwards -/
def find {α} (follows : VarKind → Bool) : Nat → List (Slot α) → Nat → Option (Slot α × List (Slot α))
  | 0, _, _ => none
  | fuel + 1, inner, index =>
    match inner[index]? with
    | none => none
    | some s =>
      match s.next follows index with
      | some i =>
        match find follows fuel inner i with
        | none => none
        | some (newT, inner') => some (newT, inner'.set index newT)
      | none => some (s, inner)

/-- `UnionFind::find_ref(&self, index)` -/
def findRef {α} (follows : VarKind → Bool) : Nat → List (Slot α) → Nat → Option (Slot α)
  | 0, _, _ => none
  | fuel + 1, inner, index =>
    match inner[index]? with
    | none => none
    | some s =>
      match s.next follows index with
      | some i => findRef follows fuel inner i
      | none => some s

/-- Specification: the chain of followed variables from slot `i` ends at `t`. -/
inductive Resolves {α} (follows : VarKind → Bool) (inner : List (Slot α)) : Nat → Slot α → Prop
  | stop {i t} : inner[i]? = some t → t.next follows i = none → Resolves follows inner i t
  | step {i s j t} : inner[i]? = some s → s.next follows i = some j → Resolves follows inner j t →
      Resolves follows inner i t

/-- `TypeInfo::resolve(&mut self, t)`: a type of one of the listed kinds is
    looked up (`resolveFollows`, generated), anything else is returned as it is -/
def resolve {α} (resolveFollows findFollows : VarKind → Bool) (fuel : Nat) (inner : List (Slot α)) :
    Slot α → Option (Slot α × List (Slot α))
  | .var k x => if resolveFollows k then find findFollows fuel inner x else some (.var k x, inner)
  | .ty t => some (.ty t, inner)

/-- what `resolve` is specified to return: the end of the chain -/
inductive ResolvesTy {α} (resolveFollows findFollows : VarKind → Bool) (inner : List (Slot α)) : Slot α → Slot α → Prop
  | look {k x t} : resolveFollows k = true → Resolves findFollows inner x t →
      ResolvesTy resolveFollows findFollows inner (.var k x) t
  | keepVar {k x} : resolveFollows k = false → ResolvesTy resolveFollows findFollows inner (.var k x) (.var k x)
  | keepTy {t} : ResolvesTy resolveFollows findFollows inner (.ty t) (.ty t)

/-- a history of `resolve` calls on one table (what the requests of a package's
    lifetime do to `type_info`): the answers, in order, and the table left -/
def resolveAll {α} (rf ff : VarKind → Bool) (fuel : Nat) : List (Slot α) → List (Slot α) → Option (List (Slot α) × List (Slot α))
  | inner, [] => some ([], inner)
  | inner, q :: qs =>
    match resolve rf ff fuel inner q with
    | none => none
    | some (a, inner') =>
      match resolveAll rf ff fuel inner' qs with
      | none => none
      | some (as, inner'') => some (a :: as, inner'')

/-- does the kind's constructor name occur in a generated list of names? -/
def followsOf (names : List (List Nat)) (k : VarKind) : Bool := names.contains k.name

end RotoV.GateUF
