/-
  ListBind: a script call `l.<name>(a…)` as the operation of the list model it
  performs, according to the binding's body as it reads in
  src/runtime/basic.rs NOW (`Gen.ListBind.bindings`, regenerated on every run).

  `Binding.toOp` interprets a row of the table: the actual arguments of the
  script call (handle variables for lists, `u64` values for indices, element
  values) are routed to the called function's positions through the row's casts;
  `Binding.convOut` converts the result. `scriptMeaning` is the specification:
  the operation the property's text means by the script-side name.

  Core Lean only.
-/
import RotoV.Model.ListM
import RotoV.Model.ListBindBase
import RotoV.Generated.ListBind

namespace RotoV.ListM
open RotoV

/-- the operation a called list function is, given the destination variable of
    the script call (`x = List.new()`, `x = a + b`, `x = l.get(i)`) and the
    values at the call's argument positions (receiver first) -/
def opOf : Callee → Nat → List Nat → Option Op
  | .new, d, [_vtable] => some (.new d)
  | .push, _, [h, v] => some (.push h v)
  | .containsOwned, _, [h, v] => some (.contains h v)
  | .indexOwned, _, [h, v] => some (.index h v)
  | .concat, d, [a, b] => some (.concat d a b)
  | .listGet, _, [_out, h, i] => some (.get h i)
  | .swap, _, [h, i, j] => some (.swap h i j)
  | .len, _, [h] => some (.len h)
  | .capacity, _, [h] => some (.capacity h)
  | .isEmpty, _, [h] => some (.isEmpty h)
  | _, _, _ => none

/-- the values the binding passes: parameter `k` of the script call through the cast -/
def Binding.passed (b : Binding) (actuals : List Nat) : List Nat :=
  b.args.map (fun a => castArg a.2 (actuals.getD a.1 0))

/-- the operation the binding performs for a script call with these actual
    parameters (in the order of the binding's parameter list) -/
def Binding.toOp (b : Binding) (d : Nat) (actuals : List Nat) : Option Op :=
  opOf b.callee d (b.passed actuals)

/-- the result as the script sees it -/
def Binding.convOut (b : Binding) : Out → Out
  | .nat n => match b.ret with
    | .cast t => .nat (castTo t n)
    | _ => .nat n
  | .opt o => match b.ret with
    | .mapCast t => .opt (o.map (castTo t))
    | _ => .opt o
  | o => o

/-- SPECIFICATION: the list function behind each script-side name and the
    positions of the script call's parameters it receives, in order -/
def canon : BName → Callee × List Nat
  | .new => (.new, [0])
  | .push => (.push, [0, 1])
  | .contains => (.containsOwned, [0, 1])
  | .index => (.indexOwned, [0, 1])
  | .concat => (.concat, [0, 1])
  | .get => (.listGet, [0, 1, 2])
  | .swap => (.swap, [0, 1, 2])
  | .len => (.len, [0])
  | .capacity => (.capacity, [0])
  | .isEmpty => (.isEmpty, [0])
  | .other => (.other, [])

/-- SPECIFICATION: what a script call means — `List.new()` (parameter: the
    vtable) makes a new list in the destination, `l.push(v)` pushes `v` onto `l`,
    `l.get(i)` (parameters: out pointer, list, index) reads index `i` of `l`,
    `l.swap(i, j)` swaps `i` and `j` of `l` in that order, … -/
def scriptMeaning (nm : BName) (d : Nat) (actuals : List Nat) : Option Op :=
  opOf (canon nm).1 d ((canon nm).2.map (fun k => actuals.getD k 0))

/-- a result conversion that cannot change a length, capacity or index -/
def RetConv.keeps : RetConv → Bool
  | .asIs => true
  | .cast t => t.keepsIndices
  | .mapCast t => t.keepsIndices

/-- the result conversions a name admits: a length, capacity or index may go
    through a cast that keeps it; every other result (unit, bool, an element, a
    list) is handed back as it is -/
def retFits : BName → RetConv → Bool
  | .len, r | .capacity, r | .index, r => r.keeps
  | _, r => r == .asIs

def castOk : Option CastTy → Bool
  | none => true
  | some t => t.keepsIndices

/-- the CHECKER run over the regenerated table: the binding calls the function
    the specification names, passes exactly its own parameters in the
    specification's order, casts only to `u64` / `usize`, on the way in and on
    the way out -/
def Binding.ok (b : Binding) : Bool :=
  b.name == .other ||
    (b.callee == (canon b.name).1 && b.args.map (·.1) == (canon b.name).2 &&
      b.args.all (fun a => castOk a.2) && retFits b.name b.ret)

/-- the names the property lists -/
def BName.all : List BName :=
  [.new, .push, .contains, .index, .concat, .get, .swap, .len, .capacity, .isEmpty]

/-- the binding of a name in the regenerated table -/
def bindingOf (nm : BName) : Option Binding :=
  Gen.ListBind.bindings.find? (fun b => b.name == nm)

/-- a script call executed through the regenerated table -/
def callOp (c : BName × Nat × List Nat) : Option Op :=
  (bindingOf c.1).bind (fun b => b.toOp c.2.1 c.2.2)

end RotoV.ListM
