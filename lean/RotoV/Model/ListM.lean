/-
  ListM: the list of `src/value/list.rs` as a state machine (property C15).

  * a store of allocations (`Arc<Mutex<RawList>>`): every allocation has the
    three fields of `RawList` (`len`, `capacity`, the initialised part of the
    buffer), the mutex state and the `Arc` strong count;
  * handle variables (`slots`) pointing into the store: cloning a handle
    aliases, dropping the last one runs `RawList::drop`;
  * element tokens: `live` counts element instances that exist (moved in or
    cloned, not yet dropped) — the harness observes the same number for its
    drop-tracked element types;
  * locks are explicit: `acquire` on a held mutex is `Fault.deadlock` (std's
    `Mutex` is not re-entrant), reading a freed or uninitialised place is
    `Fault.ub`, `unwrap` on `None` and arithmetic overflow are `Fault.panic`.

  Every function follows the Rust text statement by statement; the capacity
  function and the lock targets / statement order of `==` and `concat` are
  *generated* from the source (Generated/Capacity, Generated/ListLocks), and so
  are the early-return / growth conditions of `get`, `swap`, `ErasedList::eq`
  and `reserve` (Generated/ListGuards), and the body of the `join` binding of
  `src/runtime/basic.rs` (Generated/ListJoin: a function from the element
  strings and the separator to the result, over byte strings).

  Element size `sz` (`vtable.size()`) is a parameter of a run: 0 for
  zero-sized element types (capacity `usize::MAX`, nothing allocated).
  Element values are natural numbers (the harness maps u8 / u64 / String /
  tracked values injectively); `==` on elements is `elemEq` (ListBase): `=` on
  plain values, IEEE-754 `==` on the values that stand for `f64` bit patterns
  (`0.0 == -0.0`, NaN equal to nothing) — every element comparison of the
  model (`contains`, `index`, both `==`) and of the specification goes through
  it, as the Rust text goes through `vtable.eq_fn` / `T: PartialEq`.

  Core Lean only (linked into the driver).
-/
import RotoV.Model.ListBase
import RotoV.Generated.Capacity
import RotoV.Generated.ListLocks
import RotoV.Generated.ListGuards
import RotoV.Generated.ListJoin

namespace RotoV.ListM
open RotoV

inductive Fault
  | deadlock
  | panic
  | ub
  | badHandle
  deriving DecidableEq, Repr, Inhabited

/-- result of a modelled piece of Rust: a value or a fault -/
inductive E (α : Type) where
  | ok (a : α)
  | error (f : Fault)
  deriving DecidableEq, Repr, Inhabited

def liftRes {α : Type} : Res α → E α
  | .ok a => .ok a
  | .panic => .error .panic

/-- `RawList` + the mutex flag + the `Arc` strong count. `elems` is the
    initialised prefix of the buffer (slot `i` holds `elems[i]`). -/
structure RawList where
  len : Nat
  cap : Nat
  elems : List Nat
  locked : Bool
  rc : Nat
  deriving DecidableEq, Repr, Inhabited

/-- what the generated guards see of a `RawList` -/
def RawList.view (l : RawList) : RawView := { len := l.len, capacity := l.cap }

/-- `compute_capacity` (generated), debug profile -/
def computeCapacity (sz req : Nat) : E Nat :=
  liftRes (Gen.Capacity.compute_capacity true sz req)

/-- `RawList::reserve` -/
def reserve (sz : Nat) (l : RawList) (added : Nat) : E RawList :=
  if sz = 0 then .ok l
  else
    match checkedAdd l.len added with
    | none => .error .panic
    | some req =>
      match computeCapacity sz req with
      | .error f => .error f
      | .ok nc => .ok (if Gen.ListGuards.reserve_grows l.view nc then { l with cap := nc } else l)

/-- `RawList::with_capacity(0, vtable)` = `RawList::new` -/
def newRaw (sz : Nat) : E RawList :=
  if sz = 0 then .ok { len := 0, cap := usizeMax, elems := [], locked := false, rc := 1 }
  else reserve sz { len := 0, cap := 0, elems := [], locked := false, rc := 1 } 0

/-- `RawList::push`: reserve, write slot `len`, `len += 1` -/
def rawPush (sz : Nat) (l : RawList) (v : Nat) : E RawList :=
  match (if sz > 0 then reserve sz l (Gen.ListGuards.push_reserve l.view) else .ok l) with
  | .error f => .error f
  | .ok l1 =>
    if l1.len + Gen.ListGuards.push_len_add l1.view > usizeMax then .error .panic
    else .ok { l1 with elems := l1.elems.take l1.len ++ [v],
                       len := l1.len + Gen.ListGuards.push_len_add l1.view }

/-- `RawList::get` followed by the read through the returned pointer -/
def rawGet (l : RawList) (i : Nat) : E (Option Nat) :=
  if Gen.ListGuards.get_oob l.view i then .ok none
  else
    match l.elems[i]? with
    | some v => .ok (some v)
    | none => .error .ub

/-- the loop of `RawList::contains`: `for i in 0..len { get(i).unwrap() … }` -/
def containsLoop (l : RawList) (v : Nat) : Nat → Nat → E Bool
  | _, 0 => .ok false
  | i, n + 1 =>
    match rawGet l i with
    | .error f => .error f
    | .ok none => .error .panic
    | .ok (some e) => if elemEq e v then .ok true else containsLoop l v (i + 1) n

def rawContains (l : RawList) (v : Nat) : E Bool :=
  containsLoop l v 0 (Gen.ListGuards.contains_loop_count l.view)

/-- the loop of `RawList::index` -/
def indexLoop (l : RawList) (v : Nat) : Nat → Nat → E (Option Nat)
  | _, 0 => .ok none
  | i, n + 1 =>
    match rawGet l i with
    | .error f => .error f
    | .ok none => .error .panic
    | .ok (some e) => if elemEq e v then .ok (some i) else indexLoop l v (i + 1) n

def rawIndex (l : RawList) (v : Nat) : E (Option Nat) :=
  indexLoop l v 0 (Gen.ListGuards.index_loop_count l.view)

def swapElems (xs : List Nat) (i j : Nat) : List Nat :=
  match xs[i]?, xs[j]? with
  | some a, some b => (xs.set i b).set j a
  | _, _ => xs

/-- `RawList::swap` -/
def rawSwap (l : RawList) (i j : Nat) : RawList :=
  if Gen.ListGuards.swap_noop l.view i j then l
  else { l with elems := swapElems l.elems i j }

/-- reading `other[0 .. other.len)` (no bounds check in the Rust text) -/
def readAll (l : RawList) : E (List Nat) :=
  if l.elems.length < l.len then .error .ub else .ok (l.elems.take l.len)

/-- `RawList::extend(&mut self, other)`; clones `other.len` elements -/
def rawExtend (sz : Nat) (self other : RawList) : E RawList :=
  if sz = 0 then
    match readAll other with
    | .error f => .error f
    | .ok xs =>
      if self.len + Gen.ListGuards.extend_len_add self.view other.view > usizeMax then .error .panic
      else .ok { self with elems := self.elems.take self.len ++ xs,
                           len := self.len + Gen.ListGuards.extend_len_add self.view other.view }
  else if other.len = 0 then .ok self
  else
    match reserve sz self (Gen.ListGuards.extend_reserve self.view other.view) with
    | .error f => .error f
    | .ok s1 =>
      match readAll other with
      | .error f => .error f
      | .ok xs => .ok { s1 with elems := s1.elems.take s1.len ++ xs,
                                len := s1.len + Gen.ListGuards.extend_len_add s1.view other.view }

/-- the loop of `ErasedList::eq` after the length test -/
def eqLoop (a b : RawList) : Nat → Nat → E Bool
  | _, 0 => .ok true
  | i, n + 1 =>
    match rawGet a i, rawGet b i with
    | .error f, _ => .error f
    | _, .error f => .error f
    | .ok (some x), .ok (some y) => if elemEq x y then eqLoop a b (i + 1) n else .ok false
    | _, _ => .error .panic

/-- `ErasedList::eq` under both locks -/
def rawEqErased (a b : RawList) : E Bool :=
  if Gen.ListGuards.eq_len_differs a.view b.view then .ok false
  else eqLoop a b 0 (Gen.ListGuards.eq_loop_count a.view b.view)

/-- `List<T>::eq` under both locks: slice equality -/
def rawEqTyped (a b : RawList) : E Bool :=
  match readAll a, readAll b with
  | .error f, _ => .error f
  | _, .error f => .error f
  | .ok xs, .ok ys => .ok (listEq xs ys)

/-- the loop of `IntoIter::next` / the script `for`: `get(0), get(1), …` until `None` -/
def iterLoop (l : RawList) : Nat → Nat → E (List Nat)
  | _, 0 => .error .panic
  | i, n + 1 =>
    match rawGet l i with
    | .error f => .error f
    | .ok none => .ok []
    | .ok (some v) =>
      match iterLoop l (i + 1) n with
      | .error f => .error f
      | .ok vs => .ok (v :: vs)

/-! ### the store -/

structure St where
  allocs : List (Option RawList)
  slots : List (Option Nat)
  live : Nat
  deriving Repr, DecidableEq, Inhabited

def St.init (nslots : Nat) : St := { allocs := [], slots := List.replicate nslots none, live := 0 }

def St.getAlloc (s : St) (a : Nat) : Option RawList :=
  match s.allocs[a]? with
  | some (some l) => some l
  | _ => none

def St.setAlloc (s : St) (a : Nat) (l : Option RawList) : St :=
  { s with allocs := s.allocs.set a l }

def St.slot (s : St) (h : Nat) : E Nat :=
  match s.slots[h]? with
  | some (some a) => .ok a
  | _ => .error .badHandle

/-- `mutex.lock().unwrap()` -/
def acquire (s : St) (a : Nat) : E (St × RawList) :=
  match s.getAlloc a with
  | none => .error .ub
  | some l =>
    if l.locked then .error .deadlock
    else .ok (s.setAlloc a (some { l with locked := true }), l)

/-- the guard is dropped; `l` is what the critical section left behind -/
def release (s : St) (a : Nat) (l : RawList) : St :=
  s.setAlloc a (some { l with locked := false })

/-- dropping one `ErasedList` handle (`Arc::drop`; the last one runs `RawList::drop`) -/
def dropHandle (s : St) (a : Nat) : E St :=
  match s.getAlloc a with
  | none => .error .ub
  | some l =>
    if l.rc ≤ 1 then
      -- `Drop for RawList`: the generated loop range says how many elements are dropped
      .ok { (s.setAlloc a none) with
              live := s.live - (if Gen.ListGuards.drop_runs_element_drops then Gen.ListGuards.drop_count l.view else 0) }
    else .ok (s.setAlloc a (some { l with rc := l.rc - 1 }))

/-- `slot[d] = <handle to a>`: the old value of the variable is dropped afterwards -/
def assign (s : St) (d a : Nat) : E St :=
  match s.slots[d]? with
  | none => .error .badHandle
  | some old =>
    let s1 := { s with slots := s.slots.set d (some a) }
    match old with
    | none => .ok s1
    | some o => dropHandle s1 o

/-- a fresh allocation holding `l`; its index is the old `allocs.length` -/
def St.pushAlloc (s : St) (l : RawList) : St := { s with allocs := s.allocs ++ [some l] }

inductive Op
  | new (d : Nat)
  | fromVec (d : Nat) (xs : List Nat)
  | cloneH (d src : Nat)
  | dropH (h : Nat)
  | push (h v : Nat)
  | get (h i : Nat)
  | len (h : Nat)
  | isEmpty (h : Nat)
  | capacity (h : Nat)
  | swap (h i j : Nat)
  | concat (d a b : Nat)
  | contains (h v : Nat)
  | index (h v : Nat)
  | eq (a b : Nat) (typed : Bool)
  | toVec (h : Nat)
  | iter (h : Nat)
  /-- script `l.join(sep)` on a `List[String]`: element `v` is the string `elemStr v` -/
  | join (h : Nat) (sep : Str)
  deriving DecidableEq, Repr, Inhabited

inductive Out
  | unit
  | nat (n : Nat)
  | bool (b : Bool)
  | opt (o : Option Nat)
  | vals (l : List Nat)
  /-- a string result (UTF-8 bytes) -/
  | str (s : Str)
  | fault (f : Fault)
  deriving DecidableEq, Repr, Inhabited

/-- one operation of `RawList` under `self`'s lock -/
def withLock (s : St) (h : Nat) (f : RawList → E (Out × RawList)) : E (Out × St) :=
  match s.slot h with
  | .error e => .error e
  | .ok a =>
    match acquire s a with
    | .error e => .error e
    | .ok (s1, l) =>
      match f l with
      | .error e => .error e
      | .ok (o, l') => .ok (o, release s1 a l')

/-- `FromIterator`: `push` every element (each under the lock of the fresh list) -/
def pushAll (sz : Nat) : RawList → List Nat → E RawList
  | l, [] => .ok l
  | l, v :: vs =>
    match rawPush sz l v with
    | .error f => .error f
    | .ok l1 => pushAll sz l1 vs

def resolve (x y : Nat) : LockRef → Nat
  | .self_ => x
  | .other => y

def unlockAt (s : St) (a : Nat) : E St :=
  match s.getAlloc a with
  | none => .error .ub
  | some l => .ok (s.setAlloc a (some { l with locked := false }))

/-- one statement of `ErasedList::concat` (operands `x`, `y`; `nw` = the new allocation) -/
def concatStep (sz x y : Nat) (c : St × Option Nat) : CStep → E (St × Option Nat)
  | .lock r =>
    match acquire c.1 (resolve x y r) with
    | .error f => .error f
    | .ok (s1, _) => .ok (s1, c.2)
  | .allocNew =>
    match newRaw sz with
    | .error f => .error f
    | .ok l => .ok (c.1.pushAlloc l, some c.1.allocs.length)
  | .lockNew =>
    match c.2 with
    | none => .error .ub
    | some n =>
      match acquire c.1 n with
      | .error f => .error f
      | .ok (s1, _) => .ok (s1, c.2)
  | .extendFrom r =>
    match c.2 with
    | none => .error .ub
    | some n =>
      match c.1.getAlloc n, c.1.getAlloc (resolve x y r) with
      | some ln, some lr =>
        if !ln.locked || !lr.locked then .error .ub
        else
          match rawExtend sz ln lr with
          | .error f => .error f
          | .ok ln' =>
            .ok ({ (c.1.setAlloc n (some ln')) with
                     live := c.1.live + Gen.ListGuards.extend_clone_count ln.view lr.view }, c.2)
      | _, _ => .error .ub
  | .unlock r =>
    match unlockAt c.1 (resolve x y r) with
    | .error f => .error f
    | .ok s1 => .ok (s1, c.2)
  | .unlockNew =>
    match c.2 with
    | none => .error .ub
    | some n =>
      match unlockAt c.1 n with
      | .error f => .error f
      | .ok s1 => .ok (s1, c.2)

def concatRun (sz x y : Nat) : (St × Option Nat) → List CStep → E (St × Option Nat)
  | c, [] => .ok c
  | c, st :: rest =>
    match concatStep sz x y c st with
    | .error f => .error f
    | .ok c1 => concatRun sz x y c1 rest

/-- lock every target in order -/
def acquireAll (s : St) : List Nat → E St
  | [] => .ok s
  | a :: rest =>
    match acquire s a with
    | .error f => .error f
    | .ok (s1, _) => acquireAll s1 rest

def unlockAll (s : St) : List Nat → E St
  | [] => .ok s
  | a :: rest =>
    match unlockAt s a with
    | .error f => .error f
    | .ok s1 => unlockAll s1 rest

/-- `==` on two handles with the given lock targets / compared guards
    (`cmp` is `rawEqTyped` or `rawEqErased`) -/
def eqWith (shortcut : Bool) (locks : List LockRef) (cmpIdx : Nat × Nat)
    (cmp : RawList → RawList → E Bool) (s : St) (x y : Nat) : E (Out × St) :=
  if shortcut && x == y then .ok (.bool true, s)
  else
    let targets := locks.map (resolve x y)
    match acquireAll s targets with
    | .error f => .error f
    | .ok s1 =>
      match targets[cmpIdx.1]?, targets[cmpIdx.2]? with
      | some ta, some tb =>
        match s1.getAlloc ta, s1.getAlloc tb with
        | some la, some lb =>
          match cmp la lb with
          | .error f => .error f
          | .ok r =>
            match unlockAll s1 targets.reverse with
            | .error f => .error f
            | .ok s2 => .ok (.bool r, s2)
        | _, _ => .error .ub
      | _, _ => .error .ub

/-- `List<T>::eq` (as `erasedEq`: the allocation index stands for the address
    should the source order its locks by address) -/
def typedEq (s : St) (x y : Nat) : E (Out × St) :=
  if x < y then
    eqWith Gen.ListLocks.typedEqShortcut Gen.ListLocks.typedEqLocksLt Gen.ListLocks.typedEqCompareLt
      rawEqTyped s x y
  else
    eqWith Gen.ListLocks.typedEqShortcut Gen.ListLocks.typedEqLocksGe Gen.ListLocks.typedEqCompareGe
      rawEqTyped s x y

/-- `ErasedList::eq`. Where the source orders its two `lock()` calls by the
    address of the mutexes, the model takes the allocation index as the address;
    the theorems cover both orders for every pair of lists. -/
def erasedEq (s : St) (x y : Nat) : E (Out × St) :=
  if x < y then
    eqWith Gen.ListLocks.erasedEqShortcut Gen.ListLocks.erasedEqLocksLt Gen.ListLocks.erasedEqCompareLt
      rawEqErased s x y
  else
    eqWith Gen.ListLocks.erasedEqShortcut Gen.ListLocks.erasedEqLocksGe Gen.ListLocks.erasedEqCompareGe
      rawEqErased s x y

/-- the statements `ErasedList::concat` executes for operands `x`, `y`
    (same list / distinct with either address order) -/
def concatStepsFor (x y : Nat) : List CStep :=
  if x = y then Gen.ListLocks.concatStepsSame
  else if x < y then Gen.ListLocks.concatStepsLt
  else Gen.ListLocks.concatStepsGe

/-- `List<T>::eq` as it was written on the pinned tree: both `lock()` calls on `self` -/
def typedEqAsPinned : St → Nat → Nat → E (Out × St) :=
  eqWith true [.self_, .self_] (0, 1) rawEqTyped

def stepE (sz : Nat) (s : St) : Op → E (Out × St)
  | .new d =>
    match newRaw sz with
    | .error f => .error f
    | .ok l =>
      match assign (s.pushAlloc l) d s.allocs.length with
      | .error f => .error f
      | .ok s1 => .ok (.unit, s1)
  | .fromVec d xs =>
    match newRaw sz with
    | .error f => .error f
    | .ok l =>
      match pushAll sz l xs with
      | .error f => .error f
      | .ok l1 =>
        match assign { (s.pushAlloc l1) with live := s.live + xs.length } d s.allocs.length with
        | .error f => .error f
        | .ok s1 => .ok (.unit, s1)
  | .cloneH d src =>
    match s.slot src with
    | .error f => .error f
    | .ok a =>
      match s.getAlloc a with
      | none => .error .ub
      | some l =>
        match assign (s.setAlloc a (some { l with rc := l.rc + 1 })) d a with
        | .error f => .error f
        | .ok s1 => .ok (.unit, s1)
  | .dropH h =>
    match s.slot h with
    | .error f => .error f
    | .ok a =>
      match dropHandle { s with slots := s.slots.set h none } a with
      | .error f => .error f
      | .ok s1 => .ok (.unit, s1)
  | .push h v =>
    match withLock s h (fun l => match rawPush sz l v with
                                | .error f => .error f
                                | .ok l1 => .ok (.unit, l1)) with
    | .error f => .error f
    | .ok (o, s1) => .ok (o, { s1 with live := s1.live + 1 })
  | .get h i =>
    -- the returned clone is dropped by the caller: no net token
    withLock s h (fun l => match rawGet l i with
                           | .error f => .error f
                           | .ok r => .ok (.opt r, l))
  | .len h => withLock s h (fun l => .ok (.nat l.len, l))
  | .isEmpty h => withLock s h (fun l => .ok (.bool (l.len == 0), l))
  | .capacity h => withLock s h (fun l => .ok (.nat l.cap, l))
  | .swap h i j => withLock s h (fun l => .ok (.unit, rawSwap l i j))
  | .concat d a b =>
    match s.slot a, s.slot b with
    | .error f, _ => .error f
    | _, .error f => .error f
    | .ok x, .ok y =>
      match concatRun sz x y (s, none) (concatStepsFor x y) with
      | .error f => .error f
      | .ok (_, none) => .error .ub
      | .ok (s1, some n) =>
        match assign s1 d n with
        | .error f => .error f
        | .ok s2 => .ok (.unit, s2)
  | .contains h v =>
    withLock s h (fun l => match rawContains l v with
                           | .error f => .error f
                           | .ok r => .ok (.bool r, l))
  | .index h v =>
    withLock s h (fun l => match rawIndex l v with
                           | .error f => .error f
                           | .ok r => .ok (.opt r, l))
  | .eq a b typed =>
    match s.slot a, s.slot b with
    | .error f, _ => .error f
    | _, .error f => .error f
    | .ok x, .ok y => if typed then typedEq s x y else erasedEq s x y
  | .toVec h =>
    -- `len` clones; the caller drops the vector afterwards
    withLock s h (fun l => match readAll l with
                           | .error f => .error f
                           | .ok xs => .ok (.vals xs, l))
  | .iter h =>
    withLock s h (fun l => match iterLoop l 0 (l.len + 1) with
                           | .error f => .error f
                           | .ok xs => .ok (.vals xs, l))
  | .join h sep =>
    -- the binding's body (generated) applied to the elements read under the lock
    withLock s h (fun l => match readAll l with
                           | .error f => .error f
                           | .ok xs => .ok (.str (Gen.ListJoin.join_body (xs.map elemStr) sep), l))

/-- total step: a fault leaves the state as it was -/
def step (sz : Nat) (s : St) (op : Op) : Out × St :=
  match stepE sz s op with
  | .ok r => r
  | .error f => (.fault f, s)

def run (sz : Nat) : St → List Op → List Out
  | _, [] => []
  | s, op :: rest => (step sz s op).1 :: run sz (step sz s op).2 rest

def runSt (sz : Nat) : St → List Op → St
  | s, [] => s
  | s, op :: rest => runSt sz (step sz s op).2 rest

/-! ### the specification: handles into shared vectors -/

structure Spec where
  lists : List (List Nat)
  slots : List (Option Nat)
  deriving Repr, DecidableEq, Inhabited

def Spec.init (nslots : Nat) : Spec := { lists := [], slots := List.replicate nslots none }

def Spec.vec (t : Spec) (h : Nat) : Option (Nat × List Nat) :=
  match t.slots[h]? with
  | some (some a) =>
    match t.lists[a]? with
    | some xs => some (a, xs)
    | none => none
  | _ => none

def Spec.bind (t : Spec) (d : Nat) (xs : List Nat) : Out × Spec :=
  if d < t.slots.length then
    (.unit, { lists := t.lists ++ [xs], slots := t.slots.set d (some t.lists.length) })
  else (.fault .badHandle, t)

/-- what `join` means (Rust's `[String]::join`, the documented behaviour of the
    `List[String].join` method): the elements in order with the separator
    between every two neighbours — nothing before the first, nothing after the
    last, whatever the elements and the separator are -/
def joinSpec (l : List Str) (sep : Str) : Str := (l.intersperse sep).flatten

/-- the same operations on `Vec`s shared between handles -/
def specStep (t : Spec) : Op → Out × Spec
  | .new d => t.bind d []
  | .fromVec d xs => t.bind d xs
  | .cloneH d src =>
    match t.vec src with
    | none => (.fault .badHandle, t)
    | some (a, _) =>
      if d < t.slots.length then (.unit, { t with slots := t.slots.set d (some a) })
      else (.fault .badHandle, t)
  | .dropH h =>
    match t.vec h with
    | none => (.fault .badHandle, t)
    | some _ => (.unit, { t with slots := t.slots.set h none })
  | .push h v =>
    match t.vec h with
    | none => (.fault .badHandle, t)
    | some (a, xs) => (.unit, { t with lists := t.lists.set a (xs ++ [v]) })
  | .get h i =>
    match t.vec h with
    | none => (.fault .badHandle, t)
    | some (_, xs) => (.opt xs[i]?, t)
  | .len h =>
    match t.vec h with
    | none => (.fault .badHandle, t)
    | some (_, xs) => (.nat xs.length, t)
  | .isEmpty h =>
    match t.vec h with
    | none => (.fault .badHandle, t)
    | some (_, xs) => (.bool xs.isEmpty, t)
  | .capacity h =>
    -- the value is not determined by a vector's contents (see `RawOk`)
    match t.vec h with
    | none => (.fault .badHandle, t)
    | some _ => (.unit, t)
  | .swap h i j =>
    match t.vec h with
    | none => (.fault .badHandle, t)
    | some (a, xs) => (.unit, { t with lists := t.lists.set a (swapElems xs i j) })
  | .concat d a b =>
    match t.vec a, t.vec b with
    | some (_, xs), some (_, ys) => t.bind d (xs ++ ys)
    | _, _ => (.fault .badHandle, t)
  | .contains h v =>
    match t.vec h with
    | none => (.fault .badHandle, t)
    | some (_, xs) => (.bool (anyEq v xs), t)
  | .index h v =>
    match t.vec h with
    | none => (.fault .badHandle, t)
    | some (_, xs) => (.opt (firstIdx v xs 0), t)
  | .eq a b _ =>
    match t.vec a, t.vec b with
    | some (_, xs), some (_, ys) => (.bool (listEq xs ys), t)
    | _, _ => (.fault .badHandle, t)
  | .toVec h =>
    match t.vec h with
    | none => (.fault .badHandle, t)
    | some (_, xs) => (.vals xs, t)
  | .iter h =>
    match t.vec h with
    | none => (.fault .badHandle, t)
    | some (_, xs) => (.vals xs, t)
  | .join h sep =>
    match t.vec h with
    | none => (.fault .badHandle, t)
    | some (_, xs) => (.str (joinSpec (xs.map elemStr) sep), t)

def specRun : Spec → List Op → List Out
  | _, [] => []
  | t, op :: rest => (specStep t op).1 :: specRun (specStep t op).2 rest

end RotoV.ListM
