/-
  Data types and vocabulary of the IR evaluator's memory and control flow
  (src/lir/eval.rs), for property C20.

  Only the *data* is written by hand here: the structures mirror the Rust
  structs field by field (the translator re-reads the field lists and fails
  when they differ), and `Vec`/slice/`usize` operations get one Lean meaning
  each, with every Rust panic explicit (`Res.panic`): index out of range, slice
  bounds, `copy_from_slice` length mismatch, `usize` underflow.  The
  *functions* (`Allocation.read/write`, `StackFrame.read/write`,
  `Memory.read_slice/write/copy/allocate/offset_by/push_frame/pop_frame`,
  `LocalPointer.offset_by`, the `Switch` arm …) are generated from the source
  into `RotoV/Generated/EvalMem.lean` on every run.

  `usize` is modelled as `Nat`: `+` never overflows (offsets are sums of `u32`
  instruction fields and layout sizes; nothing approaches 2^64), `-` panics
  below zero in the debug profile and wraps in release, like Rust.

  Core Lean only: linked into the driver.
-/
import RotoV.Model.RustStd
import RotoV.Model.Lir

namespace RotoV

/-! ### `usize` as `Nat` -/

instance : RArith Nat where
  add := fun _ a b => .ok (a + b)
  sub := fun dbg a b => if b ≤ a then .ok (a - b) else if dbg then .panic else .ok (a + 2 ^ 64 - b)
  mul := fun _ a b => .ok (a * b)
  div := fun _ a b => if b = 0 then .panic else .ok (a / b)
instance : RRem Nat := ⟨fun _ a b => if b = 0 then .panic else .ok (a % b)⟩
instance : ROrd Nat :=
  ⟨fun a b => .ok (decide (a < b)), fun a b => .ok (decide (a ≤ b)),
   fun a b => .ok (decide (a > b)), fun a b => .ok (decide (a ≥ b))⟩

instance : RCast Nat Nat := ⟨id⟩
/-- `u8/u16/u32 as usize` -/
instance {w} : RCast (RInt false w) Nat := ⟨fun x => x.bv.toNat⟩

/-- `usize::BITS` on the 64-bit targets the JIT supports (`pointer_type()` is `I64` in the
    generated `cranelift_type`) -/
def Usize.BITS : Nat := 64

/-- `usize::is_multiple_of`: `rhs == 0` ⇒ `self == 0`, otherwise `self % rhs == 0`. -/
def Usize.is_multiple_of (a b : Nat) : Bool := if b = 0 then a == 0 else a % b == 0

/-- `usize::next_multiple_of` (panics on 0 like Rust). -/
def Usize.next_multiple_of (a b : Nat) : Res Nat :=
  if b = 0 then .panic else .ok ((a + b - 1) / b * b)

/-- `usize::div_ceil`. -/
def Usize.div_ceil (a b : Nat) : Res Nat :=
  if b = 0 then .panic else .ok ((a + b - 1) / b)

/-! ### `Vec<T>` / `Box<[T]>` / `&[T]` as `List T` -/

namespace RIndex
/-- `xs[i]`: panics when out of range. -/
def index {α} (xs : List α) (i : Nat) : Res α :=
  match xs[i]? with
  | some x => .ok x
  | none => .panic

/-- `xs[a..b]`: panics when `a > b` or `b > len`. -/
def slice {α} (xs : List α) (a b : Nat) : Res (List α) :=
  if a ≤ b ∧ b ≤ xs.length then .ok ((xs.drop a).take (b - a)) else .panic
end RIndex

namespace Vec
def new {α} : List α := []
abbrev len {α} (xs : List α) : Nat := xs.length
def push {α} (xs : List α) (x : α) : List α := xs ++ [x]
/-- `Vec::pop`: the shortened vector and the removed element. -/
def pop {α} (xs : List α) : List α × Option α := (xs.dropLast, xs.getLast?)
/-- write-back of `&mut xs[i]` (the index was checked when the reference was taken). -/
def set {α} (xs : List α) (i : Nat) (x : α) : List α := xs.set i x
/-- `xs[a..b].copy_from_slice(v)`: the slice bounds panic like indexing, a length mismatch
    panics like `copy_from_slice`. -/
def splice {α} (xs : List α) (a b : Nat) (v : List α) : Res (List α) :=
  if a ≤ b ∧ b ≤ xs.length ∧ v.length = b - a then .ok (xs.take a ++ v ++ xs.drop b) else .panic
/-- `vec![0; n]` -/
def zeros (n : Nat) : List UInt8 := List.replicate n 0
end Vec

/-! ### the evaluator's memory (field lists re-checked against the source) -/

structure Allocation where
  inner : List UInt8
  deriving DecidableEq, Repr, Inhabited

structure LocalPointer where
  stack_index : Nat
  stack_id : Nat
  allocation_index : Nat
  allocation_offset : Nat
  deriving DecidableEq, Repr, Inhabited

/-- A raw address (`*mut ()`), as handed to clone / drop / eq and runtime functions.  Only its
    provenance is modelled: the address of a constant owned by the runtime, or the address of a byte
    of an evaluator allocation (represented by that byte; taking it panics when the byte does not
    exist, like `&self.inner[offset]`). -/
inductive RawPtr
  | global (addr : Nat)
  | byte (b : UInt8)
  deriving DecidableEq, Repr, Inhabited

structure GlobalPointer where
  ptr : RawPtr
  deriving DecidableEq, Repr, Inhabited

inductive Pointer
  | Global (p : GlobalPointer)
  | Local (p : LocalPointer)
  deriving DecidableEq, Repr, Inhabited

/-- `return_place : Option<Var>`: variables are abstract here. -/
structure StackFrame where
  id : Nat
  return_address : Nat
  return_place : Option Nat
  allocations : List Allocation
  deriving DecidableEq, Repr, Inhabited

structure Memory where
  id_counter : Nat
  stack : List StackFrame
  pointers : List Pointer
  deriving DecidableEq, Repr, Inhabited

/-- What lies behind a `Pointer::Global` (a constant owned by the runtime) is outside the
    model: an uninterpreted function of the address. -/
opaque Raw.read (ptr : RawPtr) (size : Nat) : List UInt8

/-- `&x as *const _ as *mut _`: the address of an existing byte -/
def Raw.of_ref (b : UInt8) : RawPtr := .byte b

/-! ### control flow -/

/-- `find_map(|(i, b)| (*i == x).then_some(b))` -/
def Vec.find_map {α β} (xs : List α) (f : α → Option β) : Option β := xs.findSome? f
def RBool.then_some {α} (b : Bool) (a : α) : Option α := if b then some a else none
def ROpt.unwrap_or {α} (o : Option α) (d : α) : α := o.getD d

/-- where the evaluator loop goes after `Return`: on at `pc` (assigning the returned value to a
    variable of the caller), or out of `eval` with the value. -/
inductive Flow
  | resume (pc : Nat) (assign : Option (Nat × IrValue))
  | finish (val : Option IrValue)
  deriving DecidableEq, Repr, Inhabited

/-- `Option<impl Iterator>.into_iter().flatten()`: the items, or nothing -/
def ROpt.flatten_iter {α} (o : Option (List α)) : List α := o.getD []
def RIter.skip {α} (xs : List α) (n : Nat) : List α := xs.drop n
def RIter.take {α} (xs : List α) (n : Nat) : List α := xs.take n

/-- `cranelift_frontend::Switch`: `set_entry` panics when the key is already present, `emit`
    jumps to the block registered for the value or to `otherwise`. (Documented behaviour of
    cranelift-frontend; trusted, not verified.) -/
structure ClifSwitch where
  cases : List (Nat × Nat)
  deriving DecidableEq, Repr, Inhabited

def ClifSwitch.new : ClifSwitch := ⟨[]⟩
def ClifSwitch.set_entry (s : ClifSwitch) (k : Nat) (block : Nat) : Res ClifSwitch :=
  if s.cases.any (·.1 == k) then .panic else .ok ⟨s.cases ++ [(k, block)]⟩
/-- the block control reaches after `emit(val, otherwise)` when the examinee is `x` -/
def ClifSwitch.target (s : ClifSwitch) (otherwise : Nat) (x : Nat) : Nat :=
  match s.cases.find? (·.1 == x) with
  | some e => e.2
  | none => otherwise

end RotoV
