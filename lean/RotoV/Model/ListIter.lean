/-
  ListIter: the Rust-side iterator of a list (`IntoIterator for List<A>` /
  `IntoIter` in the boundary module of src/value/list.rs) as operations of the
  list model `RotoV.ListM`, INTERLEAVED with every other operation (C15).

  An iterator owns a list handle (`IntoIter::inner` — a handle variable `v` of
  the model that no other operation names) and an index; `next` is one
  `List::get` on that handle. What `into_iter` initialises and what `next`
  decides — when it answers `None` without looking at the list, which index it
  reads, the index afterwards — is *generated* from the source on every run
  (Generated/ListIter) and executed here; fields that keep the list's length
  at creation are part of the state (`snap`).

  The specification (`ispecStep`) is a cursor into the shared vector: `next`
  is the element at the cursor of the vector AS IT IS NOW, the cursor moves on
  iff there was one.

  Core Lean only (linked into the driver).
-/
import RotoV.Model.ListM
import RotoV.Generated.ListIter

namespace RotoV.ListM
open RotoV

/-- histories with live Rust-side iterators -/
inductive IOp
  | base (op : Op)
  /-- `h.clone().into_iter()`: the iterator keeps its handle in variable `v` -/
  | iterNew (v h : Nat)
  /-- `it.next()` -/
  | iterNext (v : Nat)
  /-- the iterator is dropped (with its handle) -/
  | iterDrop (v : Nat)
  deriving DecidableEq, Repr, Inhabited

def upd (f : Nat → Nat) (v x : Nat) : Nat → Nat := fun k => if k = v then x else f k

/-- the list model + per iterator variable: `idx`, the length at creation -/
structure ISt where
  st : St
  idx : Nat → Nat
  snap : Nat → Nat

def ISt.init (n : Nat) : ISt := { st := St.init n, idx := fun _ => 0, snap := fun _ => 0 }

/-- what `next` sees of the iterator in variable `v` -/
def iterView (s : ISt) (v : Nat) : Option Gen.ListIter.IterView :=
  match s.st.slot v with
  | .ok a =>
    match s.st.getAlloc a with
    | some l => some (Gen.ListIter.mkView l.view (s.idx v) (s.snap v))
    | none => none
  | .error _ => none

def istep (sz : Nat) (s : ISt) : IOp → Out × ISt
  | .base op => ((step sz s.st op).1, { s with st := (step sz s.st op).2 })
  | .iterNew v h =>
    match (step sz s.st (.cloneH v h)).1 with
    | .unit =>
      let s1 := (step sz s.st (.cloneH v h)).2
      let n := match (step sz s1 (.len v)).1 with
        | .nat n => n
        | _ => 0
      (.unit, { st := s1, idx := upd s.idx v Gen.ListIter.startIdx, snap := upd s.snap v n })
    | o => (o, s)
  | .iterNext v =>
    match iterView s v with
    | none => (.fault .badHandle, s)
    | some w =>
      if Gen.ListIter.nextStopsEarly w then (.opt none, s)
      else
        match (step sz s.st (.get v (Gen.ListIter.nextIndex w))).1 with
        | .opt (some x) =>
          (.opt (some x), { s with st := (step sz s.st (.get v (Gen.ListIter.nextIndex w))).2,
                                   idx := upd s.idx v (Gen.ListIter.nextIdxAfter w) })
        | o => (o, { s with st := (step sz s.st (.get v (Gen.ListIter.nextIndex w))).2 })
  | .iterDrop v => ((step sz s.st (.dropH v)).1, { s with st := (step sz s.st (.dropH v)).2 })

def irun (sz : Nat) : ISt → List IOp → List Out
  | _, [] => []
  | s, op :: rest => (istep sz s op).1 :: irun sz (istep sz s op).2 rest

def irunSt (sz : Nat) : ISt → List IOp → ISt
  | s, [] => s
  | s, op :: rest => irunSt sz (istep sz s op).2 rest

/-! ### the specification: cursors into shared vectors -/

structure ISpec where
  sp : Spec
  idx : Nat → Nat

def ISpec.init (n : Nat) : ISpec := { sp := Spec.init n, idx := fun _ => 0 }

def ispecStep (t : ISpec) : IOp → Out × ISpec
  | .base op => ((specStep t.sp op).1, { t with sp := (specStep t.sp op).2 })
  | .iterNew v h =>
    match (specStep t.sp (.cloneH v h)).1 with
    | .unit => (.unit, { sp := (specStep t.sp (.cloneH v h)).2, idx := upd t.idx v 0 })
    | o => (o, t)
  | .iterNext v =>
    match t.sp.vec v with
    | none => (.fault .badHandle, t)
    | some (_, xs) =>
      match xs[t.idx v]? with
      | some x => (.opt (some x), { t with idx := upd t.idx v (t.idx v + 1) })
      | none => (.opt none, t)
  | .iterDrop v => ((specStep t.sp (.dropH v)).1, { t with sp := (specStep t.sp (.dropH v)).2 })

def ispecRun : ISpec → List IOp → List Out
  | _, [] => []
  | t, op :: rest => (ispecStep t op).1 :: ispecRun (ispecStep t op).2 rest

def ispecRunSt : ISpec → List IOp → ISpec
  | t, [] => t
  | t, op :: rest => ispecRunSt (ispecStep t op).2 rest

end RotoV.ListM
