/-
  RustStd: the fixed vocabulary the translator (`/verif/extract`) targets.

  Every Rust construct the translator is allowed to emit has exactly one Lean
  meaning, given here once.  Panics are an explicit result (`Res.panic`), never
  totalised away.  Integer arithmetic has both of Rust's meanings: with
  `dbg = true` an overflow panics (debug profile), with `dbg = false` it wraps
  (release profile).  Division by zero and `MIN / -1` panic in both.

  Core Lean only (no Mathlib): this file is linked into the driver executable.
-/

namespace RotoV

/-- Result of running a piece of (modelled) Rust: a value or a panic. -/
inductive Res (α : Type) where
  | ok (a : α)
  | panic
  deriving Repr, DecidableEq, Inhabited

namespace Res
@[simp] def bind {α β} (r : Res α) (f : α → Res β) : Res β :=
  match r with
  | ok a => f a
  | panic => panic

instance : Monad Res where
  pure := ok
  bind := bind

@[simp] theorem pure_eq {α} (a : α) : (pure a : Res α) = ok a := rfl
@[simp] theorem bind_ok {α β} (a : α) (f : α → Res β) : (ok a >>= f) = f a := rfl
@[simp] theorem bind_panic {α β} (f : α → Res β) : ((panic : Res α) >>= f) = panic := rfl

def map' {α β} (f : α → β) : Res α → Res β
  | ok a => ok (f a)
  | panic => panic

def isPanic {α} : Res α → Bool
  | panic => true
  | ok _ => false
end Res

/-- A Rust fixed-width integer: signedness in the type, payload a bit vector. -/
structure RInt (signed : Bool) (w : Nat) where
  bv : BitVec w
  deriving DecidableEq, Repr

abbrev U8 := RInt false 8
abbrev U16 := RInt false 16
abbrev U32 := RInt false 32
abbrev U64 := RInt false 64
abbrev Usize := RInt false 64
abbrev I8 := RInt true 8
abbrev I16 := RInt true 16
abbrev I32 := RInt true 32
abbrev I64 := RInt true 64

instance {s w} : Inhabited (RInt s w) := ⟨⟨0⟩⟩

namespace RInt
variable {s : Bool} {w : Nat}

/-- The mathematical value. -/
def val (x : RInt s w) : Int := if s then x.bv.toInt else (x.bv.toNat : Int)

def ofInt (s : Bool) (w : Nat) (i : Int) : RInt s w := ⟨BitVec.ofInt w i⟩

def minVal (s : Bool) (w : Nat) : Int := if s then -(2 ^ (w - 1) : Int) else 0
def maxVal (s : Bool) (w : Nat) : Int := if s then (2 ^ (w - 1) : Int) - 1 else (2 ^ w : Int) - 1

def inRange (s : Bool) (w : Nat) (i : Int) : Bool := decide (minVal s w ≤ i) && decide (i ≤ maxVal s w)

/-- Rust's checked-then-wrap discipline for `+ - *` and unary `-`. -/
def arith (dbg : Bool) (exact : Int) : Res (RInt s w) :=
  if dbg && !inRange s w exact then .panic else .ok (ofInt s w exact)

def add (dbg : Bool) (a b : RInt s w) : Res (RInt s w) := arith dbg (a.val + b.val)
def sub (dbg : Bool) (a b : RInt s w) : Res (RInt s w) := arith dbg (a.val - b.val)
def mul (dbg : Bool) (a b : RInt s w) : Res (RInt s w) := arith dbg (a.val * b.val)
def neg (dbg : Bool) (a : RInt s w) : Res (RInt s w) := arith dbg (- a.val)

/-- Rust `/`: panics on a zero divisor and on `MIN / -1` in every profile. -/
def div (_dbg : Bool) (a b : RInt s w) : Res (RInt s w) :=
  if b.val = 0 then .panic
  else if s && a.val = minVal s w && b.val = -1 then .panic
  else .ok (ofInt s w (Int.tdiv a.val b.val))

/-- Rust `%`: panics on a zero divisor and on `MIN % -1` in every profile. -/
def rem (_dbg : Bool) (a b : RInt s w) : Res (RInt s w) :=
  if b.val = 0 then .panic
  else if s && a.val = minVal s w && b.val = -1 then .panic
  else .ok (ofInt s w (Int.tmod a.val b.val))

def lt (a b : RInt s w) : Bool := decide (a.val < b.val)
def le (a b : RInt s w) : Bool := decide (a.val ≤ b.val)
def gt (a b : RInt s w) : Bool := decide (a.val > b.val)
def ge (a b : RInt s w) : Bool := decide (a.val ≥ b.val)

/-- Rust `as` between integer types: sign- or zero-extend by the *source*
    signedness, then truncate. -/
def cast {s' : Bool} {w' : Nat} (x : RInt s w) : RInt s' w' := ofInt s' w' x.val

end RInt

/-- Opaque IEEE-754 operations on bit patterns.  Theorems quantify over every
    instance; the driver instantiates them with Lean's native floats. -/
class FloatOps where
  add32 : BitVec 32 → BitVec 32 → BitVec 32
  sub32 : BitVec 32 → BitVec 32 → BitVec 32
  mul32 : BitVec 32 → BitVec 32 → BitVec 32
  div32 : BitVec 32 → BitVec 32 → BitVec 32
  neg32 : BitVec 32 → BitVec 32
  add64 : BitVec 64 → BitVec 64 → BitVec 64
  sub64 : BitVec 64 → BitVec 64 → BitVec 64
  mul64 : BitVec 64 → BitVec 64 → BitVec 64
  div64 : BitVec 64 → BitVec 64 → BitVec 64
  neg64 : BitVec 64 → BitVec 64
  /-- f32 → f64 widening (`as f64`), exact in IEEE-754. -/
  promote : BitVec 32 → BitVec 64
  /-- f64 → f32 narrowing (`as f32`). -/
  demote : BitVec 64 → BitVec 32
  eq64 : BitVec 64 → BitVec 64 → Bool
  lt64 : BitVec 64 → BitVec 64 → Bool
  le64 : BitVec 64 → BitVec 64 → Bool
  eq32 : BitVec 32 → BitVec 32 → Bool
  lt32 : BitVec 32 → BitVec 32 → Bool
  le32 : BitVec 32 → BitVec 32 → Bool

/-- The IEEE-754 facts theorems may assume about a `FloatOps` instance:
    widening f32 → f64 is exact, so it preserves every comparison (NaN ↦ NaN). -/
class FloatLaws [F : FloatOps] : Prop where
  promote_eq : ∀ a b, F.eq64 (F.promote a) (F.promote b) = F.eq32 a b
  promote_lt : ∀ a b, F.lt64 (F.promote a) (F.promote b) = F.lt32 a b
  promote_le : ∀ a b, F.le64 (F.promote a) (F.promote b) = F.le32 a b

structure F32 where
  bits : BitVec 32
  deriving DecidableEq, Repr
structure F64 where
  bits : BitVec 64
  deriving DecidableEq, Repr

instance : Inhabited F32 := ⟨⟨0⟩⟩
instance : Inhabited F64 := ⟨⟨0⟩⟩

/-- Overloaded Rust operators, resolved by the Lean type like rustc resolves
    them by the Rust type.  Every operator is fallible (`Res`), so the
    translator can emit `(← op a b)` uniformly; infallible instances return `ok`. -/
class RArith (α : Type) where
  add : Bool → α → α → Res α
  sub : Bool → α → α → Res α
  mul : Bool → α → α → Res α
  div : Bool → α → α → Res α
class RRem (α : Type) where
  rem : Bool → α → α → Res α
class RNeg (α : Type) where
  neg : Bool → α → Res α
class RNot (α : Type) where
  not : α → Res α
class ROrd (α : Type) where
  lt : α → α → Res Bool
  le : α → α → Res Bool
  gt : α → α → Res Bool
  ge : α → α → Res Bool
class REq (α : Type) where
  eq : α → α → Res Bool
/-- Rust `as` casts. -/
class RCast (α β : Type) where
  cast : α → β

instance {s w} : RArith (RInt s w) := ⟨RInt.add, RInt.sub, RInt.mul, RInt.div⟩
instance {s w} : RRem (RInt s w) := ⟨RInt.rem⟩
instance {s w} : RNeg (RInt s w) := ⟨RInt.neg⟩
instance {s w} : ROrd (RInt s w) :=
  ⟨fun a b => .ok (RInt.lt a b), fun a b => .ok (RInt.le a b),
   fun a b => .ok (RInt.gt a b), fun a b => .ok (RInt.ge a b)⟩
instance {s w} : REq (RInt s w) := ⟨fun a b => .ok (decide (a = b))⟩
instance : REq Bool := ⟨fun a b => .ok (decide (a = b))⟩
instance : REq Nat := ⟨fun a b => .ok (decide (a = b))⟩
instance : RNot Bool := ⟨fun a => .ok (!a)⟩
instance {s w s' w'} : RCast (RInt s w) (RInt s' w') := ⟨RInt.cast⟩
instance {s w} : RCast Bool (RInt s w) := ⟨fun b => RInt.ofInt s w (if b then 1 else 0)⟩

section floats
variable [F : FloatOps]
instance : RArith F32 :=
  ⟨fun _ a b => .ok ⟨F.add32 a.bits b.bits⟩, fun _ a b => .ok ⟨F.sub32 a.bits b.bits⟩,
   fun _ a b => .ok ⟨F.mul32 a.bits b.bits⟩, fun _ a b => .ok ⟨F.div32 a.bits b.bits⟩⟩
instance : RArith F64 :=
  ⟨fun _ a b => .ok ⟨F.add64 a.bits b.bits⟩, fun _ a b => .ok ⟨F.sub64 a.bits b.bits⟩,
   fun _ a b => .ok ⟨F.mul64 a.bits b.bits⟩, fun _ a b => .ok ⟨F.div64 a.bits b.bits⟩⟩
instance : RNeg F32 := ⟨fun _ a => .ok ⟨F.neg32 a.bits⟩⟩
instance : RNeg F64 := ⟨fun _ a => .ok ⟨F.neg64 a.bits⟩⟩
instance : ROrd F64 :=
  ⟨fun a b => .ok (F.lt64 a.bits b.bits), fun a b => .ok (F.le64 a.bits b.bits),
   fun a b => .ok (F.lt64 b.bits a.bits), fun a b => .ok (F.le64 b.bits a.bits)⟩
instance : ROrd F32 :=
  ⟨fun a b => .ok (F.lt32 a.bits b.bits), fun a b => .ok (F.le32 a.bits b.bits),
   fun a b => .ok (F.lt32 b.bits a.bits), fun a b => .ok (F.le32 b.bits a.bits)⟩
instance : REq F64 := ⟨fun a b => .ok (F.eq64 a.bits b.bits)⟩
instance : REq F32 := ⟨fun a b => .ok (F.eq32 a.bits b.bits)⟩
instance : RCast F32 F64 := ⟨fun x => ⟨F.promote x.bits⟩⟩
instance : RCast F64 F32 := ⟨fun x => ⟨F.demote x.bits⟩⟩
instance : RCast F64 F64 := ⟨id⟩
instance : RCast F32 F32 := ⟨id⟩
end floats

end RotoV
