/-
C05 — "what a script reads from the host is a copy".

A store model of the LIR a script is lowered to, restricted to what matters for
the host's storage: the host's cells (the bytes of the context struct the host
passed and of the stored registered constants) and the frame's cells (stack
slots of the running script functions), pointers that know which of the two
they point into, and the memory vocabulary of `lir::Instruction`
(`Assign`, `ConstantAddress`, `Offset`, `Read`, `Write`, `Copy`, `Clone`,
`Initialize`/`InitString`, `Call`, `CallRuntime`, `Drop`, `Return`; arithmetic
and comparisons as `compute`; jumps and switches as `control`).

`Func.check` is a provenance check with a certificate (`Func.taint`: the
variables that may hold a pointer into host cells): pointers derived from
`ConstantAddress` / `$context` are only ever read through. `Props/C05Store`
proves it sound for every execution, calls included. The harness hands the
real LIR of every generated script (hook `verif_hooks::c05::mem_ops`) to
`Func.check` through the driver.

Outside this model (trusted): what Rust code called from a script does with
the pointers it is given (`Oracle.WellBehaved`), and heap objects with shared
ownership that a host value points to (a `List` is a reference: pushing to a
clone of a list constant is visible through the constant, by design).
Core Lean only.
-/
namespace RotoV.BoundaryStore

abbrev Var := Nat

/-- what a pointer points into -/
inductive Region
  | host
  | frame
  deriving DecidableEq, Repr, Inhabited

/-- run-time values: plain data, or a pointer into one of the two regions -/
inductive Val
  | scalar (n : Nat)
  | ptr (r : Region) (a : Nat)
  deriving DecidableEq, Repr, Inhabited

def Val.isHost : Val → Bool
  | .ptr .host _ => true
  | _ => false

/-- the data a value stands for when it is stored in a host cell -/
def Val.data : Val → Nat
  | .scalar n => n
  | .ptr _ a => a

inductive Operand
  | var (v : Var)
  | lit (n : Nat)
  deriving DecidableEq, Repr, Inhabited

/-- the memory vocabulary of `lir::Instruction` -/
inductive Instr
  /-- `Assign { to, val }` -/
  | assign (to : Var) (val : Operand)
  /-- `ConstantAddress { to, name }` -/
  | constAddr (to : Var) (c : Nat)
  /-- `Offset { to, from, offset }` -/
  | offset (to : Var) (src : Operand) (off : Nat)
  /-- `Read { to, from }` -/
  | read (to : Var) (src : Operand)
  /-- `Write { to, val }` -/
  | write (dst : Operand) (val : Operand)
  /-- `Copy { to, from, size }` -/
  | copy (dst src : Operand) (size : Nat)
  /-- `Clone { to, from, clone_fn }`: Rust code reads `from`, writes `to` -/
  | clone (dst src : Operand)
  /-- `CallRuntime`, `Initialize`, `InitString`, `FunctionAddress`: Rust code (or the
      code generator) gets these operands, may write through them, may define `to` -/
  | callRt (to : Option Var) (args : List Operand)
  /-- arithmetic, comparisons, `Eq { eq_fn }`: the result is plain data (the check wants
      plain operands, so no pointer arithmetic on a pointer into host cells hides here) -/
  | compute (to : Var) (args : List Operand)
  /-- `Call`: a script function; the context pointer is handed on -/
  | call (to : Option Var) (ctx : Operand) (fn : Nat) (args : List Operand) (retPtr : Option Operand)
  /-- `Drop { var }` -/
  | drop (v : Operand)
  /-- `Return(v)` -/
  | ret (v : Option Operand)
  /-- `Jump`, `Switch` -/
  | control
  deriving Repr, Inhabited

/-- a lowered function: its parameters, the variable holding the context
pointer, the return-pointer variable, its instructions (all blocks), and the
certificate: the variables that may hold a pointer into host cells -/
structure Func where
  id : Nat
  params : List Var
  ctxVar : Var
  body : List Instr
  taint : List Var
  deriving Repr, Inhabited

structure State where
  env : Var → Val
  host : Nat → Nat
  frame : Nat → Val
  /-- the value of the last `Return(Some v)` -/
  retv : Val

def State.get (σ : State) : Operand → Val
  | .var v => σ.env v
  | .lit n => .scalar n

def State.set (σ : State) (v : Var) (x : Val) : State :=
  { σ with env := fun w => if w = v then x else σ.env w }

/-- the cell `k` behind a pointer (a value that is no pointer reads as itself:
the model does not depend on what wild reads give) -/
def State.load (σ : State) (p : Val) (k : Nat) : Val :=
  match p with
  | .ptr .host a => .scalar (σ.host (a + k))
  | .ptr .frame a => σ.frame (a + k)
  | .scalar n => .scalar n

/-- store into the cell `k` behind a pointer: a pointer into host cells DOES
change the host's storage -/
def State.store (σ : State) (p : Val) (k : Nat) (x : Val) : State :=
  match p with
  | .ptr .host a => { σ with host := fun b => if b = a + k then x.data else σ.host b }
  | .ptr .frame a => { σ with frame := fun b => if b = a + k then x else σ.frame b }
  | .scalar _ => σ

/-- `Copy`: `size` cells, read before any is written -/
def State.copyCells (σ : State) (dst src : Val) : Nat → State
  | 0 => σ
  | n + 1 => (σ.copyCells dst src n).store dst n (σ.load src n)

def offsetVal : Val → Nat → Val
  | .ptr r a, k => .ptr r (a + k)
  | .scalar n, k => .scalar (n + k)

/-- what Rust code called from a script may do (the trusted part): it returns a
value and rewrites frame cells; it is never handed a pointer into host cells
(that is what `Func.check` guarantees) and so has none to write through -/
structure Oracle where
  ret : Val
  havoc : (Nat → Val) → (Nat → Val)

structure Oracle.WellBehaved (o : Oracle) : Prop where
  ret_clean : o.ret.isHost = false
  havoc_clean : ∀ m, (∀ a, (m a).isHost = false) → ∀ a, ((o.havoc m) a).isHost = false

def Instr.isSimple : Instr → Bool
  | .assign .. | .constAddr .. | .offset .. | .read .. | .write .. | .copy .. | .ret .. | .control => true
  | _ => false

def Instr.isRuntime : Instr → Bool
  | .clone .. | .callRt .. | .compute .. | .drop .. => true
  | _ => false

/-- instructions that involve no code outside the function -/
def stepSimple (i : Instr) (σ : State) : State :=
  match i with
  | .assign to val => σ.set to (σ.get val)
  | .constAddr to c => σ.set to (.ptr .host c)
  | .offset to src off => σ.set to (offsetVal (σ.get src) off)
  | .read to src => σ.set to (σ.load (σ.get src) 0)
  | .write dst val => σ.store (σ.get dst) 0 (σ.get val)
  | .copy dst src n => σ.copyCells (σ.get dst) (σ.get src) n
  | .ret (some v) => { σ with retv := σ.get v }
  | _ => σ

/-- instructions that run Rust code -/
def stepRt (i : Instr) (o : Oracle) (σ : State) : State :=
  match i with
  | .callRt (some to) _ => { σ with frame := o.havoc σ.frame }.set to o.ret
  | .compute to _ => σ.set to (.scalar o.ret.data)
  | .clone .. | .callRt none _ | .drop .. => { σ with frame := o.havoc σ.frame }
  | _ => σ

/-- the state in which a callee starts: its own variables, the caller's memory -/
def enter (g : Func) (ctx : Val) (args : List Val) (σ : State) : State :=
  { σ with
    env := fun v =>
      if v = g.ctxVar then ctx
      else match (g.params.zip args).find? (fun p => p.1 == v) with
        | some p => p.2
        | none => .scalar 0 }

/-- back in the caller: its variables, the memory the callee left, the result -/
def leave (σ σg : State) (to : Option Var) : State :=
  let σ' : State := { σ with host := σg.host, frame := σg.frame }
  match to with
  | some t => σ'.set t σg.retv
  | none => σ'

/-- the callee of `Call { func }` -/
def lookup (P : List Func) (fn : Nat) : Option Func := P.find? (fun g => g.id == fn)

/-- Executions of a function of program `P`: ANY sequence of its instructions
(so every path through its blocks, and more), script calls run the callee the
same way, Rust code is an arbitrary well-behaved oracle. -/
inductive Exec (P : List Func) : Func → State → State → Prop
  | done (f σ) : Exec P f σ σ
  | simple (f) {σ σ'} (i : Instr) (hi : i ∈ f.body) (hs : i.isSimple = true)
      (rest : Exec P f (stepSimple i σ) σ') : Exec P f σ σ'
  | rt (f) {σ σ'} (i : Instr) (hi : i ∈ f.body) (hr : i.isRuntime = true) (o : Oracle) (ho : o.WellBehaved)
      (rest : Exec P f (stepRt i o σ) σ') : Exec P f σ σ'
  | call (f) {σ σg σ'} (to ctx fn args retPtr) (hi : Instr.call to ctx fn args retPtr ∈ f.body)
      (g : Func) (hg : lookup P fn = some g)
      (run : Exec P g (enter g (σ.get ctx) ((args ++ retPtr.toList).map σ.get) σ) σg)
      (rest : Exec P f (leave σ σg to) σ') : Exec P f σ σ'

-- ------------------------------------------------------------------ the check

def tainted (T : List Var) : Operand → Bool
  | .var v => T.contains v
  | .lit _ => false

/-- one instruction against the certificate `T` (and, for a script call, the
callee's certificate: a pointer into host cells may be handed to a script
function — the generated clone functions take their source that way — if the
callee's certificate lists the parameter, so that the callee in turn only
reads through it) -/
def Instr.ok (P : List Func) (T : List Var) : Instr → Bool
  | .assign to val => !tainted T val || T.contains to
  | .constAddr to _ => T.contains to
  | .offset to src _ => !tainted T src || T.contains to
  | .read _ _ => true
  | .write dst val => !tainted T dst && !tainted T val
  | .copy dst _ _ => !tainted T dst
  | .clone dst _ => !tainted T dst
  | .callRt _ args => args.all (fun a => !tainted T a)
  | .compute _ args => args.all (fun a => !tainted T a)
  | .call _ _ fn args retPtr =>
    match lookup P fn with
    | none => (args ++ retPtr.toList).all (fun a => !tainted T a)
    | some g => (g.params.zip (args ++ retPtr.toList)).all (fun pa => !tainted T pa.2 || g.taint.contains pa.1)
  | .drop v => !tainted T v
  | .ret (some v) => !tainted T v
  | .ret none => true
  | .control => true

/-- Pointers into host cells are only read through: never written through,
never stored, never handed to other code, never dropped, never returned. -/
def Func.check (P : List Func) (f : Func) : Bool :=
  f.taint.contains f.ctxVar && f.body.all (Instr.ok P f.taint)

def checkProg (P : List Func) : Bool := P.all (Func.check P)

/-- the least certificate: close `{ctx} ∪ {ConstantAddress targets}` under
`Assign` / `Offset` (as many rounds as there are instructions) -/
def closeTaint (body : List Instr) (T : List Var) : List Var :=
  body.foldl (fun T i =>
    match i with
    | .constAddr to _ => if T.contains to then T else to :: T
    | .assign to val | .offset to val _ => if tainted T val && !T.contains to then to :: T else T
    | _ => T) T

def computeTaint (ctxVar : Var) (body : List Instr) (seed : List Var := []) : List Var :=
  (List.range (body.length + 1)).foldl (fun T _ => closeTaint body T) (ctxVar :: seed)

/-- parameters of callees that receive a certified variable of `f` -/
def handedOn (P : List Func) (f : Func) : List (Nat × Var) :=
  f.body.flatMap fun i =>
    match i with
    | .call _ _ fn args retPtr =>
      match lookup P fn with
      | some g => (g.params.zip (args ++ retPtr.toList)).filterMap fun pa => if tainted f.taint pa.2 then some (g.id, pa.1) else none
      | none => []
    | _ => []

/-- one round of the whole-program certificate: close every function, then seed
the callees' parameters -/
def taintRound (P : List Func) : List Func :=
  let P1 := P.map fun f => { f with taint := computeTaint f.ctxVar f.body f.taint }
  let seeds := P1.flatMap (handedOn P1)
  P1.map fun f => { f with taint := (seeds.filterMap fun s => if s.1 == f.id && !f.taint.contains s.2 then some s.2 else none).eraseDups ++ f.taint }

/-- the least whole-program certificate (as many rounds as there are functions, plus one) -/
def certify (P : List Func) : List Func :=
  (List.range (P.length + 2)).foldl (fun P _ => taintRound P) P

/-- the invariant: only certified variables hold pointers into host cells, and
neither a frame cell nor the returned value does -/
structure Consistent (T : List Var) (σ : State) : Prop where
  env_ok : ∀ v, (σ.env v).isHost = true → T.contains v = true
  frame_ok : ∀ a, (σ.frame a).isHost = false
  retv_ok : σ.retv.isHost = false

end RotoV.BoundaryStore
