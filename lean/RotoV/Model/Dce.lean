/-
  Dce: a model of `src/mir/dead_code.rs` over an abstract control-flow graph.

  * A CFG is the list of an item's basic blocks (`item.blocks`); the first block
    is the entry. A block is a label and an instruction list. Instructions are
    `other` (anything that is not a terminator: Assign / SetDiscriminant / Drop,
    payload opaque), `jump`, `switch` (value ↦ label table plus optional
    default) and `ret`.
  * `processBlock` is `process_block`: scan to the first terminator, add its
    targets to the state, truncate after it; a block without terminator is the
    `ice!` (`panic`).
  * `loop` / `dce` is `process_item`: the worklist `while i < state.len()` over
    the growing, duplicate-free `State(Vec<LabelRef>)`, `find(..).unwrap()` of
    the block (a missing block is the `unwrap` panic), then `retain`.
    The Rust loop has no static bound; the model runs it with fuel
    `blocks.len() + 1` and `Props/C01Dce.lean` proves the fuel is never
    exhausted (every iteration consumes a distinct block label).
  * `exec` is a small-step execution of a CFG, parametric in the meaning of the
    opaque instructions (`Sem`): what `other` does to the state (or gets stuck),
    which integer a `switch` examines, what `ret` returns.

  Core Lean only (linked into the driver).
-/

namespace RotoV.Dce

abbrev Label := Nat

/-- MIR instructions as dead-code elimination sees them. `ι` is the payload of
    non-terminators, `κ` the examinee of a switch, `ρ` the returned variable. -/
inductive Instr (ι κ ρ : Type)
  | other (i : ι)
  | jump (l : Label)
  | switch (x : κ) (branches : List (Nat × Label)) (default : Option Label)
  | ret (v : ρ)
  deriving Repr, DecidableEq

structure Block (ι κ ρ : Type) where
  label : Label
  instrs : List (Instr ι κ ρ)
  deriving Repr, DecidableEq

abbrev Cfg (ι κ ρ : Type) := List (Block ι κ ρ)

section
variable {ι κ ρ : Type}

/-- `item.blocks.iter().find(|b| b.label == lbl)` -/
def findBlock (cfg : Cfg ι κ ρ) (l : Label) : Option (Block ι κ ρ) :=
  cfg.find? (fun b => b.label == l)

/-! ### The pass -/

/-- `State::add`: push unless present. -/
def add (st : List Label) (l : Label) : List Label :=
  if st.contains l then st else st ++ [l]

def addBranches (st : List Label) : List (Nat × Label) → List Label
  | [] => st
  | (_, l) :: rest => addBranches (add st l) rest

def addDefault (st : List Label) : Option Label → List Label
  | none => st
  | some l => add st l

/-- `process_block`: `none` is the `ice!("Malformed MIR: block ends without a
    terminating instruction")`. Returns the new state and the truncated block. -/
def processBlock (st : List Label) :
    List (Instr ι κ ρ) → Option (List Label × List (Instr ι κ ρ))
  | [] => none
  | .other i :: rest =>
    match processBlock st rest with
    | some (st', is) => some (st', .other i :: is)
    | none => none
  | .jump l :: _ => some (add st l, [.jump l])
  | .switch x br d :: _ => some (addDefault (addBranches st br) d, [.switch x br d])
  | .ret v :: _ => some (st, [.ret v])

/-- `*item.blocks.iter_mut().find(|b| b.label == lbl).unwrap() = …` : overwrite
    the instructions of the first block labelled `l`. -/
def setBlock (cfg : Cfg ι κ ρ) (l : Label) (is : List (Instr ι κ ρ)) : Cfg ι κ ρ :=
  match cfg with
  | [] => []
  | b :: rest => if b.label == l then { b with instrs := is } :: rest else b :: setBlock rest l is

inductive PassRes (α : Type)
  | ok (a : α)
  | panic
  | fuel
  deriving Repr, DecidableEq

/-- The `while i < state.len()` loop of `process_item`. -/
def loop : Nat → Nat → List Label → Cfg ι κ ρ → PassRes (List Label × Cfg ι κ ρ)
  | 0, i, st, cfg => if i < st.length then .fuel else .ok (st, cfg)
  | fuel + 1, i, st, cfg =>
    if h : i < st.length then
      match findBlock cfg st[i] with
      | none => .panic                         -- `.unwrap()` on `None`
      | some b =>
        match processBlock st b.instrs with
        | none => .panic                       -- `ice!`
        | some (st', is) => loop fuel (i + 1) st' (setBlock cfg st[i] is)
    else .ok (st, cfg)

/-- `item.blocks.retain(|b| state.contains(&b.label))` -/
def retain (st : List Label) (cfg : Cfg ι κ ρ) : Cfg ι κ ρ :=
  cfg.filter (fun b => st.contains b.label)

/-- `process_item`. `item.blocks[0]` on an empty vector is an index panic. -/
def dce (cfg : Cfg ι κ ρ) : PassRes (Cfg ι κ ρ) :=
  match cfg with
  | [] => .panic
  | b :: _ =>
    match loop (cfg.length + 1) 0 [b.label] cfg with
    | .ok (st, cfg') => .ok (retain st cfg')
    | .panic => .panic
    | .fuel => .fuel

/-! ### Execution, parametric in the instruction semantics -/

structure Sem (ι κ ρ σ α : Type) where
  /-- a non-terminator transforms the state, or the program stops abnormally -/
  exec : ι → σ → Option σ
  /-- the integer value a switch examines -/
  scrut : κ → σ → Nat
  /-- the value a return hands back -/
  result : ρ → σ → α

inductive Out (α : Type)
  | done (a : α)
  /-- abnormal stop: a stuck instruction, a jump to a missing block, a switch
      without matching branch or default, or falling off the end of a block -/
  | stuck
  | fuel
  deriving Repr, DecidableEq

/-- The successor a `switch` selects: the first branch whose key equals the
    examined value, else the default. -/
def select (n : Nat) (branches : List (Nat × Label)) (default : Option Label) : Option Label :=
  match branches.find? (fun p => p.1 == n) with
  | some p => some p.2
  | none => default

variable {σ α : Type}

/-- Run an instruction list inside `cfg`; every instruction costs one unit of fuel. -/
def exec (sem : Sem ι κ ρ σ α) (cfg : Cfg ι κ ρ) : Nat → List (Instr ι κ ρ) → σ → Out α
  | 0, _, _ => .fuel
  | _ + 1, [], _ => .stuck
  | f + 1, .other i :: rest, s =>
    match sem.exec i s with
    | some s' => exec sem cfg f rest s'
    | none => .stuck
  | f + 1, .jump l :: _, s =>
    match findBlock cfg l with
    | some b => exec sem cfg f b.instrs s
    | none => .stuck
  | f + 1, .switch x br d :: _, s =>
    match select (sem.scrut x s) br d with
    | some l =>
      match findBlock cfg l with
      | some b => exec sem cfg f b.instrs s
      | none => .stuck
    | none => .stuck
  | _ + 1, .ret v :: _, s => .done (sem.result v s)

/-- Run an item from its entry block. -/
def run (sem : Sem ι κ ρ σ α) (cfg : Cfg ι κ ρ) (fuel : Nat) (s : σ) : Out α :=
  match cfg with
  | [] => .stuck
  | b :: _ => exec sem cfg fuel b.instrs s

/-! ### The postcondition checked on the real compiler's output -/

def isTerminator : Instr ι κ ρ → Bool
  | .other _ => false
  | _ => true

/-- one terminator, and it is the last instruction -/
def blockOk (b : Block ι κ ρ) : Bool :=
  match b.instrs.reverse with
  | [] => false
  | t :: before => isTerminator t && before.all (fun i => !isTerminator i)

end

end RotoV.Dce
