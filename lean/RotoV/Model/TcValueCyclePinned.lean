/- Pinned skeleton of src/typechecker/value_cycle.rs (find_compilation_order, tarjan, strongly_connect,
   State::update_lowlink, fields of VertexState / State) the model Model/Tarjan.lean was written from;
   Props/C07.lean proves Generated/C07Cycle = this by rfl, so a changed statement breaks an obligation.
   Regenerate with (in the verification directory):
     ./target/debug/rotov-extract <repo> lean/RotoV/Generated c07cycle && python3 tools/c07_pin_cycle.py
   Do not edit by hand. -/
namespace RotoV.TcValueCyclePinned

/-- find_compilation_order (TypeChecker), tarjan, strongly_connect, State::update_lowlink: statements and control flow in source order, locals alpha-renamed; and the fields of VertexState / State -/
def cycleSkeletons : List (String × List String) := [
  ("find_compilation_order", [
    "for(($0,$1)<-self.references.references)",
    "$2=self.type_info.scope_graph.get_declaration(*$0)",
    "if(letsuper::scope::DeclarationKind::Value(ValueKind::Constant,_)=$2.kind&&$1.contains($0))",
    "return",
    "error_recursive_constant",
    "end",
    "end",
    "$3=tarjan(self.references.references)",
    "for($4<-$3)",
    "if($4.len()>1)",
    "for($5<-$4)",
    "$6=self.type_info.scope_graph.get_declaration(*$5)",
    "if(letsuper::scope::DeclarationKind::Value(ValueKind::Constant,_)=$6.kind)",
    "return",
    "error_recursive_constant",
    "end",
    "end",
    "end",
    "end",
    "context_check()",
    "Ok($3.into_iter().flatten().collect())"
  ]),
  ("tarjan", [
    "$0=State::<V>::new()",
    "for($1<-edges.keys())",
    "if(!$0.vertices.contains_key($1))",
    "strongly_connect(edges,$0,*$1)",
    "end",
    "end",
    "value($0.components)"
  ]),
  ("strongly_connect", [
    "$0=state.next_index",
    "state.next_index+=1",
    "state.vertices.insert(v,VertexState{index:$0,lowlink:$0})",
    "state.stack.push(v)",
    "for($1<-references.get(v).into_iter().flatten())",
    "if(!state.vertices.contains_key($1))",
    "strongly_connect(references,state,*$1)",
    "state.update_lowlink(v,state.vertices[$1].lowlink)",
    "else",
    "if(state.stack.contains($1))",
    "state.update_lowlink(v,state.vertices[$1].index)",
    "end",
    "end",
    "end",
    "$2=state.vertices[v]",
    "if($2.index==$2.lowlink)",
    "$3=Vec::new()",
    "while(letSome($4)=state.stack.pop())",
    "$3.push($4)",
    "if($4==v)",
    "break",
    "end",
    "end",
    "state.components.push($3)",
    "end"
  ]),
  ("update_lowlink", [
    "$0=self.vertices.get_mut(v).unwrap().lowlink",
    "*$0=(*$0).min(new)"
  ]),
  ("struct VertexState", [
    "index:usize",
    "lowlink:usize"
  ]),
  ("struct State", [
    "stack:Vec<V>",
    "vertices:BTreeMap<V,VertexState>",
    "next_index:usize",
    "components:Vec<Vec<V>>"
  ])
]

end RotoV.TcValueCyclePinned
