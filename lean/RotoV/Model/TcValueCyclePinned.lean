/- Pinned skeleton of src/typechecker/value_cycle.rs (find_compilation_order, tarjan, strongly_connect,
   State::update_lowlink, fields of VertexState / State) the model Model/Tarjan.lean was written from;
   Props/C07.lean proves Generated/C07Cycle = this by rfl, so a changed statement breaks an obligation.
   Regenerate with (in the verification directory):
     ./target/debug/rotov-extract <repo> lean/RotoV/Generated c07cycle && python3 tools/c07_pin_cycle.py
   Do not edit by hand. -/
namespace RotoV.TcValueCyclePinned

/-- find_compilation_order (TypeChecker), tarjan, strongly_connect, State::update_lowlink: statements and control flow in source order, locals alpha-renamed; and the fields of VertexState / State -/
def cycleSkeletons : List (String × List String) := [
  ("find_compilation_order", [
    "for(($0,$1)<-self.references.references)",
    "$2=self.type_info.scope_graph.get_declaration(*$0)",
    "if(letsuper::scope::DeclarationKind::Value(ValueKind::Constant,_)=$2.kind&&$1.contains($0))",
    "return",
    "error_recursive_constant",
    "end",
    "end",
    "$3=tarjan(self.references.references)",
    "for($4<-$3)",
    "if($4.len()>1)",
    "for($5<-$4)",
    "$6=self.type_info.scope_graph.get_declaration(*$5)",
    "if(letsuper::scope::DeclarationKind::Value(ValueKind::Constant,_)=$6.kind)",
    "return",
    "error_recursive_constant",
    "end",
    "end",
    "end",
    "end",
    "context_check()",
    "Ok($3.into_iter().flatten().collect())"
  ]),
  ("tarjan", [
    "$0=State::<V>::new()",
    "for($1<-edges.keys())",
    "if(!$0.vertices.contains_key($1))",
    "strongly_connect(edges,$0,*$1)",
    "end",
    "end",
    "value($0.components)"
  ]),
  ("strongly_connect", [
    "$0=state.next_index",
    "state.next_index+=1",
    "state.vertices.insert(v,VertexState{index:$0,lowlink:$0})",
    "state.stack.push(v)",
    "for($1<-references.get(v).into_iter().flatten())",
    "if(!state.vertices.contains_key($1))",
    "strongly_connect(references,state,*$1)",
    "$2=state.vertices[$1].lowlink",
    "state.update_lowlink(v,$2)",
    "else",
    "if(state.stack.contains($1))",
    "$3=state.vertices[$1].index",
    "state.update_lowlink(v,$3)",
    "end",
    "end",
    "end",
    "$4=state.vertices[v]",
    "if($4.index==$4.lowlink)",
    "$5=Vec::new()",
    "while(letSome($6)=state.stack.pop())",
    "$5.push($6)",
    "if($6==v)",
    "break",
    "end",
    "end",
    "state.components.push($5)",
    "end"
  ]),
  ("update_lowlink", [
    "$0=self.vertices.get_mut(v).unwrap().lowlink",
    "*$0=(*$0).min(new)"
  ]),
  ("struct VertexState", [
    "index:usize",
    "lowlink:usize"
  ]),
  ("struct State", [
    "stack:Vec<V>",
    "vertices:BTreeMap<V,VertexState>",
    "next_index:usize",
    "components:Vec<Vec<V>>"
  ])
]

end RotoV.TcValueCyclePinned
