/-
  C01CgBase: the interface of the Cranelift function builder that the control-flow arms of
  `FuncGen::instruction` (src/codegen/mod.rs) are written against, as far as the scalar LIR of
  `Model/C01Lir` uses it.  `Generated/C01Cg` (translator target `c01cg`) re-translates the arms
  `Jump`, `Switch`, `Assign`, `Return(Some(v))`, `Return(None)` statement by statement into scripts
  over THIS interface; `Model/C01Cg` assembles them into the code generator of a function and
  gives the emitted code its semantics.

  What is emitted (`CIns`): cranelift-frontend's view of a function — `Variable`s that are defined
  (`def_var`) and used (`use_var`), SSA constants, and per block one terminator:
    * `jump b` — `self.ins().jump(block, &[])`;
    * `switch v cases otherwise` — a `cranelift_frontend::Switch` with the entries `cases` (in the
      order they were set) emitted on the value `v` with the fallback block `otherwise`;
    * `brif v thn els` — not produced by the unchanged tree; it is here so that a rewrite of the
      `Switch` arm into a conditional branch is still a well-typed definition whose theorem fails;
    * `ret vs` — `return_`.
  A block of CLIF is named by the LIR label it was created for (`get_block` is a lookup in
  `block_map`, which hands out one fresh block per label: injective).

  Trusted reading of cranelift-frontend 0.127 (`switch.rs`): `Switch::set_entry` panics when the
  index is already present (`none`); `Switch::emit(val, otherwise)` transfers control to the block
  entered for the index equal to `val`, and to `otherwise` when there is none.  Core Lean only.
-/
import RotoV.Model.C01Lir
import RotoV.Model.Repr

namespace RotoV.C01CgBase
open RotoV RotoV.Gen RotoV.C01Lir

/-- what `FuncGen::operand` yields: the current value of a variable, or an SSA constant -/
inductive COp
  | use (x : Name)
  | const (c : CVal)
  deriving Repr, Inhabited, DecidableEq

inductive CIns
  /-- `def_var(variable(to, ty), v)` -/
  | defVar (to : Name) (ty : CTy) (v : COp)
  /-- a scalar instruction: the generated arm of `FuncGen::instruction` for `i` on the two operands,
      the result defined as `to` -/
  | instr (to : Name) (i : Instruction) (l r : COp)
  | not (to : Name) (v : COp)
  | neg (to : Name) (v : COp)
  | call (to : Option (Name × CTy)) (f : String) (args : List COp)
  | jump (b : Nat) (args : List COp)
  | switch (v : COp) (cases : List (Nat × Nat)) (otherwise : Nat)
  | brif (v : COp) (thn els : Nat)
  | ret (vs : List COp)
  deriving Repr, Inhabited

/-- the `IrType` of a type of the fragment -/
def irOf : LTy → IrType
  | .i32 => .I32
  | .bool => .Bool

/-- a `cranelift_frontend::Switch` under construction: its entries in the order they were set -/
structure SwitchB where
  cases : List (Nat × Nat)
  deriving Repr, Inhabited

def SwitchB.new : SwitchB := ⟨[]⟩

/-- `switch.set_entry(index, block)`: panics on an index that is already there -/
def SwitchB.set_entry (s : SwitchB) (index : Nat) (block : Nat) : Option SwitchB :=
  if s.cases.any (fun p => p.1 == index) then none else some ⟨s.cases ++ [(index, block)]⟩

namespace B

/-- `&mut self.builder` -/
def builder : Unit := ()

/-- `self.get_block(label)`: the block created for the label -/
def get_block (label : Nat) : Nat := label

/-- `idx as u128` on a `usize`: widening, the value is kept -/
def as_u128 (idx : Nat) : Nat := idx

section
variable [FloatOps]

/-- `self.operand(v)`: `use_var` of a place; for a constant the SSA constant the GENERATED
    `integer_operand` + `iconst` make of it (`jitRepr`).  The second component (the Cranelift type)
    is not used by the arms of this layer.  `LOp.int n` stands for `IrValue::I32(n)`: an `n` that is
    no `i32` is outside the model. -/
def operand (v : LOp) : Option (COp × Unit) :=
  match v with
  | .var x => some (.use x, ())
  | .int n => if C01MirRun.inI32 n then (jitRepr (.I32 (wrap .Signed .I32 n))).map (fun c => (.const c, ())) else none
  | .bool b => (jitRepr (.Bool b)).map (fun c => (.const c, ()))

/-- `self.module.cranelift_type(ty)`: the GENERATED table -/
def cranelift_type (ty : LTy) : Option CTy :=
  match OpTables.cranelift_type false (irOf ty) with
  | .ok c => some c
  | .panic => none

end

/-- `self.variable(to, ty)`: the frontend variable of `to`, declared with `ty` -/
def variable_ (to : Name) (ty : CTy) : Name × CTy := (to, ty)

/-- `self.def(var, val)` -/
def def_ (var : Name × CTy) (val : COp) : Option CIns := some (.defVar var.1 var.2 val)

/-- `self.ins().jump(block, args)` -/
def jump (block : Nat) (args : List COp) : Option CIns := some (.jump block args)

/-- `self.ins().return_(vals)` -/
def return_ (vals : List COp) : Option CIns := some (.ret vals)

/-- `self.ins().brif(c, thn, &[], els, &[])` -/
def brif (c : COp) (thn els : Nat) : Option CIns := some (.brif c thn els)

end B

/-- `switch.emit(builder, val, otherwise)` -/
def SwitchB.emit (s : SwitchB) (_b : Unit) (val : COp) (otherwise : Nat) : Option CIns :=
  some (.switch val s.cases otherwise)

end RotoV.C01CgBase
