/-
  C01Resolve: the common fragment of C01's reference interpreter (`Model/Spec`,
  named variables with shadowing, eight integer types, floats) and of the core
  language the structured lowering model is defined on (`Model/TraceSpec`,
  resolved variables, `i32` / `bool` / `()` scalars), as a *translation*
  `resolve : List Spec.FnDef → Option (List TraceSpec.FnDef)`.

  It does what the compiler's name resolution does before lowering
  (typechecker scopes → `mir::Var`): every declaration becomes a number.  The
  number of a variable is its *level*: the number of variables visible when it
  is declared (parameters are 0, 1, …), so all visible variables have distinct
  numbers and a name that shadows another one gets a different number.
  Functions are referred to by their index in the program; `main` must be the
  last function (`TraceSpec.run` calls the last one).

  Outside the fragment (`none`): a type other than `i32`, `bool`, `()`; `/` and
  `%` (their trap points are C10's; `TraceSpec` has no trapping operator); a
  compound assignment with a non-arithmetic operator; an `if` without `else`
  whose block has a final expression (TraceSpec demands the value `()` there,
  Spec discards any value); values of `enum` types and `match`.

  `Lemmas/C01Agree.lean` proves that on this fragment the two reference
  semantics agree (Spec's value is TraceSpec's value); `Props/C01Lower.lean`
  composes that with C08's simulation theorem for `LowerS`.

  Core Lean only (linked into the driver executable).
-/
import RotoV.Model.Spec
import RotoV.Model.TraceSpec

namespace RotoV.C01Resolve
open RotoV

/-- A value of the fragment as a `TraceSpec` value. -/
def encVal : Spec.Val → Option TraceSpec.Val
  | .int .i32 v => some (.int v)
  | .bool b => some (.bool b)
  | .unit => some .unit
  | _ => none

/-- Types of the fragment. -/
def tyOk : Spec.Ty → Bool
  | .int .i32 => true
  | .bool => true
  | .unit => true
  | _ => false

/-- A literal of the fragment: an `i32` literal holds a value of the type's range. -/
def litOk : Spec.Val → Bool
  | .int .i32 v => Spec.ITy.i32.inRange v
  | .bool _ => true
  | .unit => true
  | _ => false

/-- The strict binary operators both languages have. -/
def encOp : Spec.BinOp → Option TraceSpec.BinOp
  | .add => some .add | .sub => some .sub | .mul => some .mul
  | .eq => some .eq | .ne => some .ne
  | .lt => some .lt | .le => some .le | .gt => some .gt | .ge => some .ge
  | .div | .mod | .and | .or => none

/-- The number of the innermost visible declaration of `x`: its level. -/
def resolveVar : List String → String → Option Nat
  | [], _ => none
  | y :: ρ, x => if x = y then some ρ.length else resolveVar ρ x

/-- The index of the first function called `f`. -/
def fnIndex : List String → String → Option Nat
  | [], _ => none
  | g :: rest, f => if g = f then some 0 else (fnIndex rest f).map (· + 1)

/-- the scope after the statements of a block: every `let` pushes its name -/
def scopeAfter : List String → List Spec.Stmt → List String
  | ρ, [] => ρ
  | ρ, .let_ x _ :: rest => scopeAfter (x :: ρ) rest
  | ρ, .expr _ :: rest => scopeAfter ρ rest

mutual
/-- `trE fs ρ e`: the expression with every name resolved; `fs` are the names of the
    program's functions in order, `ρ` the visible variables, innermost first. -/
def trE (fs : List String) : List String → Spec.Expr → Option TraceSpec.Expr
  | _, .lit v => if litOk v then (encVal v).map .lit else none
  | ρ, .var x => (resolveVar ρ x).map .var
  | ρ, .neg e => (trE fs ρ e).map .neg
  | ρ, .not e => (trE fs ρ e).map .not
  | ρ, .bin op l r =>
    match trE fs ρ l, trE fs ρ r with
    | some l', some r' =>
      match op with
      | .and => some (.and l' r')
      | .or => some (.or l' r')
      | op => (encOp op).map (fun op' => .bin op' l' r')
    | _, _ => none
  | ρ, .ite c t none =>
    match trE fs ρ c, trBU fs ρ t with
    | some c', some t' => some (.if1 c' t')
    | _, _ => none
  | ρ, .ite c t (some e) =>
    match trE fs ρ c, trB fs ρ t, trB fs ρ e with
    | some c', some t', some e' => some (.ite c' t' e')
    | _, _, _ => none
  | ρ, .while c b =>
    match trE fs ρ c, trB fs ρ b with
    | some c', some b' => some (.while c' b')
    | _, _ => none
  | ρ, .block b => (trB fs ρ b).map .block
  | ρ, .call f args =>
    match fnIndex fs f, trArgs fs ρ args with
    | some i, some args' => some (.call i args')
    | _, _ => none
  | ρ, .assign x e =>
    match resolveVar ρ x, trE fs ρ e with
    | some i, some e' => some (.assign i e')
    | _, _ => none
  | ρ, .cassign op x e =>
    match encOp op, resolveVar ρ x, trE fs ρ e with
    | some op', some i, some e' => if op'.isArith then some (.cassign op' i e') else none
    | _, _, _ => none
  | _, .ret none => some (.ret (.lit .unit))
  | ρ, .ret (some e) => (trE fs ρ e).map .ret
  -- values of enum types and `match` are outside the fragment
  | _, .ctor _ _ _ => none
  | _, .match_ _ _ => none

/-- call arguments, left to right -/
def trArgs (fs : List String) : List String → List Spec.Expr → Option TraceSpec.Exprs
  | _, [] => some .nil
  | ρ, e :: es =>
    match trE fs ρ e, trArgs fs ρ es with
    | some e', some es' => some (.cons e' es')
    | _, _ => none

/-- a block: its final expression (if any) under the scope the `let`s build, after its statements -/
def trB (fs : List String) : List String → Spec.Block → Option TraceSpec.Block
  | ρ, .mk stmts none => trStmts fs ρ stmts .nil
  | ρ, .mk stmts (some e) =>
    match trE fs (scopeAfter ρ stmts) e with
    | some e' => trStmts fs ρ stmts (.last e')
    | none => none

/-- the block of an `if` without `else`: it must have no final expression -/
def trBU (fs : List String) : List String → Spec.Block → Option TraceSpec.Block
  | ρ, .mk stmts none => trStmts fs ρ stmts .nil
  | _, .mk _ (some _) => none

/-- the statements of a block, followed by the (translated) rest `tl` -/
def trStmts (fs : List String) : List String → List Spec.Stmt → TraceSpec.Block → Option TraceSpec.Block
  | _, [], tl => some tl
  | ρ, .let_ x e :: rest, tl =>
    match trE fs ρ e, trStmts fs (x :: ρ) rest tl with
    | some e', some rest' => some (.let_ ρ.length e' rest')
    | _, _ => none
  | ρ, .expr e :: rest, tl =>
    match trE fs ρ e, trStmts fs ρ rest tl with
    | some e', some rest' => some (.stmt e' rest')
    | _, _ => none
end

/-- parameters are the variables 0, 1, … (`Spec.bindParams` pushes them in order) -/
def trFn (fs : List String) (fd : Spec.FnDef) : Option TraceSpec.FnDef :=
  if fd.params.all (fun p => tyOk p.2) && tyOk fd.ret then
    (trB fs (fd.params.map Prod.fst).reverse fd.body).map (fun b => ⟨List.range fd.params.length, b⟩)
  else none

def trFns (fs : List String) : List Spec.FnDef → Option (List TraceSpec.FnDef)
  | [] => some []
  | fd :: rest =>
    match trFn fs fd, trFns fs rest with
    | some fd', some rest' => some (fd' :: rest')
    | _, _ => none

/-- is `main` the last function, and the only one of that name? -/
def mainLast (names : List String) : Bool :=
  names.length ≠ 0 && fnIndex names "main" == some (names.length - 1)

/-- The whole program: every function resolved; `main` last. -/
def resolve (fns : List Spec.FnDef) : Option (List TraceSpec.FnDef) :=
  let names := fns.map (·.name)
  if mainLast names then trFns names fns else none

/-- the arguments of a call of `main` -/
def encArgs : List Spec.Val → Option (List TraceSpec.Val)
  | [] => some []
  | v :: vs =>
    match encVal v, encArgs vs with
    | some v', some vs' => some (v' :: vs')
    | _, _ => none

end RotoV.C01Resolve
