/-
  LayoutKind — C02: the kinds of `mir::Ty` the lowerer's small decision
  functions (`Pool::is_reference_type`, `Lowerer::lower_type`) distinguish,
  and the classes of `IrType` the generated functions care about.  The
  decision functions themselves are `RotoV.Gen.LayoutDecide`, regenerated from
  the source on every run over these two enumerations; the translator
  (`extract/src/targets/c02.rs`, target `layoutdecide`) checks that the source
  treats all members of a kind alike.

  Core Lean only: linked into the driver.
-/
import RotoV.Model.RustStd

namespace RotoV.LayoutKind

/-- `mir::Ty` up to what `is_reference_type` / `lower_type` look at -/
inductive Kind where
  /-- `Ty::Unit` -/
  | unit
  /-- `Ty::Never` -/
  | never
  /-- `Ty::Record(_)` -/
  | record
  /-- `Ty::Enum(_)` -/
  | enum
  /-- `Ty::Primitive(Int(..) | Bool | Char | Asn)` -/
  | int
  /-- `Ty::Primitive(Float(_))` -/
  | float
  /-- `Ty::Primitive(String)` -/
  | string
  /-- `Ty::Primitive(IpAddr | Prefix)` -/
  | copyRef
  /-- `Ty::List(_)` -/
  | list
  /-- `Ty::Runtime(_)`: a registered type -/
  | runtime
  deriving DecidableEq, Repr, Inhabited

/-- `IrType` up to how `call_eq_of` compares it: `IntCmp`, `FloatCmp`, or a
    pointer handed to an eq function -/
inductive IrClass where
  | int
  | float
  | pointer
  deriving DecidableEq, Repr, Inhabited

end RotoV.LayoutKind
