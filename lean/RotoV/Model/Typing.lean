/-
  Typing: the *documented* typing rules of Roto's core language as an
  executable, declarative checker `D` (C07's oracle for "this script is
  ill-typed").

  `D` is deliberately an OVER-approximation of typability: wherever the manual
  leaves a type to inference (unsuffixed literals, `[]`, `Option.None`,
  un-annotated `let`), `D` uses a *flexible* type (`anyInt`, `anyFloat`,
  `unknown`, `never`) that is compatible with every type it could stand for and
  forgets constraints between uses.  So
      D rejects p   ⇒   p has no typing under the documented rules
  (a mutant counts only then), while `D accepts p` claims nothing by itself.
  The rules (docs/source/reference/language_reference.md):
    * operands of `&& || !` and conditions/guards are `bool`;
    * `== !=` need operands of one type; `< <= > >=` numeric operands of one
      type; `+ - * /` numeric operands of one type (`+` also String+String,
      List+List); `%` integers only; unary `-` signed integers and floats only;
    * a `let`/assignment/argument/field/element/returned value has the
      declared type; argument counts match; names are in scope; record
      literals give every field exactly once; only local variables (and their
      fields) can be assigned;
    * `match` works on enums only, names existing variants with the right
      number of binders, is exhaustive and has no unreachable arm;
    * `while`/`for`/`if` without else/assignments are of type `()`;
    * `return` needs a function, `accept`/`reject` a Verdict-returning item,
      `?` an Option-returning function;
    * a name is declared once per scope (function parameters and the body's
      top level share a scope, as do a `for` variable / match binders and the
      body they belong to); types and constants are not recursive.
  Names are numbers (variables, constants, functions, types, fields, variants
  live in separate number spaces; the harness prints them as `v3`, `C1`, `f2`,
  `T0`, `a4`, `K2`).

  Core Lean only (linked into the driver executable).
-/
namespace RotoV.Typing

inductive ITy | u8 | u16 | u32 | u64 | i8 | i16 | i32 | i64
  deriving DecidableEq, Repr, Inhabited

def ITy.signed : ITy → Bool
  | .i8 | .i16 | .i32 | .i64 => true
  | _ => false

/-- Types.  The last four are *flexible* and never written in a script. -/
inductive Ty
  | int (t : ITy) | f32 | f64 | bool | string | unit
  | opt (t : Ty) | list (t : Ty) | named (n : Nat) | verdict (a r : Ty)
  /-- other built-in ground types: 0 `char`, 1 `IpAddr`, 2 `Prefix`, 3 `Asn` -/
  | prim (k : Nat)
  | anyInt (signedOnly : Bool) | anyFloat | unknown | never
  deriving DecidableEq, Repr, Inhabited

/-- `compat a b`: some ground type is an instance of both. -/
def compat : Ty → Ty → Bool
  | .unknown, _ => true
  | .never, _ => true
  | _, .unknown => true
  | _, .never => true
  | .anyInt _, .anyInt _ => true
  | .anyInt s, .int t => !s || t.signed
  | .int t, .anyInt s => !s || t.signed
  | .anyFloat, .anyFloat => true
  | .anyFloat, .f32 => true
  | .anyFloat, .f64 => true
  | .f32, .anyFloat => true
  | .f64, .anyFloat => true
  | .opt a, .opt b => compat a b
  | .list a, .list b => compat a b
  | .verdict a b, .verdict c d => compat a c && compat b d
  | .int a, .int b => a == b
  | .f32, .f32 => true
  | .f64, .f64 => true
  | .bool, .bool => true
  | .string, .string => true
  | .unit, .unit => true
  | .named a, .named b => a == b
  | .prim a, .prim b => a == b
  | _, _ => false

/-- The more specific of two compatible types. -/
def meet : Ty → Ty → Ty
  | .unknown, b => b
  | .never, b => b
  | a, .unknown => a
  | a, .never => a
  | .anyInt s, .anyInt s' => .anyInt (s || s')
  | .anyInt _, b => b
  | a, .anyInt _ => a
  | .anyFloat, b => b
  | a, .anyFloat => a
  | .opt a, .opt b => .opt (meet a b)
  | .list a, .list b => .list (meet a b)
  | .verdict a b, .verdict c d => .verdict (meet a c) (meet b d)
  | a, _ => a

def isNumeric : Ty → Bool
  | .int _ | .f32 | .f64 | .anyInt _ | .anyFloat | .unknown | .never => true
  | _ => false

def isInt : Ty → Bool
  | .int _ | .anyInt _ | .unknown | .never => true
  | _ => false

/-- may be negated: signed integers and floats -/
def isNegatable : Ty → Bool
  | .int t => t.signed
  | .f32 | .f64 | .anyInt _ | .anyFloat | .unknown | .never => true
  | _ => false

inductive BinOp
  | add | sub | mul | div | mod
  | eq | ne | lt | le | gt | ge
  | and | or
  deriving DecidableEq, Repr, Inhabited

/-- Result type of a binary operator on operand types, or `none` when the
    documented rules forbid it. -/
def binopTy (op : BinOp) (l r : Ty) : Option Ty :=
  match op with
  | .and | .or => if compat l .bool && compat r .bool then some .bool else none
  | .eq | .ne => if compat l r then some .bool else none
  | .lt | .le | .gt | .ge =>
    if isNumeric l && isNumeric r && compat l r then some .bool else none
  | .add =>
    if isNumeric l && isNumeric r && compat l r then some (meet l r)
    else if compat l .string && compat r .string then some .string
    else match l, r with
      | .list a, .list b => if compat a b then some (.list (meet a b)) else none
      | .list a, .unknown | .list a, .never => some (.list a)
      | .unknown, .list b | .never, .list b => some (.list b)
      | _, _ => none
  | .sub | .mul | .div =>
    if isNumeric l && isNumeric r && compat l r then some (meet l r) else none
  | .mod => if isInt l && isInt r && compat l r then some (meet l r) else none

/-- does `l op r` certainly diverge, given that `l` / `r` do? `&&` and `||`
    short-circuit: the right operand may not be evaluated at all. -/
def binDiv (op : BinOp) (dl dr : Bool) : Bool :=
  match op with
  | .and | .or => dl
  | _ => dl || dr

def negTy (t : Ty) : Option Ty :=
  if isNegatable t then
    some (match t with | .anyInt _ => .anyInt true | t => t)
  else none

/-- Built-in methods the generator uses (documented in the reference of `List[T]`
    and `String`): parameter types and result for a receiver of type `recv`.
    Method numbers: 0 `len` 1 `push` 2 `get` 3 `contains` 4 `is_empty`
    5 `to_uppercase` 6 `starts_with` 7 `repeat` 8 `replace` 9 `split`
    10 `strip_prefix` 11 `trim` 12 `concat` 13 `index` 14 `swap`. -/
def methodSig (recv : Ty) (m : Nat) : Option (List Ty × Ty) :=
  match recv, m with
  | .list _, 0 => some ([], .int .u64)
  | .list t, 1 => some ([t], .unit)
  | .list t, 2 => some ([.int .u64], .opt t)
  | .list t, 3 => some ([t], .bool)
  | .list _, 4 => some ([], .bool)
  | .list t, 12 => some ([.list t], .list t)
  | .list t, 13 => some ([t], .opt (.int .u64))
  | .list _, 14 => some ([.int .u64, .int .u64], .unit)
  | .string, 3 => some ([.string], .bool)
  | .string, 5 => some ([], .string)
  | .string, 6 => some ([.string], .bool)
  | .string, 7 => some ([.int .u64], .string)
  | .string, 8 => some ([.string, .string], .string)
  | .string, 9 => some ([.string], .list .string)
  | .string, 10 => some ([.string], .opt .string)
  | .string, 11 => some ([], .string)
  | _, _ => none

/-- "any type implementing a `to_string` method can be put in an f-string":
    the built-in scalar types and String have one; records, enums, lists,
    options, verdicts and `()` do not -/
def printable : Ty → Bool
  | .int _ | .f32 | .f64 | .bool | .string | .prim _ => true
  | .anyInt _ | .anyFloat | .unknown | .never => true
  | _ => false

inductive RetKind | ret | accept | reject
  deriving DecidableEq, Repr, Inhabited

inductive PatName | some | none | user (k : Nat)
  deriving DecidableEq, Repr, Inhabited

inductive Pat
  | wild
  | variant (name : PatName) (binders : Option (List Nat))
  deriving Repr, Inhabited

mutual
inductive Expr
  | intLit (suf : Option ITy)
  | floatLit (suf : Option Bool)          -- some false = f32, some true = f64
  | boolLit | strLit | unitLit
  | var (x : Nat)
  | const (c : Nat)
  | field (e : Expr) (f : Nat)
  | neg (e : Expr)
  | not (e : Expr)
  | bin (op : BinOp) (l r : Expr)
  | ite (c : Expr) (t : Block) (e : Option Block)
  | while (c : Expr) (b : Block)
  | for (x : Nat) (e : Expr) (b : Block)
  | block (b : Block)
  | call (f : Nat) (args : List Expr)
  /-- `e.m(args)`: a method of a built-in type (`methodSig`) -/
  | mcall (e : Expr) (m : Nat) (args : List Expr)
  /-- `x.p… = e` (root is a variable) or `C.p… = e` (root is a constant) -/
  | assign (rootIsConst : Bool) (x : Nat) (path : List Nat) (e : Expr)
  | cassign (op : BinOp) (rootIsConst : Bool) (x : Nat) (path : List Nat) (e : Expr)
  | ret (kind : RetKind) (e : Option Expr)
  | record (ty : Nat) (fields : List Field)
  | listLit (es : List Expr)
  | ctor (ty : Nat) (variant : Nat) (args : List Expr)
  | some (e : Expr)
  | none
  | try (e : Expr)
  | match (e : Expr) (arms : List Arm)
  | fstr (parts : List Expr)
inductive Field
  | mk (name : Nat) (e : Expr)
inductive Arm
  | mk (pat : Pat) (guard : Option Expr) (body : Block)
inductive Stmt
  | let_ (x : Nat) (ann : Option Ty) (e : Expr)
  | expr (e : Expr)
inductive Block
  | mk (stmts : List Stmt) (last : Option Expr)
end

instance : Inhabited Expr := ⟨.unitLit⟩
instance : Inhabited Block := ⟨.mk [] none⟩

inductive TypeDef
  | record (fields : List (Nat × Ty))
  | enum (variants : List (Nat × List Ty))
  deriving Repr, Inhabited

structure FnSig where
  params : List Ty
  ret : Ty
  deriving Repr, Inhabited

inductive Decl
  | fn (name : Nat) (params : List (Nat × Ty)) (ret : Ty) (body : Block)
  | const (name : Nat) (ty : Ty) (e : Expr)
  | type (name : Nat) (d : TypeDef)

structure Prog where
  decls : List Decl

structure Env where
  types : List (Nat × TypeDef)
  fns : List (Nat × FnSig)
  consts : List (Nat × Ty)

/-- What is forbidden/allowed at this point of an item. -/
structure Ctx where
  /-- return type of the enclosing function; `none` inside a constant -/
  retTy : Option Ty

abbrev Scope := List (Nat × Ty)
/-- innermost scope first -/
abbrev Gamma := List Scope

def lookupVar : Gamma → Nat → Option Ty
  | [], _ => none
  | s :: rest, x => match s.lookup x with
    | some t => some t
    | none => lookupVar rest x

/-- declare `x` in the innermost scope; `none` when it is declared there already -/
def declare (g : Gamma) (x : Nat) (t : Ty) : Option Gamma :=
  match g with
  | [] => some [[(x, t)]]
  | s :: rest => if (s.lookup x).isSome then none else some (((x, t) :: s) :: rest)

def declareAll (g : Gamma) : List (Nat × Ty) → Option Gamma
  | [] => some g
  | (x, t) :: rest => match declare g x t with
    | some g' => declareAll g' rest
    | none => none

/-- is the annotation a type the script can name? -/
def wfTy (env : Env) : Ty → Bool
  | .named n => (env.types.lookup n).isSome
  | .opt t => wfTy env t
  | .list t => wfTy env t
  | .verdict a r => wfTy env a && wfTy env r
  | .anyInt _ | .anyFloat | .unknown | .never => false
  | _ => true

def recordFields (env : Env) (n : Nat) : Option (List (Nat × Ty)) :=
  match env.types.lookup n with
  | some (.record fs) => some fs
  | _ => none

/-- the variants one can match on: `(pattern name, field types)` -/
def variantsOf (env : Env) : Ty → Option (List (PatName × List Ty))
  | .opt t => some [(.some, [t]), (.none, [])]
  | .named n => match env.types.lookup n with
    | some (.enum vs) => some (vs.map fun (k, tys) => (.user k, tys))
    | _ => none
  | _ => none

/-- type of `t.f` -/
def fieldTy (env : Env) (t : Ty) (f : Nat) : Option Ty :=
  match t with
  | .named n => match recordFields env n with
    | some fs => fs.lookup f
    | none => none
  | .unknown | .never => some .unknown
  | _ => none

def pathTy (env : Env) (t : Ty) : List Nat → Option Ty
  | [] => some t
  | f :: rest => match fieldTy env t f with
    | some t' => pathTy env t' rest
    | none => none

/-! ### The match bookkeeping (documented rules: existing variants, right
    number of binders, nothing after an unguarded `_`, no arm for a variant
    that an earlier unguarded arm already covers, every variant covered). -/

structure ArmHead where
  pat : Pat
  guarded : Bool

def patNameEq : PatName → PatName → Bool
  | .some, .some => true
  | .none, .none => true
  | .user a, .user b => a == b
  | _, _ => false

def lookupVariant (vs : List (PatName × List Ty)) (n : PatName) : Option (List Ty) :=
  match vs with
  | [] => none
  | (m, tys) :: rest => if patNameEq m n then some tys else lookupVariant rest n

/-- `covered`: variants with an earlier unguarded arm; `dflt`: an unguarded `_` was seen -/
def matchHeads (vs : List (PatName × List Ty)) : List ArmHead → List PatName → Bool → Option String
  | [], covered, dflt =>
    if dflt || vs.all (fun v => covered.any (patNameEq v.1)) then none
    else some "non-exhaustive"
  | h :: rest, covered, dflt =>
    if dflt then some "unreachable-after-default" else
    match h.pat with
    | .wild => matchHeads vs rest covered (!h.guarded)
    | .variant n bs =>
      match lookupVariant vs n with
      | none => some "unknown-variant"
      | some tys =>
        let arityOk := match bs with
          | none => tys.isEmpty
          | some xs => !tys.isEmpty && xs.length == tys.length
        if !arityOk then some "pattern-arity"
        else if covered.any (patNameEq n) then some "unreachable-duplicate-variant"
        else matchHeads vs rest (if h.guarded then covered else n :: covered) false

def hasDup : List Nat → Bool
  | [] => false
  | x :: rest => rest.contains x || hasDup rest

/-- record literal: every field exactly once, none unknown -/
def fieldNamesOk (declared : List Nat) (given : List Nat) : Option String :=
  if hasDup given then some "duplicate-field"
  else if given.any (fun f => !declared.contains f) then some "unknown-field"
  else if declared.any (fun f => !given.contains f) then some "missing-field"
  else none

/-- the variables a pattern binds, with the types of the variant's fields
    (`vs = none`: nothing is known about the examinee) -/
def armBinds (vs : Option (List (PatName × List Ty))) : Pat → List (Nat × Ty)
  | .wild => []
  | .variant n bs =>
    let xs := bs.getD []
    match vs with
    | none => xs.map fun x => (x, .unknown)
    | some vs => xs.zip ((lookupVariant vs n).getD [])

def armPat : Arm → Pat
  | .mk p _ _ => p

abbrev R := Except String

def fail {α} (s : String) : R α := .error s

def expect (what : String) (actual expected : Ty) : R Unit :=
  if compat actual expected then pure () else fail what

/-- result of checking an expression: its (flexible) type and whether it
    certainly diverges -/
abbrev TD := Ty × Bool

def foldCompat (what : String) : List Ty → Ty → R Ty
  | [], acc => pure acc
  | t :: rest, acc => if compat t acc then foldCompat what rest (meet acc t) else fail what

mutual
def synth (env : Env) (ctx : Ctx) (g : Gamma) : Expr → R TD
  | .intLit none => pure (.anyInt false, false)
  | .intLit (some t) => pure (.int t, false)
  | .floatLit none => pure (.anyFloat, false)
  | .floatLit (some false) => pure (.f32, false)
  | .floatLit (some true) => pure (.f64, false)
  | .boolLit => pure (.bool, false)
  | .strLit => pure (.string, false)
  | .unitLit => pure (.unit, false)
  | .var x => match lookupVar g x with
    | some t => pure (t, false)
    | none => fail "unknown-name"
  | .const c => match env.consts.lookup c with
    | some t => pure (t, false)
    | none => fail "unknown-name"
  | .field e f => do
    let (t, d) ← synth env ctx g e
    match fieldTy env t f with
    | some t' => pure (t', d)
    | none => fail "no-field"
  | .neg e => do
    let (t, d) ← synth env ctx g e
    match negTy t with
    | some t' => pure (t', d)
    | none => fail (if isNumeric t then "negate-unsigned" else "negate-non-number")
  | .not e => do
    let (t, d) ← synth env ctx g e
    expect "not-operand" t .bool
    pure (.bool, d)
  | .bin op l r => do
    let (tl, dl) ← synth env ctx g l
    let (tr, dr) ← synth env ctx g r
    match binopTy op tl tr with
    | some t => pure (t, binDiv op dl dr)
    | none => fail "operand"
  | .ite c t e => do
    let (tc, dc) ← synth env ctx g c
    expect "condition" tc .bool
    let (tt, dt) ← synthBlock env ctx ([] :: g) t
    match e with
    | none =>
      expect "if-without-else-value" tt .unit
      pure (.unit, dc)
    | some e =>
      let (te, de) ← synthBlock env ctx ([] :: g) e
      if compat tt te then pure (meet tt te, dc || (dt && de)) else fail "branches"
  | .while c b => do
    let (tc, dc) ← synth env ctx g c
    expect "condition" tc .bool
    let (tb, _) ← synthBlock env ctx ([] :: g) b
    expect "loop-body-value" tb .unit
    pure (.unit, dc)
  | .for x e b => do
    let (te, de) ← synth env ctx g e
    let elem ← match te with
      | .list t => pure t
      | .unknown | .never => pure .unknown
      | _ => fail "for-needs-list"
    let (tb, _) ← synthBlock env ctx ([(x, elem)] :: g) b
    expect "loop-body-value" tb .unit
    pure (.unit, de)
  | .block b => synthBlock env ctx ([] :: g) b
  | .call f args => do
    match env.fns.lookup f with
    | none => fail "unknown-name"
    | some sig =>
      if args.length != sig.params.length then fail "arity" else
      let d ← checkArgs env ctx g args sig.params
      pure (sig.ret, d)
  | .mcall e m args => do
    let (t, d) ← synth env ctx g e
    match methodSig t m with
    | some (ps, r) =>
      if args.length != ps.length then fail "arity" else
      let d' ← checkArgs env ctx g args ps
      pure (r, d || d')
    | none =>
      match t with
      | .unknown | .never =>
        -- nothing is known about the receiver: only the arguments themselves are checked
        let (_, d') ← synthList env ctx g args
        pure (.unknown, d || d')
      | _ => fail "no-method"
  | .assign isConst x path e => do
    if isConst then fail "assign-non-local" else
    match lookupVar g x with
    | none => fail "unknown-name"
    | some t =>
      match pathTy env t path with
      | none => fail "no-field"
      | some tp =>
        let (te, d) ← synth env ctx g e
        expect "assigned" te tp
        pure (.unit, d)
  | .cassign op isConst x path e => do
    if isConst then fail "assign-non-local" else
    match lookupVar g x with
    | none => fail "unknown-name"
    | some t =>
      match pathTy env t path with
      | none => fail "no-field"
      | some tp =>
        let (te, d) ← synth env ctx g e
        match binopTy op tp te with
        | none => fail "operand"
        | some tr =>
          expect "assigned" tr tp
          pure (.unit, d)
  | .ret kind e => do
    match ctx.retTy with
    | none => fail "cannot-diverge-here"
    | some rt =>
      let want ← match kind, rt with
        | .ret, rt => pure rt
        | .accept, .verdict a _ => pure a
        | .reject, .verdict _ r => pure r
        | _, .unknown => pure .unknown
        | _, _ => fail "accept-reject-needs-verdict"
      match e with
      | none => expect "returned" .unit want
      | some e =>
        let (te, _) ← synth env ctx g e
        expect "returned" te want
      pure (.never, true)
  | .record ty fields => do
    match recordFields env ty with
    | none => fail "not-a-record-type"
    | some decl =>
      match fieldNamesOk (decl.map (·.1)) (fieldNames fields) with
      | some err => fail err
      | none =>
        let d ← checkFields env ctx g fields decl
        pure (.named ty, d)
  | .listLit es => do
    let (ts, d) ← synthList env ctx g es
    let t ← foldCompat "element" ts .unknown
    pure (.list t, d)
  | .ctor ty k args => do
    match env.types.lookup ty with
    | some (.enum vs) =>
      match vs.lookup k with
      | none => fail "unknown-variant"
      | some tys =>
        if args.length != tys.length then fail "arity" else
        let d ← checkArgs env ctx g args tys
        pure (.named ty, d)
    | _ => fail "not-an-enum-type"
  | .some e => do
    let (t, d) ← synth env ctx g e
    pure (.opt t, d)
  | .none => pure (.opt .unknown, false)
  | .try e => do
    let (t, d) ← synth env ctx g e
    let inner ← match t with
      | .opt t => pure t
      | .unknown | .never => pure .unknown
      | _ => fail "try-needs-option"
    match ctx.retTy with
    | some (.opt _) | some .unknown => pure (inner, d)
    | _ => fail "try-not-allowed-here"
  | .match e arms => do
    let (t, d) ← synth env ctx g e
    match t with
    | .unknown | .never =>
      -- nothing is known about the examinee: only the arms themselves are checked
      -- (whichever arm runs, the match diverges if all of them do: claiming LESS
      -- divergence here made `D` reject well-typed scripts)
      let (ts, da) ← synthArms env ctx g none arms
      let tr ← foldCompat "branches" ts .unknown
      pure (tr, d || (!arms.isEmpty && da))
    | t =>
      match variantsOf env t with
      | none => fail "match-needs-enum"
      | some vs =>
        match matchHeads vs (armHeads arms) [] false with
        | some err => fail err
        | none =>
          let (ts, da) ← synthArms env ctx g (some vs) arms
          let tr ← foldCompat "branches" ts .unknown
          pure (tr, d || (!arms.isEmpty && da))
  | .fstr parts => do
    let (ts, d) ← synthList env ctx g parts
    if ts.all printable then pure (.string, d) else fail "no-to-string"

def fieldNames : List Field → List Nat
  | [] => []
  | .mk n _ :: rest => n :: fieldNames rest

def armHeads : List Arm → List ArmHead
  | [] => []
  | .mk p gd _ :: rest => ⟨p, gd.isSome⟩ :: armHeads rest

def checkArgs (env : Env) (ctx : Ctx) (g : Gamma) : List Expr → List Ty → R Bool
  | e :: es, t :: ts => do
    let (te, d) ← synth env ctx g e
    expect "argument" te t
    let d' ← checkArgs env ctx g es ts
    pure (d || d')
  | _, _ => pure false

def checkFields (env : Env) (ctx : Ctx) (g : Gamma) : List Field → List (Nat × Ty) → R Bool
  | [], _ => pure false
  | .mk n e :: rest, decl => do
    let (te, d) ← synth env ctx g e
    match decl.lookup n with
    | none => fail "unknown-field"
    | some t =>
      expect "field" te t
      let d' ← checkFields env ctx g rest decl
      pure (d || d')

def synthList (env : Env) (ctx : Ctx) (g : Gamma) : List Expr → R (List Ty × Bool)
  | [] => pure ([], false)
  | e :: es => do
    let (t, d) ← synth env ctx g e
    let (ts, d') ← synthList env ctx g es
    pure (t :: ts, d || d')

/-- types of the arm bodies, and whether all of them diverge -/
def synthArms (env : Env) (ctx : Ctx) (g : Gamma) (vs : Option (List (PatName × List Ty))) :
    List Arm → R (List Ty × Bool)
  | [] => pure ([], true)
  | a :: rest => do
    match declareAll ([] :: g) (armBinds vs (armPat a)) with
    | none => fail "redeclared"
    | some g' =>
      let (tb, db) ← synthArm env ctx g' a
      let (ts, dr) ← synthArms env ctx g vs rest
      pure (tb :: ts, db && dr)

/-- the guard (a condition) and the body of one arm, in the arm's scope -/
def synthArm (env : Env) (ctx : Ctx) (g : Gamma) : Arm → R TD
  | .mk _ none body => synthBlock env ctx g body
  | .mk _ (some gd) body => do
    let (tg, _) ← synth env ctx g gd
    expect "guard" tg .bool
    synthBlock env ctx g body

/-- statements of a block, threading the innermost scope -/
def synthStmts (env : Env) (ctx : Ctx) (g : Gamma) : List Stmt → R (Gamma × Bool)
  | [] => pure (g, false)
  | .let_ x ann e :: rest => do
    let (te, d) ← synth env ctx g e
    let t ← match ann with
      | none => pure te
      | some a =>
        if !wfTy env a then fail "unknown-type" else
        expect "let-value" te a
        pure a
    match declare g x t with
    | none => fail "redeclared"
    | some g' =>
      let (g'', d') ← synthStmts env ctx g' rest
      pure (g'', d || d')
  | .expr e :: rest => do
    let (_, d) ← synth env ctx g e
    let (g', d') ← synthStmts env ctx g rest
    pure (g', d || d')

/-- a block, in the scope `g` whose innermost scope is the block's own -/
def synthBlock (env : Env) (ctx : Ctx) (g : Gamma) : Block → R TD
  | .mk stmts last => do
    let (g', d) ← synthStmts env ctx g stmts
    match last with
    | none => pure (if d then .never else .unit, d)
    | some e =>
      let (t, d') ← synth env ctx g' e
      pure (if d then .never else t, d || d')
end

/-! ### Items -/

def mkEnv (p : Prog) : Env :=
  { types := p.decls.filterMap fun | .type n d => some (n, d) | _ => none
    fns := p.decls.filterMap fun
      | .fn n ps rt _ => some (n, { params := ps.map (·.2), ret := rt })
      | _ => none
    consts := p.decls.filterMap fun | .const n t _ => some (n, t) | _ => none }

def declName : Decl → Nat × Nat
  | .fn n _ _ _ => (0, n)
  | .const n _ _ => (1, n)
  | .type n _ => (2, n)

def hasDupPair : List (Nat × Nat) → Bool
  | [] => false
  | x :: rest => rest.contains x || hasDupPair rest

/-- named types mentioned by a type -/
def tyRefs : Ty → List Nat
  | .named n => [n]
  | .opt t => tyRefs t
  | .list t => tyRefs t
  | .verdict a r => tyRefs a ++ tyRefs r
  | _ => []

def typeDefRefs : TypeDef → List Nat
  | .record fs => fs.flatMap fun f => tyRefs f.2
  | .enum vs => vs.flatMap fun v => v.2.flatMap tyRefs

def typeDefWf (env : Env) : TypeDef → Option String
  | .record fs =>
    if hasDup (fs.map (·.1)) then some "duplicate-field-decl"
    else if fs.all (fun f => wfTy env f.2) then none else some "unknown-type"
  | .enum vs =>
    if hasDup (vs.map (·.1)) then some "duplicate-variant-decl"
    else if vs.all (fun v => v.2.all (wfTy env)) then none else some "unknown-type"

/-- can `target` be reached from the types in `frontier` by following type
    definitions (fuel = number of types suffices)? -/
def reaches (types : List (Nat × TypeDef)) (target : Nat) : Nat → List Nat → Bool
  | 0, _ => false
  | fuel + 1, frontier =>
    frontier.contains target ||
      reaches types target fuel
        (frontier.flatMap fun n => match types.lookup n with
          | some d => typeDefRefs d
          | none => [])

def typeIsRecursive (types : List (Nat × TypeDef)) (n : Nat) : Bool :=
  match types.lookup n with
  | some d => reaches types n types.length (typeDefRefs d)
  | none => false

/-! references of items, for the "constants are not recursive" rule -/
inductive Item | fn (n : Nat) | const (n : Nat)
  deriving DecidableEq, Repr

mutual
def refsE : Expr → List Item
  | .const c => [.const c]
  | .field e _ | .neg e | .not e | .some e | .try e => refsE e
  | .bin _ l r => refsE l ++ refsE r
  | .ite c t e => refsE c ++ refsB t ++ (match e with | some e => refsB e | none => [])
  | .while c b => refsE c ++ refsB b
  | .for _ e b => refsE e ++ refsB b
  | .block b => refsB b
  | .call f args => .fn f :: refsL args
  | .mcall e _ args => refsE e ++ refsL args
  | .assign isC x _ e => (if isC then [.const x] else []) ++ refsE e
  | .cassign _ isC x _ e => (if isC then [.const x] else []) ++ refsE e
  | .ret _ e => (match e with | some e => refsE e | none => [])
  | .record _ fs => refsF fs
  | .listLit es | .fstr es => refsL es
  | .ctor _ _ args => refsL args
  | .match e arms => refsE e ++ refsA arms
  | _ => []
def refsL : List Expr → List Item
  | [] => []
  | e :: es => refsE e ++ refsL es
def refsF : List Field → List Item
  | [] => []
  | .mk _ e :: fs => refsE e ++ refsF fs
def refsA : List Arm → List Item
  | [] => []
  | .mk _ gd b :: rest => (match gd with | some e => refsE e | none => []) ++ refsB b ++ refsA rest
def refsS : List Stmt → List Item
  | [] => []
  | .let_ _ _ e :: rest => refsE e ++ refsS rest
  | .expr e :: rest => refsE e ++ refsS rest
def refsB : Block → List Item
  | .mk ss last => refsS ss ++ (match last with | some e => refsE e | none => [])
end

def itemRefs (p : Prog) (i : Item) : List Item :=
  p.decls.flatMap fun
    | .fn n _ _ body => if i = .fn n then refsB body else []
    | .const n _ e => if i = .const n then refsE e else []
    | _ => []

def itemReaches (p : Prog) (target : Item) : Nat → List Item → Bool
  | 0, _ => false
  | fuel + 1, frontier =>
    frontier.contains target ||
      itemReaches p target fuel (frontier.flatMap (itemRefs p))

def constIsRecursive (p : Prog) (c : Nat) : Bool :=
  itemReaches p (.const c) (p.decls.length + 1) (itemRefs p (.const c))

def checkDecl (env : Env) (p : Prog) : Decl → R Unit
  | .fn _ params rt body => do
    if !(params.all fun q => wfTy env q.2) || !wfTy env rt then fail "unknown-type" else
    match declareAll [[]] params with
    | none => fail "redeclared"
    | some g =>
      let (t, _) ← synthBlock env { retTy := some rt } g body
      expect "returned" t rt
  | .const c ty e => do
    if !wfTy env ty then fail "unknown-type" else
    let (t, _) ← synth env { retTy := none } [[]] e
    expect "const-value" t ty
    if constIsRecursive p c then fail "recursive-constant" else pure ()
  | .type n d => do
    match typeDefWf env d with
    | some err => fail err
    | none => if typeIsRecursive env.types n then fail "recursive-type" else pure ()

def checkDecls (env : Env) (p : Prog) : List Decl → R Unit
  | [] => pure ()
  | d :: rest => do checkDecl env p d; checkDecls env p rest

/-- The declarative checker: `.ok ()` = no documented rule is certainly broken;
    `.error kind` = the script is ill-typed (rule `kind`). -/
def checkProg (p : Prog) : R Unit := do
  if hasDupPair (p.decls.map declName) then fail "redeclared-item" else
  checkDecls (mkEnv p) p p.decls

def accepts (p : Prog) : Bool := match checkProg p with | .ok _ => true | .error _ => false

/-! ### Literal variables (declarative: "there is an assignment of types")

  A tiny language about variables bound to unsuffixed literals, whose types the
  manual leaves to inference: `let y = 1;` may be any integer type, `let y = 1.5;`
  any float type, but ONE type per variable. A script of this language is
  well-typed iff some assignment of a numeric type to every variable satisfies
  every statement — decided here by trying all assignments (no inference). -/

inductive LStmt
  /-- `let x = 1;` (`isFloat`: `let x = 1.5;`) -/
  | lit (x : Nat) (isFloat : Bool)
  /-- `let x = y;` -/
  | alias (x y : Nat)
  /-- `-x` occurs -/
  | neg (x : Nat)
  /-- `x` is used where a value of type `t` is required -/
  | use (x : Nat) (t : Ty)
  /-- `x < y` / `x == y` occurs -/
  | cmp (x y : Nat)
  deriving Repr

def numericTys : List Ty :=
  [.int .u8, .int .u16, .int .u32, .int .u64, .int .i8, .int .i16, .int .i32, .int .i64, .f32, .f64]

def isGroundInt : Ty → Bool | .int _ => true | _ => false
def isGroundFloat : Ty → Bool | .f32 | .f64 => true | _ => false

/-- does the assignment (a list: variable `i` has type `a[i]`) satisfy the statement? -/
def LStmt.holds (a : List Ty) : LStmt → Bool
  | .lit x isFloat => match a[x]? with
    | some t => if isFloat then isGroundFloat t else isGroundInt t
    | none => false
  | .alias x y => match a[x]?, a[y]? with
    | some t, some u => t == u
    | _, _ => false
  | .neg x => match a[x]? with
    | some t => isNegatable t
    | none => false
  | .use x t => match a[x]? with
    | some u => u == t
    | none => false
  | .cmp x y => match a[x]?, a[y]? with
    | some t, some u => t == u
    | _, _ => false

/-- all assignments of numeric types to `n` variables -/
def assignments : Nat → List (List Ty)
  | 0 => [[]]
  | n + 1 => (assignments n).flatMap fun a => numericTys.map fun t => t :: a

/-- the script has a typing -/
def ltypable (n : Nat) (prog : List LStmt) : Bool :=
  (assignments n).any fun a => prog.all (LStmt.holds a)

/-! ### Anonymous record literals (record variables)

  `{ a: 1, b: true }` has a record type with exactly these fields, in any
  order; each field's type is that of its value (flexible for unsuffixed
  literals). It fits a record type (anonymous or named) iff the literal names
  every field of that type exactly once and nothing else, and each value fits
  its field. -/

/-- the literal `lit` may be used where a record with fields `target` is expected -/
def recLitFits (lit target : List (Nat × Ty)) : Bool :=
  !hasDup (lit.map (·.1)) && lit.length == target.length &&
  lit.all fun f => match target.lookup f.1 with
    | some u => compat f.2 u
    | none => false

/-- `lit.f` may be used where a `ty` is expected / a value of type `ty` may be assigned to `lit.f` -/
def recFieldFits (lit : List (Nat × Ty)) (f : Nat) (ty : Ty) : Bool :=
  !hasDup (lit.map (·.1)) &&
  match lit.lookup f with
  | some t => compat t ty
  | none => false

end RotoV.Typing
