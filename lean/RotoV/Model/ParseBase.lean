/-
  ParseBase: the parser's state and helper methods (`src/parser/mod.rs`:
  `next`, `peek`, `peek_is`, `next_is`, `take`, `peek_many`, `separated`,
  `add_span` / `get_span` / `merge_spans`; `src/parser/lexer.rs`: `Lexer::next`,
  `peek`, `peek_many`, `record_almost_keyword`; `src/parser/meta.rs`: `Spans`,
  `Span::merge`) on top of the PROVED lexer model (`Model/Lexer.lean`, reused by
  import), property C06.

  The parser model does not run on a pre-computed token list: like the real
  parser it drives the lexer on demand — `next_inner` for ordinary tokens, the
  queue `peeked` of tokens lexed ahead, `f_string_part` for f-string text — so
  a look-ahead that runs past an `f"` or an unrecognised character behaves as
  in the code.

  Every place where the Rust code can panic is an explicit `PR.panic`:
  `self.next().unwrap()` (`next_is`), `take(..).unwrap()` (`type_expr`),
  `N - self.peeked.len()` (`peek_many`), `self.peeked.get(i).unwrap()`,
  `self.0[id]` (`Spans::get`), `first().unwrap()` / `last().unwrap()`,
  `unreachable!()`. A parse error (`ParseError`: kind + location, the
  `almost_keyword` hint is added by `run_parser`) is `PR.err`; running out of
  the model's fuel is `PR.fuel`.

  PARAMETERS (`Ctx`): the source text, the lexer's Unicode predicates, and the
  literal decoders (`str::parse::<i64|f64|u32|Ipv4Addr|Ipv6Addr>`,
  `i64::from_str_radix`, `rustc_literal_escaper`): `lit isFStringPart start stop`
  says whether the literal token / f-string text `src[start..stop]` decodes, and
  if not the kind of the error and — for an escape error — the byte range the
  escaper reports relative to the text it was given. The parser's own
  arithmetic on that range (`span.start + 1 + range.start`, `span.start +
  piece_start + range.start`) is in the model. The theorems hold for every
  instantiation whose ranges lie inside the text the escaper was given, on
  character boundaries; the driver instantiates it per input from the real
  decoders.

  `Span::merge` asserts that both spans belong to the same file: every span
  the parser makes carries `self.file`, the model has no file field.

  Core Lean only (no Mathlib): linked into the driver executable.
-/
import RotoV.Model.Lexer

namespace RotoV.Parse
open RotoV RotoV.Lex

/-- `ParseErrorKind`, by variant (texts are not modelled). `needLit` is not a
kind of the real parser: the DRIVER's literal oracle answers with it when its
table has no verdict for a literal yet (see `Driver/C06.lean`). -/
inductive EKind where
  | endOfInput | failedToParseEntireInput | invalidToken | expected | invalidLiteral | custom
  | needLit (fpart : Bool) (start stop : Nat)
  deriving DecidableEq, Repr, Inhabited

/-- `ParseError`: kind and location; `hint` = location of the first hint
(`run_parser` adds the `almost_keyword` hint). -/
structure PErr where
  kind : EKind
  span : Span
  hint : Option Span := none
  deriving DecidableEq, Repr, Inhabited

/-- an item of the queue `Lexer::peeked`: `(Ok(token), span)` or `(Err(()), span)` -/
inductive QItem where
  | tok (k : TokKind) (sp : Span)
  | invalid (sp : Span)
  deriving DecidableEq, Repr, Inhabited

/-- what the parser is parametrised by -/
structure Ctx where
  src : List Char
  P : Preds
  /-- literal decoders: `lit fpart start stop = none` — the literal token / f-string text
  `src[start..stop]` decodes; `some (kind, j, a, b)` — it does not: the kind of the
  `ParseError`, and for an ESCAPE error (`rustc_literal_escaper`) the byte range `a..b` it
  reports, RELATIVE to the text it was given: the content of a string literal, or piece `j`
  of an f-string text (the pieces between doubled braces). Every other decoding error cites
  the token itself (`j`, `a`, `b` are not looked at). -/
  lit : Bool → Nat → Nat → Option (EKind × Nat × Nat × Nat)
  /-- `Lexer::record_almost_keyword`: the words that get a "you probably meant" hint -/
  almostWords : List (List Char)

/-- `Parser` + `Lexer` + `Spans`: the lexer position, the queue of tokens lexed
ahead, the span table (REVERSED: the head is the span added last; a `MetaId`
is an index from the other end), `Lexer::almost_keyword` (its span). -/
structure PState where
  lx : Lexer
  peeked : List QItem
  rspans : List Span
  almost : Option Span
  deriving Repr

/-- number of entries of the span table (`self.0.len()`) -/
abbrev PState.nsp (s : PState) : Nat := s.rspans.length

/-- result of a parser method -/
inductive PR (α : Type) where
  | ok (a : α) (s : PState)
  | err (e : PErr) (s : PState)
  | panic
  | fuel
  deriving Repr

@[inline] def PR.bind {α β} (x : PR α) (f : α → PState → PR β) : PR β :=
  match x with
  | .ok a s => f a s
  | .err e s => .err e s
  | .panic => .panic
  | .fuel => .fuel

/-- `return Err(ParseError { kind, location, .. })` -/
@[inline] def fail {α} (k : EKind) (sp : Span) (s : PState) : PR α := .err ⟨k, sp, none⟩ s

/-- parse trees as s-expressions (shape only; see `Driver/C06.lean` for the printer) -/
inductive Sx where
  | a (s : String)
  | n (tag : String) (kids : List Sx)
  deriving Repr, Inhabited

def Sx.kids : Sx → List Sx
  | .n _ k => k
  | .a _ => []

/-- `Meta<T>`: the node and its `MetaId` -/
structure Node where
  id : Nat
  sx : Sx
  deriving Repr, Inhabited

/-! ## text of a span (model-internal, total: not a Rust slice) -/

/-- drop `n` bytes worth of characters -/
def dropBytes : Nat → List Char → List Char
  | 0, s => s
  | _ + 1, [] => []
  | n + 1, c :: cs => dropBytes (n + 1 - sz c) cs

/-- take `n` bytes worth of characters -/
def takeBytes : Nat → List Char → List Char
  | 0, _ => []
  | _ + 1, [] => []
  | n + 1, c :: cs => c :: takeBytes (n + 1 - sz c) cs

/-- the text `src[a..b]` a token span designates -/
def textOf (src : List Char) (sp : Span) : List Char := takeBytes (sp.2 - sp.1) (dropBytes sp.1 src)

/-! ## `Spans` (src/parser/meta.rs) -/

/-- `Spans::add`: the new `MetaId` is the old length -/
@[inline] def addSpan (sp : Span) (s : PState) : Nat × PState :=
  (s.rspans.length, { s with rspans := sp :: s.rspans })

/-- `spans.add(span, x)` returning the `Meta` -/
@[inline] def addNode {α} (sp : Span) (sx : Sx) (s : PState) (k : Node → PState → PR α) : PR α :=
  k ⟨s.rspans.length, sx⟩ { s with rspans := sp :: s.rspans }

/-- `Spans::get`: `self.0[id]` — an index out of range panics -/
def getSpan {α} (id : Nat) (s : PState) (k : Span → PState → PR α) : PR α :=
  if h : id < s.rspans.length then k (s.rspans[s.rspans.length - 1 - id]'(by omega)) s else .panic

/-- `Span::merge` -/
@[inline] def mergeSp (a b : Span) : Span := (min a.1 b.1, max a.2 b.2)

/-- `Spans::merge(x, y)` = `self.get(x).merge(self.get(y))` -/
def mergeSpans {α} (x y : Nat) (s : PState) (k : Span → PState → PR α) : PR α :=
  getSpan x s fun a s => getSpan y s fun b s => k (mergeSp a b) s

/-! ## `Lexer::next` / `peek` / `peek_many` -/

/-- `Lexer::next_inner` as the parser sees it: `None`, `(Err(()), span)` or
`(Ok(token), span)`; an identifier that is an "almost keyword" is recorded. -/
def lexInner (c : Ctx) (s : PState) : PR (Option QItem) :=
  match nextInner c.P s.lx with
  | .panic => .panic
  | .ok (.eof, L) => .ok none { s with lx := L }
  | .ok (.invalid sp, L) => .ok (some (.invalid sp)) { s with lx := L }
  | .ok (.tok k sp, L) =>
    .ok (some (.tok k sp))
      { s with lx := L,
               almost := if k = .ident ∧ c.almostWords.contains (textOf c.src sp) then some sp else s.almost }

/-- `Lexer::next` -/
def lexNext (c : Ctx) (s : PState) : PR (Option QItem) :=
  match s.peeked with
  | it :: rest => .ok (some it) { s with peeked := rest }
  | [] => lexInner c s

/-- `Lexer::peek`: fills the queue with one item when it is empty; the front -/
def lexPeek (c : Ctx) (s : PState) : PR (Option QItem) :=
  match s.peeked with
  | it :: _ => .ok (some it) s
  | [] =>
    (lexInner c s).bind fun r s =>
      match r with
      | some it => .ok (some it) { s with peeked := [it] }
      | none => .ok none s

/-- the guard of `peek_many`'s fill loop: is the last queued item one of the stop tokens? -/
def stoppedQ (stops : List TokKind) (peeked : List QItem) : Bool :=
  match peeked.getLast? with
  | some (.tok t _) => stops.contains t
  | _ => false

/-- the fill loop of `Lexer::peek_many` (`k` more items); `false` = `return None` -/
def fillQ (c : Ctx) (stops : List TokKind) : Nat → PState → PR Bool
  | 0, s => .ok true s
  | k + 1, s =>
    if stoppedQ stops s.peeked then .ok false s
    else
      (lexInner c s).bind fun r s =>
        match r with
        | none => .ok false s
        | some it => fillQ c stops k { s with peeked := s.peeked ++ [it] }

/-- the second loop of `peek_many`: the first `n` queued items must all be
`Ok` tokens (`self.peeked.get(i).unwrap()` panics on a short queue) -/
def firstToks : Nat → List QItem → Res (Option (List TokKind))
  | 0, _ => .ok (some [])
  | _ + 1, [] => .panic
  | _ + 1, .invalid _ :: _ => .ok none
  | n + 1, .tok k _ :: rest =>
    match firstToks n rest with
    | .ok (some l) => .ok (some (k :: l))
    | r => r

/-- `Lexer::peek_many::<N>`: `N - self.peeked.len()` panics on underflow -/
def peekMany (c : Ctx) (stops : List TokKind) (n : Nat) (s : PState) : PR (Option (List TokKind)) :=
  if s.peeked.length > n then .panic
  else
    (fillQ c stops (n - s.peeked.length) s).bind fun full s =>
      if full then
        match firstToks n s.peeked with
        | .ok r => .ok r s
        | .panic => .panic
      else .ok none s

/-! ## helper methods of `Parser` (src/parser/mod.rs) -/

/-- `Parser::next` -/
def pnext (c : Ctx) (s : PState) : PR (TokKind × Span) :=
  (lexNext c s).bind fun r s =>
    match r with
    | none => fail .endOfInput (s.lx.origLen, s.lx.origLen) s
    | some (.invalid sp) => fail .invalidToken sp s
    | some (.tok k sp) => .ok (k, sp) s

/-- `Parser::peek`: `Some(token)` only for an `Ok` item -/
def ppeek (c : Ctx) (s : PState) : PR (Option TokKind) :=
  (lexPeek c s).bind fun r s =>
    match r with
    | some (.tok k _) => .ok (some k) s
    | _ => .ok none s

/-- `Parser::peek_is` (only ever called with unit tokens and keywords) -/
def peekIs (c : Ctx) (t : TokKind) (s : PState) : PR Bool :=
  (ppeek c s).bind fun r s => .ok (r == some t) s

/-- `Parser::next_is`: `self.next().unwrap()` after a successful `peek_is` -/
def nextIs (c : Ctx) (t : TokKind) (s : PState) : PR Bool :=
  (peekIs c t s).bind fun b s =>
    if b then
      match pnext c s with
      | .ok _ s => .ok true s
      | .err _ _ => .panic
      | .panic => .panic
      | .fuel => .fuel
    else .ok false s

/-- `Parser::take` -/
def take (c : Ctx) (t : TokKind) (s : PState) : PR Span :=
  (pnext c s).bind fun r s => if r.1 = t then .ok r.2 s else fail .expected r.2 s

/-- `Parser::identifier`: both the keyword arm and the wildcard arm are
`Expected` errors at the token's span -/
def identifier (c : Ctx) (s : PState) : PR Node :=
  (pnext c s).bind fun r s =>
    if r.1 = .ident then addNode r.2 (.a "I") s .ok else fail .expected r.2 s

/-! ## `Parser::separated` -/

/-- the `while self.next_is(sep)` loop (`acc` reversed) -/
def sepLoop (c : Ctx) (item : PState → PR Node) (close sep : TokKind) :
    Nat → List Sx → PState → PR (List Sx)
  | 0, _, _ => .fuel
  | n + 1, acc, s =>
    (nextIs c sep s).bind fun b s =>
      if b then
        (peekIs c close s).bind fun b2 s =>
          if b2 then .ok acc s
          else (item s).bind fun x s => sepLoop c item close sep n (x.sx :: acc) s
      else .ok acc s

/-- `Parser::separated(open, close, sep, parser)`: `Meta<Vec<T>>` -/
def separated (c : Ctx) (item : PState → PR Node) (opn close sep : TokKind) (n : Nat) (s : PState) :
    PR Node :=
  (take c opn s).bind fun start s =>
    (peekIs c close s).bind fun b s =>
      if b then
        (take c close s).bind fun e s => addNode (mergeSp start e) (.n "Sep" []) s .ok
      else
        (item s).bind fun x s =>
          (sepLoop c item close sep n [x.sx] s).bind fun acc s =>
            (take c close s).bind fun e s => addNode (mergeSp start e) (.n "Sep" acc.reverse) s .ok

end RotoV.Parse
