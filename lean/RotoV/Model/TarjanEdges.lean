/-
  C14, where the reference graph gets its edges: a model of what
  `resolve_expression_path` (src/typechecker/expr.rs) does with a path
  expression, as far as the edge `current item → resolved declaration` is
  concerned.  The table of the function's exits — which `Ok(ResolvedPath::…)`
  is reached in which arm of `match &dec.kind`, and under which condition
  `self.references.add_edge(ctx.item, dec.name)` has run before it — is
  regenerated from the source on every run (`Generated/C14Edges.exits`,
  translator target `c14edges`); this file gives the table its meaning.

  Core Lean only.
-/
namespace RotoV.TarjanEdges

/-- `ValueKind` -/
inductive VK where
  | localV | constant | context
  deriving DecidableEq, Repr

/-- the arm of `match &dec.kind` an exit sits in -/
inductive Arm where
  | function   -- `Function(Some(_)) | Method(Some(_))`
  | value      -- `Value(kind, root_ty)`
  | enumCtor   -- `Enum(Some(_))`
  | other
  deriving DecidableEq, Repr

/-- the constructor of `ResolvedPath` an exit returns -/
inductive Res where
  | function | method | value | staticMethod | enumCtor
  deriving DecidableEq, Repr

/-- under which condition `add_edge(ctx.item, dec.name)` has been executed -/
inductive Guard where
  | never
  | always
  | kinds (ks : List VK)   -- inside `if let ValueKind::A | ValueKind::B = kind { … }`
  deriving DecidableEq, Repr

structure Exit where
  arm : Arm
  res : Res
  guard : Guard
  deriving DecidableEq, Repr

/-- has the edge been recorded when the exit is taken for a declaration whose
value kind is `k` (`none`: the declaration is not a value) -/
def Guard.holds : Guard → Option VK → Bool
  | .never, _ => false
  | .always, _ => true
  | .kinds ks, some k => ks.contains k
  | .kinds _, none => false

/-- what the first part of a path expression names -/
inductive Decl where
  | function    -- a script / runtime function (or method given by path)
  | localVar    -- `Value(ValueKind::Local, _)`
  | constant    -- `Value(ValueKind::Constant, _)`
  | context     -- `Value(ValueKind::Context(_), _)`
  | enumCtor
  deriving DecidableEq, Repr

/-- how the path goes on after the name -/
inductive Tail where
  | bare               -- `K`
  | fields             -- `K.a.b`
  | method             -- `K.to_string` (called)
  | fieldsThenMethod   -- `K.a.len`
  deriving DecidableEq, Repr

def Decl.vk : Decl → Option VK
  | .localVar => some .localV
  | .constant => some .constant
  | .context => some .context
  | _ => none

def Decl.arm : Decl → Arm
  | .function => .function
  | .enumCtor => .enumCtor
  | _ => .value

/-- the `ResolvedPath` a successful resolution ends in (`none`: a type error) -/
def resOf : Decl → Tail → Option Res
  | .function, .bare => some .function
  | .function, _ => none
  | .enumCtor, .bare => some .enumCtor
  | .enumCtor, _ => none
  | _, .bare => some .value
  | _, .fields => some .value
  | _, .method => some .method
  | _, .fieldsThenMethod => some .method

/-- Resolving the declaration `d` followed by `t` in a function whose exits are
`ex`: `none` = no such exit (an error), `some b` = resolved, and `b` says whether
the edge `item → declaration` is in the graph afterwards — whichever of the
exits of that arm with that result is the one taken. -/
def records (ex : List Exit) (d : Decl) (t : Tail) : Option Bool :=
  match resOf d t with
  | none => none
  | some r =>
    let es := ex.filter (fun e => e.arm == d.arm && e.res == r)
    if es.isEmpty then none else some (es.all (fun e => e.guard.holds d.vk))

/-- the declarations the dependency structure of C14 is about: functions,
script constants, context variables -/
def Decl.tracked : Decl → Bool
  | .function => true
  | .constant => true
  | .context => true
  | _ => false

/-- one path expression in the body of an item -/
structure PathUse where
  target : Nat
  decl : Decl
  tail : Tail
  deriving DecidableEq, Repr

/-- type checking the path expressions of one item: the edges collected, or
`none` when a resolution fails (then nothing is compiled) -/
def collectItem (ex : List Exit) (item : Nat) : List PathUse → Option (List (Nat × Nat))
  | [] => some []
  | u :: us =>
    match records ex u.decl u.tail, collectItem ex item us with
    | some true, some es => some ((item, u.target) :: es)
    | some false, some es => some es
    | _, _ => none

/-- type checking every item of a program (item name, path expressions of its
body): all collected edges, or `none` when some resolution fails -/
def collectProg (ex : List Exit) : List (Nat × List PathUse) → Option (List (Nat × Nat))
  | [] => some []
  | (item, uses) :: rest =>
    match collectItem ex item uses, collectProg ex rest with
    | some a, some b => some (a ++ b)
    | _, _ => none

end RotoV.TarjanEdges
