/-
  Model/TestRunner — vocabulary and hand-written parts of the model behind C19
  ("the test runner and CLI report outcomes truthfully").

  What is GENERATED (by `extract/src/targets/c19.rs` into
  `Generated/TestRunner.lean`, from the working tree on every run):
    * `TestCase::run`            (verdict ↦ `Ok`/`Err`), whole function;
    * `run_tests`                the counter state, the loop body, the list the
                                 loop iterates, the final `Ok/Err` decision;
    * `get_tests`                the filter predicate on keys, the sort, the
                                 display-name and look-up-key expressions;
    * `Module::get_function`     statement by statement: the look-up key
                                 (`format!("pkg.{name}")`), the one look-up, every exit with
                                 its error, the order of the checks; `Package::get_function`;
    * private helper functions   of the same file that this code calls by plain name;
    * `cli` / `cli_inner`        every arm of `match &cli.command`, as monadic
                                 code over the operations named below;
    * the `format!("test#{…}")` name construction of the type checker and of the
      MIR lowerer, and the signature both give to a test.

  What is HAND-MODELLED here (tied by the correspondence run of
  `harness/src/bin/c19.rs`, not by the translator):
    * the meaning of the `str`/`Option`/iterator methods the generated code
      calls (`rsplit_once`, `map_or`, `starts_with`, `replace`, `strip_prefix`,
      `sort`, `into_iter`, `enumerate`, …);
    * inside `Module::get_function` only the meaning of `F::check_args` and
      `check_roto_type_reflect` (equality of parameter lists / return types) and the
      absence of `signature: None` entries (compiler-generated glue) from the model's table;
    * declaration of functions and tests into a module's name space
      (`declare`: one key per item, a second item with the same key is the
      "declared multiple times" error) and the function table of a package;
    * the pipeline stages the CLI calls (`FileTree::read`, `parse`,
      `typecheck`, `lower_to_mir`, `lower_to_lir`, `codegen`, `run_tests`,
      `get_function::<fn()>`, `call`) as operations over an abstract `World`
      (did the file read / parse / type-check, which tests exist with which
      verdict, what the entry point looks like), each logging an `Event`.

  Strings are `List Char` (string literals do not reduce in the kernel).
  Rust's `String` ordering is byte-wise on UTF-8, which coincides with the
  code-point-wise lexicographic order used here (UTF-8 is order preserving).

  Core Lean only: linked into the driver.
-/
import RotoV.Model.RustStd
set_option linter.unusedVariables false

namespace RotoV.TR

abbrev Name := List Char

/-- Rust `Result<T, E>`. -/
inductive RResult (α ε : Type) where
  | Ok (a : α)
  | Err (e : ε)
  deriving DecidableEq, Repr

instance {α ε} [DecidableEq α] [DecidableEq ε] : REq (RResult α ε) := ⟨fun a b => .ok (decide (a = b))⟩

/-- `roto::Verdict<A, R>`. -/
inductive Verdict (α ρ : Type) where
  | Accept (a : α)
  | Reject (r : ρ)
  deriving DecidableEq, Repr

/-! ## The effect monad: a log of observable events, an error channel, panics -/

inductive Event where
  /-- the body of the compiled function with this table key started running -/
  | ranTest (key : Name)
  /-- the entry function obtained by `run` was called -/
  | calledEntry (key : Name)
  /-- a pipeline stage ran (`read`, `parse`, `typecheck`, `lower_to_mir`, `lower_to_lir`, `codegen`, `doc`, `print`) -/
  | stage (n : Nat)
  deriving DecidableEq, Repr

inductive Out (ε α : Type) where
  | ok (a : α)
  | err (e : ε)
  | panic
  deriving DecidableEq, Repr

/-- A computation that appends to an event log and ends in a value, an early
    `return Err(e)` / `?`, or a panic. -/
def Run (ε α : Type) := List Event → Out ε α × List Event

namespace Run
variable {ε α β : Type}

@[inline] def pure' (a : α) : Run ε α := fun l => (.ok a, l)
@[inline] def bind' (x : Run ε α) (f : α → Run ε β) : Run ε β := fun l =>
  match x l with
  | (.ok a, l') => f a l'
  | (.err e, l') => (.err e, l')
  | (.panic, l') => (.panic, l')

instance : Monad (Run ε) where
  pure := pure'
  bind := bind'

def throw' (e : ε) : Run ε α := fun l => (.err e, l)
def panic' : Run ε α := fun l => (.panic, l)
def emit (e : Event) : Run ε Unit := fun l => (.ok (), l ++ [e])
def ofRes : Res α → Run ε α
  | .ok a => pure' a
  | .panic => panic'

instance : MonadExcept ε (Run ε) where
  throw := throw'
  tryCatch x h := fun l => match x l with
    | (.err e, l') => h e l'
    | r => r

instance : MonadLift Res (Run ε) := ⟨ofRes⟩

@[simp] theorem pure_apply (a : α) (l : List Event) : (pure a : Run ε α) l = (.ok a, l) := rfl
@[simp] theorem bind_apply (x : Run ε α) (f : α → Run ε β) (l : List Event) :
    (x >>= f) l = match x l with
      | (.ok a, l') => f a l'
      | (.err e, l') => (.err e, l')
      | (.panic, l') => (.panic, l') := rfl
@[simp] theorem throw_apply (e : ε) (l : List Event) : (throw e : Run ε α) l = (.err e, l) := rfl
@[simp] theorem emit_apply (e : Event) (l : List Event) : (emit e : Run ε Unit) l = (.ok (), l ++ [e]) := rfl
@[simp] theorem lift_ok (a : α) (l : List Event) : (liftM (n := Run ε) (Res.ok a)) l = (.ok a, l) := rfl
@[simp] theorem monadLift_ok (a : α) (l : List Event) :
    (monadLift (Res.ok a) : Run ε α) l = (.ok a, l) := rfl
@[simp] theorem monadLift_panic (l : List Event) :
    (monadLift (Res.panic : Res α) : Run ε α) l = (.panic, l) := rfl
@[simp] theorem map_apply (f : α → β) (x : Run ε α) (l : List Event) :
    (f <$> x) l = match x l with
      | (.ok a, l') => (.ok (f a), l')
      | (.err e, l') => (.err e, l')
      | (.panic, l') => (.panic, l') := by
  show (x >>= fun a => pure (f a)) l = _
  simp only [bind_apply]
  cases x l with
  | mk o l' => cases o <;> rfl

end Run

/-! ## `str`, `Option`, iterator vocabulary of the generated code -/

namespace RStr

/-- `s.starts_with(p)` -/
def starts_with (s p : Name) : Bool := p.isPrefixOf s

/-- helper for `rsplit_once`: scanning from the left, remember the last split.
    `acc` is the reversed text before the current position. -/
def rsplitGo (d : Char) : (rest : Name) → (accRev : Name) → (best : Option (Name × Name)) → Option (Name × Name)
  | [], _, best => best
  | c :: cs, acc, best =>
    if c = d then rsplitGo d cs (c :: acc) (some (acc.reverse, cs))
    else rsplitGo d cs (c :: acc) best

/-- `s.rsplit_once(d)` for a one-character pattern `d`: split at the LAST
    occurrence, `None` when `d` does not occur. -/
def rsplit_once_char (s : Name) (d : Char) : Option (Name × Name) := rsplitGo d s [] none

/-- `s.strip_prefix(p)` -/
def strip_prefix (s p : Name) : Option Name :=
  if p.isPrefixOf s then some (s.drop p.length) else none

/-- `format!("…{a}…{b}…")` with plain placeholders: the concatenation of its pieces -/
def concat (pieces : List Name) : Name := pieces.flatten

/-- `s.replace(from, to)` for a non-empty `from`: every non-overlapping
    occurrence, left to right.  (`fuel` = remaining length; structural.) -/
def replaceGo (from_ to : Name) : Nat → Name → Name
  | 0, s => s
  | fuel + 1, s =>
    match s with
    | [] => []
    | c :: cs =>
      if from_.isPrefixOf (c :: cs) && !from_.isEmpty then
        to ++ replaceGo from_ to fuel ((c :: cs).drop from_.length)
      else c :: replaceGo from_ to fuel cs

def replace (s from_ to : Name) : Name := replaceGo from_ to s.length s

/-- code-point-wise lexicographic `≤` (= Rust's byte-wise `String` order). -/
def le : Name → Name → Bool
  | [], _ => true
  | _ :: _, [] => false
  | a :: as, b :: bs => if a.toNat < b.toNat then true else if b.toNat < a.toNat then false else le as bs

/-- insert into a sorted list, after every element that is `≤` the new one is passed -/
def insertSorted (a : Name) : List Name → List Name
  | [] => [a]
  | b :: bs => if le a b then a :: b :: bs else b :: insertSorted a bs

/-- `v.sort()` on a `Vec<String>`.  Rust's `sort` is a stable merge sort; the
    order is total and antisymmetric, so every correct sorting algorithm returns
    the same list (`TRL.sort_eq_of_perm`).  The model uses insertion sort
    because it is structurally recursive (kernel-reducible). -/
def sort (l : List Name) : List Name := l.foldr insertSorted []

end RStr

/-- `opt.map_or(default, f)` -/
def ROpt_map_or {α β} (o : Option α) (d : β) (f : α → β) : β :=
  match o with
  | some a => f a
  | none => d

/-- `x.unwrap()` on an `Option` or a `Result`: the payload or a panic. -/
class RUnwrap (γ : Type) (α : outParam Type) where
  unwrap : γ → Res α

instance {α} : RUnwrap (Option α) α := ⟨fun o => match o with | some a => .ok a | none => .panic⟩
instance {α ε} : RUnwrap (RResult α ε) α := ⟨fun r => match r with | .Ok a => .ok a | .Err _ => .panic⟩

/-- `res.map_err(f)` -/
def RResult_map_err {α ε ε'} (r : RResult α ε) (f : ε → ε') : RResult α ε' :=
  match r with
  | .Ok a => .Ok a
  | .Err e => .Err (f e)

/-- `res.is_ok()` / `res.is_err()` -/
def RResult_is_ok {α ε} (r : RResult α ε) : Bool :=
  match r with
  | .Ok _ => true
  | .Err _ => false
def RResult_is_err {α ε} (r : RResult α ε) : Bool := !RResult_is_ok r

namespace RIter
/-- `.into_iter()` / `.iter()` on a `Vec` -/
def into_iter {α} (l : List α) : List α := l
/-- `.enumerate()` -/
def enumerate {α} (l : List α) : List (Nat × α) := (l.zipIdx).map (fun p => (p.2, p.1))
def skip {α} (l : List α) (n : Nat) : List α := l.drop n
def take {α} (l : List α) (n : Nat) : List α := l.take n
def rev {α} (l : List α) : List α := l.reverse
def filter {α} (l : List α) (p : α → Bool) : List α := l.filter p
def map {α β} (l : List α) (f : α → β) : List β := l.map f
def collect {α} (l : List α) : List α := l
end RIter

/-- the literal `k` of the type Rust's integer fallback gives an unconstrained
    counter (`let mut n = 0; n += 1;` ⇒ `i32`). -/
def i32lit (k : Nat) : I32 := RInt.ofInt true 32 k

/-! ## Function table, signatures, `Module::get_function` -/

/-- The part of a script type that matters to the runner and to `run`. -/
inductive Ty where
  | unit
  | verdictUnitUnit
  | other (n : Nat)
  deriving DecidableEq, Repr

structure Sig where
  params : List Ty
  ret : Ty
  deriving DecidableEq, Repr

/-- What a compiled function does when called (as far as C19 observes it). -/
structure FnInfo where
  sig : Sig
  /-- the verdict a call returns, for functions of type `fn() -> Verdict[(), ()]` -/
  verdict : Verdict Unit Unit
  deriving DecidableEq, Repr

/-- `Module.functions` (a hash map): an association list with distinct keys. -/
abbrev Table := List (Name × FnInfo)

def Table.keys (t : Table) : List Name := t.map (·.1)
def Table.find (t : Table) (k : Name) : Option FnInfo := (t.find? (fun p => p.1 = k)).map (·.2)

inductive FnErr where
  | doesNotExist
  | typeMismatch
  deriving DecidableEq, Repr

def pkgDot : Name := ['p', 'k', 'g', '.']

/-- A typed handle to a compiled function. -/
structure TypedFunc where
  key : Name
  info : FnInfo
  deriving DecidableEq, Repr

/-- The part of `Module::get_function::<F>` after the key has been computed: ONE look-up of
    `key` in the table (`None` ↦ `DoesNotExist`), the signature check (`TypeMismatch`), and a
    handle to the looked-up entry's function.  Hand model; that the code has this shape (one
    `self.functions.get(&name)`, `get_finalized_function(function_info.id)`) is checked by the
    translator, which GENERATES the key computation (`Gen.TestRunner.get_function_key`) and
    `Module_get_function = get_function_at … (get_function_key name)`. -/
def get_function_at (t : Table) (want : Sig) (key : Name) : RResult TypedFunc FnErr :=
  match t.find key with
  | none => .Err .doesNotExist
  | some info => if info.sig = want then .Ok ⟨key, info⟩ else .Err .typeMismatch

/-- SPECIFICATION of `Module::get_function::<F>(name)`: names are paths from the root of the
    package — the key `"pkg." ++ name`, and no other, must exist and have the requested
    signature.  (`TRL.Module_get_function_spec` proves the generated function equal to this;
    a look-up that also accepts other spellings of a name — `pkg.f` for the root's `f`, which
    is the name of `f` in a submodule called `pkg` — is not.) -/
def get_function (t : Table) (want : Sig) (name : Name) : RResult TypedFunc FnErr :=
  match t.find (pkgDot ++ name) with
  | none => .Err .doesNotExist
  | some info => if info.sig = want then .Ok ⟨pkgDot ++ name, info⟩ else .Err .typeMismatch

/-- `codegen::Module` as far as the runner sees it. -/
structure Module where
  functions : Table
  deriving Repr

def Module.get_function (m : Module) (want : Sig) (name : Name) : RResult TypedFunc FnErr :=
  TR.get_function m.functions want name

/-- the requested type of a test: `fn() -> Verdict<(), ()>` -/
def testSig : Sig := ⟨[], .verdictUnitUnit⟩
/-- the requested type of `roto run`'s entry: `fn()` -/
def entrySig : Sig := ⟨[], .unit⟩

/-- `TypedFunc::call_tuple(ctx, ())`: runs the body once (one event), returns its verdict. -/
def TypedFunc.call_tuple {ε} (f : TypedFunc) (_ctx : Unit) (_args : Unit) : Run ε (Verdict Unit Unit) := do
  Run.emit (.ranTest f.key)
  pure f.info.verdict

/-- `TestCase { name, func }` -/
structure TestCase where
  name : Name
  func : TypedFunc
  deriving DecidableEq, Repr

def TestCase.new (name : Name) (func : TypedFunc) : TestCase := ⟨name, func⟩

/-! ## Identifiers and declarations -/

/-- The `unicode-ident` predicates are parameters (trusted library). -/
structure XID where
  start : Char → Bool
  cont : Char → Bool

/-- The lexer's identifier rule (`keyword_or_ident`): `(XID_Start | '_') XID_Continue*`. -/
def isIdent (X : XID) : Name → Bool
  | [] => false
  | c :: cs => (X.start c || c == '_') && cs.all X.cont

/-- An item a script can declare in a module. -/
inductive Decl where
  | fn (name : Name) (info : FnInfo)
  | test (name : Name) (verdict : Verdict Unit Unit)
  deriving DecidableEq, Repr

/-- A module: its path below `pkg` and its declarations in source order. -/
structure Mod where
  path : List Name
  decls : List Decl
  deriving DecidableEq, Repr

def dotJoin : List Name → Name
  | [] => []
  | [a] => a
  | a :: b :: rest => a ++ '.' :: dotJoin (b :: rest)

def pkgName : Name := ['p', 'k', 'g']

/-- `TypeInfo::full_name`: printed scope, `.`, item name. -/
def fullName (path : List Name) (item : Name) : Name := dotJoin (pkgName :: path ++ [item])


/-! ## Name spaces: declaring items, the function table of a package

  Hand model.  The type checker declares every `fn f` under the key `f` and
  every `test t` under the key `tcName t` in the module's scope
  (`insert_function`); a second declaration with an existing key is the error
  "… is declared multiple times".  The MIR lowerer names the item of `test t`
  `mirName t`; code generation puts every function into `Module.functions`
  under its full name.  `tcName`/`mirName` are parameters: the theorems
  instantiate them with the GENERATED `test_fn_name_typechecker` /
  `test_fn_name_mir`. -/

def Decl.name : Decl → Name
  | .fn n _ => n
  | .test n _ => n

def Decl.isTest : Decl → Bool
  | .fn _ _ => false
  | .test _ _ => true

/-- the key a declaration occupies in its module's scope / in the function table -/
def Decl.key (testName : Name → Name) : Decl → Name
  | .fn n _ => n
  | .test n _ => testName n

def Decl.info (sig : Sig) : Decl → FnInfo
  | .fn _ i => i
  | .test _ v => ⟨sig, v⟩

/-- declare the items of one module in source order; `none` = "declared multiple times" -/
def declare (tcName : Name → Name) : List Decl → List Name → Option (List Name)
  | [], scope => some scope
  | d :: ds, scope =>
    if d.key tcName ∈ scope then none else declare tcName ds (scope ++ [d.key tcName])

/-- the entries one module contributes to `Module.functions` -/
def moduleTable (mirName : Name → Name) (sig : Sig) (m : Mod) : Table :=
  m.decls.map (fun d => (fullName m.path (d.key mirName), d.info sig))

/-- the function table of a package that type-checks (its order is that of a hash map: irrelevant) -/
def packageTable (mirName : Name → Name) (sig : Sig) (mods : List Mod) : Table :=
  mods.flatMap (moduleTable mirName sig)

/-- the keys of all test blocks of all modules -/
def testKeys (mirName : Name → Name) (mods : List Mod) : List Name :=
  mods.flatMap (fun m => (m.decls.filter Decl.isTest).map (fun d => fullName m.path (d.key mirName)))

/-! ## The pipeline as seen by the CLI -/

inductive Entry where
  | missing
  | mistyped
  | good
  deriving DecidableEq, Repr

/-- What the CLI can observe about the script it was given. -/
structure World where
  /-- the runtime carries a context type (`try_without_ctx` gives `None`); `false` for the `roto` binary -/
  hasCtx : Bool
  readOk : Bool
  parseOk : Bool
  typeOk : Bool
  /-- the function table of the compiled package -/
  table : Table
  deriving Repr

inductive CliErr where
  | Read
  | Parse
  | Type
  | TestsFailed
  | Custom
  | CouldNotRetrieveFunction
  deriving DecidableEq, Repr

/-- `std::process::ExitCode`, as the status the parent process observes (`0 … 255`).
    The property speaks of "exits with failure": a non-zero status (`failed`).  The
    model keeps the number, so that a status computed from a count (`ExitCode::from(n as u8)`)
    is inside the model and `cli_exit_*` decide whether it is zero. -/
structure ExitCode where
  status : Nat
  deriving DecidableEq, Repr

namespace ExitCode
/-- `ExitCode::SUCCESS` -/
def SUCCESS : ExitCode := ⟨0⟩
/-- `ExitCode::FAILURE` -/
def FAILURE : ExitCode := ⟨1⟩

/-- what `ExitCode::from` takes: a `u8` (a literal, or a cast integer) -/
class ToStatus (α : Type) where
  toStatus : α → Nat
instance : ToStatus Nat := ⟨fun n => n % 256⟩
instance {s w} : ToStatus (RInt s w) := ⟨fun n => (n.val % 256).toNat⟩

/-- `ExitCode::from(n)` -/
def ofStatus {α} [ToStatus α] (a : α) : ExitCode := ⟨ToStatus.toStatus a⟩

/-- the process reports failure to its parent -/
def failed (c : ExitCode) : Bool := c.status != 0
end ExitCode

abbrev Cli := Run CliErr

structure Path where
  deriving DecidableEq, Repr
structure RtInner where
  deriving DecidableEq, Repr
structure Runtime where
  rt : RtInner
  noCtx : Bool
  deriving DecidableEq, Repr
structure FileTree where
  deriving Repr
structure Parsed where
  deriving Repr
structure TypeChecked where
  deriving Repr
structure LoweredToMir where
  deriving Repr
structure LoweredToLir where
  deriving Repr
structure Package where
  module : Module
  deriving Repr

/-- `Package::get_function::<F>(name)` = `self.module.get_function(name)` (src/pipeline.rs; hand model) -/
def Package.get_function (p : Package) (want : Sig) (name : Name) : RResult TypedFunc FnErr :=
  p.module.get_function want name

/-- `return Err(e)` inside a function returning `Result<_, RotoReport>` -/
def Cli.throw_ (e : CliErr) : Cli Unit := throw e

/-- the value of a call whose `Result` is the error channel -/
def Run.reify {ε α} (x : Run ε α) : Run ε (RResult α ε) := fun l =>
  match x l with
  | (.ok a, l') => (.ok (.Ok a), l')
  | (.err e, l') => (.ok (.Err e), l')
  | (.panic, l') => (.panic, l')

/-- `e?` inside a function returning `Result<_, RotoReport>` -/
def Cli.try_ {α} (r : RResult α CliErr) : Cli α :=
  match r with
  | .Ok a => pure a
  | .Err e => throw e

namespace World

def runtime (W : World) : Runtime := ⟨⟨⟩, !W.hasCtx⟩

/-- `rt.clone()` -/
def clone (W : World) (r : Runtime) : Cli Runtime := pure r
/-- `Runtime::try_without_ctx` -/
def try_without_ctx (W : World) (r : Runtime) : Cli (Option Runtime) := pure (if r.noCtx then some r else none)
/-- `FileTree::read(path)` -/
def FileTree_read (W : World) (_p : Path) : Cli (RResult FileTree CliErr) := do
  Run.emit (.stage 0)
  pure (if W.readOk then .Ok ⟨⟩ else .Err .Read)
def parse (W : World) (_t : FileTree) : Cli (RResult Parsed CliErr) := do
  Run.emit (.stage 1)
  pure (if W.parseOk then .Ok ⟨⟩ else .Err .Parse)
def typecheck (W : World) (_t : Parsed) (_rt : Runtime) : Cli (RResult TypeChecked CliErr) := do
  Run.emit (.stage 2)
  pure (if W.typeOk then .Ok ⟨⟩ else .Err .Type)
def lower_to_mir (W : World) (_t : TypeChecked) : Cli LoweredToMir := do
  Run.emit (.stage 3)
  pure ⟨⟩
def lower_to_lir (W : World) (_t : LoweredToMir) : Cli LoweredToLir := do
  Run.emit (.stage 4)
  pure ⟨⟩
def codegen (W : World) (_t : LoweredToLir) : Cli Package := do
  Run.emit (.stage 5)
  pure ⟨⟨W.table⟩⟩
/-- `TypedFunc<_, fn()>::call()` -/
def call (W : World) (f : TypedFunc) : Cli Unit := Run.emit (.calledEntry f.key)
/-- `rt.rt.print_documentation(path)` -/
def print_documentation (W : World) (_r : RtInner) (_p : Path) : Cli (RResult Unit Unit) := do
  Run.emit (.stage 6)
  pure (.Ok ())
/-- `std::fs::read_to_string(file)` (Print) -/
def read_to_string (W : World) (_p : Path) : Cli (RResult Unit Unit) := do
  Run.emit (.stage 7)
  pure (if W.readOk then .Ok () else .Err ())
def print_highlighted (W : World) (_s : Unit) : Cli Unit := Run.emit (.stage 8)
/-- `x.unwrap()` in the CLI -/
def unwrap (W : World) {α ε} (r : RResult α ε) : Cli α :=
  match r with
  | .Ok a => pure a
  | .Err _ => Run.panic'
end World

end RotoV.TR
