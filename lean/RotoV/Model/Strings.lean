/-
  Strings: Roto's string views and `StringBuf` (C17).

  A Rust `str` is modelled as its sequence of code points (`List Char`)
  together with its UTF-8 encoding (`utf8`, written out here; core Lean only).
  Byte offsets, `is_char_boundary`, `str::get(a..b)`, `&s[a..b]` (panics),
  `char_indices`, `match_indices('\n')` and `str::lines` are given once
  (section *std vocabulary* — std is trusted, see DESIGN §2); the methods of
  `StringBytes` / `StringChars` / `StringLines` (src/value/string.rs:170-325)
  are transcribed WITH THE ITERATOR ARITHMETIC AS WRITTEN, a panic being an
  explicit `Res.panic`.  `usize` is 64 bits wide, so the `u64 → usize`
  conversions in src/runtime/basic.rs (`idx.try_into().ok()?`) never fail.

  The `spec*` functions at the end are the *documented* meaning (what the doc
  strings in basic.rs promise); `Props/C17.lean` relates the two.
-/
import RotoV.Model.RustStd

namespace RotoV.Strings

/-! ## UTF-8 -/

/-- UTF-8 encoding of one code point (RFC 3629). -/
def utf8Char (c : Char) : List UInt8 :=
  let n := c.toNat
  if n < 0x80 then [UInt8.ofNat n]
  else if n < 0x800 then [UInt8.ofNat (0xC0 + n / 64), UInt8.ofNat (0x80 + n % 64)]
  else if n < 0x10000 then
    [UInt8.ofNat (0xE0 + n / 4096), UInt8.ofNat (0x80 + n / 64 % 64), UInt8.ofNat (0x80 + n % 64)]
  else
    [UInt8.ofNat (0xF0 + n / 262144), UInt8.ofNat (0x80 + n / 4096 % 64),
     UInt8.ofNat (0x80 + n / 64 % 64), UInt8.ofNat (0x80 + n % 64)]

/-- `char::len_utf8` -/
def utf8Size (c : Char) : Nat := (utf8Char c).length

/-- the bytes of a string -/
def utf8 : List Char → List UInt8
  | [] => []
  | c :: s => utf8Char c ++ utf8 s

/-- `str::len` (bytes) -/
def byteLen (s : List Char) : Nat := (utf8 s).length

/-- `u8::is_utf8_char_boundary`: `(b as i8) >= -0x40`, i.e. not `0b10xx_xxxx`. -/
def isLeadByte (b : UInt8) : Bool := b.toNat < 0x80 || 0xC0 ≤ b.toNat

/-! ## std vocabulary (trusted meaning of the `str` operations the views call) -/

/-- `str::is_char_boundary` as std writes it, over the bytes. -/
def isCharBoundary (bytes : List UInt8) (i : Nat) : Bool :=
  if i = 0 then true
  else if bytes.length ≤ i then i = bytes.length
  else match bytes[i]? with
    | some b => isLeadByte b
    | none => false

/-- the code points starting at byte offset `i` (only used at a boundary) -/
def dropBytes : List Char → Nat → List Char
  | [], _ => []
  | c :: s, i => if i = 0 then c :: s else dropBytes s (i - utf8Size c)

/-- the code points covering the first `n` bytes (only used at a boundary) -/
def takeBytes : List Char → Nat → List Char
  | [], _ => []
  | c :: s, n => if n = 0 then [] else c :: takeBytes s (n - utf8Size c)

/-- `s.get(a..)` -/
def strGetFrom (s : List Char) (a : Nat) : Option (List Char) :=
  if isCharBoundary (utf8 s) a then some (dropBytes s a) else none

/-- `s.get(a..b)`: `a <= b && is_char_boundary(a) && is_char_boundary(b)` -/
def strGet (s : List Char) (a b : Nat) : Option (List Char) :=
  if a ≤ b ∧ isCharBoundary (utf8 s) a ∧ isCharBoundary (utf8 s) b then
    some (takeBytes (dropBytes s a) (b - a))
  else none

/-- `&s[a..b]`: panics where `get` gives `None`. -/
def strIndex (s : List Char) (a b : Nat) : Res (List Char) :=
  match strGet s a b with
  | some r => .ok r
  | none => .panic

/-- `s.char_indices().map(|(byte, _)| byte)` starting at offset `o` -/
def charOffsetsFrom : Nat → List Char → List Nat
  | _, [] => []
  | o, c :: s => o :: charOffsetsFrom (o + utf8Size c) s

/-- `s.match_indices('\n').map(|(byte, _)| byte + 1)` starting at offset `o` -/
def nlEndsFrom : Nat → List Char → List Nat
  | _, [] => []
  | o, c :: s =>
    if c = '\n' then (o + utf8Size c) :: nlEndsFrom (o + utf8Size c) s
    else nlEndsFrom (o + utf8Size c) s

/-- `s.ends_with('\n')` -/
def endsWithNl (s : List Char) : Bool := s.getLast? == some '\n'

/-- `s.split_inclusive('\n')`: the raw line segments, terminators kept, no
final empty segment. -/
def rawLines : List Char → List (List Char)
  | [] => []
  | c :: s =>
    if c = '\n' then [c] :: rawLines s
    else match rawLines s with
      | [] => [[c]]
      | l :: ls => (c :: l) :: ls

/-- what `str::lines` does to one segment: strip a final `\n`, and then (only
then) one final `\r`. -/
def stripEol (l : List Char) : List Char :=
  if l.getLast? = some '\n' then
    let l1 := l.dropLast
    if l1.getLast? = some '\r' then l1.dropLast else l1
  else l

/-- `str::lines` -/
def strLines (s : List Char) : List (List Char) := (rawLines s).map stripEol

/-! ## `StringBytes` (string.rs:175-199) -/

/-- `self.0.0.len()` -/
def bytesLen (s : List Char) : Nat := byteLen s

/-- `self.0.0.get(idx..).and_then(|s| s.chars().next())` -/
def bytesGet (s : List Char) (idx : Nat) : Option Char :=
  (strGetFrom s idx).bind fun t => t.head?

/-- `self.0.0.get(i..j).map(Into::into)` -/
def bytesSlice (s : List Char) (i j : Nat) : Res (Option (List Char)) :=
  .ok (strGet s i j)

/-- `self.0.0.as_bytes().iter().copied().collect()` -/
def bytesList (s : List Char) : List UInt8 := utf8 s

/-! ## `StringChars` (string.rs:206-257) -/

/-- `self.0.0.chars().count()` -/
def charsLen (s : List Char) : Nat := s.length

/-- `self.0.0.chars().nth(idx)` -/
def charsGet (s : List Char) (idx : Nat) : Option Char := s[idx]?

/-- `Iterator::nth` on a list-backed iterator: the element and the rest. -/
def iterNth (it : List Nat) (n : Nat) : Option (Nat × List Nat) :=
  match it.drop n with
  | [] => none
  | x :: rest => some (x, rest)

/-- `StringChars::slice` as written:
```
let len = j.checked_sub(i)?;
let mut indices = char_indices().map(|(byte, _)| byte).chain(once(self.len()));
let byte_i = indices.nth(i)?;
if let Some(idx) = len.checked_sub(1) {
    let byte_j = indices.nth(idx)?;
    Some(self[byte_i..byte_j].into())
} else { Some("".into()) }
``` -/
def charsSlice (s : List Char) (i j : Nat) : Res (Option (List Char)) :=
  if j < i then .ok none else
  let len := j - i
  let indices := charOffsetsFrom 0 s ++ [byteLen s]
  match iterNth indices i with
  | none => .ok none
  | some (byte_i, indices) =>
    if len = 0 then .ok (some [])
    else match iterNth indices (len - 1) with
      | none => .ok none
      | some (byte_j, _) => (strIndex s byte_i byte_j).map' some

/-- the `for` loop over `self.0.0.chars()` pushing into a new list -/
def charsList (s : List Char) : List Char := s

/-! ## `StringLines` (string.rs:264-325) -/

/-- `self.0.0.lines().count()` -/
def linesLen (s : List Char) : Nat := (strLines s).length

/-- `self.0.0.get(idx..).and_then(|s| s.chars().next())` — AS WRITTEN: the same
body as `StringBytes::get`, typed `Option<char>`. -/
def linesGet (s : List Char) (idx : Nat) : Option Char :=
  (strGetFrom s idx).bind fun t => t.head?

/-- `for _ in 0..n { let idx = iter.next()?; cur = idx; }` -/
def advance : Nat → List Nat → Nat → Option (Nat × List Nat)
  | 0, it, cur => some (cur, it)
  | _ + 1, [], _ => none
  | n + 1, x :: it, _ => advance n it x

/-- `StringLines::slice` as written:
```
let num = j.checked_sub(i)?;
let end = if s.ends_with('\n') { None } else { Some(s.len()) };
let mut iter = s.match_indices('\n').map(|(byte, _)| byte + 1);
let mut start_idx = 0;
for _ in 0..i { let idx = iter.next()?; start_idx = idx; }
if num == 0 { return Some(""); }
let mut iter = iter.chain(end);
let mut end_idx = start_idx;
for _ in i..j { let idx = iter.next()?; end_idx = idx; }
Some(self[start_idx..end_idx].into())
``` -/
def linesSlice (s : List Char) (i j : Nat) : Res (Option (List Char)) :=
  if j < i then .ok none else
  let num := j - i
  let end_ : List Nat := if endsWithNl s then [] else [byteLen s]
  let iter := nlEndsFrom 0 s
  match advance i iter 0 with
  | none => .ok none
  | some (start_idx, iter) =>
    if num = 0 then .ok (some [])
    else
      let iter := iter ++ end_
      match advance (j - i) iter start_idx with
      | none => .ok none
      | some (end_idx, _) => (strIndex s start_idx end_idx).map' some

/-- `self.0.0.lines().map(Into::into).collect()` -/
def linesList (s : List Char) : List (List Char) := strLines s

/-! ## `StringBuf` (string_buf.rs): a `Mutex<String>`; the state is its contents -/

inductive BufOp where
  | pushChar (c : Char)
  | pushString (s : List Char)
  deriving Repr, DecidableEq

/-- what a push contributes -/
def BufOp.text : BufOp → List Char
  | .pushChar c => [c]
  | .pushString s => s

/-- `StringBuf::new()` -/
def bufNew : List Char := []
/-- `StringBuf::from(s)` -/
def bufFrom (s : List Char) : List Char := s
/-- `push_char` = `String::push`, `push_string` = `String::push_str` -/
def bufStep (st : List Char) : BufOp → List Char
  | .pushChar c => st ++ [c]
  | .pushString s => st ++ s
/-- `as_string` -/
def bufAsString (st : List Char) : List Char := st

/-- run an append log -/
def bufRun (init : List Char) (log : List BufOp) : List Char :=
  bufAsString (log.foldl bufStep init)

/-! ### histories: pushes and READS interleaved (every `as_string` is observed)

All handles of one `StringBuf` (`let b2 = b;` clones the `Arc`) share the one
`Mutex<String>`: the state is still the contents, whichever handle is used. -/

inductive BufEv where
  | op (o : BufOp)
  | read
  deriving Repr, DecidableEq

/-- the values returned by the `as_string` calls of a history, in order -/
def bufTrace (st : List Char) : List BufEv → List (List Char)
  | [] => []
  | .op o :: es => bufTrace (bufStep st o) es
  | .read :: es => bufAsString st :: bufTrace st es

/-- number of reads in a history -/
def countReads : List BufEv → Nat
  | [] => 0
  | .op _ :: es => countReads es
  | .read :: es => countReads es + 1

/-- everything a history pushes, in order (reads contribute nothing) -/
def pushedText : List BufEv → List Char
  | [] => []
  | .op o :: es => o.text ++ pushedText es
  | .read :: es => pushedText es

/-! ## Documented meaning (the specification side) -/

/-- the index `k` of the code point starting at byte offset `i` (`k = s.length`
for `i = len`): `i` is a code-point boundary iff this is `some`. -/
def boundaryIdx (s : List Char) (i : Nat) : Option Nat :=
  (List.range (s.length + 1)).find? fun k => byteLen (s.take k) == i

/-- "Get the character at byte offset `idx`." -/
def specBytesGet (s : List Char) (i : Nat) : Option Char :=
  (boundaryIdx s i).bind fun k => s[k]?

/-- "Slice this string based on byte indices … `None` if either `start` or
`end` is out of bounds or if `start` is greater than `end` … [or] within a
code point." -/
def specBytesSlice (s : List Char) (i j : Nat) : Option (List Char) :=
  if i ≤ j then
    match boundaryIdx s i, boundaryIdx s j with
    | some a, some b => some ((s.drop a).take (b - a))
    | _, _ => none
  else none

/-- "Get the nth character of this string." -/
def specCharsGet (s : List Char) (n : Nat) : Option Char := s[n]?

/-- "Slice this string based on the character indices … `None` if either
`start` or `end` is out of bounds or if `start` is greater than `end`." -/
def specCharsSlice (s : List Char) (i j : Nat) : Option (List Char) :=
  if i ≤ j ∧ j ≤ s.length then some ((s.drop i).take (j - i)) else none

/-- "Get the number of lines in this string." (lines as `str::lines`) -/
def specLinesLen (s : List Char) : Nat := (rawLines s).length

/-- "Get the nth line in this string." -/
def specLinesGet (s : List Char) (n : Nat) : Option (List Char) := (strLines s)[n]?

/-- "Slice this string by lines. The line at index `end` is not included …
`None` if either `start` or `end` is out of bounds or if `start` is greater
than `end`." The slice is a substring of the original: terminators kept. -/
def specLinesSlice (s : List Char) (i j : Nat) : Option (List Char) :=
  if i ≤ j ∧ j ≤ (rawLines s).length then
    some (((rawLines s).drop i).take (j - i)).flatten
  else none

/-- "Get a list of lines." -/
def specLinesList (s : List Char) : List (List Char) := strLines s

end RotoV.Strings
