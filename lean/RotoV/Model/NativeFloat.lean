/-
  The driver's instance of `FloatOps`: Lean's native `Float32` / `Float`
  (hardware IEEE-754).  Used only for *running* the model against the
  implementation; theorems never mention it (they hold for every instance).
  The `FloatLaws` facts cannot be proved about opaque native floats; they are
  hypotheses of the theorems and are sampled by the correspondence run.
-/
import RotoV.Model.RustStd

namespace RotoV.Native

def f32 (b : BitVec 32) : Float32 := Float32.ofBits b.toNat.toUInt32
def f64 (b : BitVec 64) : Float := Float.ofBits b.toNat.toUInt64
def b32 (f : Float32) : BitVec 32 := BitVec.ofNat 32 f.toBits.toNat
def b64 (f : Float) : BitVec 64 := BitVec.ofNat 64 f.toBits.toNat

def add32 (a b : BitVec 32) := b32 (f32 a + f32 b)
def sub32 (a b : BitVec 32) := b32 (f32 a - f32 b)
def mul32 (a b : BitVec 32) := b32 (f32 a * f32 b)
def div32 (a b : BitVec 32) := b32 (f32 a / f32 b)
def neg32 (a : BitVec 32) := b32 (- f32 a)
def add64 (a b : BitVec 64) := b64 (f64 a + f64 b)
def sub64 (a b : BitVec 64) := b64 (f64 a - f64 b)
def mul64 (a b : BitVec 64) := b64 (f64 a * f64 b)
def div64 (a b : BitVec 64) := b64 (f64 a / f64 b)
def neg64 (a : BitVec 64) := b64 (- f64 a)
def promote (a : BitVec 32) : BitVec 64 := b64 (f32 a).toFloat
def demote (a : BitVec 64) : BitVec 32 := b32 (f64 a).toFloat32
def eq64 (a b : BitVec 64) : Bool := f64 a == f64 b
def lt64 (a b : BitVec 64) : Bool := f64 a < f64 b
def le64 (a b : BitVec 64) : Bool := f64 a <= f64 b
def eq32 (a b : BitVec 32) : Bool := f32 a == f32 b
def lt32 (a b : BitVec 32) : Bool := f32 a < f32 b
def le32 (a b : BitVec 32) : Bool := f32 a <= f32 b

end RotoV.Native

namespace RotoV
open Native in
@[instance_reducible] def nativeFloatOps : FloatOps :=
  { add32, sub32, mul32, div32, neg32, add64, sub64, mul64, div64, neg64,
    promote, demote, eq64, lt64, le64, eq32, lt32, le32 }
end RotoV
