/-
  C07, rule "recursive constants": the DOCUMENTED rule on a reference graph, as
  an executable test, next to the model of `src/typechecker/value_cycle.rs` as
  written (`RotoV.Tarjan.findCompilationOrder`, Model/Tarjan.lean).

  The documented rule (value_cycle.rs, module documentation; manual, "constants
  are not allowed to be recursive"): a constant must not refer to itself,
  neither directly nor through other constants or functions. On the reference
  graph: no constant `c` has a reference `c → d` with `d →* c`.

  `constOnCycle g` decides that by plain breadth-first closure — no stack, no
  lowlink, nothing of Tarjan's algorithm — so it is an independent oracle for
  what `find_compilation_order` has to report.

  Core Lean only (linked into the driver).
-/
import RotoV.Model.Tarjan

namespace RotoV.TcValueCycle
open RotoV.Tarjan

/-- one more layer: everything in `s` and everything `s` refers to -/
def grow (g : Graph) (s : List Nat) : List Nat := (s ++ s.flatMap g.refs).eraseDups

/-- names reachable from the names in `s` by at most `n` references -/
def closure (g : Graph) (s : List Nat) : Nat → List Nat
  | 0 => s
  | n + 1 => closure g (grow g s) n

/-- `c` refers to something that leads back to `c` -/
def onCycle (g : Graph) (c : Nat) : Bool :=
  (closure g (g.refs c) g.nodeCount).contains c

/-- the first constant (in key order) that is defined in terms of itself -/
def constOnCycle (g : Graph) : Option Nat :=
  g.keys.find? fun c => g.isConst c && onCycle g c

/-- what the documented rule demands of `find_compilation_order` -/
def ruleRejects (g : Graph) : Bool := (constOnCycle g).isSome

/-- what the code as written answers: `true` = `error_recursive_constant` -/
def codeRejects (g : Graph) : Bool :=
  match findCompilationOrder g with
  | .ok (.recursive _) => true
  | _ => false

end RotoV.TcValueCycle
