/-
  TraceSpec: the *documented evaluation order* of Roto as an executable
  function (C08's oracle).

  A core language in which every position can hold an effectful host call, and
  a fuel-indexed big-step interpreter that returns, besides the value, the
  ordered list of host calls made (`Event`: function id and argument values).
  It is written from the manual (docs/source/reference/language_reference.md):

  * operands of a binary operator, call arguments (a method's receiver is
    argument 0), record fields, list elements, enum-constructor arguments and
    f-string parts are evaluated left to right; statements top to bottom;
  * `&&` / `||` evaluate the right operand only when the left does not decide;
  * `if` runs only the selected branch; `match` evaluates the examinee once,
    then tries the arms top to bottom: an arm is taken when its pattern matches
    and its guard (if any) evaluates to `true`; guards of arms whose pattern
    does not match are not evaluated;
  * `while` evaluates its condition before every iteration and once more at
    the end; `for` evaluates the list expression once and runs the body once
    per element, in order;
  * `return e` / `accept e` / `reject e` evaluate `e`, then leave the function:
    nothing after them runs; `e?` evaluates `e` and leaves the function with
    `None` when it is `None`;
  * `x = e` evaluates `e`, then stores; `x op= e` reads `x`, then evaluates
    `e`, then stores `old x op e`; the same with a field `x.f` as the target
    (the new field value goes into the record `x` holds after `e` ran);
  * a record literal evaluates its field expressions in the order in which the
    literal WRITES them — which need not be the order of the record type — and
    each value becomes the field it was written for;
  * a script-function call evaluates the arguments left to right, then runs
    the callee to its end or to its first `return`;
  * host calls the compiler inserts IMPLICITLY happen at the point of the
    construct they belong to: `{e}` in an f-string whose `e` is a value of a
    registered host type calls that type's `to_string` right after `e` has
    been evaluated and before the next part is (parts of primitive type are
    converted without a host call); `a == b` / `a != b` on two values of a
    registered host type call the type's equality once, after both operands.
    (Clones and drops of host values are not part of the property.)

  The writer-style result `R` carries the trace of exactly the evaluated piece,
  so `trace (a ; b) = trace a ++ trace b` holds by construction and the
  ordering lemmas of `Props/C08.lean` are statements about this function.

  Values are small on purpose (i32 payloads everywhere): what matters here is
  which calls happen, in which order, with which argument values.

  Core Lean only (linked into the driver executable).
-/
namespace RotoV.TraceSpec

/-- Script values. Aggregates carry `i32` payloads only. -/
inductive Val
  | int (v : Int)                    -- i32
  | bool (b : Bool)
  | unit
  | str (s : String)
  | opt (o : Option Int)             -- i32?
  | enm (v : Nat) (fs : List Int)    -- user enum `E`: variant index, payload
  | recd (fs : List Int)             -- record `{ a: i32, b: i32, … }`
  | list (xs : List Int)             -- List[i32]
  | verdict (acc : Bool) (v : Int)   -- Verdict[i32, i32]
  | tok (v : Int)                    -- the registered host type `Tok` (a value type wrapping an i32)
  deriving DecidableEq, Repr, Inhabited

/-- One call of a host function: which one, with which argument values. -/
structure Event where
  fn : Nat
  args : List Val
  deriving DecidableEq, Repr, Inhabited

abbrev Trace := List Event

/-- i32 two's-complement wrap of an exact result. -/
def wrap32 (x : Int) : Int :=
  let r := x % 4294967296
  if r ≥ 2147483648 then r - 4294967296 else r

inductive BinOp
  | add | sub | mul | eq | ne | lt | le | gt | ge
  deriving DecidableEq, Repr, Inhabited

def BinOp.isArith : BinOp → Bool
  | .add | .sub | .mul => true
  | _ => false

/-- A strict binary operator on evaluated operands. -/
def binop (op : BinOp) (a b : Val) : Option Val :=
  match a, b with
  | .int x, .int y =>
    match op with
    | .add => some (.int (wrap32 (x + y)))
    | .sub => some (.int (wrap32 (x - y)))
    | .mul => some (.int (wrap32 (x * y)))
    | .eq => some (.bool (decide (x = y)))
    | .ne => some (.bool (decide (x ≠ y)))
    | .lt => some (.bool (decide (x < y)))
    | .le => some (.bool (decide (x ≤ y)))
    | .gt => some (.bool (decide (x > y)))
    | .ge => some (.bool (decide (x ≥ y)))
  | .bool x, .bool y =>
    match op with
    | .eq => some (.bool (x == y))
    | .ne => some (.bool (x != y))
    | _ => none
  | _, _ => none

def showInt (v : Int) : String := toString v

/-- the text of a `Tok` -/
def tokText (v : Int) : String := "T" ++ showInt v

/-- The host functions the harness registers (ids are the event's `fn`).
    Every one logs its arguments; the result is a pure function of them.
      0 `emit(k, v: i32) -> i32`      1 `emit_b(k, v: bool) -> bool`
      2 `emit_u(k)`                   3 `emit_s(k, s: String) -> String`
      4 `emit_o(k, v: i32) -> i32?`   (Some(v) when v is even)
      5 `i32.mix(self, k, y) -> i32`  (method: the receiver is argument 0)
      6 `emit3(k, a, b) -> i32`       (a - b)
      7 `emit_l(k, l: List[i32]) -> List[i32]`
    and the registered host type `Tok`:
      8 `tok(k, v: i32) -> Tok`       9 `Tok.to_string(self) -> String`  ("T<v>"; also what `{e}` calls)
     10 `Tok.peek(self, k) -> i32`   (11 is the type's equality, see `hostEq`) -/
def hostSem (f : Nat) (args : List Val) : Option Val :=
  match f, args with
  | 0, [.int _, .int v] => some (.int v)
  | 1, [.int _, .bool v] => some (.bool v)
  | 2, [.int _] => some .unit
  | 3, [.int _, .str s] => some (.str s)
  | 4, [.int _, .int v] => some (.opt (if v % 2 = 0 then some v else none))
  | 5, [.int s, .int _, .int y] => some (.int (wrap32 (s + y)))
  | 6, [.int _, .int a, .int b] => some (.int (wrap32 (a - b)))
  | 7, [.int _, .list l] => some (.list l)
  | 8, [.int _, .int v] => some (.tok v)
  | 9, [.tok v] => some (.str (tokText v))
  | 10, [.tok v, .int _] => some (.int v)
  | _, _ => none

/-- A `match` pattern: an enum variant with its field binders, or `_`.
    For an `i32?` examinee variant 0 is `Some(x)` and variant 1 is `None`. -/
inductive Pat
  | variant (v : Nat) (binds : List Nat)
  | wild
  deriving DecidableEq, Repr, Inhabited

mutual
inductive Expr
  | lit (v : Val)
  | var (x : Nat)
  | host (f : Nat) (args : Exprs)        -- host function / method (receiver = first argument)
  | call (f : Nat) (args : Exprs)        -- script function number `f`
  | bin (op : BinOp) (l r : Expr)
  /-- `l == r` (`ne = false`) / `l != r` on two values of a registered host type: the compiler calls
      the type's equality (an implicit host call) -/
  | eqH (ne : Bool) (l r : Expr)
  | and (l r : Expr)
  | or (l r : Expr)
  | not (e : Expr)
  | neg (e : Expr)
  | ite (c : Expr) (t e : Block)
  | if1 (c : Expr) (t : Block)           -- `if` without `else`
  | mtch (s : Expr) (isOpt : Bool) (arms : Arms)   -- `isOpt`: the examinee is an `i32?` (else the enum `E`)
  | while (c : Expr) (b : Block)
  | for (x : Nat) (l : Expr) (b : Block)
  | block (b : Block)
  | assign (x : Nat) (e : Expr)
  | cassign (op : BinOp) (x : Nat) (e : Expr)
  | assignF (x : Nat) (i : Nat) (e : Expr)                 -- `x.f = e`: field `i` of the record variable `x`
  | cassignF (op : BinOp) (x : Nat) (i : Nat) (e : Expr)   -- `x.f op= e`
  | ret (e : Expr)
  | accept (e : Expr)
  | reject (e : Expr)
  | try (e : Expr)                       -- `e?`
  | some (e : Expr)                      -- `Option.Some(e)`
  | none                                 -- `Option.None`
  | ctor (v : Nat) (args : Exprs)        -- `E.V(args…)`
  /-- record literal: `fs` are the field expressions AS WRITTEN; `perm[i]` is the position,
      in the declaration of the record type, of the field the i-th written expression belongs to -/
  | record (perm : List Nat) (fs : Exprs)
  | field (e : Expr) (i : Nat)
  | list (es : Exprs)
  | fstr (ps : Parts)
  | concat (l r : Expr)                  -- `l + r` on strings (`String.append`) or on lists (`List.concat`)
inductive Exprs
  | nil
  | cons (e : Expr) (es : Exprs)
inductive Block
  | nil                                         -- `{ }` / `{ …; }`: value `()`
  | last (e : Expr)                             -- final expression
  | let_ (x : Nat) (e : Expr) (rest : Block)
  | stmt (e : Expr) (rest : Block)
inductive Arms
  | nil
  | arm (p : Pat) (body : Block) (rest : Arms)
  | armG (p : Pat) (g : Expr) (body : Block) (rest : Arms)
inductive Parts
  | nil
  | str (s : String) (rest : Parts)
  | expr (e : Expr) (rest : Parts)
end

instance : Inhabited Expr := ⟨.lit .unit⟩
instance : Inhabited Block := ⟨.nil⟩

structure FnDef where
  params : List Nat
  body : Block

/-- How the evaluation of a piece ended. `ret` is an in-flight
    `return`/`accept`/`reject`/`?`-on-None, caught at the call boundary. -/
inductive Out (α : Type)
  | ok (a : α)
  | ret (v : Val)
  | fuel
  | stuck (why : String)
  deriving Repr, Inhabited, DecidableEq

/-- Writer-style result: the host calls made while evaluating this piece, in
    order, and how it ended. -/
structure R (α : Type) where
  tr : Trace
  out : Out α
  deriving Repr, Inhabited, DecidableEq

namespace R
@[inline] def ok {α} (a : α) : R α := ⟨[], .ok a⟩
@[inline] def stuck {α} (w : String) : R α := ⟨[], .stuck w⟩
@[inline] def fuel {α} : R α := ⟨[], .fuel⟩
@[inline] def early {α} (v : Val) : R α := ⟨[], .ret v⟩
/-- log one host call -/
@[inline] def emit (e : Event) : R Unit := ⟨[e], .ok ()⟩
/-- log host calls -/
@[inline] def emits (t : Trace) : R Unit := ⟨t, .ok ()⟩

/-- Sequencing: the second piece runs only if the first ended normally, and
    its calls come after the first's. -/
@[inline] def bind {α β} (r : R α) (f : α → R β) : R β :=
  match r.out with
  | .ok a => let r' := f a; ⟨r.tr ++ r'.tr, r'.out⟩
  | .ret v => ⟨r.tr, .ret v⟩
  | .fuel => ⟨r.tr, .fuel⟩
  | .stuck w => ⟨r.tr, .stuck w⟩

instance : Monad R where
  pure := ok
  bind := bind
end R

abbrev Env := List (Nat × Val)

def lookup (env : Env) (x : Nat) : Option Val :=
  match env with
  | [] => none
  | (y, v) :: rest => if x = y then some v else lookup rest x

/-- Overwrite the innermost binding of `x`. -/
def update (env : Env) (x : Nat) (v : Val) : Option Env :=
  match env with
  | [] => none
  | (y, w) :: rest =>
    if x = y then some ((y, v) :: rest)
    else (update rest x v).map ((y, w) :: ·)

def bindParams : List Nat → List Val → Env → Option Env
  | [], [], acc => some acc
  | x :: ps, v :: vs, acc => bindParams ps vs ((x, v) :: acc)
  | _, _, _ => none

def bindAll : List Nat → List Int → Env → Option Env
  | [], [], acc => some acc
  | x :: ps, v :: vs, acc =>
    match lookup acc x with
    | some _ => none            -- a binder must be a fresh name
    | none => bindAll ps vs ((x, .int v) :: acc)
  | _, _, _ => none

/-- Leave a scope: the variables of the enclosing scope `outer`, with the
    values they have now (in `env'`). Variables are *resolved names* — one per
    declaration, as in the compiler's IR; declaring a name that is already
    visible is `stuck` below — so this is exactly "discard the bindings made
    inside, keep the updates of outer variables". -/
def leave (outer : Env) (env' : Env) : Env :=
  outer.filterMap (fun p => (lookup env' p.1).map (fun v => (p.1, v)))

def asInts : List Val → Option (List Int)
  | [] => some []
  | .int v :: rest => (asInts rest).map (v :: ·)
  | _ => none

/-- The discriminant of an enum value (`Some` = 0, `None` = 1; `Accept` = 0, `Reject` = 1;
    variant index for the user enum). -/
def discOf : Val → Option Nat
  | .opt (some _) => some 0
  | .opt none => some 1
  | .enm k _ => some k
  | .verdict true _ => some 0
  | .verdict false _ => some 1
  | _ => none

/-- The examinee of a `match` is an `i32?` (`isOpt`) or a value of the enum `E` (three variants). -/
def examineeOk (isOpt : Bool) : Val → Bool
  | .opt _ => isOpt
  | .enm k _ => !isOpt && decide (k < 3)
  | _ => false

/-- The fields of an enum value's variant. -/
def fieldsOf : Val → List Int
  | .opt (some n) => [n]
  | .enm _ fs => fs
  | .verdict _ n => [n]
  | _ => []

/-- Is the arm's pattern the value's variant (or `_`)? Only the constructor is examined. -/
def patMatches (v : Val) : Pat → Bool
  | .wild => true
  | .variant k _ => discOf v == some k

/-- Bind the pattern's names to the variant's fields: as many binders as fields, all
    fresh names (`none` otherwise — the arm is malformed, evaluation is stuck). -/
def bindPat (env : Env) (v : Val) : Pat → Option Env
  | .wild => some env
  | .variant _ bs => bindAll bs (fieldsOf v) env

/-- A record literal names every field of its type exactly once: `perm` (position in the
    type of the i-th field as written) is a permutation of `0 … n-1`. -/
def permOk (perm : List Nat) (n : Nat) : Bool :=
  decide (perm.length = n) && perm.all (· < n) && decide perm.Nodup

/-- The record value a literal builds: the i-th value AS WRITTEN lands in position `perm[i]`
    of the record type (the field it was written for). -/
def arrangeFrom (cur : List Int) : List Nat → List Int → List Int
  | p :: ps, x :: xs => arrangeFrom (cur.set p x) ps xs
  | _, _ => cur

def arrange (perm : List Nat) (xs : List Int) : List Int :=
  arrangeFrom (List.replicate xs.length 0) perm xs

/-- field `i` of the record the variable `x` holds -/
def getField (env : Env) (x i : Nat) : Option Int :=
  match lookup env x with
  | some (.recd fs) => fs[i]?
  | _ => none

/-- the record the variable `x` holds NOW, with field `i` replaced -/
def setField (env : Env) (x i : Nat) (k : Int) : Option Env :=
  match lookup env x with
  | some (.recd fs) => if i < fs.length then update env x (.recd (fs.set i k)) else none
  | _ => none

/-- What `{e}` inside an f-string appends when `e` has a primitive type (no host call). -/
def display : Val → Option String
  | .int v => some (showInt v)
  | .bool b => some (if b then "true" else "false")
  | .str s => some s
  | _ => none

/-- the id of the implicit calls: `Tok.to_string` (the same function as the method) and the
    equality of `Tok` -/
def fnToString : Nat := 9
def fnEq : Nat := 11

/-- What `{e}` inside an f-string appends, and the host calls converting it makes: for a value
    of the registered host type the compiler inserts a call of the type's `to_string`. -/
def render : Val → Option (Trace × String)
  | .tok v => some ([⟨fnToString, [.tok v]⟩], tokText v)
  | v => (display v).map (fun s => ([], s))

/-- `==` (`ne = false`) / `!=` (`ne = true`) on two values of the registered host type: one call
    of the type's equality (`!=` negates its answer). Defined for nothing else. -/
def hostEq (ne : Bool) : Val → Val → Option (Trace × Val)
  | .tok x, .tok y => some ([⟨fnEq, [.tok x, .tok y]⟩], .bool (if ne then decide (x ≠ y) else decide (x = y)))
  | _, _ => none

mutual
/-- `evalExpr fns fuel env e`: the calls made, and the new environment with the
    value (or an in-flight return, or out of fuel). Fuel bounds the depth. -/
def evalExpr (fns : List FnDef) : Nat → Env → Expr → R (Env × Val)
  | 0, _, _ => .fuel
  | n + 1, env, e =>
    match e with
    | .lit v => .ok (env, v)
    | .var x =>
      match lookup env x with
      | some v => .ok (env, v)
      | none => .stuck "unbound variable"
    | .host f args => do
      let (env, vs) ← evalArgs fns n env args
      match hostSem f vs with
      | some v => do
        R.emit ⟨f, vs⟩
        pure (env, v)
      | none => .stuck "host call: arguments"
    | .call f args => do
      let (env, vs) ← evalArgs fns n env args
      match fns[f]? with
      | none => .stuck "unknown function"
      | some fd =>
        match bindParams fd.params vs [] with
        | none => .stuck "arity"
        | some cenv =>
          let r := evalBlock fns n cenv fd.body
          ⟨r.tr, match r.out with
            | .ok (_, v) => .ok (env, v)
            | .ret v => .ok (env, v)
            | .fuel => .fuel
            | .stuck w => .stuck w⟩
    | .bin op l r => do
      let (env, a) ← evalExpr fns n env l
      let (env, b) ← evalExpr fns n env r
      match binop op a b with
      | some v => pure (env, v)
      | none => .stuck "binary operator: operand types"
    | .eqH ne l r => do
      -- both operands first, left to right; then the type's equality, a host call
      let (env, a) ← evalExpr fns n env l
      let (env, b) ← evalExpr fns n env r
      match hostEq ne a b with
      | some (tr, v) => do
        R.emits tr
        pure (env, v)
      | none => .stuck "== on a host type: operand types"
    | .and l r => do
      let (env, a) ← evalExpr fns n env l
      match a with
      | .bool false => pure (env, .bool false)
      | .bool true => do
        let (env, b) ← evalExpr fns n env r
        match b with
        | .bool _ => pure (env, b)
        | _ => .stuck "&& on non-bool"
      | _ => .stuck "&& on non-bool"
    | .or l r => do
      let (env, a) ← evalExpr fns n env l
      match a with
      | .bool true => pure (env, .bool true)
      | .bool false => do
        let (env, b) ← evalExpr fns n env r
        match b with
        | .bool _ => pure (env, b)
        | _ => .stuck "|| on non-bool"
      | _ => .stuck "|| on non-bool"
    | .not e => do
      let (env, v) ← evalExpr fns n env e
      match v with
      | .bool b => pure (env, .bool (!b))
      | _ => .stuck "! on non-bool"
    | .neg e => do
      let (env, v) ← evalExpr fns n env e
      match v with
      | .int x => pure (env, .int (wrap32 (-x)))
      | _ => .stuck "- on non-int"
    | .ite c t e => do
      let (env, cv) ← evalExpr fns n env c
      match cv with
      | .bool true => evalBlock fns n env t
      | .bool false => evalBlock fns n env e
      | _ => .stuck "if on non-bool"
    | .if1 c t => do
      let (env, cv) ← evalExpr fns n env c
      match cv with
      | .bool true => do
        let (env, bv) ← evalBlock fns n env t
        match bv with
        | .unit => pure (env, .unit)
        | _ => .stuck "if without else: the block must have type ()"
      | .bool false => pure (env, .unit)
      | _ => .stuck "if on non-bool"
    | .mtch s isOpt arms => do
      let (env, v) ← evalExpr fns n env s
      if examineeOk isOpt v then evalArms fns n env v arms
      else .stuck "match: the examinee is not a value of the enum"
    | .while c b => evalWhile fns n env c b
    | .for x l b => do
      let (env, lv) ← evalExpr fns n env l
      match lv with
      | .list xs => evalFor fns n env x xs b
      | _ => .stuck "for over a non-list"
    | .block b => evalBlock fns n env b
    | .assign x e => do
      let (env, v) ← evalExpr fns n env e
      match update env x v with
      | some env => pure (env, .unit)
      | none => .stuck "assignment to unbound variable"
    | .cassign op x e =>
      -- the target is read first
      if !op.isArith then .stuck "compound assignment operator" else
      match lookup env x with
      | none => .stuck "assignment to unbound variable"
      | some a => do
        let (env, b) ← evalExpr fns n env e
        match binop op a b with
        | none => .stuck "compound assignment: operand types"
        | some v =>
          match update env x v with
          | some env => pure (env, .unit)
          | none => .stuck "assignment to unbound variable"
    | .assignF x i e => do
      let (env, v) ← evalExpr fns n env e
      match v with
      | .int k =>
        match setField env x i k with
        | some env => pure (env, .unit)
        | none => .stuck "assignment to a field: target"
      | _ => .stuck "assignment to a field: payload"
    | .cassignF op x i e =>
      -- the target field is read first
      if !op.isArith then .stuck "compound assignment operator" else
      match getField env x i with
      | none => .stuck "compound assignment to a field: target"
      | some a => do
        let (env, b) ← evalExpr fns n env e
        match binop op (.int a) b with
        | some (.int k) =>
          -- … and stored into the record the variable holds after the right-hand side ran
          match setField env x i k with
          | some env => pure (env, .unit)
          | none => .stuck "compound assignment to a field: target"
        | _ => .stuck "compound assignment: operand types"
    | .ret e => do
      let (_, v) ← evalExpr fns n env e
      R.early v
    | .accept e => do
      let (_, v) ← evalExpr fns n env e
      match v with
      | .int x => R.early (.verdict true x)
      | _ => .stuck "accept: payload"
    | .reject e => do
      let (_, v) ← evalExpr fns n env e
      match v with
      | .int x => R.early (.verdict false x)
      | _ => .stuck "reject: payload"
    | .try e => do
      let (env, v) ← evalExpr fns n env e
      match v with
      | .opt (some x) => pure (env, .int x)
      | .opt none => R.early (.opt none)
      | _ => .stuck "? on a non-option"
    | .some e => do
      let (env, v) ← evalExpr fns n env e
      match v with
      | .int x => pure (env, .opt (some x))
      | _ => .stuck "Some: payload"
    | .none => .ok (env, .opt none)
    | .ctor k args => do
      let (env, fs) ← evalInts fns n env args
      pure (env, .enm k fs)
    | .record perm fs => do
      -- the field expressions run in the order in which they are WRITTEN, whatever the order of
      -- the fields in the record type; each value is stored in the field it was written for
      let (env, xs) ← evalInts fns n env fs
      if permOk perm xs.length then pure (env, .recd (arrange perm xs))
      else .stuck "record literal: every field of the type exactly once"
    | .field e i => do
      let (env, v) ← evalExpr fns n env e
      match v with
      | .recd fs =>
        match fs[i]? with
        | some x => pure (env, .int x)
        | none => .stuck "no such field"
      | _ => .stuck "field of a non-record"
    | .list es => do
      let (env, xs) ← evalInts fns n env es
      pure (env, .list xs)
    | .fstr ps => do
      let (env, s) ← evalParts fns n env ps
      pure (env, .str s)
    | .concat l r => do
      let (env, a) ← evalExpr fns n env l
      let (env, b) ← evalExpr fns n env r
      -- an operator that desugars to a runtime call: `String.append` on two strings,
      -- `List.concat` on two lists (a fresh list; neither call is a logged host call)
      match a, b with
      | .str x, .str y => pure (env, .str (x ++ y))
      | .list x, .list y => pure (env, .list (x ++ y))
      | _, _ => .stuck "+ on non-strings / non-lists"

/-- left to right -/
def evalArgs (fns : List FnDef) : Nat → Env → Exprs → R (Env × List Val)
  | 0, _, _ => .fuel
  | _ + 1, env, .nil => .ok (env, [])
  | n + 1, env, .cons e es => do
    let (env, v) ← evalExpr fns n env e
    let (env, vs) ← evalArgs fns n env es
    pure (env, v :: vs)

/-- left to right, each value an `i32` (constructor arguments, record fields, list elements) -/
def evalInts (fns : List FnDef) : Nat → Env → Exprs → R (Env × List Int)
  | 0, _, _ => .fuel
  | _ + 1, env, .nil => .ok (env, [])
  | n + 1, env, .cons e es => do
    let (env, v) ← evalExpr fns n env e
    match v with
    | .int x => do
      let (env, xs) ← evalInts fns n env es
      pure (env, x :: xs)
    | _ => .stuck "payload is not an i32"

/-- top to bottom; the bindings made inside are discarded by the caller -/
def evalSeq (fns : List FnDef) : Nat → Env → Block → R (Env × Val)
  | 0, _, _ => .fuel
  | _ + 1, env, .nil => .ok (env, .unit)
  | n + 1, env, .last e => evalExpr fns n env e
  | n + 1, env, .let_ x e rest => do
    let (env, v) ← evalExpr fns n env e
    match lookup env x with
    | some _ => .stuck "redeclaration of a visible name (names are resolved: one per declaration)"
    | none => evalSeq fns n ((x, v) :: env) rest
  | n + 1, env, .stmt e rest => do
    let (env, _) ← evalExpr fns n env e
    evalSeq fns n env rest

/-- A block opens a scope: bindings made inside are discarded at its end,
    updates of outer variables stay. -/
def evalBlock (fns : List FnDef) : Nat → Env → Block → R (Env × Val)
  | 0, _, _ => .fuel
  | n + 1, env, b => do
    let (env', v) ← evalSeq fns n env b
    pure (leave env env', v)

/-- Arms top to bottom; the guard of an arm runs only if its pattern matches. -/
def evalArms (fns : List FnDef) : Nat → Env → Val → Arms → R (Env × Val)
  | 0, _, _, _ => .fuel
  | _ + 1, _, _, .nil => .stuck "no arm matches"
  | n + 1, env, v, .arm p body rest =>
    if patMatches v p then
      match bindPat env v p with
      | some env' => do
        let (env', r) ← evalBlock fns n env' body
        pure (leave env env', r)
      | none => .stuck "malformed pattern"
    else evalArms fns n env v rest
  | n + 1, env, v, .armG p g body rest =>
    if patMatches v p then
      match bindPat env v p with
      | some env' => do
        let (env', gv) ← evalExpr fns n env' g
        match gv with
        | .bool true => do
          let (env', r) ← evalBlock fns n env' body
          pure (leave env env', r)
        | .bool false => evalArms fns n (leave env env') v rest
        | _ => .stuck "guard is not a bool"
      | none => .stuck "malformed pattern"
    else evalArms fns n env v rest

def evalParts (fns : List FnDef) : Nat → Env → Parts → R (Env × String)
  | 0, _, _ => .fuel
  | _ + 1, env, .nil => .ok (env, "")
  | n + 1, env, .str s rest => do
    let (env, t) ← evalParts fns n env rest
    pure (env, s ++ t)
  | n + 1, env, .expr e rest => do
    let (env, v) ← evalExpr fns n env e
    -- the part is converted (for a host type: by a call of its `to_string`) before the next part runs
    match render v with
    | none => .stuck "f-string part cannot be displayed"
    | some (tr, s) => do
      R.emits tr
      let (env, t) ← evalParts fns n env rest
      pure (env, s ++ t)

/-- condition, then (body, condition)* — the condition runs once more than the body -/
def evalWhile (fns : List FnDef) : Nat → Env → Expr → Block → R (Env × Val)
  | 0, _, _, _ => .fuel
  | n + 1, env, c, b => do
    let (env, cv) ← evalExpr fns n env c
    match cv with
    | .bool false => pure (env, .unit)
    | .bool true => do
      let (env, _) ← evalBlock fns n env b
      evalWhile fns n env c b
    | _ => .stuck "while on non-bool"

/-- the body once per element, in order -/
def evalFor (fns : List FnDef) : Nat → Env → Nat → List Int → Block → R (Env × Val)
  | 0, _, _, _, _ => .fuel
  | _ + 1, env, _, [], _ => .ok (env, .unit)
  | n + 1, env, x, v :: vs, b =>
    match lookup env x with
    | some _ => .stuck "redeclaration of a visible name (names are resolved: one per declaration)"
    | none => do
      let (env', _) ← evalBlock fns n ((x, .int v) :: env) b
      evalFor fns n (leave env env') x vs b
end

/-- What one call of `main` (the last function) does: the ordered host calls,
    and the returned value. -/
structure Run where
  tr : Trace
  result : Out Val
  deriving Repr

def run (fns : List FnDef) (fuel : Nat) (args : List Val) : Run :=
  match fns.getLast? with
  | none => ⟨[], .stuck "no main"⟩
  | some fd =>
    match bindParams fd.params args [] with
    | none => ⟨[], .stuck "arity of main"⟩
    | some cenv =>
      let r := evalBlock fns fuel cenv fd.body
      ⟨r.tr, match r.out with
        | .ok (_, v) => .ok v
        | .ret v => .ok v
        | .fuel => .fuel
        | .stuck w => .stuck w⟩

end RotoV.TraceSpec
