/-
  C12, T7 — where the machine-code generator puts the memory of an activation.

  The machine of T5 (`Model/ConcExec`, `Exec.resolve`) gives every activation
  FRESH memory for the stack-slot variables of its item, owned by the call that
  runs it. That is a statement about `src/codegen/mod.rs`, not about the LIR:
  the LIR only says "this variable is a stack slot of that layout". This file
  models the decision the code generator takes for each LIR variable
  (`ModuleBuilder::define_function`, `FuncGen::entry_block`) and what it buys:

  * `Facts`        regenerated from the sources by translator target `c12frame`;
  * `slotsInFrame` the decision: every slot variable, whatever its layout, gets a
                   Cranelift explicit stack slot (part of the frame the prologue
                   of EVERY activation allocates on the stack of the running
                   thread) whose address is taken with `stack_addr`, and the code
                   generator declares no writable (or thread-local) data object
                   in the JIT module at all; on the host side, the return
                   buffer handed to the compiled function is a local of
                   `RotoFunc::invoke`;
  * `obs`          a machine with any number of activations (calls on any
                   threads, recursive re-entries) that write and read their slot
                   variables in any interleaving, the address of a slot being
                   decided by its `Storage`.
-/
namespace RotoV.Conc.Frame

/-- storage-relevant operations of the code generator -/
inductive StOp
  /-- `create_sized_stack_slot(StackSlotData::new(StackSlotKind::ExplicitSlot, …))` -/
  | stackSlot
  /-- any other kind of stack slot (dynamic, …) -/
  | stackSlotOther
  /-- `stack_addr` -/
  | stackAddr
  /-- `declare_anonymous_data` / `declare_data`: a data object of the JIT module -/
  | dataObject
  /-- `global_value` / `symbol_value` / `tls_value`: the address of such an object -/
  | dataAddr
  /-- loads, stores, block copies, calls -/
  | memOp
  deriving DecidableEq, Repr

/-- the two classes of LIR variables (`lir::ValueOrSlot`) -/
inductive VarClass
  | val | stackSlot
  deriving DecidableEq, Repr

/-- one arm of the `match` over `lir::ValueOrSlot` in `define_function` -/
structure SlotArm where
  cls : VarClass
  guarded : Bool
  ops : List StOp
  deriving DecidableEq, Repr

/-- a data object declared in the JIT module (`none`: the argument is not a literal) -/
structure DataObj where
  writable : Option Bool
  tls : Option Bool
  deriving DecidableEq, Repr

/-- one body of `RotoFunc::invoke` (the host side of a call) -/
structure HostInvoke where
  /-- the return pointer handed to the compiled function is `as_mut_ptr()` of a
  `let`-bound `MaybeUninit::uninit()` local of the body -/
  retIsLocal : Bool
  /-- no `static`, `thread_local`, leaked or raw allocation in the body -/
  clean : Bool
  deriving DecidableEq, Repr

structure Facts where
  /-- arms of the match over `ValueOrSlot` in the loop over the item's variables -/
  slotArms : List SlotArm
  /-- storage operations of `define_function` outside that match -/
  defineOtherOps : List StOp
  /-- operations of the loop over `stack_slots` in `entry_block` -/
  entryLoopOps : List StOp
  /-- storage operations of the rest of `entry_block` -/
  entryOtherOps : List StOp
  /-- `stack_slots` carries Cranelift `StackSlot`s (and nothing else) -/
  entrySlotsAreStackSlots : Bool
  /-- storage operations of the arms of `FuncGen::instruction`, per kind that has any -/
  instrStorage : List (List StOp)
  /-- every data object declared under `src/codegen/` -/
  dataObjects : List DataObj
  /-- bodies of `fn invoke` in `src/codegen/check.rs` -/
  hostInvokes : List HostInvoke
  deriving Repr

/-- where the block of a slot variable lives -/
inductive Storage
  /-- in the frame of the activation: a fresh block for every activation, on the
  stack of the thread that runs it -/
  | frame
  /-- one block per compiled module (a data object, a leaked allocation, …): the
  same bytes for every activation on every thread -/
  | module
  deriving DecidableEq, Repr

/-- The storage an arm gives its variable. TRUSTED (Cranelift): an explicit stack
slot is part of the frame that the prologue of every activation allocates.
Anything else is not known to be per activation. -/
def storageOfArm (a : SlotArm) : Storage :=
  if a.ops = [.stackSlot] then .frame else .module

def armOk (a : SlotArm) : Bool :=
  match a.cls with
  | .val => a.ops == []
  | .stackSlot => a.ops == [.stackSlot]

def dataOk (d : DataObj) : Bool := d.writable == some false && d.tls == some false

/-- the decision -/
def slotsInFrame (f : Facts) : Bool :=
  f.slotArms.any (fun a => a.cls == .stackSlot)
  && f.slotArms.all armOk
  && f.defineOtherOps == []
  && f.entryLoopOps == [.stackAddr]
  && f.entryOtherOps == []
  && f.entrySlotsAreStackSlots
  && f.instrStorage.all (fun l => !l.contains .stackSlotOther)
  && f.dataObjects.all dataOk
  && !f.hostInvokes.isEmpty
  && f.hostInvokes.all (fun h => h.retIsLocal && h.clean)

/-! ### the machine -/

/-- `(some a, v, off)`: cell `off` of the block of slot variable `v` in the frame of
activation `a`; `(none, v, off)`: the same cell of a block that exists once per module -/
abbrev Addr := Option Nat × Nat × Nat

def addr (st : Nat → Storage) (a v off : Nat) : Addr :=
  match st v with
  | .frame => (some a, v, off)
  | .module => (none, v, off)

/-- what activations do with their slot variables -/
inductive Ev
  | write (a v off x : Nat)
  | read (a v off : Nat)
  deriving DecidableEq, Repr

def Ev.act : Ev → Nat
  | .write a .. | .read a .. => a

abbrev Mem := Addr → Nat

def upd (m : Mem) (p : Addr) (x : Nat) : Mem := fun q => if q = p then x else m q

/-- what activation `a` reads (variable, offset, value), in order, when the events
`tr` of ALL activations run in this order from memory `m` -/
def obs (st : Nat → Storage) (a : Nat) : Mem → List Ev → List (Nat × Nat × Nat)
  | _, [] => []
  | m, .write b v off x :: tr => obs st a (upd m (addr st b v off) x) tr
  | m, .read b v off :: tr =>
    if b = a then (v, off, m (addr st b v off)) :: obs st a m tr else obs st a m tr

/-- the events of activation `a` alone -/
def solo (a : Nat) (tr : List Ev) : List Ev := tr.filter (fun e => e.act == a)

/-- the facts of the tree at the time of writing (recorded; the obligation is
about the regenerated ones) -/
def baseFacts : Facts where
  slotArms := [{ cls := .val, guarded := false, ops := [] }, { cls := .stackSlot, guarded := false, ops := [.stackSlot] }]
  defineOtherOps := []
  entryLoopOps := [.stackAddr]
  entryOtherOps := []
  entrySlotsAreStackSlots := true
  instrStorage := [[.stackSlot, .dataObject, .dataAddr, .stackAddr], [.dataObject, .dataAddr]]
  dataObjects := [{ writable := some false, tls := some false }, { writable := some false, tls := some false }]
  hostInvokes := [{ retIsLocal := true, clean := true }]

/-- a code generator that backs slot variables above some size with a writable,
zero-initialised data object of the module (recorded witness of the refutation) -/
def bigSlotsInDataFacts : Facts :=
  { baseFacts with
    slotArms := [{ cls := .val, guarded := false, ops := [] },
                 { cls := .stackSlot, guarded := true, ops := [.dataObject] },
                 { cls := .stackSlot, guarded := false, ops := [.stackSlot] }]
    entryLoopOps := [.stackAddr, .dataAddr]
    dataObjects := { writable := some true, tls := some false } :: baseFacts.dataObjects }

end RotoV.Conc.Frame
